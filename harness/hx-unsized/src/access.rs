//! The harness's own `UnsizedTypeDataAccess`: a buffer with `orig + 10240` capacity that ERRORS on
//! over-growth (like `AccountInfo`; the stock `TestUnderlyingData` panics), supports a refusal schedule
//! for growing reallocs (C06's fault model) and is surrounded by memory the code must never touch:
//! * `Backing::Vec` (C01/C02/C06): canaries in front of and behind the capacity;
//! * `Backing::Guard` (C03): an `mmap`ed region flush against a `PROT_NONE` page on one side (two
//!   layouts), neighbour-account images / canaries in the readable slack on the other side.
use hx_common::guard::GuardBuf;
use star_frame::prelude::ProgramError;
use star_frame::unsize::wrapper::{DataMutDrop, UnsizedDataMut, UnsizedTypeDataAccess};
use std::cell::{Cell, RefCell};

pub const MAX_INCREASE: usize = 10240;
pub const CANARY: usize = 12 * 1024;
/// guard in front of the data (a pointer shifted the wrong way writes here, not into the heap)
pub const FRONT: usize = 4 * 1024;
pub const CANARY_BYTE: u8 = 0xEE;
/// content of the not-yet-owned part `[orig, orig+10240)` of a guard-backed buffer
pub const UNOWNED_BYTE: u8 = 0xC3;

enum Backing {
    Vec(#[allow(dead_code)] Vec<u8>),
    Guard(GuardBuf),
}

pub struct Access {
    backing: Backing,
    base: *mut u8,
    len: Cell<usize>,
    pub orig: usize,
    /// number of growing realloc calls so far in the case (1-based index of the last one)
    pub grow_calls: Cell<u32>,
    pub refuse: Vec<u32>,
    /// set when the schedule refused a growth since the last `begin_op`
    pub refused_now: Cell<bool>,
    /// set when a growth beyond the limit was rejected since the last `begin_op`
    pub limit_now: Cell<bool>,
    /// number of successful reallocs (grow or shrink) since the last `begin_op`
    pub reallocs_now: Cell<u32>,
    /// (old_len, new_len, succeeded) of every realloc call since the last `begin_op`
    pub realloc_log: RefCell<Vec<(usize, usize, bool)>>,
}

/// Everything that must not change outside the owned range.
pub struct Frame {
    alloc: Vec<u8>,
    before: Vec<u8>,
    after: Vec<u8>,
}

struct Guard;
impl DataMutDrop for Guard {}

impl Access {
    pub fn new(initial: &[u8], refuse: Vec<u32>) -> Access {
        let orig = initial.len();
        let mut v = vec![0u8; FRONT + orig + MAX_INCREASE + CANARY];
        v[FRONT..FRONT + orig].copy_from_slice(initial);
        for b in &mut v[FRONT + orig + MAX_INCREASE..] {
            *b = CANARY_BYTE;
        }
        for b in &mut v[..FRONT] {
            *b = CANARY_BYTE;
        }
        let base = unsafe { v.as_mut_ptr().add(FRONT) };
        Access::with(Backing::Vec(v), base, orig, refuse)
    }

    /// Guard-page backed (C03). `end_aligned`: the allocation end sits directly before a PROT_NONE page,
    /// else the data start sits directly after one. The readable slack on the other side holds a
    /// neighbour-account image.
    pub fn new_guard(initial: &[u8], refuse: Vec<u32>, end_aligned: bool) -> Access {
        let orig = initial.len();
        let cap = orig + MAX_INCREASE;
        let g = GuardBuf::new(cap, end_aligned);
        g.fill_slack(0x5A);
        let base = g.ptr;
        unsafe {
            std::ptr::copy_nonoverlapping(initial.as_ptr(), base, orig);
            std::ptr::write_bytes(base.add(orig), UNOWNED_BYTE, MAX_INCREASE);
            // neighbour-account images in the slack: recognisable, position dependent bytes
            let (b, a) = g.slack();
            let (bl, al) = (b.len(), a.len());
            for i in 0..bl {
                // counted from the edge adjacent to the buffer
                let d = bl - 1 - i;
                *base.sub(bl).add(i) = b"PREV-ACCOUNT-IMAGE/"[d % 19] ^ ((d / 19) as u8).wrapping_mul(37);
            }
            for i in 0..al {
                *base.add(cap + i) = b"NEXT-ACCOUNT-IMAGE/"[i % 19] ^ ((i / 19) as u8).wrapping_mul(41);
            }
        }
        Access::with(Backing::Guard(g), base, orig, refuse)
    }

    fn with(backing: Backing, base: *mut u8, orig: usize, refuse: Vec<u32>) -> Access {
        Access {
            backing,
            base,
            len: Cell::new(orig),
            orig,
            grow_calls: Cell::new(0),
            refuse,
            refused_now: Cell::new(false),
            limit_now: Cell::new(false),
            reallocs_now: Cell::new(0),
            realloc_log: RefCell::new(vec![]),
        }
    }
    pub fn cap(&self) -> usize {
        self.orig + MAX_INCREASE
    }
    pub fn len(&self) -> usize {
        self.len.get()
    }
    pub fn base_addr(&self) -> usize {
        self.base as usize
    }
    fn base(&self) -> *mut u8 {
        self.base
    }
    /// copy of data[0..len)
    pub fn bytes(&self) -> Vec<u8> {
        unsafe { std::slice::from_raw_parts(self.base(), self.len.get()).to_vec() }
    }
    fn slack(&self) -> (&[u8], &[u8]) {
        match &self.backing {
            Backing::Vec(_) => unsafe {
                (std::slice::from_raw_parts(self.base().sub(FRONT), FRONT), std::slice::from_raw_parts(self.base().add(self.cap()), CANARY))
            },
            Backing::Guard(g) => g.slack(),
        }
    }
    pub fn canary_ok(&self) -> bool {
        match &self.backing {
            Backing::Vec(_) => {
                let (f, s) = self.slack();
                s.iter().all(|b| *b == CANARY_BYTE) && f.iter().all(|b| *b == CANARY_BYTE)
            }
            // guard-backed buffers are checked through `Frame`
            Backing::Guard(_) => true,
        }
    }
    pub fn snapshot(&self) -> Frame {
        let (b, a) = self.slack();
        Frame { alloc: unsafe { std::slice::from_raw_parts(self.base(), self.cap()).to_vec() }, before: b.to_vec(), after: a.to_vec() }
    }
    /// everything at offsets `>= from` of the allocation and all of the slack equal to the snapshot?
    pub fn frame_ok(&self, snap: &Frame, from: usize) -> bool {
        let (b, a) = self.slack();
        let alloc = unsafe { std::slice::from_raw_parts(self.base(), self.cap()) };
        let from = from.min(self.cap());
        b == &snap.before[..] && a == &snap.after[..] && alloc[from..] == snap.alloc[from..]
    }
    /// only the slack (neighbour images / canaries) equal to the snapshot?
    pub fn slack_ok(&self, snap: &Frame) -> bool {
        let (b, a) = self.slack();
        b == &snap.before[..] && a == &snap.after[..]
    }
    pub fn begin_op(&self) {
        self.refused_now.set(false);
        self.limit_now.set(false);
        self.reallocs_now.set(0);
        self.realloc_log.borrow_mut().clear();
    }
}

unsafe impl UnsizedTypeDataAccess for Access {
    unsafe fn unsized_data_realloc(this: &Self, data: &mut *mut [u8], new_len: usize) -> star_frame::Result<()> {
        let cur = this.len.get();
        if new_len > cur {
            let g = this.grow_calls.get() + 1;
            this.grow_calls.set(g);
            if this.refuse.contains(&g) {
                this.refused_now.set(true);
                this.realloc_log.borrow_mut().push((cur, new_len, false));
                return Err(ProgramError::InvalidRealloc.into());
            }
            if new_len > this.cap() {
                this.limit_now.set(true);
                this.realloc_log.borrow_mut().push((cur, new_len, false));
                return Err(ProgramError::InvalidRealloc.into());
            }
            unsafe { std::ptr::write_bytes(this.base().add(cur), 0, new_len - cur) };
        }
        if new_len != cur {
            this.reallocs_now.set(this.reallocs_now.get() + 1);
        }
        this.realloc_log.borrow_mut().push((cur, new_len, true));
        this.len.set(new_len);
        *data = std::ptr::slice_from_raw_parts_mut(data.cast::<u8>(), new_len);
        Ok(())
    }

    fn data_ref(this: &Self) -> star_frame::Result<impl std::ops::Deref<Target = [u8]>> {
        let s: &[u8] = unsafe { std::slice::from_raw_parts(this.base(), this.len.get()) };
        Ok(s)
    }

    fn data_mut(this: &Self) -> star_frame::Result<UnsizedDataMut<'_>> {
        let ptr: *mut [u8] = std::ptr::slice_from_raw_parts_mut(this.base(), this.len.get());
        let start = this.base() as usize;
        Ok((ptr, start..start + this.cap(), Box::new(Guard)))
    }
}
