//! The curated family of concrete Rust types and the registry shape-string → typed case driver.
#![allow(clippy::type_complexity)]
use crate::node::{Elem, Node};
use crate::run::{run_case, RunFn};
use crate::swap::run_swap_case;
use crate::sexp::Shape;
use crate::{node_enum, node_struct};
use star_frame::prelude::*;

// ------------------------------------------------------------------------------------------------
// fixed-size helper types

/// `(cenum 3)`
#[derive(Copy, Clone, Debug, PartialEq, Eq, CheckedBitPattern, NoUninit, Align1)]
#[repr(u8)]
#[allow(dead_code)]
pub enum Color {
    R,
    G,
    B,
}
impl Elem for Color {
    fn eshape() -> Shape {
        Shape::CEnum(3)
    }
}

/// `(rec (pod 2) (bool))`
#[derive(Copy, Clone, Debug, PartialEq, Eq, CheckedBitPattern, NoUninit, Zeroable, Align1)]
#[repr(C, packed)]
pub struct Rec2 {
    pub a: PackedValue<u16>,
    pub b: bool,
}
impl Elem for Rec2 {
    fn eshape() -> Shape {
        Shape::Rec(vec![Shape::Pod(2), Shape::Bool])
    }
}

// ------------------------------------------------------------------------------------------------
// structs / enums

/// sized prefix + one list
#[unsized_type(skip_idl)]
pub struct S1 {
    pub s: u8,
    #[unsized_start]
    pub l: List<u8, u8>,
}
node_struct!(S1, S1Owned, sized S1Sized { s } "(rec (pod 1))", fields [0 l: List<u8, u8>]);

/// sized prefix with a checked field + three unsized fields
#[unsized_type(skip_idl)]
pub struct S2 {
    pub a: PackedValue<u16>,
    pub b: bool,
    #[unsized_start]
    pub x: List<u8>,
    pub y: UnsizedList<List<u8, u8>>,
    pub z: List<PackedValue<u16>, u8>,
}
node_struct!(S2, S2Owned, sized S2Sized { a, b } "(rec (pod 2) (bool))",
    fields [0 x: List<u8>, 1 y: UnsizedList<List<u8, u8>>, 2 z: List<PackedValue<u16>, u8>]);

/// list + tail bytes (the D7b shape)
#[unsized_type(skip_idl)]
pub struct S3 {
    #[unsized_start]
    pub a: List<u8>,
    pub tail: RemainingBytes,
}
node_struct!(S3, S3Owned, fields [0 a: List<u8>, 1 tail: RemainingBytes]);

/// list + list of lists (the D1 shape)
#[unsized_type(skip_idl)]
pub struct S4 {
    #[unsized_start]
    pub a: List<u8>,
    pub ul: UnsizedList<List<u8>>,
}
node_struct!(S4, S4Owned, fields [0 a: List<u8>, 1 ul: UnsizedList<List<u8>>]);

/// enum with struct / list / unit / list-of-lists / fixed payloads
#[unsized_type(skip_idl)]
#[repr(u8)]
pub enum E1 {
    #[default_init]
    A(S1),
    B(List<PackedValue<u16>>) = 5,
    C,
    D(UnsizedList<List<u8>>),
    F(PackedValue<u32>),
}
node_enum!(E1, E1Owned, E1Exclusive,
    payload [ (0, A, 0, S1, set_a), (1, B, 5, List<PackedValue<u16>>, set_b), (3, D, 7, UnsizedList<List<u8>>, set_d), (4, F, 8, PackedValue<u32>, set_f) ],
    unit [ (2, C, 6, set_c) ]);

/// depth 4: struct → ulist → ulist → list, with an enum, a string and a set between two lists
#[unsized_type(skip_idl)]
pub struct Top {
    #[unsized_start]
    pub before: List<u8>,
    pub e: E1,
    pub ul2: UnsizedList<UnsizedList<List<u8>>>,
    pub s: UnsizedString,
    pub set: Set<u8>,
    pub after: List<u8>,
}
node_struct!(Top, TopOwned, fields [0 before: List<u8>, 1 e: E1, 2 ul2: UnsizedList<UnsizedList<List<u8>>>, 3 s: UnsizedString, 4 set: Set<u8>, 5 after: List<u8>]);

/// element struct with two unsized fields
#[unsized_type(skip_idl)]
pub struct El {
    pub tag: u8,
    #[unsized_start]
    pub names: UnsizedList<UnsizedString<u8>>,
    pub vals: Map<u8, PackedValue<u16>, u8>,
}
node_struct!(El, ElOwned, sized ElSized { tag } "(rec (pod 1))",
    fields [0 names: UnsizedList<UnsizedString<u8>>, 1 vals: Map<u8, PackedValue<u16>, u8>]);

/// struct → umap → struct → ulist → string, plus a set and tail bytes
#[unsized_type(skip_idl)]
pub struct Deep {
    pub hdr: PackedValue<u32>,
    #[unsized_start]
    pub m: UnsizedMap<u8, El>,
    pub q: Set<PackedValue<u16>, u8>,
    pub tail: RemainingBytes,
}
node_struct!(Deep, DeepOwned, sized DeepSized { hdr } "(rec (pod 4))",
    fields [0 m: UnsizedMap<u8, El>, 1 q: Set<PackedValue<u16>, u8>, 2 tail: RemainingBytes]);

/// small enum: unit / list / fixed
#[unsized_type(skip_idl)]
#[repr(u8)]
pub enum E2 {
    #[default_init]
    N,
    L(List<u8, u8>),
    X(PackedValue<u16>) = 9,
}
node_enum!(E2, E2Owned, E2Exclusive,
    payload [ (1, L, 1, List<u8, u8>, set_l), (2, X, 9, PackedValue<u16>, set_x) ],
    unit [ (0, N, 0, set_n) ]);

// ------------------------------------------------------------------------------------------------
// registry

pub struct TypeEntry {
    pub id: &'static str,
    pub rust: &'static str,
    pub shape: Shape,
    pub shape_s: String,
    pub run: RunFn,
    pub run_swap: RunFn,
    /// C03: the same driver over a native account (`impl UnsizedTypeDataAccess for AccountInfo`)
    pub run_acct: RunFn,
    /// C03: swap cases on two accounts serialized back to back in one runtime input
    pub run_swap_acct: RunFn,
    /// C03: the same driver over the repository's own `TestUnderlyingData` (the store of `TestByteSet`)
    pub run_tbs: RunFn,
}

fn entry<T: Node + ?Sized>(id: &'static str, rust: &'static str) -> TypeEntry {
    let shape = T::shape();
    let shape_s = shape.print();
    TypeEntry { id, rust, shape, shape_s, run: run_case::<T, crate::access::Access>, run_swap: run_swap_case::<T, crate::access::Access>, run_acct: run_case::<T, crate::access::AcctBacking>, run_swap_acct: run_swap_case::<T, crate::access::AcctBacking>, run_tbs: run_case::<T, crate::access::TbsBacking> }
}

macro_rules! reg {
    ($v:ident, $id:literal, $T:ty) => {
        $v.push(entry::<$T>($id, stringify!($T)));
    };
}


pub fn registry() -> Vec<TypeEntry> {
    let mut v = vec![];
    reg!(v, "T01", List<u8, u8>);
    reg!(v, "T02", List<PackedValue<u16>, u16>);
    reg!(v, "T03", List<PackedValue<u32>>);
    reg!(v, "T04", List<[u8; 3], u64>);
    reg!(v, "T05", List<Color, u8>);
    reg!(v, "T06", Set<u8, u8>);
    reg!(v, "T07", Set<PackedValue<u32>, u16>);
    reg!(v, "T08", Map<u8, u8, u8>);
    reg!(v, "T09", Map<PackedValue<u16>, Rec2, u32>);
    reg!(v, "T10", UnsizedString<u8>);
    reg!(v, "T11", UnsizedString);
    reg!(v, "T12", RemainingBytes);
    reg!(v, "T13", UnsizedList<List<u8, u8>>);
    reg!(v, "T14", UnsizedList<Set<u8, u8>>);
    reg!(v, "T15", UnsizedList<Map<u8, u8, u8>>);
    reg!(v, "T16", UnsizedList<UnsizedString<u8>>);
    reg!(v, "T17", UnsizedList<UnsizedList<List<u8, u8>>>);
    reg!(v, "T18", UnsizedList<UnsizedMap<u8, List<u8, u8>>>);
    reg!(v, "T19", UnsizedMap<u8, List<u8, u8>>);
    reg!(v, "T20", UnsizedMap<PackedValue<u16>, Set<u8, u8>>);
    reg!(v, "T21", UnsizedMap<u8, Map<u8, u8, u8>>);
    reg!(v, "T22", UnsizedMap<PackedValue<u32>, UnsizedString<u8>>);
    reg!(v, "T23", UnsizedMap<u8, UnsizedList<List<u8, u8>>>);
    reg!(v, "T24", UnsizedMap<u8, UnsizedMap<u8, List<u8, u8>>>);
    reg!(v, "T25", S1);
    reg!(v, "T26", S2);
    reg!(v, "T27", S3);
    reg!(v, "T28", S4);
    reg!(v, "T29", E1);
    reg!(v, "T30", Top);
    reg!(v, "T31", Deep);
    reg!(v, "T32", UnsizedList<E1>);
    reg!(v, "T33", UnsizedList<S1>);
    reg!(v, "T34", E2);
    reg!(v, "T35", UnsizedMap<u8, E2>);
    // multi-byte keys: numeric order and little-endian byte order differ (T09/T07/T20/T22 have 2/4-byte keys too)
    reg!(v, "T36", Map<PackedValue<u32>, u8, u8>);
    reg!(v, "T37", Map<PackedValue<u64>, PackedValue<u16>, u16>);
    reg!(v, "T38", Set<PackedValue<u16>, u8>);
    reg!(v, "T39", Set<PackedValue<u64>, u32>);
    reg!(v, "T40", UnsizedMap<PackedValue<u64>, List<u8, u8>>);
    reg!(v, "T41", Map<PackedValue<u16>, u8, u8>);
    v
}
