//! hx-unsized C01|C02|C06 --tier quick|thorough --seed N --out DIR [--replay FILE]
//! (also: `hx-unsized shapes` prints the curated type table)
//!
//! Interpreter of the op-line language of /verif/notes/unsized_ops.md over the real star_frame unsized
//! types, with an independent owned-model oracle.
mod access;
mod gen;
mod model;
mod node;
mod ops;
mod run;
mod sexp;
mod swap;
mod types;

use gen::{coincidence_case, gen_val, sequences, BorrowHistory, GrowThen, LimitGen, NearLimit, RandGen, TbsScript};
use hx_common::{Args, Recorder, Rng};
use run::{parse_header, CaseOut, Cx, FixedOps, OpSource, Prop};
use sexp::{parse_path, print_path, Shape, Step, Val};
use std::collections::BTreeMap;
use types::{registry, TypeEntry};

struct Runner<'a> {
    reg: &'a [TypeEntry],
    cx: Cx<'a>,
    cases_by_shape: BTreeMap<String, u64>,
}

impl Runner<'_> {
    fn run(&mut self, header: &str, src: &mut dyn OpSource) -> CaseOut {
        let hdr = parse_header(header);
        let entry = hdr.shape.as_ref().map(Shape::print).and_then(|s| self.reg.iter().find(|e| e.shape_s == s));
        match entry {
            Some(e) => {
                *self.cases_by_shape.entry(e.id.to_string()).or_default() += 1;
                self.cx.rec.bump(&format!("shape:{}", e.id));
                if hdr.swap && hdr.account && self.cx.prop == Prop::C03 {
                    self.cx.rec.bump("backing:account_pair");
                    (e.run_swap_acct)(header, &hdr, src, &mut self.cx)
                } else if hdr.swap {
                    (e.run_swap)(header, &hdr, src, &mut self.cx)
                } else if hdr.tbs && self.cx.prop == Prop::C03 {
                    self.cx.rec.bump("backing:test_underlying_data");
                    (e.run_tbs)(header, &hdr, src, &mut self.cx)
                } else if hdr.account {
                    // C03 first, now every property: `impl UnsizedTypeDataAccess for AccountInfo` under the wrappers
                    self.cx.rec.bump("backing:account");
                    (e.run_acct)(header, &hdr, src, &mut self.cx)
                } else {
                    (e.run)(header, &hdr, src, &mut self.cx)
                }
            }
            None => {
                // unknown shape: header answered `case`, every line `bad-op`
                self.cx.rec.case(header);
                let dummy_s = Shape::Rem;
                let dummy_v = sexp::Val::Rem(vec![]);
                let mut n = 0;
                let mut lines = vec![header.to_string()];
                while let Some(l) =
                    src.next(&run::GenView { shape: &dummy_s, model: &dummy_v, levels: &[vec![]], len: 0, cap: 0, ops_done: n })
                {
                    self.cx.rec.op(&l, "bad-op");
                    lines.push(l);
                    n += 1;
                }
                CaseOut { lines, grow_calls: 0, failed: false, states: vec![] }
            }
        }
    }

    fn run_lines(&mut self, lines: &[String]) -> CaseOut {
        if lines.is_empty() {
            return CaseOut::default();
        }
        if !lines[0].starts_with("case") {
            for l in lines {
                self.cx.rec.op(l, "bad-op");
            }
            return CaseOut::default();
        }
        let mut src = FixedOps { lines: lines[1..].to_vec(), pos: 0 };
        self.run(&lines[0], &mut src)
    }

    fn run_file(&mut self, path: &std::path::Path) -> Vec<CaseOut> {
        let text = std::fs::read_to_string(path).unwrap_or_default();
        let mut cases: Vec<Vec<String>> = vec![];
        for l in text.lines() {
            let l = l.trim_end();
            if l.is_empty() || l.starts_with('#') {
                continue;
            }
            if l.starts_with("case") || cases.is_empty() {
                cases.push(vec![]);
            }
            cases.last_mut().unwrap().push(l.to_string());
        }
        cases.iter().map(|c| self.run_lines(c)).collect()
    }

    fn run_corpus(&mut self, prop: &str) -> Vec<CaseOut> {
        let base = std::env::var("VERIF_DIR").unwrap_or_else(|_| "/verif".into());
        let dir = std::path::Path::new(&base).join("corpus").join(prop);
        let mut files: Vec<_> = std::fs::read_dir(&dir)
            .map(|d| d.filter_map(|e| e.ok()).map(|e| e.path()).filter(|p| p.extension().is_some_and(|x| x == "replay")).collect())
            .unwrap_or_default();
        files.sort();
        let mut out = vec![];
        for f in files {
            self.cx.rec.bump("source:corpus");
            out.extend(self.run_file(&f));
        }
        out
    }

    /// C06: rerun a finished case refusing the k-th growing realloc, for every k
    fn refusal_reruns(&mut self, base: &CaseOut, max_k: u32) -> u64 {
        let mut n = 0;
        if base.lines.is_empty() {
            return 0;
        }
        let layout = if base.lines[0].contains(" layout=end") { " layout=end" } else { "" };
        let head = base.lines[0].split(" refuse=").next().unwrap().replace(" layout=end", "").replace(" layout=start", "");
        for k in 1..=base.grow_calls.min(max_k) {
            let header = format!("{head} refuse={k}{layout}");
            let mut src = FixedOps { lines: base.lines[1..].to_vec(), pos: 0 };
            self.cx.rec.bump("source:refusal_rerun");
            self.run(&header, &mut src);
            n += 1;
        }
        n
    }
}

fn header_for(e: &TypeEntry, id: &str, rng: &mut Rng, default_init: bool) -> String {
    let v = if default_init { e.shape.default_val() } else { gen_val(&e.shape, rng, 0) };
    format!("case {id} {} {}", e.shape_s, v.print())
}

/// thorough tier of C03: a reduced batch of the same generators under valgrind (supporting evidence)
fn valgrind_batch(args: &Args) {
    let exe = std::env::current_exe().expect("current_exe");
    let vout = args.out.join("valgrind");
    let _ = std::fs::create_dir_all(&vout);
    let res = std::process::Command::new("valgrind")
        .args(["--error-exitcode=97", "--leak-check=no"])
        .arg(&exe)
        .args(["C03", "--tier", "quick", "--seed", &args.seed.to_string(), "--out"])
        .arg(&vout)
        .env("HX_UNSIZED_WORKER", "1")
        .env("HX_C03_REDUCED", "1")
        .output();
    let (ran, errors, exit, cases) = match res {
        Ok(o) => {
            let err = String::from_utf8_lossy(&o.stderr);
            let n = err
                .lines()
                .rev()
                .find_map(|l| l.split("ERROR SUMMARY: ").nth(1).and_then(|r| r.split(' ').next().and_then(|x| x.replace(',', "").parse::<u64>().ok())));
            let cases = std::fs::read_to_string(vout.join("stats.json"))
                .ok()
                .and_then(|t| serde_json::from_str::<serde_json::Value>(&t).ok())
                .and_then(|v| v["evaluations"].as_u64());
            (true, n, o.status.code(), cases)
        }
        Err(_) => (false, None, None, None),
    };
    let sp = args.out.join("stats.json");
    if let Ok(t) = std::fs::read_to_string(&sp) {
        if let Ok(mut v) = serde_json::from_str::<serde_json::Value>(&t) {
            v["valgrind_ran"] = serde_json::json!(ran);
            v["valgrind_errors"] = serde_json::json!(errors);
            v["valgrind_exit"] = serde_json::json!(exit);
            v["valgrind_cases"] = serde_json::json!(cases);
            let _ = std::fs::write(&sp, serde_json::to_string_pretty(&v).unwrap());
        }
    }
    let _ = std::fs::remove_dir_all(&vout);
}

fn node_paths(shape: &Shape, val: &Val, prefix: &mut Vec<Step>, depth: usize, out: &mut Vec<(Vec<Step>, String)>) {
    if shape.is_fixed() {
        // fixed-size enum payloads are reachable (`v`), other fixed parts are not addressable
    }
    out.push((prefix.clone(), shape.print()));
    if depth == 0 {
        return;
    }
    match (shape, val) {
        (Shape::Struct(_, fs), Val::Struct(_, vs)) => {
            for (i, (f, v)) in fs.iter().zip(vs).enumerate() {
                prefix.push(Step::Field(i));
                node_paths(f, v, prefix, depth - 1, out);
                prefix.pop();
            }
        }
        (Shape::UList(e), Val::UList(vs)) => {
            for (i, v) in vs.iter().enumerate().take(3) {
                prefix.push(Step::Elem(i));
                node_paths(e, v, prefix, depth - 1, out);
                prefix.pop();
            }
        }
        (Shape::UMap(_, e), Val::UMap(kvs)) => {
            for (i, (_, v)) in kvs.iter().enumerate().take(3) {
                prefix.push(Step::Elem(i));
                node_paths(e, v, prefix, depth - 1, out);
                prefix.pop();
            }
        }
        (Shape::Enum(vars), Val::Enum(i, Some(p))) => {
            if let Some(ps) = vars[*i].1.as_ref() {
                prefix.push(Step::Variant);
                node_paths(ps, p, prefix, depth - 1, out);
                prefix.pop();
            }
        }
        _ => {}
    }
}

/// "address coincidence" cases (gen.rs `coincidence_case`) for every ulist / umap reachable through struct
/// fields of every curated type; `prefix` distinguishes plain (`co-`) from account-backed (`acct-co-`) ids.
fn coincidence_cases(runner: &mut Runner, rng: &mut Rng, prefix: &str, variants: usize, suffix: &str) -> u64 {
    fn containers(sh: &Shape, path: &mut Vec<Step>, out: &mut Vec<(Vec<Step>, Shape)>) {
        match sh {
            Shape::UList(_) | Shape::UMap(..) => out.push((path.clone(), sh.clone())),
            Shape::Struct(_, fs) => {
                for (i, f) in fs.iter().enumerate() {
                    path.push(Step::Field(i));
                    containers(f, path, out);
                    path.pop();
                }
            }
            _ => {}
        }
    }
    let reg = runner.reg;
    let mut n = 0;
    for e in reg.iter() {
        let mut cs = vec![];
        containers(&e.shape, &mut vec![], &mut cs);
        for (path, cont) in cs {
            for variant in 0..variants {
                let Some((init, lines)) = coincidence_case(&cont, &path, variant, rng) else { continue };
                let mut top = e.shape.default_val();
                match sexp::nav(&e.shape, &mut top, &path) {
                    sexp::Nav::Found(_, v) => *v = init,
                    _ => continue,
                }
                let header = format!("case {prefix}{}-{}-{variant} {} {}{suffix}", e.id, print_path(&path).replace('.', "_"), e.shape_s, top.print());
                runner.cx.rec.bump("source:address_coincidence");
                runner.run(&header, &mut FixedOps { lines, pos: 0 });
                n += 1;
            }
        }
    }
    n
}

/// C03 case generation: guard-page layouts, sizes 0/1, growth limit, refusals, swap enumeration.
fn gen_c03(runner: &mut Runner, rng: &mut Rng, args: &Args, extra: &mut BTreeMap<String, serde_json::Value>) {
    let reg = runner.reg;
    let thorough = args.thorough();
    let reduced = std::env::var("HX_C03_REDUCED").is_ok();
    let lay = |end: bool| if end { " layout=end" } else { " layout=start" };
    // ---- initial sizes 0 and 1
    for (tid, init) in [("T12", "-"), ("T01", "[]"), ("T34", "<0>"), ("T10", "[]"), ("T06", "[]"), ("T08", "[]")] {
        let e = reg.iter().find(|e| e.id == tid).unwrap();
        for end in [false, true] {
            let header = format!("case size01-{tid}{} {} {init}{}", end as u8, e.shape_s, lay(end));
            runner.cx.rec.bump("source:size01");
            let base = runner.run(&header, &mut RandGen::new(rng.fork(), 30));
            runner.refusal_reruns(&base, 6);
        }
    }
    // ---- exhaustive short sequences
    let mut nseq = 0u64;
    if !reduced {
        for (tid, init, alphabet) in EXHAUSTIVE {
            let e = reg.iter().find(|e| e.id == *tid).unwrap();
            let n = if thorough { 3 } else { 2 };
            for (j, seq) in sequences(alphabet, n).into_iter().enumerate() {
                let header = format!("case x{n}-{tid}-{j} {} {init}{}", e.shape_s, lay(j % 2 == 1));
                runner.cx.rec.bump("source:exhaustive");
                runner.run(&header, &mut FixedOps { lines: seq, pos: 0 });
                nseq += 1;
            }
        }
    }
    extra.insert("exhaustive_sequences".into(), serde_json::json!(nseq));
    // ---- random histories, every 4th with refusal reruns
    let ncases = if reduced { 60 } else if thorough { 10_000 } else { 400 };
    let mut reruns = 0u64;
    for i in 0..ncases {
        let e = &reg[(i + rng.below(3) as usize) % reg.len()];
        let v = if rng.chance(1, 2) { e.shape.default_val() } else { gen_val(&e.shape, rng, 0) };
        let header = format!("case r{}-{i}-{} {} {}{}", args.seed, e.id, e.shape_s, v.print(), lay(i % 2 == 1));
        let max_ops = 10 + rng.below(30) as usize;
        runner.cx.rec.bump("source:random");
        let mut g = RandGen::new(rng.fork(), max_ops);
        if i % 3 == 2 {
            g.scope_pct = 25;
        }
        let base = runner.run(&header, &mut g);
        if i % 4 == 0 {
            reruns += runner.refusal_reruns(&base, 12);
        }
    }
    extra.insert("refusal_reruns".into(), serde_json::json!(reruns));
    // ---- swap cases: every swap position of a few histories per curated type
    let nhist = if reduced { 1 } else if thorough { 8 } else { 2 };
    let pairs_per_pos = if thorough { 8 } else { 4 };
    let mut nswap = 0u64;
    for e in reg.iter() {
        for h in 0..nhist {
            // history from a scratch run (not recorded)
            let v = if h % 2 == 0 { gen_val(&e.shape, rng, 0) } else { e.shape.default_val() };
            let header = format!("case scratch {} {}", e.shape_s, v.print());
            let mut scratch = Recorder::new("");
            let hist = {
                let mut cx = Cx { rec: &mut scratch, prop: Prop::C03, journal: None, fail_log: None };
                let hdr = parse_header(&header);
                let mut g = RandGen::new(rng.fork(), 6 + rng.below(5) as usize);
                g.scope_pct = if h % 2 == 0 { 9 } else { 30 };
                (e.run)(&header, &hdr, &mut g, &mut cx)
            };
            let ops = &hist.lines[1..];
            let vb = if h % 4 == 3 { gen_val(&e.shape, rng, 0) } else { v.clone() };
            for k in 0..=ops.len() {
                let Some((model, innermost)) = hist.states.get(k) else { continue };
                let Some((sh, va)) = sexp::get_at(&e.shape, model, innermost) else { continue };
                let mut nodes = vec![];
                node_paths(sh, va, &mut vec![], 3, &mut nodes);
                let mut pairs: Vec<(Vec<Step>, Vec<Step>)> = vec![];
                for (i, (p, s)) in nodes.iter().enumerate() {
                    pairs.push((p.clone(), p.clone()));
                    for (q, s2) in nodes.iter().skip(i + 1) {
                        if s == s2 {
                            pairs.push((p.clone(), q.clone()));
                        }
                    }
                }
                // a random subset
                while pairs.len() > pairs_per_pos {
                    let j = rng.below(pairs.len() as u64) as usize;
                    pairs.swap_remove(j);
                }
                for (pa, pb) in pairs {
                    let mut lines = vec![];
                    for l in &ops[..k] {
                        lines.push(format!("A {l}"));
                        lines.push(format!("B {l}"));
                    }
                    lines.push(format!("swap {} {}", print_path(&pa), print_path(&pb)));
                    for l in &ops[k..] {
                        lines.push(format!("A {l}"));
                        lines.push(format!("B {l}"));
                    }
                    lines.push("A end".into());
                    lines.push("B end".into());
                    let header = format!("case sw-{}-{h}-{k}-{nswap} swap {} {} {}{}", e.id, e.shape_s, v.print(), vb.print(), lay(nswap % 2 == 1));
                    runner.cx.rec.bump("source:swap");
                    runner.run(&header, &mut FixedOps { lines, pos: 0 });
                    nswap += 1;
                    // element pointers swapped: additionally the variant "the container is emptied / shrunk
                    // right away and the borrow ends" (the swapped pointer must not be dropped unchecked)
                    if let (Some(Step::Elem(_)), Some(Step::Elem(_))) = (pa.last(), pb.last()) {
                        let (ca, cb) = (print_path(&pa[..pa.len() - 1]), print_path(&pb[..pb.len() - 1]));
                        let mut lines = vec![];
                        for l in &ops[..k] {
                            lines.push(format!("A {l}"));
                            lines.push(format!("B {l}"));
                        }
                        lines.push(format!("swap {} {}", print_path(&pa), print_path(&pb)));
                        lines.push(format!("B clear {cb}"));
                        lines.push("B end".into());
                        lines.push(format!("A {} {ca}", if nswap % 2 == 0 { "pop" } else { "remove_range" }).to_string() + if nswap % 2 == 0 { "" } else { " 0 1" });
                        lines.push("A end".into());
                        let header = format!("case swc-{}-{h}-{k}-{nswap} swap {} {} {}{}", e.id, e.shape_s, v.print(), vb.print(), lay(nswap % 2 == 1));
                        runner.cx.rec.bump("source:swap");
                        runner.run(&header, &mut FixedOps { lines, pos: 0 });
                        nswap += 1;
                    }
                }
            }
        }
    }
    extra.insert("swap_cases".into(), serde_json::json!(nswap));
    // ---- native-account backing (`impl UnsizedTypeDataAccess for AccountInfo`): refusals come from the real
    //      resize limit; histories keep using the SAME wrapper after a refused growth
    let mut nacct = 0u64;
    let acct_rounds = if reduced { 1 } else if thorough { 12 } else { 2 };
    for round in 0..acct_rounds {
        for (i, (tid, path)) in LIMITS.iter().enumerate() {
            let e = reg.iter().find(|e| e.id == *tid).unwrap();
            // scripted: to the limit, one past (refused), then shrink / insert not at the end on the same wrapper
            let two_phase = round % 2 == 1;
            let v = if round == 0 { e.shape.default_val() } else { gen_val(&e.shape, rng, 0) };
            let header = format!("case acct-limit{i}-{round}-{tid} {} {}", e.shape_s, v.print());
            runner.cx.rec.bump("source:account_limit");
            runner.run(&header, &mut LimitGen { path: parse_path(path).unwrap(), step: 0, two_phase, keep_wrapper: true });
            // random: fill to within a few bytes of the limit, then a random history
            let v = gen_val(&e.shape, rng, 0);
            let header = format!("case acct-near{i}-{round}-{tid} {} {}", e.shape_s, v.print());
            runner.cx.rec.bump("source:account_near_limit");
            let delta = rng.below(6) as usize;
            let inner = RandGen::new(rng.fork(), 12 + rng.below(14) as usize);
            runner.run(&header, &mut NearLimit { path: parse_path(path).unwrap(), delta, done: false, inner });
            nacct += 2;
        }
        // plain random histories on an account, a few curated shapes
        for tid in ["T13", "T19", "T26", "T29", "T30", "T31", "T06", "T10"] {
            let e = reg.iter().find(|e| e.id == tid).unwrap();
            let v = if rng.chance(1, 2) { e.shape.default_val() } else { gen_val(&e.shape, rng, 0) };
            let header = format!("case acct-r{round}-{tid} {} {}", e.shape_s, v.print());
            runner.cx.rec.bump("source:account_random");
            runner.run(&header, &mut RandGen::new(rng.fork(), 15 + rng.below(20) as usize));
            nacct += 1;
        }
    }
    // ---- resize histories over SEVERAL exclusive borrows of the same account (every resize is followed by a
    //      `reborrow`: the new top wrapper's range is observed with resize_delta > 0, = 0, < 0)
    let hist_rounds = if reduced { 1 } else if thorough { 10 } else { 2 };
    for round in 0..hist_rounds {
        for (i, (tid, path)) in LIMITS.iter().enumerate() {
            let e = reg.iter().find(|e| e.id == *tid).unwrap();
            let v = if round == 0 { e.shape.default_val() } else { gen_val(&e.shape, rng, 0) };
            let header = format!("case acct-hist{i}-{round}-{tid} {} {}", e.shape_s, v.print());
            runner.cx.rec.bump("source:account_borrow_history");
            let mut inner = RandGen::new(rng.fork(), 1000);
            inner.scope_pct = 0;
            runner.run(&header, &mut BorrowHistory { path: parse_path(path).unwrap(), rng: rng.fork(), rounds: 6 + rng.below(5) as usize, step: 0, inner });
            nacct += 1;
        }
    }
    extra.insert("account_backed_cases".into(), serde_json::json!(nacct));
    // ---- swap cases on TWO ACCOUNTS serialized back to back (B directly behind A) after an earlier borrow
    //      grew them: a pointer of B lies less than resize_delta bytes behind A's allocation end
    let pair_rounds = if reduced { 1 } else if thorough { 6 } else { 1 };
    let mut npair = 0u64;
    for round in 0..pair_rounds {
        for (tid, path) in LIMITS.iter() {
            let e = reg.iter().find(|e| e.id == *tid).unwrap();
            let v = if round % 2 == 0 { e.shape.default_val() } else { gen_val(&e.shape, rng, 0) };
            let grow = [400usize, 150, 3000, 9000][(round + npair as usize) % 4] + rng.below(64) as usize;
            let header = format!("case scratch {} {}", e.shape_s, v.print());
            let mut scratch = Recorder::new("");
            let hist = {
                let mut cx = Cx { rec: &mut scratch, prop: Prop::C03, journal: None, fail_log: None };
                let hdr = parse_header(&header);
                let mut inner = RandGen::new(rng.fork(), 2 + rng.below(4) as usize);
                inner.scope_pct = if round % 2 == 0 { 0 } else { 20 };
                (e.run)(&header, &hdr, &mut GrowThen { path: parse_path(path).unwrap(), grow, step: 0, inner }, &mut cx)
            };
            let ops = &hist.lines[1..];
            let vb = if round % 3 == 2 { gen_val(&e.shape, rng, 0) } else { v.clone() };
            for k in 0..=ops.len() {
                if k == 1 {
                    continue;
                }
                let Some((model, innermost)) = hist.states.get(k) else { continue };
                let Some((sh, va)) = sexp::get_at(&e.shape, model, innermost) else { continue };
                let mut nodes = vec![];
                node_paths(sh, va, &mut vec![], 3, &mut nodes);
                let mut pairs: Vec<(Vec<Step>, Vec<Step>)> = nodes.iter().map(|(p, _)| (p.clone(), p.clone())).collect();
                // the accessor itself first; of the others a random subset
                while pairs.len() > 5 {
                    let j = 1 + rng.below(pairs.len() as u64 - 1) as usize;
                    pairs.swap_remove(j);
                }
                for (pa, pb) in pairs {
                    for only_a in [false, true] {
                        // mirrored history (both accounts grown), or only A's (B still has resize_delta = 0)
                        if only_a && k < 2 {
                            continue;
                        }
                        let mut lines = vec![];
                        for l in &ops[..k] {
                            lines.push(format!("A {l}"));
                            if !only_a {
                                lines.push(format!("B {l}"));
                            }
                        }
                        lines.push(format!("swap {} {}", print_path(&pa), print_path(&pb)));
                        if npair % 3 == 0 {
                            for l in &ops[k..] {
                                lines.push(format!("A {l}"));
                                lines.push(format!("B {l}"));
                            }
                        }
                        if npair % 2 == 0 {
                            lines.push("A end".into());
                            lines.push("B end".into());
                        } else {
                            lines.push("B end".into());
                            lines.push("A end".into());
                        }
                        let header = format!("case acct-sw-{}-{round}-{k}-{npair} swap {} {} {} layout=account", e.id, e.shape_s, v.print(), vb.print());
                        runner.cx.rec.bump("source:account_pair_swap");
                        runner.run(&header, &mut FixedOps { lines, pos: 0 });
                        npair += 1;
                    }
                }
            }
        }
    }
    extra.insert("account_pair_swap_cases".into(), serde_json::json!(npair));
    // ---- the repository's own TestUnderlyingData (store of TestByteSet): limit scripts in one / two steps, within
    //      one borrow and across borrows, shrink then regrow; every script ends with the refused growth
    let mut ntbs = 0u64;
    for round in 0..(if thorough { 4 } else { 1 }) {
        for (i, (tid, path)) in LIMITS.iter().enumerate() {
            let e = reg.iter().find(|e| e.id == *tid).unwrap();
            for variant in 0..TbsScript::VARIANTS {
                let v = if round == 0 && variant != 4 && variant != 7 { e.shape.default_val() } else { gen_val(&e.shape, rng, 0) };
                let header = format!("case tbs-{variant}-{i}-{round}-{tid} {} {}", e.shape_s, v.print());
                runner.cx.rec.bump("source:test_underlying_data");
                runner.run(&header, &mut TbsScript { path: parse_path(path).unwrap(), variant, step: 0 });
                ntbs += 1;
            }
        }
    }
    extra.insert("test_underlying_data_cases".into(), serde_json::json!(ntbs));
    // ---- growth to exactly orig+10240 and one past, both layouts (last: a broken build dies here on a guard
    //      page, which ends the run; the cheaper gates above should have spoken first)
    for (i, (tid, path)) in LIMITS.iter().enumerate() {
        let e = reg.iter().find(|e| e.id == *tid).unwrap();
        for two_phase in [false, true] {
            for end in [false, true] {
                let v = if two_phase { gen_val(&e.shape, rng, 0) } else { e.shape.default_val() };
                let header = format!("case limit{i}{}{}-{tid} {} {}{}", if two_phase { "b" } else { "a" }, end as u8, e.shape_s, v.print(), lay(end));
                runner.cx.rec.bump("source:limit");
                runner.run(&header, &mut LimitGen { path: parse_path(path).unwrap(), step: 0, two_phase, keep_wrapper: false });
            }
        }
    }
}

const EXHAUSTIVE: &[(&str, &str, &[&str])] = &[
    ("T01", "[01 02]", &["push . 09", "insert . 0 08", "insert . 1 07", "remove . 0", "remove . 1", "remove_range . 0 2", "pop .", "clear .", "set . 0 aa", "reborrow"]),
    ("T06", "[05]", &["sinsert . 00", "sinsert . 05", "sinsert . ff", "sinsert . 03", "sremove . 05", "sremove . 00", "sinsert_all . [09 01 05]", "clear .", "reborrow"]),
    ("T08", "[05:01]", &["minsert . 05 aa", "minsert . 00 bb", "minsert . ff cc", "mremove . 05", "mremove . 01", "mset . 05 dd", "minsert_all . [03:01 05:02]", "clear .", "reborrow"]),
    ("T10", "[68]", &["str_set . -", "str_set . 61", "str_set . c3a9", "str_set . 616263", "replace . [68 69]", "reset .", "reborrow", "touch ."]),
    ("T12", "0102", &["set_len . 0", "set_len . 1", "set_len . 5", "set . 0 aa", "set . 4 bb", "replace . 0102", "reborrow", "reset ."]),
    ("T13", "([01] [02 03])", &["uinsert . 0 1", "uinsert . 2 1", "push e0 09", "push e1 08", "remove . 0", "remove e1 0", "touch e0", "enter e0", "leave", "clear .", "pop ."]),
    ("T28", "{- [] ([01 02 03])}", &["push f0 07", "insert_all f0 0 [00 00 00 00 00 00 00 00 00 00 00 00 00 00 00 00 00 00 00 00]", "touch f1.e0", "push f1.e0 04", "uinsert f1 0 1", "uinsert f1 1 1", "remove f1 0", "enter f1", "enter e0", "leave", "remove f0 0", "reborrow"]),
    ("T25", "{00 []}", &["write . 07", "push f0 01", "remove f0 0", "replace f0 [05 06]", "reset .", "enter f0", "leave", "push . 02", "reborrow"]),
    ("T34", "<0>", &["set_variant . 0", "set_variant . 1", "set_variant . 2", "push v 05", "write v 0102", "remove v 0", "enter v", "leave", "replace . <1 [01 02]>", "reborrow"]),
    ("T41", "[0100:aa]", &["minsert . 0001 bb", "minsert . ff00 cc", "minsert . 0101 dd", "minsert . 0002 ee", "mremove . 0001", "mremove . 0100", "mset . 0001 11", "minsert_all . [0001:01 0100:02 ff00:03]", "clear .", "reborrow"]),
    ("T38", "[0100]", &["sinsert . 0001", "sinsert . ff00", "sinsert . 0101", "sinsert . 0002", "sremove . 0001", "sremove . 0100", "sinsert_all . [0001 0100 ff00]", "clear .", "reborrow"]),
    ("T19", "((05 [01]))", &["uminsert . 03", "uminsert . 05", "uminsert . 09", "umremove . 05", "push e0 07", "push e1 08", "touch e0", "enter e0", "leave", "clear .", "utouch . 0"]),
];

const LIMITS: &[(&str, &str)] = &[("T12", "."), ("T27", "f0"), ("T27", "f1"), ("T28", "f0"), ("T30", "f0"), ("T30", "f5"), ("T31", "f2"), ("T01", ".")];

fn main() {
    if std::env::args().nth(1).as_deref() == Some("shapes") {
        println!("| id | Rust type | shape |\n|----|-----------|-------|");
        for t in registry() {
            println!("| {} | `{}` | `{}` |", t.id, t.rust.replace(' ', ""), t.shape_s);
        }
        return;
    }
    let args = Args::parse();
    let journal_path = args.out.join("journal.txt");
    if std::env::var("HX_UNSIZED_WORKER").is_err() {
        // Supervisor: the real work runs in a child process. If the code under test takes the child
        // down (SIGSEGV, abort, stack overflow), the journal names the case and line it was running:
        // that case becomes an oracle failure of class `crash` (and is what `--replay` / shrinking see).
        let exe = std::env::current_exe().expect("current_exe");
        let status = std::process::Command::new(exe)
            .args(std::env::args().skip(1))
            .env("HX_UNSIZED_WORKER", "1")
            .status()
            .expect("spawn worker");
        if status.success() {
            let _ = std::fs::remove_file(args.out.join("failures.jsonl"));
            let _ = std::fs::remove_file(&journal_path);
            if args.prop == "C03" && args.thorough() && args.replay.is_none() {
                valgrind_batch(&args);
            }
            return;
        }
        let text = std::fs::read_to_string(&journal_path).unwrap_or_default();
        let mut rec = Recorder::new("worker process died while running the case");
        // failures the worker had recorded before it died
        let earlier: Vec<serde_json::Value> = std::fs::read_to_string(args.out.join("failures.jsonl"))
            .unwrap_or_default()
            .lines()
            .filter_map(|l| serde_json::from_str(l).ok())
            .collect();
        for f in earlier.iter().take(50) {
            rec.failures.push(hx_common::OracleFailure {
                class: f["class"].as_str().unwrap_or("?").to_string(),
                detail: f["detail"].as_str().unwrap_or("").to_string(),
                replay: f["replay"].as_str().unwrap_or("").to_string(),
            });
        }
        let mut lines = text.lines();
        let header = lines.next().filter(|h| h.starts_with("case")).unwrap_or("case ? (rem) -");
        rec.case(header);
        for l in lines {
            rec.op(l, "crash");
        }
        let class = "crash";
        rec.fail(class, &format!("the harness worker died ({status}) while running the last line of this case"));
        rec.mark_nontrivial();
        rec.extra.insert("worker_crashed".into(), serde_json::json!(true));
        rec.finish(&args);
        let _ = std::fs::remove_file(&journal_path);
        let _ = std::fs::remove_file(args.out.join("failures.jsonl"));
        return;
    }
    hx_common::quiet_panics();
    let prop = match args.prop.as_str() {
        "C01" => Prop::C01,
        "C02" => Prop::C02,
        "C06" => Prop::C06,
        "C03" => Prop::C03,
        other => panic!("unknown property {other} (hx-unsized handles C01, C02, C03, C06)"),
    };
    let reg = registry();
    let rule = "case performed at least one resize that changed the data length, or took an error path (index/range/prefix overflow/growth limit/refused growth)";
    let mut rec = Recorder::new(rule);
    rec.exhaustive = Some(false);
    let journal = std::fs::File::create(&journal_path).ok();
    let fail_log = std::fs::File::create(args.out.join("failures.jsonl")).ok();
    let mut runner = Runner { reg: &reg, cx: Cx { rec: &mut rec, prop, journal, fail_log }, cases_by_shape: BTreeMap::new() };
    let thorough = args.thorough();
    let mut extra: BTreeMap<String, serde_json::Value> = BTreeMap::new();

    if let Some(cases) = args.replay_cases() {
        for c in cases {
            runner.run_lines(&c);
        }
    } else {
        let mut rng = Rng::new(args.seed);
        // ---- 1. corpus
        match prop {
            Prop::C01 => {
                runner.run_corpus("C01");
            }
            Prop::C02 => {
                runner.run_corpus("C02");
                runner.run_corpus("C01");
            }
            Prop::C06 => {
                runner.run_corpus("C06");
            }
            Prop::C03 => {
                runner.run_corpus("C03");
            }
        }
        if prop == Prop::C03 {
            gen_c03(&mut runner, &mut rng, &args, &mut extra);
        } else if prop != Prop::C06 {
            // ---- 2. boundary: growth to exactly orig+10240 and one past
            for (i, (tid, path)) in LIMITS.iter().enumerate() {
                let e = reg.iter().find(|e| e.id == *tid).unwrap();
                for two_phase in [false, true] {
                    let header = header_for(e, &format!("limit{i}{}-{tid}", if two_phase { "b" } else { "a" }), &mut rng, !two_phase);
                    runner.cx.rec.bump("source:limit");
                    runner.run(&header, &mut LimitGen { path: parse_path(path).unwrap(), step: 0, two_phase, keep_wrapper: false });
                }
            }
            // ---- 3. exhaustive short sequences over a small alphabet on the smallest shapes
            let mut nseq = 0u64;
            for (tid, init, alphabet) in EXHAUSTIVE {
                let e = reg.iter().find(|e| e.id == *tid).unwrap();
                let n = if thorough { 4 } else if *tid == "T28" || *tid == "T13" { 3 } else { 2 };
                for (j, seq) in sequences(alphabet, n).into_iter().enumerate() {
                    let header = format!("case x{n}-{tid}-{j} {} {init}", e.shape_s);
                    runner.cx.rec.bump("source:exhaustive");
                    runner.run(&header, &mut FixedOps { lines: seq, pos: 0 });
                    nseq += 1;
                }
            }
            extra.insert("exhaustive_sequences".into(), serde_json::json!(nseq));
            // ---- 3b. address coincidence: a cached element pointer must not be mistaken for another element
            let nco = coincidence_cases(&mut runner, &mut rng, "co-", if thorough { 8 } else { 8 }, "");
            let nco_acct = coincidence_cases(&mut runner, &mut rng, "acct-co-", 2, "");
            extra.insert("address_coincidence_cases".into(), serde_json::json!(nco + nco_acct));
            // ---- 3c. account-backed growth-limit scripts (real runtime refusal, same wrapper afterwards)
            for (i, (tid, path)) in LIMITS.iter().enumerate() {
                let e = reg.iter().find(|e| e.id == *tid).unwrap();
                let header = format!("case acct-limit{i}-{tid} {} {}", e.shape_s, e.shape.default_val().print());
                runner.cx.rec.bump("source:account_limit");
                runner.run(&header, &mut LimitGen { path: parse_path(path).unwrap(), step: 0, two_phase: i % 2 == 1, keep_wrapper: true });
            }
            // ---- 4. random boundary-directed histories
            let ncases = if thorough { 30_000 } else { 400 };
            for i in 0..ncases {
                let e = &reg[(i + rng.below(3) as usize) % reg.len()];
                let default_init = rng.chance(1, 2);
                let header = header_for(e, &format!("r{}-{i}-{}", args.seed, e.id), &mut rng, default_init);
                let max_ops = if thorough { 8 + rng.below(28) as usize } else { 10 + rng.below(30) as usize };
                runner.cx.rec.bump("source:random");
                let mut g = RandGen::new(rng.fork(), max_ops);
                if i % 3 == 2 {
                    g.scope_pct = 25;
                }
                runner.run(&header, &mut g);
            }
        } else {
            // ---- C06: error paths by construction + refusal of every growing realloc of every history
            let nbase = if thorough { 2500 } else { 110 };
            let mut reruns = 0u64;
            // small deterministic histories first (every op of the exhaustive alphabets once, then refusals)
            for (tid, init, alphabet) in EXHAUSTIVE {
                let e = reg.iter().find(|e| e.id == *tid).unwrap();
                let header = format!("case a-{tid} {} {init}", e.shape_s);
                let lines: Vec<String> = alphabet.iter().map(|s| s.to_string()).collect();
                runner.cx.rec.bump("source:alphabet");
                let base = runner.run(&header, &mut FixedOps { lines, pos: 0 });
                reruns += runner.refusal_reruns(&base, 64);
            }
            for i in 0..nbase {
                let e = &reg[(i + rng.below(3) as usize) % reg.len()];
                let default_init = rng.chance(1, 2);
                let header = header_for(e, &format!("f{}-{i}-{}", args.seed, e.id), &mut rng, default_init);
                let max_ops = 8 + rng.below(if thorough { 22 } else { 18 }) as usize;
                runner.cx.rec.bump("source:random");
                let mut g = RandGen::new(rng.fork(), max_ops);
                if i % 3 == 2 {
                    g.scope_pct = 25;
                }
                let base = runner.run(&header, &mut g);
                reruns += runner.refusal_reruns(&base, if thorough { 40 } else { 24 });
            }
            extra.insert("refusal_reruns".into(), serde_json::json!(reruns));
            // ---- native-account backing: the refusal is the REAL runtime limit (orig + 10240) of
            //      `AccountInfo::resize_unchecked`, and the SAME wrapper keeps being used afterwards: every
            //      later op (grow again, pop, remove(0), set_len, …) is compared with the owned model
            let mut nacct = 0u64;
            let rounds = if thorough { 12 } else { 2 };
            for round in 0..rounds {
                for (i, (tid, path)) in LIMITS.iter().enumerate() {
                    let e = reg.iter().find(|e| e.id == *tid).unwrap();
                    let two_phase = round % 2 == 1;
                    let v = if round == 0 { e.shape.default_val() } else { gen_val(&e.shape, &mut rng, 0) };
                    let header = format!("case acct-limit{i}-{round}-{tid} {} {}", e.shape_s, v.print());
                    runner.cx.rec.bump("source:account_limit");
                    runner.run(&header, &mut LimitGen { path: parse_path(path).unwrap(), step: 0, two_phase, keep_wrapper: true });
                    let v = gen_val(&e.shape, &mut rng, 0);
                    let header = format!("case acct-near{i}-{round}-{tid} {} {}", e.shape_s, v.print());
                    runner.cx.rec.bump("source:account_near_limit");
                    let delta = rng.below(6) as usize;
                    let inner = RandGen::new(rng.fork(), 12 + rng.below(14) as usize);
                    runner.run(&header, &mut NearLimit { path: parse_path(path).unwrap(), delta, done: false, inner });
                    nacct += 2;
                }
            }
            extra.insert("account_backed_cases".into(), serde_json::json!(nacct));
        }
    }
    extra.insert("cases_by_shape".into(), serde_json::json!(runner.cases_by_shape));
    extra.insert("curated_types".into(), serde_json::json!(reg.len()));
    drop(runner);
    for (k, v) in extra {
        rec.extra.insert(k, v);
    }
    rec.finish(&args);
}
