//! Shapes, values, paths of /verif/notes/unsized_grammar.md: parser, canonical printer, well-formedness,
//! default values, and an INDEPENDENT canonical encoder (written from the grammar document's encoding
//! column, not from the Rust code under test).
use hx_common::{hex, unhex};

// ------------------------------------------------------------------------------------------------
// generic token trees

#[derive(Debug, Clone, PartialEq, Eq)]
pub enum Tok {
    Atom(String),
    /// open bracket char, children
    Group(char, Vec<Tok>),
}

fn closer(c: char) -> char {
    match c {
        '(' => ')',
        '[' => ']',
        '{' => '}',
        '<' => '>',
        _ => unreachable!(),
    }
}

/// Parse a whole line into token trees. Brackets `()[]{}<>` group; whitespace separates atoms.
pub fn parse_toks(s: &str) -> Option<Vec<Tok>> {
    let cs: Vec<char> = s.chars().collect();
    let mut i = 0usize;
    let r = parse_seq(&cs, &mut i, None)?;
    if i != cs.len() {
        return None;
    }
    Some(r)
}

fn parse_seq(cs: &[char], i: &mut usize, close: Option<char>) -> Option<Vec<Tok>> {
    let mut out = vec![];
    loop {
        while *i < cs.len() && cs[*i] == ' ' {
            *i += 1;
        }
        if *i >= cs.len() {
            return if close.is_none() { Some(out) } else { None };
        }
        let c = cs[*i];
        match c {
            '(' | '[' | '{' | '<' => {
                *i += 1;
                let inner = parse_seq(cs, i, Some(closer(c)))?;
                out.push(Tok::Group(c, inner));
            }
            ')' | ']' | '}' | '>' => {
                if Some(c) == close {
                    *i += 1;
                    return Some(out);
                }
                return None;
            }
            _ => {
                let st = *i;
                while *i < cs.len() && !" ()[]{}<>".contains(cs[*i]) {
                    *i += 1;
                }
                out.push(Tok::Atom(cs[st..*i].iter().collect()));
            }
        }
    }
}

impl Tok {
    pub fn atom(&self) -> Option<&str> {
        match self {
            Tok::Atom(s) => Some(s),
            _ => None,
        }
    }
    pub fn group(&self, open: char) -> Option<&[Tok]> {
        match self {
            Tok::Group(c, v) if *c == open => Some(v),
            _ => None,
        }
    }
    pub fn num(&self) -> Option<u64> {
        let a = self.atom()?;
        if a.is_empty() || a.len() > 10 || !a.bytes().all(|b| b.is_ascii_digit()) {
            return None;
        }
        // canonical decimals only (no leading zeros) so op lines are canonical
        if a.len() > 1 && a.starts_with('0') {
            return None;
        }
        let v: u64 = a.parse().ok()?;
        // indices and lengths are limited to < 2^32 (see unsized_ops.md)
        if v >= (1u64 << 32) {
            return None;
        }
        Some(v)
    }
    pub fn hexbytes(&self) -> Option<Vec<u8>> {
        let a = self.atom()?;
        if a != "-" && !a.bytes().all(|b| b.is_ascii_digit() || (b'a'..=b'f').contains(&b)) {
            return None;
        }
        unhex(a)
    }
}

// ------------------------------------------------------------------------------------------------
// shapes

#[derive(Debug, Clone, PartialEq, Eq)]
pub enum Shape {
    Pod(usize),
    Bool,
    CEnum(usize),
    Rec(Vec<Shape>),
    List(Box<Shape>, usize),
    Set(Box<Shape>, usize),
    Map(usize, Box<Shape>, usize),
    Str(usize),
    Rem,
    UList(Box<Shape>),
    UMap(usize, Box<Shape>),
    /// sized part (always `Rec`), unsized fields
    Struct(Box<Shape>, Vec<Shape>),
    /// (discriminant, payload)
    Enum(Vec<(u8, Option<Shape>)>),
}

fn lw_ok(n: u64) -> bool {
    matches!(n, 1 | 2 | 4 | 8)
}

impl Shape {
    pub fn parse(s: &str) -> Option<Shape> {
        let t = parse_toks(s)?;
        if t.len() != 1 {
            return None;
        }
        Shape::from_tok(&t[0])
    }
    pub fn from_tok(t: &Tok) -> Option<Shape> {
        let g = t.group('(')?;
        let head = g.first()?.atom()?;
        let a = &g[1..];
        Some(match (head, a.len()) {
            ("pod", 1) => Shape::Pod(a[0].num()? as usize),
            ("bool", 0) => Shape::Bool,
            ("cenum", 1) => {
                let k = a[0].num()?;
                if k == 0 || k > 256 {
                    return None;
                }
                Shape::CEnum(k as usize)
            }
            ("rec", _) => {
                let fs: Option<Vec<Shape>> = a.iter().map(Shape::from_tok).collect();
                let fs = fs?;
                if !fs.iter().all(Shape::is_fixed) {
                    return None;
                }
                Shape::Rec(fs)
            }
            ("list", 2) | ("set", 2) => {
                let e = Shape::from_tok(&a[0])?;
                let lw = a[1].num()?;
                if !e.is_fixed() || !lw_ok(lw) {
                    return None;
                }
                if head == "list" {
                    Shape::List(Box::new(e), lw as usize)
                } else {
                    Shape::Set(Box::new(e), lw as usize)
                }
            }
            ("map", 3) => {
                let kw = a[0].num()?;
                let v = Shape::from_tok(&a[1])?;
                let lw = a[2].num()?;
                if !v.is_fixed() || !lw_ok(lw) || kw == 0 || kw > 8 {
                    return None;
                }
                Shape::Map(kw as usize, Box::new(v), lw as usize)
            }
            ("str", 1) => {
                let lw = a[0].num()?;
                if !lw_ok(lw) {
                    return None;
                }
                Shape::Str(lw as usize)
            }
            ("rem", 0) => Shape::Rem,
            ("ulist", 1) => {
                let e = Shape::from_tok(&a[0])?;
                if e.is_fixed() {
                    return None;
                }
                Shape::UList(Box::new(e))
            }
            ("umap", 2) => {
                let kw = a[0].num()?;
                let e = Shape::from_tok(&a[1])?;
                if e.is_fixed() || kw == 0 || kw > 8 {
                    return None;
                }
                Shape::UMap(kw as usize, Box::new(e))
            }
            ("struct", n) if n >= 2 => {
                let sized = Shape::from_tok(&a[0])?;
                if !matches!(sized, Shape::Rec(_)) {
                    return None;
                }
                let fs: Option<Vec<Shape>> = a[1..].iter().map(Shape::from_tok).collect();
                let fs = fs?;
                if fs.iter().any(Shape::is_fixed) {
                    return None;
                }
                Shape::Struct(Box::new(sized), fs)
            }
            ("enum", n) if n >= 1 => {
                let mut vs = vec![];
                for v in a {
                    let vg = v.group('(')?;
                    if vg.len() != 2 {
                        return None;
                    }
                    let d = vg[0].num()?;
                    if d > 255 {
                        return None;
                    }
                    let p = if vg[1].atom() == Some("unit") { None } else { Some(Shape::from_tok(&vg[1])?) };
                    vs.push((d as u8, p));
                }
                Shape::Enum(vs)
            }
            _ => return None,
        })
    }
    pub fn is_fixed(&self) -> bool {
        matches!(self, Shape::Pod(_) | Shape::Bool | Shape::CEnum(_) | Shape::Rec(_))
    }
    pub fn fixed_size(&self) -> usize {
        match self {
            Shape::Pod(n) => *n,
            Shape::Bool | Shape::CEnum(_) => 1,
            Shape::Rec(fs) => fs.iter().map(Shape::fixed_size).sum(),
            _ => panic!("not a fixed shape"),
        }
    }
    /// validity of the bytes of a fixed shape
    pub fn fixed_valid(&self, b: &[u8]) -> bool {
        if b.len() != self.fixed_size() {
            return false;
        }
        match self {
            Shape::Pod(_) => true,
            Shape::Bool => b[0] <= 1,
            Shape::CEnum(k) => (b[0] as usize) < *k,
            Shape::Rec(fs) => {
                let mut o = 0;
                for f in fs {
                    let n = f.fixed_size();
                    if !f.fixed_valid(&b[o..o + n]) {
                        return false;
                    }
                    o += n;
                }
                true
            }
            _ => false,
        }
    }
    pub fn print(&self) -> String {
        match self {
            Shape::Pod(n) => format!("(pod {n})"),
            Shape::Bool => "(bool)".into(),
            Shape::CEnum(k) => format!("(cenum {k})"),
            Shape::Rec(fs) => {
                let mut s = String::from("(rec");
                for f in fs {
                    s.push(' ');
                    s.push_str(&f.print());
                }
                s.push(')');
                s
            }
            Shape::List(e, lw) => format!("(list {} {lw})", e.print()),
            Shape::Set(e, lw) => format!("(set {} {lw})", e.print()),
            Shape::Map(kw, v, lw) => format!("(map {kw} {} {lw})", v.print()),
            Shape::Str(lw) => format!("(str {lw})"),
            Shape::Rem => "(rem)".into(),
            Shape::UList(e) => format!("(ulist {})", e.print()),
            Shape::UMap(kw, e) => format!("(umap {kw} {})", e.print()),
            Shape::Struct(s, fs) => {
                let mut o = format!("(struct {}", s.print());
                for f in fs {
                    o.push(' ');
                    o.push_str(&f.print());
                }
                o.push(')');
                o
            }
            Shape::Enum(vs) => {
                let mut o = String::from("(enum");
                for (d, p) in vs {
                    match p {
                        Some(p) => o.push_str(&format!(" ({d} {})", p.print())),
                        None => o.push_str(&format!(" ({d} unit)")),
                    }
                }
                o.push(')');
                o
            }
        }
    }
    /// The value `UnsizedInit<DefaultInit>` produces (zeroed fixed parts, empty containers, the
    /// `#[default_init]` variant — by convention of the curated family ALWAYS variant index 0).
    pub fn default_val(&self) -> Val {
        match self {
            Shape::Pod(_) | Shape::Bool | Shape::CEnum(_) | Shape::Rec(_) => Val::Fixed(vec![0; self.fixed_size()]),
            Shape::List(..) | Shape::Set(..) | Shape::Str(_) => Val::Seq(vec![]),
            Shape::Map(..) => Val::MapV(vec![]),
            Shape::Rem => Val::Rem(vec![]),
            Shape::UList(_) => Val::UList(vec![]),
            Shape::UMap(..) => Val::UMap(vec![]),
            Shape::Struct(s, fs) => Val::Struct(vec![0; s.fixed_size()], fs.iter().map(Shape::default_val).collect()),
            Shape::Enum(vs) => Val::Enum(0, vs[0].1.as_ref().map(|p| Box::new(p.default_val()))),
        }
    }
}

pub fn le_num(b: &[u8]) -> u128 {
    let mut v = 0u128;
    for (i, x) in b.iter().enumerate() {
        v |= (*x as u128) << (8 * i);
    }
    v
}
pub fn le_bytes(v: u128, w: usize) -> Vec<u8> {
    (0..w).map(|i| (v >> (8 * i)) as u8).collect()
}
/// largest count a `w`-byte little-endian prefix can hold (w = 8: counts never get near)
pub fn max_count(w: usize) -> u128 {
    if w >= 16 {
        u128::MAX
    } else {
        (1u128 << (8 * w)) - 1
    }
}

// ------------------------------------------------------------------------------------------------
// values

#[derive(Debug, Clone, PartialEq, Eq)]
pub enum Val {
    Fixed(Vec<u8>),
    /// list / set / str: element byte strings
    Seq(Vec<Vec<u8>>),
    MapV(Vec<(Vec<u8>, Vec<u8>)>),
    Rem(Vec<u8>),
    UList(Vec<Val>),
    UMap(Vec<(Vec<u8>, Val)>),
    Struct(Vec<u8>, Vec<Val>),
    Enum(usize, Option<Box<Val>>),
}

impl Val {
    #[allow(dead_code)]
    pub fn parse(shape: &Shape, s: &str) -> Option<Val> {
        let t = parse_toks(s)?;
        if t.len() != 1 {
            return None;
        }
        Val::from_tok(shape, &t[0])
    }
    /// Syntactic parse guided by the shape. Does NOT check well-formedness (use `wf`).
    pub fn from_tok(shape: &Shape, t: &Tok) -> Option<Val> {
        Some(match shape {
            Shape::Pod(_) | Shape::Bool | Shape::CEnum(_) | Shape::Rec(_) => Val::Fixed(t.hexbytes()?),
            Shape::List(..) | Shape::Set(..) | Shape::Str(_) => {
                let g = t.group('[')?;
                Val::Seq(g.iter().map(Tok::hexbytes).collect::<Option<Vec<_>>>()?)
            }
            Shape::Map(..) => {
                let g = t.group('[')?;
                let mut out = vec![];
                for kv in g {
                    let a = kv.atom()?;
                    let (k, v) = a.split_once(':')?;
                    out.push((Tok::Atom(k.into()).hexbytes()?, Tok::Atom(v.into()).hexbytes()?));
                }
                Val::MapV(out)
            }
            Shape::Rem => Val::Rem(t.hexbytes()?),
            Shape::UList(e) => {
                let g = t.group('(')?;
                Val::UList(g.iter().map(|x| Val::from_tok(e, x)).collect::<Option<Vec<_>>>()?)
            }
            Shape::UMap(_, e) => {
                let g = t.group('(')?;
                let mut out = vec![];
                for kv in g {
                    let p = kv.group('(')?;
                    if p.len() != 2 {
                        return None;
                    }
                    out.push((p[0].hexbytes()?, Val::from_tok(e, &p[1])?));
                }
                Val::UMap(out)
            }
            Shape::Struct(_, fs) => {
                let g = t.group('{')?;
                if g.len() != fs.len() + 1 {
                    return None;
                }
                let sized = g[0].hexbytes()?;
                let mut out = vec![];
                for (f, x) in fs.iter().zip(&g[1..]) {
                    out.push(Val::from_tok(f, x)?);
                }
                Val::Struct(sized, out)
            }
            Shape::Enum(vs) => {
                let g = t.group('<')?;
                let idx = g.first()?.num()? as usize;
                let (_, p) = vs.get(idx)?;
                match p {
                    None => {
                        if g.len() != 1 {
                            return None;
                        }
                        Val::Enum(idx, None)
                    }
                    Some(p) => {
                        if g.len() != 2 {
                            return None;
                        }
                        Val::Enum(idx, Some(Box::new(Val::from_tok(p, &g[1])?)))
                    }
                }
            }
        })
    }

    pub fn print(&self) -> String {
        let mut s = String::new();
        self.print_into(&mut s);
        s
    }
    fn print_into(&self, o: &mut String) {
        match self {
            Val::Fixed(b) | Val::Rem(b) => o.push_str(&hex(b)),
            Val::Seq(es) => {
                o.push('[');
                for (i, e) in es.iter().enumerate() {
                    if i > 0 {
                        o.push(' ');
                    }
                    o.push_str(&hex(e));
                }
                o.push(']');
            }
            Val::MapV(kvs) => {
                o.push('[');
                for (i, (k, v)) in kvs.iter().enumerate() {
                    if i > 0 {
                        o.push(' ');
                    }
                    o.push_str(&hex(k));
                    o.push(':');
                    o.push_str(&hex(v));
                }
                o.push(']');
            }
            Val::UList(vs) => {
                o.push('(');
                for (i, v) in vs.iter().enumerate() {
                    if i > 0 {
                        o.push(' ');
                    }
                    v.print_into(o);
                }
                o.push(')');
            }
            Val::UMap(kvs) => {
                o.push('(');
                for (i, (k, v)) in kvs.iter().enumerate() {
                    if i > 0 {
                        o.push(' ');
                    }
                    o.push('(');
                    o.push_str(&hex(k));
                    o.push(' ');
                    v.print_into(o);
                    o.push(')');
                }
                o.push(')');
            }
            Val::Struct(s, fs) => {
                o.push('{');
                o.push_str(&hex(s));
                for f in fs {
                    o.push(' ');
                    f.print_into(o);
                }
                o.push('}');
            }
            Val::Enum(i, p) => {
                o.push('<');
                o.push_str(&i.to_string());
                if let Some(p) = p {
                    o.push(' ');
                    p.print_into(o);
                }
                o.push('>');
            }
        }
    }

    /// Well-formedness of a value for a shape: widths, validity classes, strict key order, counts fit
    /// their prefix, UTF-8 for strings.
    pub fn wf(&self, shape: &Shape) -> bool {
        match (shape, self) {
            (s, Val::Fixed(b)) if s.is_fixed() => s.fixed_valid(b),
            (Shape::List(e, lw), Val::Seq(es)) => es.iter().all(|x| e.fixed_valid(x)) && es.len() as u128 <= max_count(*lw),
            (Shape::Set(e, lw), Val::Seq(es)) => {
                es.iter().all(|x| e.fixed_valid(x))
                    && es.len() as u128 <= max_count(*lw)
                    && es.windows(2).all(|w| le_num(&w[0]) < le_num(&w[1]))
            }
            (Shape::Str(lw), Val::Seq(es)) => {
                es.iter().all(|x| x.len() == 1)
                    && es.len() as u128 <= max_count(*lw)
                    && std::str::from_utf8(&es.iter().map(|x| x[0]).collect::<Vec<u8>>()).is_ok()
            }
            (Shape::Map(kw, v, lw), Val::MapV(kvs)) => {
                kvs.iter().all(|(k, x)| k.len() == *kw && v.fixed_valid(x))
                    && kvs.len() as u128 <= max_count(*lw)
                    && kvs.windows(2).all(|w| le_num(&w[0].0) < le_num(&w[1].0))
            }
            (Shape::Rem, Val::Rem(_)) => true,
            (Shape::UList(e), Val::UList(vs)) => vs.iter().all(|v| v.wf(e)),
            (Shape::UMap(kw, e), Val::UMap(kvs)) => {
                kvs.iter().all(|(k, v)| k.len() == *kw && v.wf(e)) && kvs.windows(2).all(|w| le_num(&w[0].0) < le_num(&w[1].0))
            }
            (Shape::Struct(s, fs), Val::Struct(sb, vs)) => {
                s.fixed_valid(sb) && fs.len() == vs.len() && fs.iter().zip(vs).all(|(f, v)| v.wf(f))
            }
            (Shape::Enum(vars), Val::Enum(i, p)) => match (vars.get(*i), p) {
                (Some((_, None)), None) => true,
                (Some((_, Some(ps))), Some(pv)) => pv.wf(ps),
                _ => false,
            },
            _ => false,
        }
    }

    /// Canonical encoding per the grammar document's encoding column.
    pub fn encode(&self, shape: &Shape) -> Vec<u8> {
        let mut o = vec![];
        self.encode_into(shape, &mut o);
        o
    }
    fn encode_into(&self, shape: &Shape, o: &mut Vec<u8>) {
        match (shape, self) {
            (_, Val::Fixed(b)) | (_, Val::Rem(b)) => o.extend_from_slice(b),
            (Shape::List(_, lw), Val::Seq(es)) | (Shape::Set(_, lw), Val::Seq(es)) | (Shape::Str(lw), Val::Seq(es)) => {
                o.extend(le_bytes(es.len() as u128, *lw));
                for e in es {
                    o.extend_from_slice(e);
                }
            }
            (Shape::Map(_, _, lw), Val::MapV(kvs)) => {
                o.extend(le_bytes(kvs.len() as u128, *lw));
                for (k, v) in kvs {
                    o.extend_from_slice(k);
                    o.extend_from_slice(v);
                }
            }
            (Shape::UList(e), Val::UList(vs)) => {
                let encs: Vec<Vec<u8>> = vs.iter().map(|v| v.encode(e)).collect();
                let total: usize = encs.iter().map(Vec::len).sum();
                o.extend(le_bytes(total as u128, 4));
                o.extend(le_bytes(vs.len() as u128, 4));
                let mut off = 0usize;
                for x in &encs {
                    o.extend(le_bytes(off as u128, 4));
                    off += x.len();
                }
                o.extend(le_bytes(vs.len() as u128, 4));
                for x in &encs {
                    o.extend_from_slice(x);
                }
            }
            (Shape::UMap(_, e), Val::UMap(kvs)) => {
                let encs: Vec<Vec<u8>> = kvs.iter().map(|(_, v)| v.encode(e)).collect();
                let total: usize = encs.iter().map(Vec::len).sum();
                o.extend(le_bytes(total as u128, 4));
                o.extend(le_bytes(kvs.len() as u128, 4));
                let mut off = 0usize;
                for ((k, _), x) in kvs.iter().zip(&encs) {
                    // OrdOffset { offset: u32 LE, key } — offset FIRST, then the key bytes
                    o.extend(le_bytes(off as u128, 4));
                    o.extend_from_slice(k);
                    off += x.len();
                }
                o.extend(le_bytes(kvs.len() as u128, 4));
                for x in &encs {
                    o.extend_from_slice(x);
                }
            }
            (Shape::Struct(_, fs), Val::Struct(s, vs)) => {
                o.extend_from_slice(s);
                for (f, v) in fs.iter().zip(vs) {
                    v.encode_into(f, o);
                }
            }
            (Shape::Enum(vars), Val::Enum(i, p)) => {
                o.push(vars[*i].0);
                if let (Some(ps), Some(pv)) = (&vars[*i].1, p) {
                    pv.encode_into(ps, o);
                }
            }
            _ => panic!("encode: value does not match shape"),
        }
    }
    pub fn size(&self, shape: &Shape) -> usize {
        self.encode(shape).len()
    }
}

// ------------------------------------------------------------------------------------------------
// paths

#[derive(Debug, Clone, Copy, PartialEq, Eq)]
pub enum Step {
    Field(usize),
    Elem(usize),
    Variant,
}

pub fn parse_path(s: &str) -> Option<Vec<Step>> {
    if s == "." {
        return Some(vec![]);
    }
    let mut out = vec![];
    for part in s.split('.') {
        out.push(parse_step(part)?);
    }
    Some(out)
}
pub fn parse_step(part: &str) -> Option<Step> {
    if part == "v" {
        return Some(Step::Variant);
    }
    let (h, n) = part.split_at(part.char_indices().nth(1).map(|x| x.0).unwrap_or(part.len()));
    let n = Tok::Atom(n.to_string()).num()? as usize;
    match h {
        "f" => Some(Step::Field(n)),
        "e" => Some(Step::Elem(n)),
        _ => None,
    }
}
pub fn print_step(s: Step) -> String {
    match s {
        Step::Field(i) => format!("f{i}"),
        Step::Elem(i) => format!("e{i}"),
        Step::Variant => "v".into(),
    }
}
pub fn print_path(p: &[Step]) -> String {
    if p.is_empty() {
        return ".".into();
    }
    p.iter().map(|s| print_step(*s)).collect::<Vec<_>>().join(".")
}

/// Navigation result in the owned model.
pub enum Nav<'a> {
    Found(&'a Shape, &'a mut Val),
    /// a step that the real API answers with IndexOutOfBounds (ulist element index >= len)
    IndexErr,
    /// inapplicable step
    Bad,
}

/// Follow one step in the model.
pub fn nav_step<'a>(shape: &'a Shape, val: &'a mut Val, step: Step) -> Nav<'a> {
    match (shape, val, step) {
        (Shape::Struct(_, fs), Val::Struct(_, vs), Step::Field(i)) => {
            if i < fs.len() && i < vs.len() {
                Nav::Found(&fs[i], &mut vs[i])
            } else {
                Nav::Bad
            }
        }
        (Shape::UList(e), Val::UList(vs), Step::Elem(i)) => {
            if i < vs.len() {
                Nav::Found(e, &mut vs[i])
            } else {
                Nav::IndexErr
            }
        }
        (Shape::UMap(_, e), Val::UMap(kvs), Step::Elem(i)) => {
            if i < kvs.len() {
                Nav::Found(e, &mut kvs[i].1)
            } else {
                Nav::Bad
            }
        }
        (Shape::Enum(vars), Val::Enum(i, Some(p)), Step::Variant) => match vars.get(*i).and_then(|x| x.1.as_ref()) {
            Some(ps) => Nav::Found(ps, &mut **p),
            None => Nav::Bad,
        },
        _ => Nav::Bad,
    }
}

pub fn nav<'a>(shape: &'a Shape, val: &'a mut Val, path: &[Step]) -> Nav<'a> {
    let mut cur: (&'a Shape, &'a mut Val) = (shape, val);
    for s in path {
        match nav_step(cur.0, cur.1, *s) {
            Nav::Found(sh, v) => cur = (sh, v),
            other => return other,
        }
    }
    Nav::Found(cur.0, cur.1)
}

/// immutable lookup (None if the path does not resolve)
pub fn get_at<'a>(shape: &'a Shape, val: &'a Val, path: &[Step]) -> Option<(&'a Shape, &'a Val)> {
    let mut cur = (shape, val);
    for s in path {
        cur = match (cur.0, cur.1, *s) {
            (Shape::Struct(_, fs), Val::Struct(_, vs), Step::Field(i)) if i < fs.len() => (&fs[i], &vs[i]),
            (Shape::UList(e), Val::UList(vs), Step::Elem(i)) if i < vs.len() => (&**e, &vs[i]),
            (Shape::UMap(_, e), Val::UMap(kvs), Step::Elem(i)) if i < kvs.len() => (&**e, &kvs[i].1),
            (Shape::Enum(vars), Val::Enum(i, Some(p)), Step::Variant) => (vars[*i].1.as_ref()?, &**p),
            _ => return None,
        };
    }
    Some(cur)
}
