//! Op lines (notes/unsized_ops.md): syntactic parse. Shape-dependent validation happens where the op
//! is applied (model.rs for the owned model, node.rs for the real code) with the SAME rules.
use crate::sexp::{parse_path, parse_step, parse_toks, Step, Tok};

pub type B = Vec<u8>;

#[derive(Debug, Clone, PartialEq, Eq)]
pub enum Op {
    Enter(Step),
    Leave,
    Reborrow,
    Touch,
    Replace(Tok),
    Reset,
    Write(B),
    Push(B),
    Insert(usize, B),
    InsertAll(usize, Vec<B>),
    Remove(usize),
    RemoveRange(usize, usize),
    Pop,
    Clear,
    Set(usize, B),
    SInsert(B),
    SRemove(B),
    SInsertAll(Vec<B>),
    MInsert(B, B),
    MRemove(B),
    MSet(B, B),
    MInsertAll(Vec<(B, B)>),
    StrSet(B),
    SetLen(usize),
    UInsert(usize, usize),
    UInsertArr(usize, Vec<B>),
    UGet(usize),
    UTouch(usize),
    UMInsert(B),
    UMInsertArr(B, Vec<B>),
    UMRemove(B),
    SetVariant(usize),
}

#[derive(Debug, Clone, PartialEq, Eq)]
pub struct OpLine {
    pub path: Vec<Step>,
    pub op: Op,
}

/// N values supported by the `[T; N]` initialisers (`uinsert_arr`, `uminsert_arr`).
pub const ARR_NS: [usize; 10] = [0, 1, 2, 3, 4, 5, 8, 255, 256, 300];

fn blist(t: &Tok) -> Option<Vec<B>> {
    t.group('[')?.iter().map(Tok::hexbytes).collect()
}
fn kvlist(t: &Tok) -> Option<Vec<(B, B)>> {
    let mut out = vec![];
    for kv in t.group('[')? {
        let (k, v) = kv.atom()?.split_once(':')?;
        out.push((Tok::Atom(k.into()).hexbytes()?, Tok::Atom(v.into()).hexbytes()?));
    }
    Some(out)
}

pub fn parse_op(line: &str) -> Option<OpLine> {
    // exactly single spaces, no leading/trailing blanks: canonical lines only
    if line.starts_with(' ') || line.ends_with(' ') || line.contains("  ") {
        return None;
    }
    let t = parse_toks(line)?;
    let name = t.first()?.atom()?;
    let a = &t[1..];
    let n = |i: usize| -> Option<usize> { a.get(i)?.num().map(|x| x as usize) };
    let h = |i: usize| -> Option<B> { a.get(i)?.hexbytes() };
    // ops without a path
    match (name, a.len()) {
        ("enter", 1) => return Some(OpLine { path: vec![], op: Op::Enter(parse_step(a[0].atom()?)?) }),
        ("leave", 0) => return Some(OpLine { path: vec![], op: Op::Leave }),
        ("reborrow", 0) => return Some(OpLine { path: vec![], op: Op::Reborrow }),
        _ => {}
    }
    let path = parse_path(a.first()?.atom()?)?;
    let a = &a[1..];
    let n = |i: usize| n(i + 1);
    let h = |i: usize| h(i + 1);
    let op = match (name, a.len()) {
        ("touch", 0) => Op::Touch,
        ("replace", 1) => Op::Replace(a[0].clone()),
        ("reset", 0) => Op::Reset,
        ("write", 1) => Op::Write(h(0)?),
        ("push", 1) => Op::Push(h(0)?),
        ("insert", 2) => Op::Insert(n(0)?, h(1)?),
        ("insert_all", 2) => Op::InsertAll(n(0)?, blist(&a[1])?),
        ("remove", 1) => Op::Remove(n(0)?),
        ("remove_range", 2) => Op::RemoveRange(n(0)?, n(1)?),
        ("pop", 0) => Op::Pop,
        ("clear", 0) => Op::Clear,
        ("set", 2) => Op::Set(n(0)?, h(1)?),
        ("sinsert", 1) => Op::SInsert(h(0)?),
        ("sremove", 1) => Op::SRemove(h(0)?),
        ("sinsert_all", 1) => Op::SInsertAll(blist(&a[0])?),
        ("minsert", 2) => Op::MInsert(h(0)?, h(1)?),
        ("mremove", 1) => Op::MRemove(h(0)?),
        ("mset", 2) => Op::MSet(h(0)?, h(1)?),
        ("minsert_all", 1) => Op::MInsertAll(kvlist(&a[0])?),
        ("str_set", 1) => Op::StrSet(h(0)?),
        ("set_len", 1) => Op::SetLen(n(0)?),
        ("uinsert", 2) => Op::UInsert(n(0)?, n(1)?),
        ("uinsert_arr", 2) => Op::UInsertArr(n(0)?, blist(&a[1])?),
        ("uget", 1) => Op::UGet(n(0)?),
        ("utouch", 1) => Op::UTouch(n(0)?),
        ("uminsert", 1) => Op::UMInsert(h(0)?),
        ("uminsert_arr", 2) => Op::UMInsertArr(h(0)?, blist(&a[1])?),
        ("umremove", 1) => Op::UMRemove(h(0)?),
        ("set_variant", 1) => Op::SetVariant(n(0)?),
        _ => return None,
    };
    Some(OpLine { path, op })
}

impl Op {
    pub fn name(&self) -> &'static str {
        match self {
            Op::Enter(_) => "enter",
            Op::Leave => "leave",
            Op::Reborrow => "reborrow",
            Op::Touch => "touch",
            Op::Replace(_) => "replace",
            Op::Reset => "reset",
            Op::Write(_) => "write",
            Op::Push(_) => "push",
            Op::Insert(..) => "insert",
            Op::InsertAll(..) => "insert_all",
            Op::Remove(_) => "remove",
            Op::RemoveRange(..) => "remove_range",
            Op::Pop => "pop",
            Op::Clear => "clear",
            Op::Set(..) => "set",
            Op::SInsert(_) => "sinsert",
            Op::SRemove(_) => "sremove",
            Op::SInsertAll(_) => "sinsert_all",
            Op::MInsert(..) => "minsert",
            Op::MRemove(_) => "mremove",
            Op::MSet(..) => "mset",
            Op::MInsertAll(_) => "minsert_all",
            Op::StrSet(_) => "str_set",
            Op::SetLen(_) => "set_len",
            Op::UInsert(..) => "uinsert",
            Op::UInsertArr(..) => "uinsert_arr",
            Op::UGet(_) => "uget",
            Op::UTouch(_) => "utouch",
            Op::UMInsert(_) => "uminsert",
            Op::UMInsertArr(..) => "uminsert_arr",
            Op::UMRemove(_) => "umremove",
            Op::SetVariant(_) => "set_variant",
        }
    }
}

// ------------------------------------------------------------------------------------------------
// printing helpers for generators

use hx_common::hex;
pub fn hexlist(es: &[B]) -> String {
    format!("[{}]", es.iter().map(|e| hex(e)).collect::<Vec<_>>().join(" "))
}
pub fn kvhexlist(es: &[(B, B)]) -> String {
    format!("[{}]", es.iter().map(|(k, v)| format!("{}:{}", hex(k), hex(v))).collect::<Vec<_>>().join(" "))
}
