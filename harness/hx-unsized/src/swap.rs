//! C03 swap cases: two buffers of the same curated type, `mem::swap` of two same-typed pointer objects
//! taken from them through safe public API, and the expectation that the framework panics no later than
//! the end of each affected exclusive borrow. See notes/unsized_ops_c03.md §2.
use crate::access::Backing;
use crate::model::{self, Kind, MOut};
use crate::node::{class_of, Holder, Level, Node, Out};
use crate::ops::{parse_op, Op};
use crate::run::{acc_str, check_trace, serialize, start_trace, take_trace, top_range, Acc, CaseOut, Cx, GenView, Header, OpSource};
use crate::sexp::{nav, nav_step, parse_path, Nav, Shape, Step, Val};
use hx_common::catch;
use star_frame::unsize::wrapper::{ExclusiveWrapper, ExclusiveWrapperTopMeta};

struct Buf<B: Backing> {
    name: char,
    access: &'static B,
    // `stack` is declared before `_access_box`: accessors go first, the backing store last
    stack: Vec<Box<dyn Level>>,
    _access_box: Box<B>,
    levels: Vec<Vec<Step>>,
    model: Val,
    /// the borrow is over (ended, or panicked)
    finished: bool,
    /// detection happened: an op or the drop panicked after the swap
    panicked: bool,
    /// dead in the sense of unsized_ops.md (known init-fails-after-resize state)
    dead: bool,
}

fn new_top<T: Node + ?Sized, B: Backing>(access: &'static B, stack: &mut Vec<Box<dyn Level>>) -> Result<(), String> {
    let top = ExclusiveWrapper::<'static, 'static, T::Ptr, ExclusiveWrapperTopMeta<'static, T, B::A>>::new(access.da()).map_err(class_of)?;
    stack.push(Box::new(Holder::<T, ExclusiveWrapperTopMeta<'static, T, B::A>>(top)));
    Ok(())
}

fn drop_stack(stack: &mut Vec<Box<dyn Level>>) -> bool {
    // returns true if dropping panicked (the top drop check fired)
    let mut panicked = false;
    while let Some(l) = stack.pop() {
        if catch(move || drop(l)).is_err() {
            panicked = true;
        }
    }
    panicked
}

impl<B: Backing> Buf<B> {
    fn make<T: Node + ?Sized>(name: char, init: Val, access_box: Box<B>) -> Option<Buf<B>> {
        // SAFETY: `stack` is emptied (drop_stack) before `_access_box` is dropped, see `finish`.
        let access: &'static B = unsafe { &*(&*access_box as *const B) };
        let mut stack = vec![];
        match catch(|| new_top::<T, B>(access, &mut stack)) {
            Ok(Ok(())) => {}
            _ => return None,
        }
        Some(Buf { name, access, stack, _access_box: access_box, levels: vec![vec![]], model: init, finished: false, panicked: false, dead: false })
    }
}

/// Execute one op line on a buffer BEFORE any swap: full C03 answer and gates, model kept in step.
fn pre_swap_line<T: Node + ?Sized, B: Backing>(
    b: &mut Buf<B>,
    shape: &Shape,
    rest: &str,
    fails: &mut Vec<(&'static str, String)>,
    deferred: &mut Vec<(&'static str, String)>,
) -> String {
    if b.finished || b.dead {
        return "dead".into();
    }
    if rest == "end" {
        let p = drop_stack(&mut b.stack);
        b.finished = true;
        return if p {
            fails.push(("panic", format!("{} end: dropping the accessors panicked although nothing was swapped", b.name)));
            "panic@drop".into()
        } else {
            "ok".into()
        };
    }
    let Some(ol) = parse_op(rest) else { return "bad-op".into() };
    let base = b.levels.last().unwrap().clone();
    let cap = b.access.cap();
    enum Plan {
        Enter(Step),
        Leave,
        Reborrow,
        Apply(model::MRes),
    }
    let plan = match &ol.op {
        Op::Enter(s) => {
            let mut m = b.model.clone();
            let ok = match nav(shape, &mut m, &base) {
                Nav::Found(sh, v) => !matches!(nav_step(sh, v, *s), Nav::Bad),
                _ => false,
            };
            if !ok {
                return "bad-op".into();
            }
            Plan::Enter(*s)
        }
        Op::Leave => {
            if b.levels.len() <= 1 {
                return "bad-op".into();
            }
            Plan::Leave
        }
        Op::Reborrow => Plan::Reborrow,
        op => {
            let mut abs = base.clone();
            abs.extend_from_slice(&ol.path);
            let r = model::apply(shape, &b.model, &abs, op, cap);
            if r.out == MOut::Bad {
                return "bad-op".into();
            }
            Plan::Apply(r)
        }
    };
    let len_before = b.access.len();
    let snap = b.access.snapshot();
    b.access.begin_op();
    start_trace();
    let access = b.access;
    let stack = &mut b.stack;
    let exec = catch(|| -> Out {
        match &plan {
            Plan::Enter(s) => match stack.last_mut().unwrap().enter(*s) {
                Ok(l) => {
                    stack.push(l);
                    Out::ok()
                }
                Err(o) => o,
            },
            Plan::Leave => {
                drop(stack.pop());
                Out::ok()
            }
            Plan::Reborrow => {
                while let Some(l) = stack.pop() {
                    drop(l);
                }
                match new_top::<T, B>(access, stack) {
                    Ok(()) => Out::ok(),
                    Err(c) => Out::Err(c),
                }
            }
            Plan::Apply(_) => stack.last_mut().unwrap().exec(&ol.path, &ol.op),
        }
    });
    let trace = take_trace(b.access.base_addr());
    {
        let rs: Vec<(usize, usize)> = trace.iter().filter_map(|a| if let Acc::Realloc { old, new, .. } = a { Some((*old, *new)) } else { None }).collect();
        b.access.note_trace(&rs);
    }
    let out = match exec {
        Ok(o) => o,
        Err(msg) => {
            fails.push(("panic", format!("{} {rest}: panicked before any swap: {msg}", b.name)));
            drop_stack(&mut b.stack);
            b.finished = true;
            return "panic".into();
        }
    };
    if out == Out::Bad {
        fails.push(("harness_badop_mismatch", format!("{} {rest}", b.name)));
        return "bad-op".into();
    }
    match (&plan, &out) {
        (Plan::Enter(s), Out::Ok(_)) => {
            let mut p = base.clone();
            p.push(*s);
            b.levels.push(p);
        }
        (Plan::Leave, _) => {
            b.levels.pop();
        }
        (Plan::Reborrow, _) => {
            b.levels.truncate(1);
            if b.stack.is_empty() {
                b.finished = true;
            }
        }
        (Plan::Apply(r), Out::Ok(_)) => {
            if let MOut::Ok(_) = r.out {
                b.model = r.new.clone();
            }
        }
        (Plan::Apply(r), Out::Err(_)) => {
            if r.known.is_some() && !b.access.limit_now() {
                b.dead = true;
            } else if r.kind != Kind::Atomic {
                // composite op failed part-way: follow the implementation's value
                if let Some(p) = r.partials.iter().find(|p| serialize::<T>(p).map(|x| x.0).ok() == Some(b.access.bytes())) {
                    b.model = p.clone();
                }
            }
        }
        _ => {}
    }
    let len_after = b.access.len();
    let frame = b.access.frame_ok(&snap, len_before.max(len_after));
    let oc = match &out {
        Out::Ok(_) => "ok".to_string(),
        Out::Err(c) => format!("err:{c}"),
        Out::Bad => unreachable!(),
    };
    if let Some((class, detail)) = check_trace(&trace, b.access, len_before, len_after, matches!(out, Out::Err(_))) {
        fails.push((class, format!("{} {rest}: {detail}", b.name)));
    } else if !frame {
        fails.push(("frame_modified", format!("{} {rest}", b.name)));
    }
    let mut rng = String::new();
    if matches!(plan, Plan::Reborrow) && matches!(out, Out::Ok(_)) {
        if let Some((txt, viol)) = top_range(&b.stack, b.access) {
            rng = txt;
            // not fatal for the case: what a wrong range MEANS for the property (an undetected swap, an
            // out-of-allocation access) is what the rest of the case is there to show; reported at the end
            // of the case if nothing else was
            if let Some((class, detail)) = viol {
                deferred.push((class, format!("{} {rest}: {detail}", b.name)));
            }
        }
    }
    format!("{oc} len={len_after} acc={} frame={}{rng}", acc_str(&trace), frame as u8)
}

/// Execute one op line on a buffer AFTER a swap: `panic` / `panic@drop` / `cont` / `bad-op` / `dead`.
fn post_swap_line<T: Node + ?Sized, B: Backing>(b: &mut Buf<B>, rest: &str) -> String {
    if b.finished {
        return "dead".into();
    }
    if rest == "end" {
        let p = drop_stack(&mut b.stack);
        b.finished = true;
        if p {
            b.panicked = true;
        }
        return if p { "panic@drop".into() } else { "cont".into() };
    }
    let Some(ol) = parse_op(rest) else { return "bad-op".into() };
    if matches!(ol.op, Op::Leave) && b.stack.len() <= 1 {
        return "bad-op".into();
    }
    let access = b.access;
    let stack = &mut b.stack;
    let mut drop_panicked = false;
    let exec = catch(|| -> Out {
        match &ol.op {
            Op::Enter(s) => match stack.last_mut().unwrap().enter(*s) {
                Ok(l) => {
                    stack.push(l);
                    Out::ok()
                }
                Err(o) => o,
            },
            Op::Leave => {
                drop(stack.pop());
                Out::ok()
            }
            Op::Reborrow => {
                // the drop of the old top is the end of a borrow: a panic there is `panic@drop`
                let mut old: Vec<Box<dyn Level>> = std::mem::take(stack);
                if drop_stack(&mut old) {
                    drop_panicked = true;
                    return Out::ok();
                }
                match new_top::<T, B>(access, stack) {
                    Ok(()) => Out::ok(),
                    Err(c) => Out::Err(c),
                }
            }
            op => stack.last_mut().unwrap().exec(&ol.path, op),
        }
    });
    if drop_panicked {
        b.finished = true;
        b.panicked = true;
        return "panic@drop".into();
    }
    match exec {
        Ok(Out::Bad) => "bad-op".into(),
        Ok(_) => {
            if b.stack.is_empty() {
                b.finished = true;
            }
            "cont".into()
        }
        Err(_) => {
            // detection by an op: the borrow cannot be used any more
            drop_stack(&mut b.stack);
            b.finished = true;
            b.panicked = true;
            "panic".into()
        }
    }
}

pub fn run_swap_case<T: Node + ?Sized, B: Backing>(header_line: &str, hdr: &Header, src: &mut dyn OpSource, cx: &mut Cx) -> CaseOut {
    cx.rec.case(header_line);
    cx.journal_case(header_line);
    let mut out = CaseOut { lines: vec![header_line.to_string()], ..Default::default() };
    let shape = T::shape();
    let parse_init = |t: &Option<crate::sexp::Tok>| t.as_ref().and_then(|t| Val::from_tok(&shape, t)).filter(|v| v.wf(&shape));
    let bufs = match (parse_init(&hdr.init), parse_init(&hdr.init_b)) {
        (Some(a), Some(b)) => match (serialize::<T>(&a), serialize::<T>(&b)) {
            (Ok((ba, _)), Ok((bb, _))) => match B::create_pair(&ba, &bb, hdr.end_aligned) {
                Some((xa, xb)) => Buf::<B>::make::<T>('A', a, xa).zip(Buf::<B>::make::<T>('B', b, xb)),
                None => None,
            },
            _ => None,
        },
        _ => None,
    };
    let dummy = Val::Rem(vec![]);
    let dummy_levels = [vec![]];
    let dummy_shape = Shape::Rem;
    let gv = |n: usize| GenView { shape: &dummy_shape, model: &dummy, levels: &dummy_levels, len: 0, cap: 0, ops_done: n };
    let Some((mut a, mut b)) = bufs else {
        let mut n = 0;
        while let Some(l) = src.next(&gv(n)) {
            cx.rec.op(&l, "bad-op");
            n += 1;
        }
        return out;
    };
    let mut swaps = 0u32;
    let mut fails: Vec<(&'static str, String)> = vec![];
    let mut deferred: Vec<(&'static str, String)> = vec![];
    for (name, viol) in [('A', top_range(&a.stack, a.access)), ('B', top_range(&b.stack, b.access))] {
        if let Some((_, Some((class, detail)))) = viol {
            deferred.push((class, format!("{name} first borrow: {detail}")));
        }
    }
    let mut n = 0usize;
    while let Some(line) = src.next(&gv(n)) {
        n += 1;
        out.lines.push(line.clone());
        cx.journal_line(&line);
        // after a swap a line may legitimately write into the OTHER buffer's owned bytes, but never into
        // the memory around either allocation
        let slack_snaps = if swaps > 0 { Some((a.access.snapshot(), b.access.snapshot())) } else { None };
        let ans: String = if let Some(rest) = line.strip_prefix("A ").or_else(|| line.strip_prefix("B ")) {
            let buf = if line.starts_with('A') { &mut a } else { &mut b };
            cx.rec.bump(if swaps == 0 { "swapcase:pre_swap_line" } else { "swapcase:post_swap_line" });
            if swaps == 0 {
                pre_swap_line::<T, B>(buf, &shape, rest, &mut fails, &mut deferred)
            } else {
                post_swap_line::<T, B>(buf, rest)
            }
        } else if let Some(rest) = line.strip_prefix("swap ") {
            let parts: Vec<&str> = rest.split(' ').collect();
            let paths = if parts.len() == 2 { parse_path(parts[0]).zip(parse_path(parts[1])) } else { None };
            match paths {
                Some((pa, pb)) if !a.finished && !b.finished && !a.dead && !b.dead => {
                    let stage = std::cell::Cell::new(0u8);
                    let r = catch(|| {
                        let ta = a.stack.last_mut().unwrap().ptr_at(&pa);
                        stage.set(1);
                        let tb = b.stack.last_mut().unwrap().ptr_at(&pb);
                        match (ta, tb) {
                            (Some(x), Some(y)) => x.swap_with(y.as_any_mut()),
                            _ => false,
                        }
                    });
                    match r {
                        Ok(true) => {
                            swaps += 1;
                            cx.rec.bump("swapcase:swap_ok");
                            "ok".into()
                        }
                        Ok(false) => "bad-op".into(),
                        Err(msg) => {
                            // taking the pointers (get_mut) panicked: only legitimate after an earlier swap
                            if swaps == 0 {
                                fails.push(("panic", format!("{line}: panicked before any swap: {msg}")));
                            }
                            // the buffer whose path was being resolved detected a foreign pointer: it is finished
                            let buf = if stage.get() == 0 { &mut a } else { &mut b };
                            drop_stack(&mut buf.stack);
                            buf.finished = true;
                            buf.panicked = true;
                            "panic".into()
                        }
                    }
                }
                _ => "bad-op".into(),
            }
        } else {
            "bad-op".into()
        };
        match ans.as_str() {
            "panic" | "panic@drop" => cx.rec.bump("swapcase:detected"),
            _ => {}
        }
        if let Some((sa, sb)) = &slack_snaps {
            if !a.access.slack_ok(sa) || !b.access.slack_ok(sb) {
                fails.push(("frame_modified", format!("`{line}` (after a swap) changed bytes in the memory around an allocation (neighbour-account image / canary)")));
            }
        }
        cx.rec.op(&line, &ans);
        if !fails.is_empty() {
            break;
        }
    }
    // lines after a harness-detected violation
    if !fails.is_empty() {
        while let Some(l) = src.next(&gv(n)) {
            n += 1;
            out.lines.push(l.clone());
            cx.rec.op(&l, "dead");
        }
    }
    // implicit end of both borrows
    for buf in [&mut a, &mut b] {
        if !buf.finished {
            if drop_stack(&mut buf.stack) {
                buf.panicked = true;
            }
            buf.finished = true;
        }
    }
    if fails.is_empty() && swaps == 1 {
        for buf in [&a, &b] {
            if !buf.panicked {
                fails.push((
                    "swap_not_detected",
                    format!("buffer {}'s exclusive borrow ended without a panic although it held a pointer object swapped in from the other buffer", buf.name),
                ));
                break;
            }
        }
    } else if swaps > 1 {
        cx.rec.bump("swapcase:multi_swap_no_verdict");
    }
    if let Some((class, detail)) = fails.first().or(deferred.first()) {
        cx.fail(class, detail);
        out.failed = true;
    }
    if swaps > 0 {
        cx.rec.mark_nontrivial();
    }
    cx.rec.sample_current(5);
    out
}
