//! The plain owned model (Vec / BTreeMap / BTreeSet / String / struct / enum semantics over `Val`):
//! the property oracle's reference. Independent of the code under test and of Lean.
use crate::ops::{Op, ARR_NS};
use crate::sexp::{le_num, max_count, nav, Nav, Shape, Step, Val};
use hx_common::hex;

#[derive(Debug, Clone, PartialEq, Eq)]
pub enum MOut {
    Bad,
    Ok(String),
    Err(&'static str),
}

/// How an op may legitimately fail part-way (C06).
#[derive(Debug, Clone, Copy, PartialEq, Eq)]
pub enum Kind {
    /// no byte can change (touch, uget, enter, …) or a single-container op: Err ⇒ nothing changed
    Atomic,
    /// Map/Set::insert_all: a sequence of single-container steps
    InsertAll,
    /// UnsizedString::set: clear, then push_all
    StrSet,
}

pub struct MRes {
    pub out: MOut,
    /// the root value after the op (== the old root unless `out` is Ok)
    pub new: Val,
    pub kind: Kind,
    /// acceptable root values after an Err of a composite op, other than "unchanged"
    pub partials: Vec<Val>,
    /// known-finding class when the model predicts an error that the code raises AFTER resizing
    pub known: Option<&'static str>,
}

const IOOB: &str = "IndexOutOfBounds";
const RANGE: &str = "InvalidRange";
const TOPRIM: &str = "ToPrimitiveError";
const REALLOC: &str = "InvalidRealloc";

fn find_key(keys: impl Iterator<Item = u128>, k: u128) -> Result<usize, usize> {
    let ks: Vec<u128> = keys.collect();
    ks.binary_search(&k)
}

struct NodeRes {
    out: MOut,
    kind: Kind,
    /// node values after each successful prefix step (composite ops)
    partial_nodes: Vec<Val>,
    /// (class, exact number of bytes the code grows the buffer by before the initialiser fails)
    known: Option<(&'static str, usize)>,
}
fn done(out: MOut) -> NodeRes {
    NodeRes { out, kind: Kind::Atomic, partial_nodes: vec![], known: None }
}
fn okr(r: impl Into<String>) -> NodeRes {
    done(MOut::Ok(r.into()))
}
fn ok() -> NodeRes {
    okr("-")
}
fn err(c: &'static str) -> NodeRes {
    done(MOut::Err(c))
}
fn bad() -> NodeRes {
    done(MOut::Bad)
}

/// Apply `op` to the node `(shape, v)`; on Ok `v` holds the new node value.
fn apply_node(shape: &Shape, v: &mut Val, op: &Op) -> NodeRes {
    // generic ops
    match op {
        Op::Touch => return ok(),
        Op::Replace(tok) => {
            let Some(nv) = Val::from_tok(shape, tok) else { return bad() };
            if !nv.wf(shape) {
                return bad();
            }
            *v = nv;
            return ok();
        }
        Op::Reset => {
            *v = shape.default_val();
            return ok();
        }
        _ => {}
    }
    match (shape, v, op) {
        // ---------------------------------------------------------------- fixed payload / struct prefix
        (s, Val::Fixed(b), Op::Write(nb)) if s.is_fixed() => {
            if !s.fixed_valid(nb) {
                return bad();
            }
            *b = nb.clone();
            ok()
        }
        (Shape::Struct(s, _), Val::Struct(b, _), Op::Write(nb)) => {
            if !s.fixed_valid(nb) {
                return bad();
            }
            *b = nb.clone();
            ok()
        }
        // ---------------------------------------------------------------- List
        (Shape::List(e, lw), Val::Seq(es), op) => {
            let max = max_count(*lw);
            match op {
                Op::Push(b) | Op::Insert(_, b) => {
                    if !e.fixed_valid(b) {
                        return bad();
                    }
                    let i = if let Op::Insert(i, _) = op { *i } else { es.len() };
                    if i > es.len() {
                        return err(IOOB);
                    }
                    if es.len() as u128 + 1 > max {
                        return err(TOPRIM);
                    }
                    es.insert(i, b.clone());
                    ok()
                }
                Op::InsertAll(i, bs) => {
                    if !bs.iter().all(|b| e.fixed_valid(b)) {
                        return bad();
                    }
                    if *i > es.len() {
                        return err(IOOB);
                    }
                    if (es.len() + bs.len()) as u128 > max {
                        return err(TOPRIM);
                    }
                    for (j, b) in bs.iter().enumerate() {
                        es.insert(i + j, b.clone());
                    }
                    ok()
                }
                Op::Remove(i) => {
                    if i + 1 > es.len() {
                        return err(IOOB);
                    }
                    es.remove(*i);
                    ok()
                }
                Op::RemoveRange(lo, hi) => {
                    if lo > hi {
                        return err(RANGE);
                    }
                    if *hi > es.len() {
                        return err(IOOB);
                    }
                    es.drain(lo..hi);
                    ok()
                }
                Op::Pop => {
                    if es.pop().is_some() {
                        okr("1")
                    } else {
                        okr("0")
                    }
                }
                Op::Clear => {
                    es.clear();
                    ok()
                }
                Op::Set(i, b) => {
                    if !e.fixed_valid(b) {
                        return bad();
                    }
                    if *i < es.len() {
                        es[*i] = b.clone();
                        okr("1")
                    } else {
                        okr("0")
                    }
                }
                _ => bad(),
            }
        }
        // ---------------------------------------------------------------- Set
        (Shape::Set(e, lw), Val::Seq(es), op) => {
            let max = max_count(*lw);
            let insert = |es: &mut Vec<Vec<u8>>, b: &Vec<u8>| -> Result<bool, &'static str> {
                match find_key(es.iter().map(|x| le_num(x)), le_num(b)) {
                    Ok(_) => Ok(false),
                    Err(pos) => {
                        if es.len() as u128 + 1 > max {
                            return Err(TOPRIM);
                        }
                        es.insert(pos, b.clone());
                        Ok(true)
                    }
                }
            };
            match op {
                Op::SInsert(b) => {
                    if !e.fixed_valid(b) {
                        return bad();
                    }
                    match insert(es, b) {
                        Ok(n) => okr(if n { "1" } else { "0" }),
                        Err(c) => err(c),
                    }
                }
                Op::SInsertAll(bs) => {
                    if !bs.iter().all(|b| e.fixed_valid(b)) {
                        return bad();
                    }
                    let mut partial_nodes = vec![];
                    let mut count = 0;
                    for b in bs {
                        match insert(es, b) {
                            Ok(n) => {
                                count += n as usize;
                                partial_nodes.push(Val::Seq(es.clone()));
                            }
                            Err(c) => return NodeRes { out: MOut::Err(c), kind: Kind::InsertAll, partial_nodes, known: None },
                        }
                    }
                    NodeRes { out: MOut::Ok(count.to_string()), kind: Kind::InsertAll, partial_nodes, known: None }
                }
                Op::SRemove(b) => {
                    if !e.fixed_valid(b) {
                        return bad();
                    }
                    match find_key(es.iter().map(|x| le_num(x)), le_num(b)) {
                        Ok(pos) => {
                            es.remove(pos);
                            okr("1")
                        }
                        Err(_) => okr("0"),
                    }
                }
                Op::Clear => {
                    es.clear();
                    ok()
                }
                _ => bad(),
            }
        }
        // ---------------------------------------------------------------- Map
        (Shape::Map(kw, vs, lw), Val::MapV(kvs), op) => {
            let max = max_count(*lw);
            let insert = |kvs: &mut Vec<(Vec<u8>, Vec<u8>)>, k: &Vec<u8>, b: &Vec<u8>| -> Result<Option<Vec<u8>>, &'static str> {
                match find_key(kvs.iter().map(|x| le_num(&x.0)), le_num(k)) {
                    Ok(pos) => Ok(Some(std::mem::replace(&mut kvs[pos].1, b.clone()))),
                    Err(pos) => {
                        if kvs.len() as u128 + 1 > max {
                            return Err(TOPRIM);
                        }
                        kvs.insert(pos, (k.clone(), b.clone()));
                        Ok(None)
                    }
                }
            };
            match op {
                Op::MInsert(k, b) => {
                    if k.len() != *kw || !vs.fixed_valid(b) {
                        return bad();
                    }
                    match insert(kvs, k, b) {
                        Ok(Some(old)) => okr(hex(&old)),
                        Ok(None) => okr("none"),
                        Err(c) => err(c),
                    }
                }
                Op::MInsertAll(items) => {
                    if !items.iter().all(|(k, b)| k.len() == *kw && vs.fixed_valid(b)) {
                        return bad();
                    }
                    let mut partial_nodes = vec![];
                    let mut count = 0;
                    for (k, b) in items {
                        match insert(kvs, k, b) {
                            Ok(old) => {
                                count += old.is_none() as usize;
                                partial_nodes.push(Val::MapV(kvs.clone()));
                            }
                            Err(c) => return NodeRes { out: MOut::Err(c), kind: Kind::InsertAll, partial_nodes, known: None },
                        }
                    }
                    NodeRes { out: MOut::Ok(count.to_string()), kind: Kind::InsertAll, partial_nodes, known: None }
                }
                Op::MRemove(k) => {
                    if k.len() != *kw {
                        return bad();
                    }
                    match find_key(kvs.iter().map(|x| le_num(&x.0)), le_num(k)) {
                        Ok(pos) => okr(hex(&kvs.remove(pos).1)),
                        Err(_) => okr("none"),
                    }
                }
                Op::MSet(k, b) => {
                    if k.len() != *kw || !vs.fixed_valid(b) {
                        return bad();
                    }
                    match find_key(kvs.iter().map(|x| le_num(&x.0)), le_num(k)) {
                        Ok(pos) => {
                            kvs[pos].1 = b.clone();
                            okr("1")
                        }
                        Err(_) => okr("0"),
                    }
                }
                Op::Clear => {
                    kvs.clear();
                    ok()
                }
                _ => bad(),
            }
        }
        // ---------------------------------------------------------------- String
        (Shape::Str(lw), Val::Seq(es), Op::StrSet(bytes)) => {
            if std::str::from_utf8(bytes).is_err() {
                return bad();
            }
            let partial_nodes = vec![Val::Seq(vec![])];
            if bytes.len() as u128 > max_count(*lw) {
                return NodeRes { out: MOut::Err(TOPRIM), kind: Kind::StrSet, partial_nodes, known: None };
            }
            *es = bytes.iter().map(|b| vec![*b]).collect();
            NodeRes { out: MOut::Ok("-".into()), kind: Kind::StrSet, partial_nodes, known: None }
        }
        // ---------------------------------------------------------------- RemainingBytes
        (Shape::Rem, Val::Rem(b), Op::SetLen(n)) => {
            // a length beyond any possible capacity: refuse here so the model never allocates it
            if *n > (1 << 26) {
                return err(REALLOC);
            }
            b.resize(*n, 0);
            ok()
        }
        (Shape::Rem, Val::Rem(b), Op::Set(i, x)) => {
            if x.len() != 1 {
                return bad();
            }
            if *i < b.len() {
                b[*i] = x[0];
                okr("1")
            } else {
                okr("0")
            }
        }
        // ---------------------------------------------------------------- UnsizedList
        (Shape::UList(e), Val::UList(vs), op) => match op {
            Op::UInsert(i, n) => {
                if *i > vs.len() {
                    return err(IOOB);
                }
                if *n > 4096 {
                    return err(REALLOC);
                }
                for _ in 0..*n {
                    vs.insert(*i, e.default_val());
                }
                ok()
            }
            Op::UInsertArr(i, bs) => {
                let Shape::List(ee, lw) = &**e else { return bad() };
                if !ARR_NS.contains(&bs.len()) || !bs.iter().all(|b| ee.fixed_valid(b)) {
                    return bad();
                }
                if *i > vs.len() {
                    return err(IOOB);
                }
                if bs.len() as u128 > max_count(*lw) {
                    return NodeRes {
                        out: MOut::Err(TOPRIM),
                        kind: Kind::Atomic,
                        partial_nodes: vec![],
                        known: Some(("ulist_insert_init_fails_after_resize", lw + bs.len() * ee.fixed_size() + 4)),
                    };
                }
                vs.insert(*i, Val::Seq(bs.clone()));
                ok()
            }
            Op::Remove(i) => {
                if i + 1 > vs.len() {
                    return err(IOOB);
                }
                vs.remove(*i);
                ok()
            }
            Op::RemoveRange(lo, hi) => {
                if *lo == 0 && *hi == vs.len() {
                    vs.clear();
                    return ok();
                }
                if lo > hi {
                    return err(RANGE);
                }
                if *hi > vs.len() {
                    return err(IOOB);
                }
                vs.drain(lo..hi);
                ok()
            }
            Op::Pop => {
                if vs.pop().is_some() {
                    okr("1")
                } else {
                    okr("0")
                }
            }
            Op::Clear => {
                vs.clear();
                ok()
            }
            Op::UGet(i) => okr(vs.get(*i).map(Val::print).unwrap_or("none".into())),
            Op::UTouch(i) => okr(if *i < vs.len() { "1" } else { "0" }),
            _ => bad(),
        },
        // ---------------------------------------------------------------- UnsizedMap
        (Shape::UMap(kw, e), Val::UMap(kvs), op) => match op {
            Op::UMInsert(k) => {
                if k.len() != *kw {
                    return bad();
                }
                match find_key(kvs.iter().map(|x| le_num(&x.0)), le_num(k)) {
                    Ok(pos) => {
                        kvs[pos].1 = e.default_val();
                        okr("0")
                    }
                    Err(pos) => {
                        kvs.insert(pos, (k.clone(), e.default_val()));
                        okr("1")
                    }
                }
            }
            Op::UMInsertArr(k, bs) => {
                let Shape::List(ee, lw) = &**e else { return bad() };
                if k.len() != *kw || !ARR_NS.contains(&bs.len()) || !bs.iter().all(|b| ee.fixed_valid(b)) {
                    return bad();
                }
                let found = find_key(kvs.iter().map(|x| le_num(&x.0)), le_num(k));
                if bs.len() as u128 > max_count(*lw) {
                    return NodeRes {
                        out: MOut::Err(TOPRIM),
                        kind: Kind::Atomic,
                        partial_nodes: vec![],
                        known: Some(match found {
                            Ok(pos) => {
                                let cur = kvs[pos].1.size(e);
                                ("set_data_inner_init_fails_after_resize", (lw + bs.len() * ee.fixed_size()).saturating_sub(cur))
                            }
                            Err(_) => ("ulist_insert_init_fails_after_resize", lw + bs.len() * ee.fixed_size() + 4 + kw),
                        }),
                    };
                }
                match found {
                    Ok(pos) => {
                        kvs[pos].1 = Val::Seq(bs.clone());
                        okr("0")
                    }
                    Err(pos) => {
                        kvs.insert(pos, (k.clone(), Val::Seq(bs.clone())));
                        okr("1")
                    }
                }
            }
            Op::UMRemove(k) => {
                if k.len() != *kw {
                    return bad();
                }
                match find_key(kvs.iter().map(|x| le_num(&x.0)), le_num(k)) {
                    Ok(pos) => {
                        kvs.remove(pos);
                        okr("1")
                    }
                    Err(_) => okr("0"),
                }
            }
            Op::Clear => {
                kvs.clear();
                ok()
            }
            Op::UGet(i) => okr(kvs.get(*i).map(|(k, v)| format!("({} {})", hex(k), v.print())).unwrap_or("none".into())),
            Op::UTouch(i) => okr(if *i < kvs.len() { "1" } else { "0" }),
            _ => bad(),
        },
        // ---------------------------------------------------------------- Enum
        (Shape::Enum(vars), v @ Val::Enum(..), Op::SetVariant(idx)) => {
            let Some((_, p)) = vars.get(*idx) else { return bad() };
            *v = Val::Enum(*idx, p.as_ref().map(|p| Box::new(p.default_val())));
            ok()
        }
        _ => bad(),
    }
}

/// Apply an op line (other than enter/leave/reborrow) addressed at `abs` = absolute path of the target
/// node. `cap` = orig + 10240.
pub fn apply(shape: &Shape, root: &Val, abs: &[Step], op: &Op, cap: usize) -> MRes {
    let mut new = root.clone();
    let same = |out: MOut| MRes { out, new: root.clone(), kind: Kind::Atomic, partials: vec![], known: None };
    let (nshape, node) = match nav(shape, &mut new, abs) {
        Nav::Found(s, v) => (s, v),
        Nav::IndexErr => return same(MOut::Err(IOOB)),
        Nav::Bad => return same(MOut::Bad),
    };
    let before_node = node.clone();
    let nr = apply_node(nshape, node, op);
    let old_size = root.size(shape);
    // partial roots for composite ops
    let mut partials = vec![];
    if !nr.partial_nodes.is_empty() {
        for pn in &nr.partial_nodes {
            let mut r = root.clone();
            if let Nav::Found(_, v) = nav(shape, &mut r, abs) {
                *v = pn.clone();
            }
            // a partial state beyond the growth limit is not reachable
            if r.size(shape) <= cap.max(old_size) {
                partials.push(r);
            }
        }
    }
    match nr.out {
        MOut::Ok(ret) => {
            let new_size = new.size(shape);
            if new_size > old_size && new_size > cap {
                // growth beyond the limit. For StrSet the clear has happened already (partial = empty).
                return MRes { out: MOut::Err(REALLOC), new: root.clone(), kind: nr.kind, partials, known: None };
            }
            let _ = before_node;
            MRes { out: MOut::Ok(ret), new, kind: nr.kind, partials, known: None }
        }
        MOut::Err(c) => {
            // known "init fails after resize" classes only fire if the resize itself is possible
            let mut known = None;
            let mut c = c;
            if let Some((class, growth)) = nr.known {
                if old_size + growth > cap {
                    c = REALLOC;
                } else {
                    known = Some(class);
                }
            }
            MRes { out: MOut::Err(c), new: root.clone(), kind: nr.kind, partials, known }
        }
        MOut::Bad => same(MOut::Bad),
    }
}
