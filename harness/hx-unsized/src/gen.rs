//! Generators of op lines: boundary-directed random histories, growth-limit scripts, exhaustive
//! short sequences over a small alphabet.
use crate::ops::{hexlist, kvhexlist, ARR_NS};
use crate::run::{GenView, OpSource};
use crate::sexp::{get_at, le_bytes, le_num, max_count, print_path, print_step, Shape, Step, Val};
use hx_common::{hex, Rng};

// ------------------------------------------------------------------------------------------------
// random values

pub fn gen_fixed(s: &Shape, r: &mut Rng) -> Vec<u8> {
    match s {
        Shape::Pod(n) => {
            // small numbers mostly (collisions in sets/maps), sometimes extremes
            match r.below(10) {
                0 => vec![0xff; *n],
                1 => vec![0; *n],
                _ => le_bytes(r.below(14) as u128, *n),
            }
        }
        Shape::Bool => vec![r.below(2) as u8],
        Shape::CEnum(k) => vec![r.below(*k as u64) as u8],
        Shape::Rec(fs) => fs.iter().flat_map(|f| gen_fixed(f, r)).collect(),
        _ => unreachable!(),
    }
}

/// Keys for sorted containers. For multi-byte keys most draws come from a pool on which the numeric
/// order (`K::Ord`) and the little-endian BYTE-lexicographic order DISAGREE (0x0001 / 0x0100, 0x00FF / 0x0100,
/// 0x01FF / 0x0200, equal high bytes with reversed low bytes, and the u32 / u64 analogues), so an
/// implementation that compares raw bytes stores, finds or removes the wrong entry.
fn gen_key(w: usize, r: &mut Rng) -> Vec<u8> {
    if w == 1 {
        return match r.below(12) {
            0 => vec![0xff],
            1 => vec![0],
            _ => vec![r.below(10) as u8 + 1],
        };
    }
    const POOL16: [u128; 14] = [0x0001, 0x0100, 0x00ff, 0x0101, 0x01ff, 0x0200, 0x0201, 0x0102, 0x0002, 0x0300, 0xff00, 0x00fe, 0x1000, 0x0010];
    let bits = 8 * w as u32;
    match r.below(16) {
        0 => vec![0xff; w],
        1 => vec![0; w],
        2 => le_bytes(255, w),
        3..=4 => le_bytes(r.below(10) as u128 + 1, w),
        5..=11 => le_bytes(POOL16[r.below(14) as usize], w),
        12..=13 => {
            // one set bit / byte boundary in a random byte position (the u32 / u64 analogues)
            let sh = 8 * r.below(w as u64) as u32;
            let v: u128 = match r.below(4) {
                0 => 1u128 << sh,
                1 => (1u128 << sh).wrapping_sub(1),
                2 => (1u128 << sh) | 1,
                _ => 0xffu128 << sh,
            };
            le_bytes(v & ((1u128 << bits) - 1), w)
        }
        _ => {
            // same high part, low bytes reversed: 0x..0102 vs 0x..0201
            let hi = (r.below(3) as u128) << (bits - 8);
            le_bytes(hi | if r.chance(1, 2) { 0x0102 } else { 0x0201 }, w)
        }
    }
}

const TEXT: &str = "héllo wörld ✓ abc";
fn gen_text(r: &mut Rng, max_chars: usize) -> Vec<u8> {
    let n = r.below(max_chars as u64 + 1) as usize;
    let skip = r.below(4) as usize;
    TEXT.chars().skip(skip).take(n).collect::<String>().into_bytes()
}

pub fn gen_val(s: &Shape, r: &mut Rng, depth: usize) -> Val {
    let small = |r: &mut Rng| -> usize {
        if depth >= 3 {
            r.below(2) as usize
        } else {
            r.below(4) as usize
        }
    };
    match s {
        Shape::Pod(_) | Shape::Bool | Shape::CEnum(_) | Shape::Rec(_) => Val::Fixed(gen_fixed(s, r)),
        Shape::List(e, _) => Val::Seq((0..small(r)).map(|_| gen_fixed(e, r)).collect()),
        Shape::Set(e, _) => {
            let mut ks: Vec<Vec<u8>> = (0..small(r)).map(|_| gen_key(e.fixed_size(), r)).collect();
            ks.sort_by_key(|k| le_num(k));
            ks.dedup();
            Val::Seq(ks)
        }
        Shape::Map(kw, v, _) => {
            let mut ks: Vec<Vec<u8>> = (0..small(r)).map(|_| gen_key(*kw, r)).collect();
            ks.sort_by_key(|k| le_num(k));
            ks.dedup();
            Val::MapV(ks.into_iter().map(|k| (k, gen_fixed(v, r))).collect())
        }
        Shape::Str(_) => Val::Seq(gen_text(r, 6).into_iter().map(|b| vec![b]).collect()),
        Shape::Rem => {
            let n = r.below(6) as usize;
            Val::Rem(r.bytes(n))
        }
        Shape::UList(e) => Val::UList((0..small(r)).map(|_| gen_val(e, r, depth + 1)).collect()),
        Shape::UMap(kw, e) => {
            let mut ks: Vec<Vec<u8>> = (0..small(r)).map(|_| gen_key(*kw, r)).collect();
            ks.sort_by_key(|k| le_num(k));
            ks.dedup();
            Val::UMap(ks.into_iter().map(|k| (k, gen_val(e, r, depth + 1))).collect())
        }
        Shape::Struct(sz, fs) => Val::Struct(gen_fixed(sz, r), fs.iter().map(|f| gen_val(f, r, depth + 1)).collect()),
        Shape::Enum(vars) => {
            let i = r.below(vars.len() as u64) as usize;
            Val::Enum(i, vars[i].1.as_ref().map(|p| Box::new(gen_val(p, r, depth + 1))))
        }
    }
}

/// index choice biased to the boundaries 0 / len-1 / len / len+1
fn idx(r: &mut Rng, len: usize) -> usize {
    match r.below(10) {
        0 | 1 => 0,
        2 | 3 => len,
        4 => len + 1,
        5 => len.saturating_sub(1),
        _ => r.below(len as u64 + 1) as usize,
    }
}
/// key biased to: below the smallest, equal to an existing one, above the largest, extremes
fn key_near(r: &mut Rng, w: usize, existing: &[&Vec<u8>]) -> Vec<u8> {
    let maxv = max_count(w);
    if !existing.is_empty() && r.chance(1, 2) {
        let k = le_num(existing[r.below(existing.len() as u64) as usize]);
        return match r.below(5) {
            0 if k > 0 => le_bytes(k - 1, w),
            1 if k < maxv => le_bytes(k + 1, w),
            _ => le_bytes(k, w),
        };
    }
    gen_key(w, r)
}

// ------------------------------------------------------------------------------------------------
// random op on a node

/// one op line (without path) for the node `(shape, val)`, or None if nothing sensible
fn gen_node_op(shape: &Shape, val: &Val, r: &mut Rng, room: usize) -> Option<(String, String)> {
    // returns (name, args-after-path)
    let generic = r.below(100);
    if generic < 5 && !shape.is_fixed() {
        return Some(("replace".into(), gen_val(shape, r, 2).print()));
    }
    if generic < 7 && !shape.is_fixed() {
        return Some(("reset".into(), String::new()));
    }
    if generic < 9 {
        return Some(("touch".into(), String::new()));
    }
    let p = |a: &str, b: String| Some((a.to_string(), b));
    match (shape, val) {
        (s, Val::Fixed(_)) if s.is_fixed() => p("write", hex(&gen_fixed(s, r))),
        (Shape::List(e, lw), Val::Seq(es)) => {
            let len = es.len();
            match r.below(100) {
                0..=24 => p("push", hex(&gen_fixed(e, r))),
                25..=44 => p("insert", format!("{} {}", idx(r, len), hex(&gen_fixed(e, r)))),
                45..=54 => {
                    let mut n = r.below(5) as usize;
                    if *lw == 1 && r.chance(1, 4) {
                        // fill the u8 prefix exactly / one past
                        n = (255usize.saturating_sub(len)) + r.below(2) as usize;
                    }
                    let n = n.min(room / e.fixed_size().max(1) + 2);
                    let items: Vec<Vec<u8>> = (0..n).map(|_| gen_fixed(e, r)).collect();
                    p("insert_all", format!("{} {}", idx(r, len), hexlist(&items)))
                }
                55..=66 => p("remove", format!("{}", idx(r, len))),
                67..=74 => {
                    let a = idx(r, len);
                    let b = idx(r, len);
                    let (lo, hi) = if r.chance(1, 8) { (a.max(b), a.min(b)) } else { (a.min(b), a.max(b)) };
                    p("remove_range", format!("{lo} {hi}"))
                }
                75..=80 => p("pop", String::new()),
                81..=84 => p("clear", String::new()),
                _ => p("set", format!("{} {}", idx(r, len), hex(&gen_fixed(e, r)))),
            }
        }
        (Shape::Set(e, lw), Val::Seq(es)) => {
            let w = e.fixed_size();
            let ex: Vec<&Vec<u8>> = es.iter().collect();
            match r.below(100) {
                0..=44 => p("sinsert", hex(&key_near(r, w, &ex))),
                45..=69 => p("sremove", hex(&key_near(r, w, &ex))),
                70..=89 => {
                    let mut n = r.below(5) as usize;
                    if *lw == 1 && w == 1 && r.chance(1, 6) {
                        n = 256;
                    }
                    let items: Vec<Vec<u8>> = if n == 256 {
                        (0..256u32).map(|i| le_bytes(((i * 7) % 256) as u128, 1)).collect()
                    } else {
                        (0..n).map(|_| key_near(r, w, &ex)).collect()
                    };
                    p("sinsert_all", hexlist(&items))
                }
                _ => p("clear", String::new()),
            }
        }
        (Shape::Map(kw, v, lw), Val::MapV(kvs)) => {
            let ex: Vec<&Vec<u8>> = kvs.iter().map(|x| &x.0).collect();
            match r.below(100) {
                0..=39 => p("minsert", format!("{} {}", hex(&key_near(r, *kw, &ex)), hex(&gen_fixed(v, r)))),
                40..=57 => p("mremove", hex(&key_near(r, *kw, &ex))),
                58..=69 => p("mset", format!("{} {}", hex(&key_near(r, *kw, &ex)), hex(&gen_fixed(v, r)))),
                70..=92 => {
                    let mut n = r.below(5) as usize;
                    if *lw == 1 && *kw == 1 && r.chance(1, 6) {
                        n = 256;
                    }
                    let items: Vec<(Vec<u8>, Vec<u8>)> = if n == 256 {
                        (0..256u32).map(|i| (le_bytes(((i * 11) % 256) as u128, 1), gen_fixed(v, r))).collect()
                    } else {
                        (0..n).map(|_| (key_near(r, *kw, &ex), gen_fixed(v, r))).collect()
                    };
                    p("minsert_all", kvhexlist(&items))
                }
                _ => p("clear", String::new()),
            }
        }
        (Shape::Str(lw), Val::Seq(_)) => {
            let mut t = gen_text(r, 9);
            if *lw == 1 && r.chance(1, 8) {
                t = vec![b'a'; 255 + r.below(2) as usize];
            }
            p("str_set", hex(&t))
        }
        (Shape::Rem, Val::Rem(b)) => {
            let len = b.len();
            match r.below(100) {
                0..=64 => {
                    let n = match r.below(8) {
                        0 => 0,
                        1 => len + 1,
                        2 => len.saturating_sub(1),
                        3 => len + room,
                        4 => len + room + 1,
                        _ => r.below(40) as usize,
                    };
                    p("set_len", format!("{n}"))
                }
                _ => p("set", format!("{} {}", idx(r, len), hex(&[r.next() as u8]))),
            }
        }
        (Shape::UList(e), Val::UList(vs)) => {
            let len = vs.len();
            let is_list = matches!(**e, Shape::List(..));
            match r.below(100) {
                0..=27 => {
                    let n = match r.below(8) {
                        0 => 0,
                        1 => 2,
                        2 => 3,
                        _ => 1,
                    };
                    p("uinsert", format!("{} {n}", idx(r, len)))
                }
                28..=41 if is_list => {
                    let Shape::List(ee, _) = &**e else { unreachable!() };
                    let n = match r.below(30) {
                        0 => 255,
                        1 => 256,
                        2 => 300,
                        3 => 7, // unsupported N: bad-op
                        _ => ARR_NS[r.below(7) as usize],
                    };
                    let items: Vec<Vec<u8>> = (0..n).map(|_| gen_fixed(ee, r)).collect();
                    p("uinsert_arr", format!("{} {}", idx(r, len), hexlist(&items)))
                }
                28..=55 => p("remove", format!("{}", idx(r, len))),
                56..=63 => {
                    let a = idx(r, len);
                    let b = idx(r, len);
                    let (lo, hi) = if r.chance(1, 8) { (a.max(b), a.min(b)) } else { (a.min(b), a.max(b)) };
                    p("remove_range", format!("{lo} {hi}"))
                }
                64..=68 => p("pop", String::new()),
                69..=71 => p("clear", String::new()),
                72..=79 => p("uget", format!("{}", idx(r, len))),
                _ => p("utouch", format!("{}", idx(r, len))),
            }
        }
        (Shape::UMap(kw, e), Val::UMap(kvs)) => {
            let len = kvs.len();
            let ex: Vec<&Vec<u8>> = kvs.iter().map(|x| &x.0).collect();
            let is_list = matches!(**e, Shape::List(..));
            match r.below(100) {
                0..=34 => p("uminsert", hex(&key_near(r, *kw, &ex))),
                35..=46 if is_list => {
                    let Shape::List(ee, _) = &**e else { unreachable!() };
                    let n = match r.below(30) {
                        0 => 255,
                        1 => 256,
                        2 => 300,
                        _ => ARR_NS[r.below(7) as usize],
                    };
                    let items: Vec<Vec<u8>> = (0..n).map(|_| gen_fixed(ee, r)).collect();
                    p("uminsert_arr", format!("{} {}", hex(&key_near(r, *kw, &ex)), hexlist(&items)))
                }
                35..=64 => p("umremove", hex(&key_near(r, *kw, &ex))),
                65..=67 => p("clear", String::new()),
                68..=79 => p("uget", format!("{}", idx(r, len))),
                _ => p("utouch", format!("{}", idx(r, len))),
            }
        }
        (Shape::Struct(sz, _), Val::Struct(..)) => p("write", hex(&gen_fixed(sz, r))),
        (Shape::Enum(vars), Val::Enum(..)) => {
            let i = if r.chance(1, 20) { vars.len() } else { r.below(vars.len() as u64) as usize };
            p("set_variant", format!("{i}"))
        }
        _ => None,
    }
}

/// possible child steps of a node (for descending), with a flag "may be out of bounds on purpose"
fn child_steps(shape: &Shape, val: &Val, r: &mut Rng) -> Vec<Step> {
    match (shape, val) {
        (Shape::Struct(_, fs), _) => (0..fs.len()).map(Step::Field).collect(),
        (Shape::UList(_), Val::UList(vs)) => {
            let mut v: Vec<Step> = vec![];
            if !vs.is_empty() {
                v.push(Step::Elem(0));
                v.push(Step::Elem(vs.len() - 1));
                v.push(Step::Elem(r.below(vs.len() as u64) as usize));
            }
            v
        }
        (Shape::UMap(..), Val::UMap(kvs)) => {
            let mut v: Vec<Step> = vec![];
            if !kvs.is_empty() {
                v.push(Step::Elem(0));
                v.push(Step::Elem(kvs.len() - 1));
                v.push(Step::Elem(r.below(kvs.len() as u64) as usize));
            }
            v
        }
        (Shape::Enum(_), Val::Enum(_, Some(_))) => vec![Step::Variant],
        _ => vec![],
    }
}

pub struct RandGen {
    pub rng: Rng,
    pub max_ops: usize,
    closing: u8,
    /// percentage of `enter` lines (9 = normal, 25 = histories with many simultaneously live accessors)
    pub scope_pct: u64,
    /// favour a fixed "hot" field/element for a while, then switch (alternation between siblings)
    hot: Vec<Step>,
    /// (absolute container path, index) of the last `utouch`: re-accessed through the `*_mut` paths after
    /// later structural edits (a cached element pointer must not survive them)
    last_mut: Option<(Vec<Step>, usize)>,
}

impl RandGen {
    pub fn new(rng: Rng, max_ops: usize) -> RandGen {
        RandGen { rng, max_ops, closing: 0, scope_pct: 9, hot: vec![], last_mut: None }
    }
}

impl OpSource for RandGen {
    fn next(&mut self, v: &GenView) -> Option<String> {
        if v.ops_done >= self.max_ops {
            // close: one reborrow (drop check + fresh top accessor), then stop
            self.closing += 1;
            return if self.closing == 1 { Some("reborrow".into()) } else { None };
        }
        let r = &mut self.rng;
        let base = v.levels.last().unwrap();
        let Some((bshape, bval)) = get_at(v.shape, v.model, base) else { return Some("reborrow".into()) };
        let room = v.cap.saturating_sub(v.len);
        let roll = r.below(100);
        // scope ops
        // re-access the element index last taken with get_mut (or its neighbours) from the same level
        if let Some((abs, i)) = self.last_mut.clone() {
            if abs.starts_with(base) && r.chance(1, 7) {
                let rel = &abs[base.len()..];
                let j = match r.below(4) {
                    0 => i + 1,
                    1 => i.saturating_sub(1),
                    _ => i,
                };
                return Some(format!("utouch {} {j}", print_path(rel)));
            }
        }
        let sp = self.scope_pct;
        if roll < sp {
            let mut steps = child_steps(bshape, bval, r);
            if r.chance(1, 10) {
                steps.push(Step::Elem(99)); // out of bounds / inapplicable on purpose
            }
            if !steps.is_empty() {
                let s = steps[r.below(steps.len() as u64) as usize];
                return Some(format!("enter {}", print_step(s)));
            }
        }
        if roll < sp + 9 && v.levels.len() > 1 {
            return Some("leave".into());
        }
        if roll == sp + 9 && r.chance(1, 8) {
            return Some("leave".into()); // possibly bad-op at depth 0
        }
        if roll == sp + 10 {
            return Some("reborrow".into());
        }
        // pick a target below the innermost level
        let mut path: Vec<Step> = vec![];
        let (mut sh, mut va) = (bshape, bval);
        let mut use_hot = !self.hot.is_empty() && r.chance(3, 5);
        if r.chance(1, 12) {
            self.hot.clear();
        }
        for depth in 0..6 {
            let steps = child_steps(sh, va, r);
            if steps.is_empty() {
                break;
            }
            let descend = match sh {
                Shape::Struct(..) => r.chance(9, 10),
                Shape::Enum(..) => r.chance(3, 5),
                _ => r.chance(1, 2),
            };
            if !descend {
                break;
            }
            let mut s = steps[r.below(steps.len() as u64) as usize];
            if use_hot {
                if let Some(h) = self.hot.get(depth) {
                    if steps.contains(h) || matches!(h, Step::Elem(_)) {
                        s = *h;
                    }
                } else {
                    use_hot = false;
                }
            }
            let mut p2 = path.clone();
            p2.push(s);
            match get_at(sh, va, &[s]) {
                Some((s2, v2)) => {
                    path = p2;
                    sh = s2;
                    va = v2;
                }
                None => {
                    // stale hot step (element vanished): use it anyway sometimes (IndexOutOfBounds path)
                    if r.chance(1, 3) {
                        path = p2;
                        let line = format!("touch {}", print_path(&path));
                        return Some(line);
                    }
                    break;
                }
            }
        }
        if self.hot.is_empty() && !path.is_empty() {
            self.hot = path.clone();
        }
        // rarely: an op of the wrong kind (bad-op)
        if r.chance(1, 60) {
            return Some(format!("push {} 01020304050607", print_path(&path)));
        }
        match gen_node_op(sh, va, r, room) {
            Some((name, args)) => {
                if name == "utouch" {
                    if let Ok(i) = args.parse::<usize>() {
                        let mut abs = base.clone();
                        abs.extend_from_slice(&path);
                        self.last_mut = Some((abs, i));
                    }
                }
                if args.is_empty() {
                    Some(format!("{name} {}", print_path(&path)))
                } else {
                    Some(format!("{name} {} {args}", print_path(&path)))
                }
            }
            None => Some(format!("touch {}", print_path(&path))),
        }
    }
}

// ------------------------------------------------------------------------------------------------
// growth to exactly orig + 10240 and one past

/// Script: grow one byte-container (given by path) to exactly the limit, try one more, shrink, reborrow.
pub struct LimitGen {
    pub path: Vec<Step>,
    pub step: usize,
    /// first grow to limit-1, then +1 (exactly the limit), then +1 (refused)
    pub two_phase: bool,
    /// do NOT re-create the top accessor after the refused growth: the same wrapper keeps being used
    pub keep_wrapper: bool,
}

impl OpSource for LimitGen {
    fn next(&mut self, v: &GenView) -> Option<String> {
        let (sh, va) = get_at(v.shape, v.model, &self.path)?;
        let room = v.cap - v.len;
        let p = print_path(&self.path);
        self.step += 1;
        let grow = |n: usize| -> Option<String> {
            match (sh, va) {
                (Shape::Rem, Val::Rem(b)) => Some(format!("set_len {p} {}", b.len() + n)),
                (Shape::List(e, _), Val::Seq(es)) if e.fixed_size() == 1 => {
                    let items: Vec<Vec<u8>> = (0..n).map(|i| vec![(i % 251) as u8]).collect();
                    Some(format!("insert_all {p} {} {}", es.len() / 2, hexlist(&items)))
                }
                _ => None,
            }
        };
        let shrink_one = || -> Option<String> {
            match (sh, va) {
                (Shape::Rem, Val::Rem(b)) => Some(format!("set_len {p} {}", b.len().saturating_sub(1))),
                _ => Some(format!("remove {p} 0")),
            }
        };
        match self.step {
            1 => {
                if self.two_phase {
                    grow(room - 1)
                } else {
                    grow(room)
                }
            }
            2 => {
                if self.two_phase {
                    grow(1)
                } else {
                    Some("touch .".into())
                }
            }
            3 => grow(1), // one past: InvalidRealloc
            4 => Some(if self.keep_wrapper { "touch .".into() } else { "reborrow".into() }),
            // continued use of the same accessor after the refused growth: every later op is compared
            5 => grow(1), // still refused (at the limit)
            6 => match (sh, va) {
                (Shape::Rem, Val::Rem(b)) => Some(format!("set_len {p} {}", b.len().saturating_sub(1))),
                _ => Some(format!("pop {p}")),
            },
            7 => grow(1), // fits again
            8 => shrink_one(),
            9 => match (sh, va) {
                (Shape::Rem, _) => Some(format!("set_len {p} 3")),
                _ => Some(format!("remove_range {p} 1 5000")),
            },
            10 => grow(7),
            11 => shrink_one(),
            12 => Some("reborrow".into()),
            _ => None,
        }
    }
}

// ------------------------------------------------------------------------------------------------
// exhaustive short sequences

/// all sequences of length `n` over `alphabet`
pub fn sequences(alphabet: &[&str], n: usize) -> Vec<Vec<String>> {
    let mut out: Vec<Vec<String>> = vec![vec![]];
    for _ in 0..n {
        let mut next = Vec::with_capacity(out.len() * alphabet.len());
        for s in &out {
            for a in alphabet {
                let mut t = s.clone();
                t.push(a.to_string());
                next.push(t);
            }
        }
        out = next;
    }
    out
}


/// One op that fills a byte container up to `delta` bytes below the growth limit, then a random history
/// on the SAME accessor (growth refusals followed by continued use).
pub struct NearLimit {
    pub path: Vec<Step>,
    pub delta: usize,
    pub done: bool,
    pub inner: RandGen,
}

impl OpSource for NearLimit {
    fn next(&mut self, v: &GenView) -> Option<String> {
        if !self.done {
            self.done = true;
            if let Some((sh, va)) = get_at(v.shape, v.model, &self.path) {
                let room = (v.cap - v.len).saturating_sub(self.delta);
                let p = print_path(&self.path);
                match (sh, va) {
                    (Shape::Rem, Val::Rem(b)) => return Some(format!("set_len {p} {}", b.len() + room)),
                    (Shape::List(e, _), Val::Seq(es)) if e.fixed_size() == 1 => {
                        let items: Vec<Vec<u8>> = (0..room).map(|i| vec![(i % 251) as u8]).collect();
                        return Some(format!("insert_all {p} {} {}", es.len() / 2, hexlist(&items)));
                    }
                    _ => {}
                }
            }
        }
        // no scope changes that re-create the top accessor too early: RandGen's own `reborrow`s are rare
        self.inner.next(v)
    }
}

// ------------------------------------------------------------------------------------------------
// resize histories across several exclusive borrows (C03, account backing)

/// op line growing the byte container at `path` by `n` bytes (`None` if it is not a byte container)
pub fn grow_line(shape: &Shape, model: &Val, path: &[Step], n: usize) -> Option<String> {
    let (sh, va) = get_at(shape, model, path)?;
    let p = print_path(path);
    match (sh, va) {
        (Shape::Rem, Val::Rem(b)) => Some(format!("set_len {p} {}", b.len() + n)),
        (Shape::List(e, _), Val::Seq(es)) if e.fixed_size() == 1 => {
            let items: Vec<Vec<u8>> = (0..n).map(|i| vec![(i % 251) as u8]).collect();
            Some(format!("insert_all {p} {} {}", es.len() / 2, hexlist(&items)))
        }
        _ => None,
    }
}

/// op line shrinking the byte container at `path` by (up to) `n` bytes
pub fn shrink_line(shape: &Shape, model: &Val, path: &[Step], n: usize) -> Option<String> {
    let (sh, va) = get_at(shape, model, path)?;
    let p = print_path(path);
    match (sh, va) {
        (Shape::Rem, Val::Rem(b)) => Some(format!("set_len {p} {}", b.len().saturating_sub(n))),
        (Shape::List(e, _), Val::Seq(es)) if e.fixed_size() == 1 => {
            let n = n.min(es.len());
            let lo = (es.len() - n) / 2;
            Some(format!("remove_range {p} {lo} {}", lo + n))
        }
        _ => None,
    }
}

/// Grow / shrink one byte container by random amounts, ENDING THE EXCLUSIVE BORROW (`reborrow`) after
/// every resize — `resize_delta` is positive, zero and negative at the moments a new top wrapper is made —
/// with a few random ops in between.
pub struct BorrowHistory {
    pub path: Vec<Step>,
    pub rng: Rng,
    pub rounds: usize,
    pub step: usize,
    pub inner: RandGen,
}

impl OpSource for BorrowHistory {
    fn next(&mut self, v: &GenView) -> Option<String> {
        let round = self.step / 3;
        let phase = self.step % 3;
        self.step += 1;
        if round >= self.rounds {
            return None;
        }
        match phase {
            0 => {
                let room = v.cap.saturating_sub(v.len);
                let grown = v.len + crate::access::MAX_INCREASE > v.cap; // len > orig
                let r = &mut self.rng;
                let line = if round % 2 == 0 || !grown {
                    let n = match r.below(5) {
                        0 => room,
                        1 => room.min(1),
                        2 => room / 2,
                        _ => r.below(room.min(3000) as u64 + 1) as usize,
                    };
                    grow_line(v.shape, v.model, &self.path, n)
                } else {
                    let n = match r.below(4) {
                        0 => 1,
                        1 => 100_000, // everything
                        _ => r.below(6000) as usize,
                    };
                    shrink_line(v.shape, v.model, &self.path, n)
                };
                Some(line.unwrap_or_else(|| "touch .".into()))
            }
            1 => Some("reborrow".into()),
            _ => {
                let l = self.inner.next(v).unwrap_or_else(|| "touch .".into());
                Some(l)
            }
        }
    }
}

/// `grow`, `reborrow`, then a random history (scratch histories of the account-pair swap cases)
pub struct GrowThen {
    pub path: Vec<Step>,
    pub grow: usize,
    pub step: usize,
    pub inner: RandGen,
}

impl OpSource for GrowThen {
    fn next(&mut self, v: &GenView) -> Option<String> {
        self.step += 1;
        match self.step {
            1 => Some(grow_line(v.shape, v.model, &self.path, self.grow).unwrap_or_else(|| "touch .".into())),
            2 => Some("reborrow".into()),
            _ => self.inner.next(v),
        }
    }
}


// ------------------------------------------------------------------------------------------------
// "address coincidence": after get_mut(c) filled the list's element-pointer cache, insert elements before
// it whose total byte size equals the size of the element in front, so that this element slides exactly
// onto the cached address; then re-access through the `*_mut` paths. An address is not an element identity.

/// a value of `shape` whose encoding has exactly `size` bytes (search over simple candidates)
fn val_of_size(shape: &Shape, size: usize, r: &mut Rng) -> Option<Val> {
    let fixed = |e: &Shape, i: usize| -> Vec<u8> { le_bytes(i as u128 + 1, e.fixed_size()) };
    let direct = match shape {
        Shape::List(e, lw) | Shape::Set(e, lw) => {
            let body = size.checked_sub(*lw)?;
            if body % e.fixed_size() != 0 {
                return None;
            }
            Some(Val::Seq((0..body / e.fixed_size()).map(|i| fixed(e, i)).collect()))
        }
        Shape::Str(lw) => Some(Val::Seq((0..size.checked_sub(*lw)?).map(|i| vec![b'a' + (i % 26) as u8]).collect())),
        Shape::Map(kw, v, lw) => {
            let body = size.checked_sub(*lw)?;
            let per = kw + v.fixed_size();
            if body % per != 0 {
                return None;
            }
            Some(Val::MapV((0..body / per).map(|i| (le_bytes(i as u128 + 1, *kw), vec![i as u8; v.fixed_size()])).collect()))
        }
        _ => None,
    };
    if let Some(v) = direct {
        return if v.wf(shape) && v.size(shape) == size { Some(v) } else { None };
    }
    for _ in 0..400 {
        let v = gen_val(shape, r, 1);
        if v.size(shape) == size {
            return Some(v);
        }
    }
    None
}

/// For a container shape (`ulist` / `umap`) build (initial container value, op lines relative to `path`).
/// `variant` selects the flavour (insert at 0 / in the middle, n = 1 / 2, with a live level, remove first).
pub fn coincidence_case(cont: &Shape, path: &[Step], variant: usize, r: &mut Rng) -> Option<(Val, Vec<String>)> {
    let p = print_path(path);
    let (elem, entry, kw) = match cont {
        Shape::UList(e) => (&**e, 4usize, 0usize),
        Shape::UMap(kw, e) => (&**e, 4 + *kw, *kw),
        _ => return None,
    };
    let dsize = elem.default_val().size(elem);
    let unit = entry + dsize;
    let n = if kw == 0 { 1 + variant % 2 } else { 1 };
    // X will slide onto Y's address; Y has a different length
    let x = val_of_size(elem, n * unit, r)?;
    let mut y = None;
    for d in [1usize, 2, 3, 5] {
        for cand in [(n * unit).checked_sub(d), Some(n * unit + d)].into_iter().flatten() {
            if y.is_none() {
                y = val_of_size(elem, cand, r).filter(|v| *v != x);
            }
        }
    }
    let y = y?;
    let z = val_of_size(elem, dsize + 1, r).or_else(|| Some(elem.default_val()))?;
    let lead = variant / 2 % 2 == 1; // an extra element in front, insertion in the middle
    let mut lines = vec![];
    let (init, xi) = if kw == 0 {
        let mut els = vec![];
        if lead {
            els.push(z.clone());
        }
        els.push(x.clone());
        els.push(y.clone());
        (Val::UList(els), if lead { 1 } else { 0 })
    } else {
        // keys leave room below for the inserted ones
        let mut els = vec![];
        if lead {
            els.push((le_bytes(0x10, kw), z.clone()));
        }
        els.push((le_bytes(0x20, kw), x.clone()));
        els.push((le_bytes(0x30, kw), y.clone()));
        (Val::UMap(els), if lead { 1 } else { 0 })
    };
    let yi = xi + 1;
    let live = variant / 4 % 2 == 1 && !path.is_empty();
    let q = if live { ".".to_string() } else { p.clone() };
    if live {
        for st in path {
            lines.push(format!("enter {}", print_step(*st)));
        }
    }
    lines.push(format!("utouch {q} {yi}")); // fills the cache with Y
    if kw == 0 {
        lines.push(format!("uinsert {q} {xi} {n}"));
    } else {
        // a new key just below X's key lands at X's position
        lines.push(format!("uminsert {q} {}", hex(&le_bytes(0x1f, kw))));
    }
    let now_x = xi + n;
    lines.push(format!("utouch {q} {now_x}")); // X now starts where Y started
    lines.push(format!("uget {q} {now_x}"));
    lines.push(format!("utouch {q} {}", now_x + 1)); // Y itself
    lines.push(format!("utouch {q} {xi}")); // a fresh default element
    lines.push(format!("touch {}{}", if q == "." { String::new() } else { format!("{q}.") }, print_step(Step::Elem(now_x))));
    lines.push(format!("utouch {q} {now_x}"));
    // and the other direction: remove what was inserted (the cache is dropped by removals), re-access
    if kw == 0 {
        lines.push(format!("remove_range {q} {xi} {}", xi + n));
    } else {
        lines.push(format!("umremove {q} {}", hex(&le_bytes(0x1f, kw))));
    }
    lines.push(format!("utouch {q} {xi}"));
    lines.push(format!("utouch {q} {yi}"));
    if live {
        for _ in path {
            lines.push("leave".into());
        }
    }
    lines.push("reborrow".into());
    Some((init, lines))
}

/// Limit scripts for the `TestUnderlyingData` backing. Every script ENDS with the growth that must be refused
/// (that store refuses by panicking, which ends the borrow).
pub struct TbsScript {
    pub path: Vec<Step>,
    pub variant: usize,
    pub step: usize,
}

impl TbsScript {
    pub const VARIANTS: usize = 8;
}

impl OpSource for TbsScript {
    fn next(&mut self, v: &GenView) -> Option<String> {
        let room = v.cap.saturating_sub(v.len);
        let grow = |n: usize| grow_line(v.shape, v.model, &self.path, n);
        let shrink = |n: usize| shrink_line(v.shape, v.model, &self.path, n);
        let reb = || Some("reborrow".to_string());
        self.step += 1;
        let s = self.step;
        match self.variant {
            // exactly the limit in one step, one more in the same borrow
            0 => match s { 1 => grow(room), 2 => Some("touch .".into()), 3 => grow(1), _ => None },
            // … in two steps
            1 => match s { 1 => grow(room - 1), 2 => grow(1), 3 => grow(1), _ => None },
            // one more in the NEXT borrow
            2 => match s { 1 => grow(room), 2 => reb(), 3 => grow(1), _ => None },
            // two steps in two borrows, one more in a third
            3 => match s { 1 => grow(room / 2), 2 => reb(), 3 => grow(room), 4 => reb(), 5 => grow(1), _ => None },
            // shrink below the original length, regrow to exactly the limit (a step > 10240), one more
            4 => match s { 1 => grow(room), 2 => shrink(100_000), 3 => reb(), 4 => grow(room), 5 => grow(1), _ => None },
            // already grown; the second step alone is <= 10240 but the total passes the limit by one
            5 => match s { 1 => grow(6000.min(room)), 2 => grow(room + 1), _ => None },
            // the same across two borrows
            6 => match s { 1 => grow(6000.min(room)), 2 => reb(), 3 => grow(room + 1), _ => None },
            // shrink, regrow within the same borrow, then past the limit by a wider margin
            _ => match s { 1 => grow(room / 3), 2 => shrink(room / 3 + 100_000), 3 => grow(room), 4 => shrink(7), 5 => grow(7 + 64), _ => None },
        }
    }
}
