//! Case driver: interprets op lines over the real code (stack of live accessors), keeps the owned model
//! in lock-step, prints the canonical answer lines and evaluates the property oracle.
use crate::access::Backing;
use crate::model::{self, Kind, MOut};
use crate::node::{class_of, Holder, Level, Node, Out};
use crate::ops::{parse_op, Op};
use crate::sexp::{get_at, le_num, nav_step, parse_toks, Nav, Shape, Step, Tok, Val};
use hx_common::{catch, hex, Recorder};
use star_frame::unsize::wrapper::{ExclusiveWrapper, ExclusiveWrapperTopMeta, SharedWrapper};

#[derive(Debug, Clone, Copy, PartialEq, Eq)]
pub enum Prop {
    C01,
    C02,
    C06,
    C03,
}

pub struct Header {
    #[allow(dead_code)]
    pub id: String,
    pub shape: Option<Shape>,
    pub init: Option<Tok>,
    /// second buffer's initial value (swap cases of C03)
    pub init_b: Option<Tok>,
    pub swap: bool,
    pub refuse: Vec<u32>,
    /// C03: allocation end flush against the guard page (else the data start)
    pub end_aligned: bool,
    /// C03: the buffer is a native account (`layout=account`, or a case id starting with `acct-`)
    pub account: bool,
    /// C03: the buffer is the repository's own `TestUnderlyingData` (`layout=tbs`, or a case id starting with `tbs-`)
    pub tbs: bool,
}

pub fn parse_header(line: &str) -> Header {
    let bad = |id: &str| Header { id: id.to_string(), shape: None, init: None, init_b: None, swap: false, refuse: vec![], end_aligned: false, account: false, tbs: false };
    let Some(t) = parse_toks(line) else { return bad("?") };
    if t.len() < 2 || t[0].atom() != Some("case") {
        return bad("?");
    }
    let id = t[1].atom().unwrap_or("?").to_string();
    let swap = t.get(2).and_then(|x| x.atom()) == Some("swap");
    let (si, nvals) = if swap { (3, 2) } else { (2, 1) };
    if t.len() < si + 1 + nvals {
        return bad(&id);
    }
    let shape = Shape::from_tok(&t[si]);
    let mut refuse = vec![];
    let mut end_aligned = false;
    let mut account = id.starts_with("acct-");
    let mut tbs = id.starts_with("tbs-");
    for opt in &t[si + 1 + nvals..] {
        let Some(a) = opt.atom() else { return bad(&id) };
        if let Some(list) = a.strip_prefix("refuse=") {
            if swap || !refuse.is_empty() {
                return bad(&id);
            }
            for k in list.split(',') {
                match k.parse::<u32>() {
                    Ok(k) if k >= 1 => refuse.push(k),
                    _ => return bad(&id),
                }
            }
        } else if a == "layout=start" {
            end_aligned = false;
        } else if a == "layout=end" {
            end_aligned = true;
        } else if a == "layout=account" {
            account = true;
        } else if a == "layout=tbs" {
            tbs = true;
        } else {
            return bad(&id);
        }
    }
    Header {
        id,
        shape,
        init: Some(t[si + 1].clone()),
        init_b: if swap { Some(t[si + 2].clone()) } else { None },
        swap,
        refuse,
        end_aligned,
        account,
        tbs: tbs && !swap,
    }
}

/// What a generator may look at to produce the next op line.
pub struct GenView<'a> {
    pub shape: &'a Shape,
    pub model: &'a Val,
    /// absolute paths of the live levels (levels[0] = [])
    pub levels: &'a [Vec<Step>],
    pub len: usize,
    pub cap: usize,
    pub ops_done: usize,
}

pub trait OpSource {
    fn next(&mut self, v: &GenView) -> Option<String>;
}

pub struct FixedOps {
    pub lines: Vec<String>,
    pub pos: usize,
}
impl OpSource for FixedOps {
    fn next(&mut self, _v: &GenView) -> Option<String> {
        let l = self.lines.get(self.pos)?.clone();
        self.pos += 1;
        Some(l)
    }
}

#[derive(Default, Debug, Clone)]
pub struct CaseOut {
    /// header + op lines as executed (for reruns with a refusal schedule)
    pub lines: Vec<String>,
    pub grow_calls: u32,
    pub failed: bool,
    /// (model value, absolute path of the innermost live level) after each op line (index i = after
    /// line i; index 0 = initial state) — used to build swap cases
    pub states: Vec<(Val, Vec<Step>)>,
}

pub struct Cx<'r> {
    pub rec: &'r mut Recorder,
    pub prop: Prop,
    /// the case in progress, written line by line BEFORE each line runs, so that the supervising parent
    /// process can name the failing input if the real code takes the process down (SIGSEGV / abort)
    pub journal: Option<std::fs::File>,
    /// every oracle failure is also appended here as one JSON line the moment it is recorded, so that
    /// failures found before a crash of the worker survive it
    pub fail_log: Option<std::fs::File>,
}

impl Cx<'_> {
    /// record an oracle failure on the current case (Recorder + crash-safe log)
    pub fn fail(&mut self, class: &str, detail: &str) {
        use std::io::Write;
        self.rec.fail(class, detail);
        if let Some(f) = &mut self.fail_log {
            let j = serde_json::json!({"class": class, "detail": detail, "replay": self.rec.current_case_text()});
            let _ = f.write_all(format!("{j}\n").as_bytes());
        }
    }
    pub fn journal_case(&mut self, header: &str) {
        use std::io::{Seek, Write};
        if let Some(f) = &mut self.journal {
            let _ = f.set_len(0);
            let _ = f.seek(std::io::SeekFrom::Start(0));
            let _ = f.write_all(format!("{header}\n").as_bytes());
        }
    }
    pub fn journal_line(&mut self, line: &str) {
        use std::io::Write;
        if let Some(f) = &mut self.journal {
            let _ = f.write_all(format!("{line}\n").as_bytes());
        }
    }
}

pub type RunFn = fn(&str, &Header, &mut dyn OpSource, &mut Cx) -> CaseOut;

struct Obs {
    len: usize,
    bytes: Vec<u8>,
    owned: Result<Val, String>,
    shared: Result<Val, String>,
    live: Vec<Result<Val, String>>,
    live_deref: Vec<Result<Val, String>>,
}

fn vstr(v: &Result<Val, String>) -> String {
    match v {
        Ok(v) => v.print(),
        Err(e) if e == "!panic" => "!panic".into(),
        Err(_) => "!err".into(),
    }
}

fn guarded(f: impl FnOnce() -> Result<Val, String>) -> Result<Val, String> {
    match catch(f) {
        Ok(r) => r,
        Err(_) => Err("!panic".into()),
    }
}

fn observe<T: Node + ?Sized, B: Backing>(access: &'static B, stack: &[Box<dyn Level>]) -> Obs {
    let bytes = access.bytes();
    let owned = guarded(|| T::owned(&bytes).map(|o| T::owned_to_val(&o)).map_err(class_of));
    let shared = if B::SHARED_WHILE_EXCLUSIVE || stack.is_empty() {
        guarded(|| {
            let s = SharedWrapper::<T::Ptr>::new::<T>(access.da()).map_err(class_of)?;
            T::view(&s)
        })
    } else {
        // a real account refuses a shared borrow while the exclusive one is alive
        owned.clone()
    };
    let live = stack.iter().map(|l| guarded(|| l.owned_view())).collect();
    let live_deref = stack.iter().map(|l| guarded(|| l.deref_view())).collect();
    Obs { len: access.len(), bytes, owned, shared, live, live_deref }
}

/// Raw accesses of one op line, normalised to offsets from `base`.
#[derive(Debug, Clone, PartialEq, Eq)]
pub enum Acc {
    Realloc { at_base: bool, old: usize, new: usize },
    Move { dst: i64, src: i64, n: usize },
}

pub fn start_trace() {
    star_frame::verif_hooks::RAW_TRACE.with_borrow_mut(|t| *t = Some(vec![]));
}
pub fn take_trace(base: usize) -> Vec<Acc> {
    use star_frame::verif_hooks::RawAccess;
    let raw = star_frame::verif_hooks::RAW_TRACE.with_borrow_mut(|t| t.take()).unwrap_or_default();
    raw.into_iter()
        .map(|a| match a {
            RawAccess::Realloc { data, old_len, new_len } => Acc::Realloc { at_base: data == base, old: old_len, new: new_len },
            RawAccess::Move { dst, src, len } => Acc::Move { dst: dst as i64 - base as i64, src: src as i64 - base as i64, n: len },
        })
        .collect()
}
pub fn acc_str(acc: &[Acc]) -> String {
    if acc.is_empty() {
        return "-".into();
    }
    acc.iter()
        .map(|a| match a {
            Acc::Realloc { old, new, .. } => format!("r:{old}:{new}"),
            Acc::Move { dst, src, n } => format!("m:{dst}:{src}:{n}"),
        })
        .collect::<Vec<_>>()
        .join(",")
}

/// C03 gates on one op line's trace. Returns (class, detail) of the first violation.
pub fn check_trace<B: Backing>(acc: &[Acc], access: &B, len_before: usize, len_after: usize, is_err: bool) -> Option<(&'static str, String)> {
    let cap = access.cap() as i64;
    let log = access.realloc_log();
    let mut li = 0usize;
    let mut cur = len_before;
    let owned = len_before.max(len_after) as i64;
    let mut failed_realloc_at: Option<usize> = None;
    for (i, a) in acc.iter().enumerate() {
        if let Some(j) = failed_realloc_at {
            return Some(("raw_access_out_of_allocation", format!("access #{i} follows the refused / over-limit realloc #{j} in the same op")));
        }
        match a {
            Acc::Realloc { at_base, old, new } => {
                if !at_base {
                    return Some(("raw_access_out_of_allocation", format!("realloc #{i} of a buffer that does not start at the data start")));
                }
                let ok = match log.get(li) {
                    Some((o, n, ok)) if o == old && n == new => *ok,
                    _ => return Some(("raw_access_out_of_allocation", format!("realloc #{i} r:{old}:{new} does not match the data access's own log {log:?}"))),
                };
                li += 1;
                if ok {
                    cur = *new;
                } else {
                    failed_realloc_at = Some(i);
                    if !is_err {
                        return Some(("raw_access_out_of_allocation", format!("realloc #{i} r:{old}:{new} was refused but the op did not return Err")));
                    }
                }
                if *new as i64 > cap && ok {
                    return Some(("raw_access_out_of_allocation", format!("realloc #{i} beyond orig+10240 succeeded")));
                }
            }
            Acc::Move { dst, src, n } => {
                let n = *n as i64;
                if *dst < 0 || *src < 0 || dst + n > cap || src + n > cap {
                    return Some(("raw_access_out_of_allocation", format!("move #{i} m:{dst}:{src}:{n} leaves [0, {cap}]")));
                }
                if n > 0 && dst + n > owned {
                    return Some(("write_outside_owned_range", format!("move #{i} m:{dst}:{src}:{n} writes beyond max(len_before, len_after) = {owned}")));
                }
                if n > 0 && dst + n > cur as i64 {
                    return Some(("write_outside_owned_range", format!("move #{i} m:{dst}:{src}:{n} writes beyond the data length at that moment ({cur})")));
                }
            }
        }
    }
    None
}

/// C03: the range the top wrapper holds, as offsets from the data start (` rng=<lo>:<hi>`, appended to the
/// answer of a successful `reborrow`), and the gate "it is exactly the allocation `[data, data+orig+10240)`".
pub fn top_range<B: Backing>(stack: &[Box<dyn Level>], access: &B) -> Option<(String, Option<(&'static str, String)>)> {
    let r = stack.first()?.range();
    let base = access.base_addr() as i128;
    let (lo, hi) = (r.start as i128 - base, r.end as i128 - base);
    let cap = access.cap() as i128;
    let viol = if lo != 0 || hi != cap {
        Some((
            "wrapper_range_not_allocation",
            format!(
                "the top wrapper's valid range is data{lo:+}..data{hi:+}, the allocation is data+0..data+{cap} (orig {} + 10240); data_len now {}",
                access.cap() - crate::access::MAX_INCREASE,
                access.len()
            ),
        ))
    } else {
        None
    };
    Some((format!(" rng={lo}:{hi}"), viol))
}

fn answer(prop: Prop, out: &Out, obs: &Obs) -> String {
    let (oc, ret) = match out {
        Out::Ok(r) => ("ok".to_string(), r.clone()),
        Out::Err(c) => (format!("err:{c}"), "-".to_string()),
        Out::Bad => ("bad-op".to_string(), "-".to_string()),
    };
    if prop == Prop::C02 {
        return format!("{oc} len={} bytes={}", obs.len, hex(&obs.bytes));
    }
    if prop == Prop::C03 {
        return format!("{oc} len={}", obs.len);
    }
    let live: Vec<String> = obs.live.iter().map(vstr).collect();
    format!(
        "{oc} ret={ret} len={} bytes={} owned={} shared={} live={}",
        obs.len,
        hex(&obs.bytes),
        vstr(&obs.owned),
        vstr(&obs.shared),
        live.join(" | ")
    )
}

/// every key-ordered container in a (storage-order) view strictly increasing?
fn sorted_ok(shape: &Shape, v: &Val) -> bool {
    match (shape, v) {
        (Shape::Set(..), Val::Seq(es)) => es.windows(2).all(|w| le_num(&w[0]) < le_num(&w[1])),
        (Shape::Map(..), Val::MapV(kvs)) => kvs.windows(2).all(|w| le_num(&w[0].0) < le_num(&w[1].0)),
        (Shape::UList(e), Val::UList(vs)) => vs.iter().all(|x| sorted_ok(e, x)),
        (Shape::UMap(_, e), Val::UMap(kvs)) => {
            kvs.windows(2).all(|w| le_num(&w[0].0) < le_num(&w[1].0)) && kvs.iter().all(|(_, x)| sorted_ok(e, x))
        }
        (Shape::Struct(_, fs), Val::Struct(_, vs)) => fs.iter().zip(vs).all(|(f, x)| sorted_ok(f, x)),
        (Shape::Enum(vars), Val::Enum(i, Some(p))) => match vars.get(*i).and_then(|x| x.1.as_ref()) {
            Some(ps) => sorted_ok(ps, p),
            None => true,
        },
        _ => true,
    }
}

pub fn serialize<T: Node + ?Sized>(v: &Val) -> Result<(Vec<u8>, usize), String> {
    let owned = T::val_to_owned(v).ok_or("model value not convertible")?;
    let size = T::byte_size(&owned);
    let mut buf = vec![0xA5u8; size];
    let mut slice: &mut [u8] = &mut buf;
    let owned2 = T::val_to_owned(v).ok_or("model value not convertible")?;
    let written = T::from_owned(owned2, &mut slice).map_err(class_of)?;
    Ok((buf, written))
}

struct Oracle<'a, 'r> {
    cx: &'a mut Cx<'r>,
    shape: Shape,
    model: Val,
    /// after the first failure of a case the remaining checks are skipped (no cascades)
    muted: bool,
    failed: bool,
    /// set by a (non-known) failure: the rest of the case is answered `dead`
    stop: bool,
}

impl Oracle<'_, '_> {
    fn fail(&mut self, class: &str, detail: String) {
        if self.muted {
            return;
        }
        self.cx.fail(class, &detail);
        self.muted = true;
        self.failed = true;
        // the state is wrong from here on: running more ops on it could take the process down
        self.stop = true;
    }
    /// A failure-atomicity class (C06's subject): partial application of a composite op, or an
    /// initialiser failing after the resize. Recorded as an oracle failure by the C06 run only — the C01 /
    /// C02 runs follow the implementation's post-error value and keep checking everything else.
    fn known(&mut self, class: &str, detail: String) {
        if self.muted {
            return;
        }
        if self.cx.prop == Prop::C06 {
            self.cx.fail(class, &detail);
        } else {
            self.cx.rec.bump(&format!("note:c06_class:{class}"));
        }
    }

    fn check_state<T: Node + ?Sized, B: Backing>(&mut self, obs: &Obs, levels: &[Vec<Step>], access: &B) {
        if self.muted {
            return;
        }
        let m = self.model.clone();
        let ms = m.print();
        // byte-level checks (C02's subject): run first in the C02 run so its violations carry the byte classes
        let bytes_check = |this: &Self, obs: &Obs| -> Option<(&'static str, String)> {
            match serialize::<T>(&this.model) {
                Ok((canon, written)) => {
                    if obs.len != canon.len() || written != canon.len() {
                        return Some(("len_mismatch", format!("data_len={} byte_size(model)={} from_owned wrote {written}", obs.len, canon.len())));
                    }
                    if obs.bytes != canon {
                        return Some(("bytes_noncanonical", format!("bytes={} canonical={}", hex(&obs.bytes), hex(&canon))));
                    }
                    let g = this.model.encode(&this.shape);
                    if g != canon {
                        return Some(("from_owned_vs_grammar", format!("from_owned={} grammar={}", hex(&canon), hex(&g))));
                    }
                    None
                }
                Err(e) => Some(("from_owned_failed", e)),
            }
        };
        if self.cx.prop == Prop::C02 {
            if let Some((c, d)) = bytes_check(self, obs) {
                return self.fail(c, d);
            }
        }
        if obs.owned.as_ref() != Ok(&m) {
            return self.fail("owned_mismatch", format!("owned()={} model={ms}", vstr(&obs.owned)));
        }
        if obs.shared.as_ref() != Ok(&m) {
            return self.fail("shared_mismatch", format!("shared view={} model={ms}", vstr(&obs.shared)));
        }
        for (i, lp) in levels.iter().enumerate() {
            let exp = get_at(&self.shape, &m, lp).map(|x| x.1.clone());
            let Some(exp) = exp else {
                return self.fail("live_mismatch", format!("level {i}: model has no value at its path"));
            };
            if obs.live.get(i).map(|x| x.as_ref()) != Some(Ok(&exp)) {
                return self.fail(
                    "live_mismatch",
                    format!("level {i} live accessor sees {} model sub-value {}", obs.live.get(i).map(vstr).unwrap_or_default(), exp.print()),
                );
            }
            if obs.live_deref.get(i).map(|x| x.as_ref()) != Some(Ok(&exp)) {
                return self.fail(
                    "live_deref_mismatch",
                    format!("level {i} deref view {} model sub-value {}", obs.live_deref.get(i).map(vstr).unwrap_or_default(), exp.print()),
                );
            }
        }
        if self.cx.prop != Prop::C02 {
            if let Some((c, d)) = bytes_check(self, obs) {
                return self.fail(c, d);
            }
        }
        if let Ok(sv) = &obs.shared {
            if !sorted_ok(&self.shape, sv) {
                return self.fail("unsorted", format!("storage order {}", sv.print()));
            }
        }
        if !access.canary_ok() {
            return self.fail("write_past_capacity", "canary in front of the data or behind orig+10240 overwritten".into());
        }
    }
}

fn known_class_for(kind: Kind) -> &'static str {
    match kind {
        Kind::InsertAll => "map_set_insert_all_partial",
        Kind::StrSet => "unsized_string_set_partial",
        Kind::Atomic => "err_not_atomic",
    }
}

pub fn run_case<T: Node + ?Sized, B: Backing>(header_line: &str, hdr: &Header, src: &mut dyn OpSource, cx: &mut Cx) -> CaseOut {
    let prop = cx.prop;
    cx.rec.case(header_line);
    cx.journal_case(header_line);
    let mut out = CaseOut { lines: vec![header_line.to_string()], ..Default::default() };
    let shape = T::shape();

    // ---- set up: initial value, buffer, top accessor
    let init = hdr.init.as_ref().and_then(|t| Val::from_tok(&shape, t)).filter(|v| v.wf(&shape));
    let setup = init.as_ref().and_then(|v| serialize::<T>(v).ok());
    let (Some(init), Some((bytes, _))) = (init, setup) else {
        // unusable header: every line is bad-op
        let dummy = Val::Rem(vec![]);
        let mut n = 0;
        while let Some(l) = src.next(&GenView { shape: &shape, model: &dummy, levels: &[vec![]], len: 0, cap: 0, ops_done: n }) {
            cx.rec.op(&l, "bad-op");
            n += 1;
        }
        return out;
    };
    let Some(access_box) = B::create(&bytes, hdr.refuse.clone(), prop == Prop::C03, hdr.end_aligned) else {
        // this backing cannot serve the header (e.g. refuse= on a real account): every line is bad-op
        let dummy = Val::Rem(vec![]);
        let mut n = 0;
        while let Some(l) = src.next(&GenView { shape: &shape, model: &dummy, levels: &[vec![]], len: 0, cap: 0, ops_done: n }) {
            cx.rec.op(&l, "bad-op");
            n += 1;
        }
        return out;
    };
    // SAFETY: every accessor (the `stack`) is dropped before `access_box` at the end of this function.
    let access: &'static B = unsafe { &*(&*access_box as *const B) };
    let mut stack: Vec<Box<dyn Level>> = vec![];
    let new_top = |stack: &mut Vec<Box<dyn Level>>| -> Result<(), String> {
        let top = ExclusiveWrapper::<'static, 'static, T::Ptr, ExclusiveWrapperTopMeta<'static, T, B::A>>::new(access.da()).map_err(class_of)?;
        stack.push(Box::new(Holder::<T, ExclusiveWrapperTopMeta<'static, T, B::A>>(top)));
        Ok(())
    };
    let mut dead = false;
    match catch(|| new_top(&mut stack)) {
        Ok(Ok(())) => {}
        _ => dead = true,
    }
    let mut levels: Vec<Vec<Step>> = vec![vec![]];
    let mut orc = Oracle { cx, shape: shape.clone(), model: init, muted: false, failed: false, stop: false };
    if dead {
        orc.fail("panic", "creating the top accessor failed".into());
    } else {
        let obs = observe::<T, B>(access, &stack);
        orc.check_state::<T, B>(&obs, &levels, access);
        if prop == Prop::C03 {
            if let Some((_, Some((class, detail)))) = top_range(&stack, access) {
                orc.fail(class, format!("first borrow: {detail}"));
            }
        }
    }
    let cap = access.cap();
    out.states.push((orc.model.clone(), vec![]));
    let mut nontrivial = false;
    let mut ops_done = 0usize;

    loop {
        let line = {
            let gv = GenView { shape: &shape, model: &orc.model, levels: &levels, len: access.len(), cap, ops_done };
            match src.next(&gv) {
                Some(l) => l,
                None => break,
            }
        };
        ops_done += 1;
        out.lines.push(line.clone());
        orc.cx.journal_line(&line);
        let Some(ol) = parse_op(&line) else {
            orc.cx.rec.op(&line, "bad-op");
            continue;
        };
        if dead || orc.stop {
            dead = true;
            orc.cx.rec.op(&line, "dead");
            continue;
        }
        orc.cx.rec.bump(&format!("op:{}", ol.op.name()));
        orc.cx.rec.bump(&format!("depth:{}", levels.len()));

        // ---- model prediction
        let base = levels.last().unwrap().clone();
        enum Plan {
            Enter(Step, MOut),
            Leave,
            Reborrow,
            Apply(model::MRes),
        }
        let plan = match &ol.op {
            Op::Enter(s) => {
                let mut m = orc.model.clone();
                let r = match crate::sexp::nav(&shape, &mut m, &base) {
                    Nav::Found(sh, v) => match nav_step(sh, v, *s) {
                        Nav::Found(..) => MOut::Ok("-".into()),
                        Nav::IndexErr => MOut::Err("IndexOutOfBounds"),
                        Nav::Bad => MOut::Bad,
                    },
                    _ => MOut::Bad,
                };
                Plan::Enter(*s, r)
            }
            Op::Leave => Plan::Leave,
            Op::Reborrow => Plan::Reborrow,
            op => {
                let mut abs = base.clone();
                abs.extend_from_slice(&ol.path);
                Plan::Apply(model::apply(&shape, &orc.model, &abs, op, cap))
            }
        };
        let model_bad = match &plan {
            Plan::Enter(_, MOut::Bad) => true,
            Plan::Leave => levels.len() <= 1,
            Plan::Apply(r) => r.out == MOut::Bad,
            _ => false,
        };
        if model_bad {
            orc.cx.rec.op(&line, "bad-op");
            orc.cx.rec.bump("outcome:bad-op");
            continue;
        }

        // ---- run the real code
        let pre_bytes = access.bytes();
        access.begin_op();
        let snap = if prop == Prop::C03 { Some(access.snapshot()) } else { None };
        if prop == Prop::C03 || B::NEEDS_TRACE {
            start_trace();
        }
        crate::node::MUT_VIEW.with_borrow_mut(|m| *m = None);
        let exec = catch(|| -> Out {
            match &plan {
                Plan::Enter(s, _) => match stack.last_mut().unwrap().enter(*s) {
                    Ok(l) => {
                        stack.push(l);
                        Out::ok()
                    }
                    Err(o) => o,
                },
                Plan::Leave => {
                    let l = stack.pop();
                    drop(l);
                    Out::ok()
                }
                Plan::Reborrow => {
                    while let Some(l) = stack.pop() {
                        drop(l);
                    }
                    match new_top(&mut stack) {
                        Ok(()) => Out::ok(),
                        Err(c) => Out::Err(c),
                    }
                }
                Plan::Apply(_) => stack.last_mut().unwrap().exec(&ol.path, &ol.op),
            }
        });
        let trace = if prop == Prop::C03 || B::NEEDS_TRACE { take_trace(access.base_addr()) } else { vec![] };
        {
            let rs: Vec<(usize, usize)> = trace.iter().filter_map(|a| if let Acc::Realloc { old, new, .. } = a { Some((*old, *new)) } else { None }).collect();
            access.note_trace(&rs);
        }
        let mut limit_panic = false;
        let impl_out = match exec {
            Ok(o) => o,
            Err(msg) if B::LIMIT_PANICS && msg.contains("data too large") && matches!(plan, Plan::Apply(_)) => {
                // this store refuses over-growth by panicking (before it changes anything): the refusal
                limit_panic = true;
                Out::Err("InvalidRealloc".into())
            }
            Err(msg) => {
                orc.cx.rec.op(&line, "panic");
                orc.cx.rec.bump("outcome:panic");
                orc.fail("panic", format!("op `{line}` panicked: {msg}"));
                dead = true;
                continue;
            }
        };
        if impl_out == Out::Bad {
            orc.cx.rec.op(&line, "bad-op");
            orc.fail("harness_badop_mismatch", format!("model accepts `{line}` but the typed interpreter does not"));
            continue;
        }
        // bookkeeping of live levels
        match (&plan, &impl_out) {
            (Plan::Enter(s, _), Out::Ok(_)) => {
                let mut p = base.clone();
                p.push(*s);
                levels.push(p);
            }
            (Plan::Leave, _) => {
                levels.pop();
            }
            (Plan::Reborrow, _) => {
                levels.truncate(1);
                if stack.is_empty() {
                    dead = true;
                }
            }
            _ => {}
        }

        // ---- observe + answer
        let obs = observe::<T, B>(access, &stack);
        let mut ans = answer(prop, &impl_out, &obs);
        let mut c03_violation = None;
        if let Some(snap) = &snap {
            let frame = access.frame_ok(snap, pre_bytes.len().max(obs.len));
            ans.push_str(&format!(" acc={} frame={}", acc_str(&trace), frame as u8));
            c03_violation = check_trace(&trace, access, pre_bytes.len(), obs.len, matches!(impl_out, Out::Err(_)));
            if c03_violation.is_none() && !frame {
                c03_violation = Some(("frame_modified", format!("`{line}`: bytes outside [0, max(len_before, len_after)) or in the neighbouring slack changed")));
            }
            if matches!(plan, Plan::Reborrow) && matches!(impl_out, Out::Ok(_)) {
                if let Some((txt, viol)) = top_range(&stack, access) {
                    ans.push_str(&txt);
                    if c03_violation.is_none() {
                        c03_violation = viol;
                    }
                }
            }
        }
        orc.cx.rec.op(&line, &ans);
        if let Some((class, detail)) = c03_violation {
            orc.fail(class, format!("`{line}`: {detail}"));
        }
        match &impl_out {
            Out::Ok(_) => orc.cx.rec.bump("outcome:ok"),
            Out::Err(c) => orc.cx.rec.bump(&format!("outcome:err:{c}")),
            Out::Bad => {}
        }
        if access.reallocs_now() > 0 || matches!(impl_out, Out::Err(_)) {
            nontrivial = true;
        }
        if access.refused_now() {
            orc.cx.rec.bump("fault:refused_growth");
        }
        if access.limit_now() {
            orc.cx.rec.bump("fault:growth_limit");
        }
        if dead {
            orc.fail("panic", "re-creating the top accessor failed".into());
            continue;
        }
        if limit_panic {
            // the unwinding went through live accessors: the borrow is not used any further
            dead = true;
            orc.cx.rec.bump("fault:limit_panic");
        }

        // ---- oracle
        let (m_out, new_model, kind, partials, known) = match plan {
            Plan::Enter(_, r) => (r, orc.model.clone(), Kind::Atomic, vec![], None),
            Plan::Leave | Plan::Reborrow => (MOut::Ok("-".into()), orc.model.clone(), Kind::Atomic, vec![], None),
            Plan::Apply(r) => (r.out, r.new, r.kind, r.partials, r.known),
        };
        let changed = obs.bytes != pre_bytes;
        let refused = access.refused_now();
        match (&m_out, &impl_out) {
            (MOut::Ok(mret), Out::Ok(iret)) => {
                if refused {
                    orc.fail("refused_but_ok", format!("`{line}`: a growth was refused but the op returned Ok"));
                } else if mret != iret {
                    orc.fail("ret_mismatch", format!("`{line}` returned {iret}, model {mret}"));
                }
                orc.model = new_model;
            }
            (MOut::Err(_), Out::Ok(_)) => {
                orc.fail("outcome_mismatch", format!("`{line}` returned Ok, the owned model fails"));
            }
            (MOut::Ok(_), Out::Err(c)) if !refused => {
                orc.fail("outcome_mismatch", format!("`{line}` returned err:{c}, the owned model succeeds"));
            }
            (_, Out::Err(c)) => {
                // an error the model predicts, or the injected fault
                if let (MOut::Err(mc), false) = (&m_out, refused) {
                    if mc != c {
                        orc.cx.rec.bump(&format!("note:err_class_differs:{mc}/{c}"));
                    }
                }
                if let Some(k) = known.filter(|_| !refused && !access.limit_now()) {
                    // initialiser fails after the resize: state is not canonical any more
                    if changed {
                        orc.known(k, format!("`{line}` returned err:{c} but len {}→{} and the bytes changed", pre_bytes.len(), obs.len));
                    }
                    orc.muted = true;
                    dead = true;
                } else if kind == Kind::Atomic {
                    if changed {
                        orc.fail(
                            "err_not_atomic",
                            format!("`{line}` returned err:{c} but bytes/len changed: len {}→{}", pre_bytes.len(), obs.len),
                        );
                    }
                } else {
                    // composite: must be the old value or a prefix application, and canonical for it
                    let cur = obs.owned.clone().ok();
                    let mut accepted = None;
                    if cur.as_ref() == Some(&orc.model) {
                        accepted = Some(orc.model.clone());
                    } else if let Some(p) = partials.iter().find(|p| Some(*p) == cur.as_ref()) {
                        accepted = Some(p.clone());
                    }
                    match accepted {
                        Some(a) => {
                            if a != orc.model {
                                orc.known(known_class_for(kind), format!("`{line}` returned err:{c} after partially applying: {} → {}", orc.model.print(), a.print()));
                            }
                            orc.model = a;
                        }
                        None => orc.fail(
                            "err_not_canonical",
                            format!("`{line}` returned err:{c}; value afterwards {} is neither the old value nor a prefix application", vstr(&obs.owned)),
                        ),
                    }
                }
            }
            _ => {}
        }
        orc.check_state::<T, B>(&obs, &levels, access);
        // what the `&mut` pointer RETURNED by get_mut / index_mut / first_mut / last_mut / UnsizedMap::get_mut /
        // get_by_index_mut showed must be the model's element at that index (length AND bytes)
        if let (Op::UTouch(i), Out::Ok(_)) = (&ol.op, &impl_out) {
            if let Some(seen) = crate::node::MUT_VIEW.with_borrow_mut(|m| m.take()) {
                let mut abs = base.clone();
                abs.extend_from_slice(&ol.path);
                abs.push(Step::Elem(*i));
                let exp = get_at(&shape, &orc.model, &abs).map(|x| x.1.clone());
                if exp.as_ref() != seen.as_ref().ok() {
                    orc.fail(
                        "get_mut_view_mismatch",
                        format!("`{line}`: the returned &mut element pointer shows {} but element {i} is {}", vstr(&seen), exp.map(|v| v.print()).unwrap_or("absent".into())),
                    );
                }
            }
        }
        while out.states.len() < out.lines.len() - 1 {
            // lines answered without executing (bad-op / dead) keep the previous state
            let last = out.states.last().unwrap().clone();
            out.states.push(last);
        }
        out.states.push((orc.model.clone(), levels.last().unwrap().clone()));
    }

    while out.states.len() < out.lines.len() {
        let last = out.states.last().unwrap().clone();
        out.states.push(last);
    }
    // ---- end of case: drop accessors innermost first (top drop check runs), then re-parse
    let drop_res = catch(|| {
        while let Some(l) = stack.pop() {
            drop(l);
        }
    });
    if !dead {
        if drop_res.is_err() {
            orc.fail("panic", "dropping the accessors at the end of the case panicked".into());
        } else {
            let obs = observe::<T, B>(access, &stack);
            orc.check_state::<T, B>(&obs, &[], access);
        }
    }
    if nontrivial {
        orc.cx.rec.mark_nontrivial();
    }
    orc.cx.rec.sample_current(5);
    out.grow_calls = access.grow_calls();
    out.failed = orc.failed;
    // stack is empty here; only now may the backing store go away
    std::mem::forget(drop_res);
    drop(stack);
    drop(access_box);
    out
}
