//! Harness programs and program-account types for the C09 nests.
use star_frame::prelude::*;

/// The crate's declared program and the EXECUTING program of every case (`Option` placeholder,
/// `Seeded` derivations). Default `[u8; 8]` account discriminants.
#[derive(StarFrameProgram, Debug)]
#[program(instruction_set = (), id = "HxAcc11111111111111111111111111111111111111", no_entrypoint)]
pub struct HxProgram;

/// A second program with 2-byte (`u16`) account discriminants.
#[derive(StarFrameProgram, Debug)]
#[program(instruction_set = (), id = Pubkey::new_from_array([0x52; 32]), account_discriminant = u16, no_entrypoint, no_setup, skip_idl)]
pub struct P2;

#[zero_copy(pod)]
#[derive(Default, Debug, Eq, PartialEq, ProgramAccount)]
#[program_account(program = HxProgram, discriminant = [0xC1, 2, 3, 4, 5, 6, 7, 8], skip_idl)]
pub struct Zc8 {
    pub a: u8,
    pub b: u8,
}

#[derive(BorshSerialize, BorshDeserialize, Default, Debug, Clone, PartialEq, Eq, ProgramAccount)]
#[program_account(program = HxProgram, discriminant = [0xF1, 2, 3, 4, 5, 6, 7, 8], skip_idl)]
pub struct Fix8 {
    pub a: u16,
    pub b: u8,
}

#[zero_copy(pod)]
#[derive(Default, Debug, Eq, PartialEq, ProgramAccount)]
#[program_account(program = P2, discriminant = 0x02C2u16, skip_idl)]
pub struct Zc2 {
    pub a: u8,
    pub b: u8,
}

#[derive(BorshSerialize, BorshDeserialize, Default, Debug, Clone, PartialEq, Eq, ProgramAccount)]
#[program_account(program = P2, discriminant = 0x02F2u16, skip_idl)]
pub struct Fix2 {
    pub a: u16,
    pub b: u8,
}

#[derive(Debug, GetSeeds, Clone)]
#[get_seeds(seed_const = b"HXSEED")]
pub struct HxSeeds {
    pub n: u8,
}

/// (declaring program id, discriminant bytes, body length) of an account type, as WRITTEN above.
pub fn type_info(name: &str) -> ([u8; 32], Vec<u8>, usize) {
    match name {
        "zc8" => (HxProgram::ID.to_bytes(), vec![0xC1, 2, 3, 4, 5, 6, 7, 8], 2),
        "fix8" => (HxProgram::ID.to_bytes(), vec![0xF1, 2, 3, 4, 5, 6, 7, 8], 3),
        "zc2" => ([0x52; 32], vec![0xC2, 0x02], 2),
        "fix2" => ([0x52; 32], vec![0xF2, 0x02], 3),
        o => panic!("unknown account type {o}"),
    }
}
