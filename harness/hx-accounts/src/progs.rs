//! Harness programs.
use star_frame::prelude::*;

#[derive(StarFrameProgram)]
#[program(instruction_set = (), id = "HxAcc11111111111111111111111111111111111111", no_entrypoint)]
pub struct HxProgram;
