//! Correspondence harness for the account-validation properties C08 and C09.
mod c09;
pub mod progs;

fn main() {
    let args = hx_common::Args::parse();
    hx_common::quiet_panics();
    match args.prop.as_str() {
        "C09" => c09::run(&args),
        other => panic!("hx-accounts: unknown property {other}"),
    }
}
