//! Correspondence harness for the account-validation property C09.
mod c09;
pub mod progs;
mod spec;

/// Cases of `/verif/corpus/<prop>/*.replay` (run first on every check).
pub fn corpus_cases(prop: &str) -> Vec<Vec<String>> {
    let dir = std::path::PathBuf::from(std::env::var("VERIF_DIR").unwrap_or_else(|_| "/verif".into())).join("corpus").join(prop);
    let mut files: Vec<_> = match std::fs::read_dir(&dir) {
        Ok(rd) => rd.filter_map(|e| e.ok()).map(|e| e.path()).filter(|p| p.extension().map(|x| x == "replay").unwrap_or(false)).collect(),
        Err(_) => return vec![],
    };
    files.sort();
    let mut cases: Vec<Vec<String>> = vec![];
    for f in files {
        for l in std::fs::read_to_string(&f).unwrap_or_default().lines() {
            let l = l.trim_end();
            if l.is_empty() || l.starts_with('#') {
                continue;
            }
            if l.starts_with("case") || cases.is_empty() {
                cases.push(vec![]);
                if !l.starts_with("case") {
                    cases.last_mut().unwrap().push("case".to_string());
                }
            }
            cases.last_mut().unwrap().push(l.to_string());
        }
    }
    cases
}

fn main() {
    let args = hx_common::Args::parse();
    hx_common::quiet_panics();
    match args.prop.as_str() {
        "C09" => c09::run(&args),
        other => panic!("hx-accounts: unknown property {other}"),
    }
}
