//! C09 — Signer, writable, address, program, sysvar and owner checks are exact; arbitrary nestings
//! accept iff every layer accepts.
//!
//! Op lines (the Lean side is `lean/Account/Account/Driver/C09.lean`; grammar in `spec.rs`):
//!   `nest <progid:hex32> <set> <acct>*`  decode + validate the account set over the accounts -> `ok` | `err:<Class>` | `panic`
//!        acct = `<key>:<owner>:<signer 0|1>:<writable 0|1>:<data hex>`
//!   `meta <chain>`                       the chain's advertised `SingleSetMeta`              -> `<signer><writable>`
//!   `eq <a:hex32> <b:hex32>`             the framework's fast 32-byte comparison            -> `1` | `0`
//!   `seq <progid> <vec|arrN> <bcast|vecargs|arrargs> <chain with seeded:ARG> <m> <pda>*m <acct>*`
//!        a `Vec<E>` / `[E; N]` of argument-taking elements validated with `(arg,)` / `Vec<arg>` / `[arg; M]`
//!
//! Every nest string corresponds to a REAL Rust type: `build.rs` generates the types (and the derived
//! structs they need) for `nests.txt` and for ≈50 random nests of the grammar; the `Init` / `Seeded`
//! nests (special validate arguments) are written by hand below.
use crate::{
    progs::*,
    spec::{self, Set, B, L},
};
use hx_common::{hex, unhex, Args, Recorder, Rng};
use hx_native::{err_class, key_from, AcctSpec, World};
use star_frame::{
    account_set::{
        modifiers::{CreateIfNeeded, Init, Seeded, Seeds},
        AccountSetDecode, AccountSetValidate,
    },
    pinocchio::sysvars::rent::Rent,
    prelude::*,
    util::fast_32_byte_eq,
};

pub static PROGRAM_ID: Pubkey = HxProgram::ID;
pub const ADDR_A: Pubkey = Pubkey::new_from_array([
    0xA0, 1, 2, 3, 4, 5, 6, 7, 8, 9, 10, 11, 12, 13, 14, 15, 16, 17, 18, 19, 20, 21, 22, 23, 24, 25, 26, 27, 28, 29, 30, 0xAF,
]);
pub const ADDR_B: Pubkey = Pubkey::new_from_array([
    0xB0, 31, 30, 29, 28, 27, 26, 25, 24, 23, 22, 21, 20, 19, 18, 17, 16, 15, 14, 13, 12, 11, 10, 9, 8, 7, 6, 5, 4, 3, 2, 0xBF,
]);

/// Advertises `writable` in its `SingleSetMeta` without checking the flag (as `Init<T>` does).
#[derive(AccountSet, Debug, Clone)]
#[repr(transparent)]
pub struct AdvW<T>(#[single_account_set(writable)] T);
/// Advertises `signer` in its `SingleSetMeta` without checking the flag.
#[derive(AccountSet, Debug, Clone)]
#[repr(transparent)]
pub struct AdvS<T>(#[single_account_set(signer)] T);
/// A single-account wrapper with an address check on its field (what `Sysvar<T>` is made of).
#[derive(AccountSet, Debug, Clone)]
#[repr(transparent)]
pub struct AddrA<T>(
    #[single_account_set]
    #[validate(address = &ADDR_A)]
    T,
);
#[derive(AccountSet, Debug, Clone)]
#[repr(transparent)]
pub struct AddrB<T>(
    #[single_account_set]
    #[validate(address = &ADDR_B)]
    T,
);

pub type Runner = fn(&[AccountInfo]) -> String;
pub type MetaFn = fn() -> String;

pub fn meta_of<T: SingleAccountSet>() -> String {
    let m = T::meta();
    format!("{}{}", m.signer as u8, m.writable as u8)
}

/// The sentinel the CPI stand-in answers with: `Init` reached the account creation.
const CREATE_ATTEMPTED: u32 = 0xC0DE;

fn classify(e: star_frame::errors::Error) -> String {
    let c = err_class(e);
    if c == format!("err:Custom{CREATE_ATTEMPTED}") {
        "err:CreateAttempted".into()
    } else {
        c
    }
}

thread_local! {
    static FUNDER_WORLD: World = World::new(&[AcctSpec::new(key_from(0xF00D), Pubkey::new_from_array([0; 32])).signer(true).writable(true).lamports(1_000_000_000_000)]);
}

fn install_hooks() {
    #[allow(deprecated)]
    star_frame::verif_hooks::RENT.set(Some(Rent { lamports_per_byte_year: 3480, exemption_threshold: 2.0, burn_percent: 50 }));
    star_frame::verif_hooks::CPI_HANDLER.with_borrow_mut(|h| {
        // every CPI these nests can issue is the account creation of `Init`: outside this property
        *h = Some(Box::new(|_rec| Some(Err(ProgramError::Custom(CREATE_ATTEMPTED).into()))));
    });
}

pub fn run_with<T, V>(accounts: &[AccountInfo], varg: V, funder: bool) -> String
where
    T: for<'a> AccountSetDecode<'a, ()> + AccountSetValidate<V>,
{
    let r = hx_common::catch(|| {
        let mut ctx = Context::new(&PROGRAM_ID);
        if funder {
            FUNDER_WORLD.with(|w| {
                let mut a = w.infos();
                let f = <Signer<Mut<SystemAccount>> as AccountSetDecode<'_, ()>>::decode_accounts(&mut a, (), &mut Context::default()).unwrap();
                ctx.set_funder(Box::new(f));
            });
        }
        let mut accs = accounts;
        let mut set = match T::decode_accounts(&mut accs, (), &mut ctx) {
            Ok(s) => s,
            Err(e) => return classify(e),
        };
        match set.validate_accounts(varg, &mut ctx) {
            Ok(()) => "ok".to_string(),
            Err(e) => classify(e),
        }
    });
    r.unwrap_or_else(|_| "panic".to_string())
}

pub fn run_nest<T>(accounts: &[AccountInfo]) -> String
where
    T: for<'a> AccountSetDecode<'a, ()> + AccountSetValidate<()>,
{
    run_with::<T, ()>(accounts, (), true)
}

mod generated {
    include!(concat!(env!("OUT_DIR"), "/gen_nests.rs"));
}

fn s1() -> HxSeeds {
    HxSeeds { n: 1 }
}

/// The PDA `Seeded<_, HxSeeds>` expects for `HxSeeds { n }` under the executing program.
fn pda(n: u8) -> [u8; 32] {
    Pubkey::find_program_address(&HxSeeds { n }.seeds(), &PROGRAM_ID).0.to_bytes()
}

/// The `Init` (validated with `CreateIfNeeded(())`) and `Seeded` (validated with `Seeds(..)`) nests.
fn hand_nests() -> Vec<(&'static str, Runner, Option<MetaFn>, bool)> {
    macro_rules! init {
        ($s:expr, $t:ty) => {
            ($s, (|a| run_with::<$t, _>(a, CreateIfNeeded(()), true)) as Runner, None, false)
        };
    }
    macro_rules! seeded {
        ($s:expr, $t:ty) => {
            ($s, (|a| run_with::<$t, _>(a, Seeds(s1()), true)) as Runner, None, false)
        };
    }
    type I8 = Init<Signer<Account<Zc8>>>;
    vec![
        ("init,signer,acct:zc8", (|a| run_with::<I8, _>(a, CreateIfNeeded(()), true)) as Runner, Some(meta_of::<I8> as MetaFn), false),
        ("initnf,signer,acct:zc8", (|a| run_with::<I8, _>(a, CreateIfNeeded(()), false)) as Runner, None, false),
        ("init,signer,mut,acct:zc8", (|a| run_with::<Init<Signer<Mut<Account<Zc8>>>>, _>(a, CreateIfNeeded(()), true)) as Runner, Some(meta_of::<Init<Signer<Mut<Account<Zc8>>>>> as MetaFn), false),
        init!("init,signer,box,acct:zc2", Init<Signer<Box<Account<Zc2>>>>),
        init!("init,box,signer,borsh:fix8", Init<Box<Signer<BorshAccount<Fix8>>>>),
        ("box,init,signer,acct:zc8", (|a| run_with::<Box<I8>, _>(a, CreateIfNeeded(()), true)) as Runner, Some(meta_of::<Box<I8>> as MetaFn), false),
        ("mut,init,signer,acct:zc8", (|a| run_with::<Mut<I8>, _>(a, CreateIfNeeded(()), true)) as Runner, Some(meta_of::<Mut<I8>> as MetaFn), false),
        init!("signer,init,signer,borsh:fix2", Signer<Init<Signer<BorshAccount<Fix2>>>>),
        init!("opt(init,signer,acct:zc8)", Option<I8>),
        init!("box(opt(mut,init,signer,acct:zc8))", Box<Option<Mut<I8>>>),
        seeded!("seeded:S1,acct:zc8", Seeded<Account<Zc8>, HxSeeds>),
        seeded!("seeded:S1,signer,mut,info", Seeded<Signer<Mut<AccountInfo>>, HxSeeds>),
        seeded!("mut,seeded:S1,sysacct", Mut<Seeded<SystemAccount, HxSeeds>>),
        seeded!("box,seeded:S1,box,acct:zc8", Box<Seeded<Box<Account<Zc8>>, HxSeeds>>),
        seeded!("opt(seeded:S1,mut,info)", Option<Seeded<Mut<AccountInfo>, HxSeeds>>),
        ("init,seeded:S1,acct:zc8", (|a| run_with::<Init<Seeded<Account<Zc8>, HxSeeds>>, _>(a, (CreateIfNeeded(()), Seeds(s1())), true)) as Runner, None, false),
        ("init,seeded:S1,box,borsh:fix8", (|a| run_with::<Init<Seeded<Box<BorshAccount<Fix8>>, HxSeeds>>, _>(a, (CreateIfNeeded(()), Seeds(s1())), true)) as Runner, None, false),
    ]
}

/// The real constants behind the symbols of the nest strings.
fn sym(kind: &str, name: &str) -> String {
    match (kind, name) {
        ("key", "A") => hex(ADDR_A.as_ref()),
        ("key", "B") => hex(ADDR_B.as_ref()),
        ("program", "system") => hex(System::ID.as_ref()),
        ("program", "hx") => hex(HxProgram::ID.as_ref()),
        ("program", "p2") => hex(<P2 as StarFrameProgram>::ID.as_ref()),
        ("sysvar", "rent") => hex(<Rent as star_frame::account_set::sysvar::SysvarId>::id().as_ref()),
        ("sysvar", "ixs") => hex(<star_frame::account_set::sysvar::InstructionsSysvar as star_frame::account_set::sysvar::SysvarId>::id().as_ref()),
        ("sysvar", "slothashes") => hex(<star_frame::account_set::sysvar::SlotHashesSysvar as star_frame::account_set::sysvar::SysvarId>::id().as_ref()),
        ("type", t) => {
            let (p, d, _) = type_info(t);
            format!("{}:{}", hex(&p), hex(&d))
        }
        ("pda", "ARG") => "ARG".into(),
        ("pda", n) if n.starts_with('S') => hex(&pda(n[1..].parse().expect("pda symbol"))),
        (k, n) => panic!("unknown symbol {k}:{n}"),
    }
}
fn sym_key(kind: &str, name: &str) -> [u8; 32] {
    unhex(&sym(kind, name)).unwrap().try_into().unwrap()
}

pub struct Nest {
    pub spec: Set,
    pub rendered: String,
    pub run: Runner,
    pub meta: Option<MetaFn>,
    pub random: bool,
}

pub fn nests() -> Vec<Nest> {
    generated::generated_nests()
        .into_iter()
        .chain(hand_nests())
        .map(|(s, run, meta, random)| {
            let spec = spec::parse(s).unwrap_or_else(|| panic!("cannot parse nest {s}"));
            Nest { rendered: spec.render(&sym), spec, run, meta, random }
        })
        .collect()
}

// ---------------------------------------------------------------- accounts
#[derive(Clone, Debug, PartialEq)]
pub struct Acc {
    key: [u8; 32],
    owner: [u8; 32],
    signer: bool,
    writable: bool,
    data: Vec<u8>,
}
impl Acc {
    fn tok(&self) -> String {
        format!("{}:{}:{}:{}:{}", hex(&self.key), hex(&self.owner), self.signer as u8, self.writable as u8, hex(&self.data))
    }
    fn parse(s: &str) -> Option<Acc> {
        let p: Vec<&str> = s.split(':').collect();
        let [k, o, sg, w, d] = p.as_slice() else { return None };
        let bit = |x: &str| match x {
            "1" => Some(true),
            "0" => Some(false),
            _ => None,
        };
        let strict = |x: &str| if x == "-" || x.chars().all(|c| c.is_ascii_hexdigit()) { unhex(x) } else { None };
        Some(Acc { key: strict(k)?.try_into().ok()?, owner: strict(o)?.try_into().ok()?, signer: bit(sg)?, writable: bit(w)?, data: strict(d)? })
    }
}

/// Accounts that satisfy every layer of the nest (options present, `Rest` with `rest_n` elements).
fn good(set: &Set, forced: Option<[u8; 32]>, rest_n: usize, rng: &mut Rng, out: &mut Vec<Acc>) {
    match set {
        Set::Chain(ls, b) => {
            let mut key = forced;
            for l in ls {
                match l {
                    L::Addr(k) => key = key.or(Some(sym_key("key", k))),
                    L::Seeded(k) => key = key.or(Some(sym_key("pda", k))),
                    _ => {}
                }
            }
            let (mut owner, mut data) = (key_from(rng.next() | 1).to_bytes(), vec![]);
            match b {
                B::Program(p) => key = key.or(Some(sym_key("program", p))),
                B::Sysvar(s) => key = key.or(Some(sym_key("sysvar", s))),
                B::SysAcct => owner = [0; 32],
                B::Acct(t) | B::Borsh(t) => {
                    let (p, d, body) = type_info(t);
                    owner = p;
                    data = d;
                    data.extend((0..body).map(|i| 0xA0 + i as u8));
                }
                B::Info => {}
            }
            out.push(Acc { key: key.unwrap_or_else(|| key_from(rng.next()).to_bytes()), owner, signer: true, writable: true, data });
        }
        Set::Opt(s) | Set::BoxS(s) => good(s, forced, rest_n, rng, out),
        Set::Addr(k, s) => good(s, Some(sym_key("key", k)), rest_n, rng, out),
        Set::Arr(n, s) | Set::Vecn(n, s) => (0..*n).for_each(|_| good(s, None, rest_n, rng, out)),
        Set::Rest(s) => (0..rest_n).for_each(|_| good(s, None, rest_n, rng, out)),
        Set::St(fs) => fs.iter().for_each(|f| good(f, None, rest_n, rng, out)),
    }
}

// ---------------------------------------------------------------- independent oracle (plain Rust)
enum D {
    One(Vec<L>, B, Acc),
    Absent,
    Wrap(Box<D>),
    Addr([u8; 32], Box<D>),
    Seq(Vec<D>),
}

fn dec(set: &Set, accs: &mut &[Acc]) -> Option<D> {
    Some(match set {
        Set::Chain(ls, b) => {
            let (a, rest) = accs.split_first()?;
            *accs = rest;
            if let B::Borsh(t) = b {
                // the body is deserialized while decoding: present bodies must be exactly the type's 3 bytes
                let (_, d, body) = type_info(t);
                if a.data.len() > d.len() && a.data.len() != d.len() + body {
                    return None;
                }
            }
            D::One(ls.clone(), b.clone(), a.clone())
        }
        Set::Opt(s) => match accs.first() {
            None => D::Absent,
            Some(a) if a.key == PROGRAM_ID.to_bytes() => {
                *accs = &accs[1..];
                D::Absent
            }
            Some(_) => D::Wrap(Box::new(dec(s, accs)?)),
        },
        Set::BoxS(s) => D::Wrap(Box::new(dec(s, accs)?)),
        Set::Addr(k, s) => D::Addr(sym_key("key", k), Box::new(dec(s, accs)?)),
        Set::Arr(n, s) | Set::Vecn(n, s) => D::Seq((0..*n).map(|_| dec(s, accs)).collect::<Option<Vec<_>>>()?),
        Set::Rest(s) => {
            let mut v = vec![];
            while !accs.is_empty() {
                v.push(dec(s, accs)?);
            }
            D::Seq(v)
        }
        Set::St(fs) => D::Seq(fs.iter().map(|f| dec(f, accs)).collect::<Option<Vec<_>>>()?),
    })
}

fn admitted(t: &str, a: &Acc) -> bool {
    let (p, d, _) = type_info(t);
    a.owner == p && a.data.len() >= d.len() && a.data[..d.len()] == d[..]
}

fn all_ok(d: &D) -> bool {
    match d {
        D::Absent => true,
        D::Wrap(d) => all_ok(d),
        D::Addr(k, d) => key_ok(k, d) && all_ok(d),
        D::Seq(ds) => ds.iter().all(all_ok),
        D::One(ls, b, a) => {
            let base = match b {
                B::Info => true,
                B::SysAcct => a.owner == [0; 32],
                B::Program(p) => a.key == sym_key("program", p),
                B::Sysvar(s) => a.key == sym_key("sysvar", s),
                B::Acct(t) | B::Borsh(t) => admitted(t, a),
            };
            base && ls.iter().all(|l| match l {
                L::Signer => a.signer,
                L::Mut => a.writable,
                L::Addr(k) => a.key == sym_key("key", k),
                L::Seeded(k) => a.key == sym_key("pda", k),
                L::InitNf => false,
                // an account that already is what `Init` would create is left alone; anything that would need
                // creating (System-owned / zeroed discriminant) is outside this property: never "accepted as is"
                L::Init => match b {
                    B::Acct(t) | B::Borsh(t) => {
                        let w = type_info(t).1.len();
                        a.owner != [0; 32] && a.data.len() >= w && !a.data[..w].iter().all(|x| *x == 0)
                    }
                    _ => true,
                },
                _ => true,
            })
        }
    }
}

fn key_ok(k: &[u8; 32], d: &D) -> bool {
    match d {
        D::One(_, _, a) => a.key == *k,
        D::Wrap(d) => key_ok(k, d),
        _ => true,
    }
}

fn oracle_accepts(set: &Set, accs: &[Acc]) -> bool {
    let mut rest = accs;
    match dec(set, &mut rest) {
        Some(d) => all_ok(&d),
        None => false,
    }
}

// ---------------------------------------------------------------- sequences validated with argument lists
/// `Vec<E>` / `[E; N]` whose element `E` takes a validate argument (`Seeds(HxSeeds { n })`), validated with the
/// `(arg,)`, `Vec<arg>` and `[arg; M]` forms.
pub type SeqRunner = fn(&[AccountInfo], &str, &str, &[u8]) -> String;

fn run_seq<E>(accounts: &[AccountInfo], carrier: &str, form: &str, ns: &[u8]) -> String
where
    E: for<'a> AccountSetDecode<'a, ()> + AccountSetValidate<Seeds<HxSeeds>>,
{
    let args: Vec<Seeds<HxSeeds>> = ns.iter().map(|n| Seeds(HxSeeds { n: *n })).collect();
    let r = hx_common::catch(|| {
        let mut ctx = Context::new(&PROGRAM_ID);
        let mut accs = accounts;
        macro_rules! fin {
            ($r:expr) => {
                match $r {
                    Ok(()) => "ok".to_string(),
                    Err(e) => classify(e),
                }
            };
        }
        macro_rules! arr_args {
            ($set:expr, $($m:literal),*) => {
                match args.len() {
                    $($m => {
                        let a: [Seeds<HxSeeds>; $m] = args.clone().try_into().unwrap();
                        fin!($set.validate_accounts(a, &mut ctx))
                    })*
                    _ => "bad-op".to_string(),
                }
            };
        }
        macro_rules! array {
            ($n:literal) => {{
                let mut set = match <[E; $n] as AccountSetDecode<'_, ()>>::decode_accounts(&mut accs, (), &mut ctx) {
                    Ok(s) => s,
                    Err(e) => return classify(e),
                };
                match form {
                    "bcast" if args.len() == 1 => fin!(set.validate_accounts((args[0].clone(),), &mut ctx)),
                    "arrargs" if args.len() == $n => arr_args!(set, $n),
                    _ => "bad-op".to_string(),
                }
            }};
        }
        match carrier {
            "vec" => {
                let mut set = match <Vec<E> as AccountSetDecode<'_, usize>>::decode_accounts(&mut accs, accounts.len(), &mut ctx) {
                    Ok(s) => s,
                    Err(e) => return classify(e),
                };
                match form {
                    "bcast" if args.len() == 1 => fin!(set.validate_accounts((args[0].clone(),), &mut ctx)),
                    "vecargs" => fin!(set.validate_accounts(args.clone(), &mut ctx)),
                    "arrargs" => arr_args!(set, 0, 1, 2, 3, 4),
                    _ => "bad-op".to_string(),
                }
            }
            "arr1" => array!(1),
            "arr2" => array!(2),
            "arr3" => array!(3),
            _ => "bad-op".to_string(),
        }
    });
    r.unwrap_or_else(|_| "panic".to_string())
}

pub struct SeqElem {
    pub outer: Vec<L>,
    pub inner: Vec<L>,
    pub base: B,
    pub rendered: String,
    pub run: SeqRunner,
}
impl SeqElem {
    fn chain(&self, sym_name: &str) -> Set {
        let mut ls = self.outer.clone();
        ls.push(L::Seeded(sym_name.into()));
        ls.extend(self.inner.clone());
        Set::Chain(ls, self.base.clone())
    }
}

pub fn seq_elems() -> Vec<SeqElem> {
    macro_rules! e {
        ($s:expr, $t:ty) => {{
            let Some(Set::Chain(ls, base)) = spec::parse($s) else { panic!("bad seq elem") };
            let p = ls.iter().position(|l| *l == L::Seeded("ARG".into())).expect("seeded:ARG");
            SeqElem { outer: ls[..p].to_vec(), inner: ls[p + 1..].to_vec(), base: base.clone(), rendered: Set::Chain(ls.clone(), base).render(&sym), run: run_seq::<$t> as SeqRunner }
        }};
    }
    vec![
        e!("seeded:ARG,acct:zc8", Seeded<Account<Zc8>, HxSeeds>),
        e!("seeded:ARG,signer,mut,info", Seeded<Signer<Mut<AccountInfo>>, HxSeeds>),
        e!("mut,seeded:ARG,sysacct", Mut<Seeded<SystemAccount, HxSeeds>>),
        e!("box,seeded:ARG,box,signer,info", Box<Seeded<Box<Signer<AccountInfo>>, HxSeeds>>),
    ]
}

/// Plain-Rust oracle for the argument forms: enough arguments (`Vec<arg>`: at least as many as elements;
/// `[arg; M]`: exactly as many), and EVERY element accepts under the argument at its index.
fn oracle_seq(e: &SeqElem, carrier: &str, form: &str, ns: &[u8], accs: &[Acc]) -> bool {
    let n = if carrier == "vec" { accs.len() } else { carrier[3..].parse().unwrap() };
    if accs.len() < n {
        return false;
    }
    let len_ok = match form {
        "bcast" => true,
        "vecargs" => ns.len() >= n,
        _ => ns.len() == n,
    };
    len_ok
        && (0..n).all(|i| {
            let arg = if form == "bcast" { ns[0] } else { ns[i] };
            let Set::Chain(ls, b) = e.chain(&format!("S{arg}")) else { unreachable!() };
            all_ok(&D::One(ls, b, accs[i].clone()))
        })
}

// ---------------------------------------------------------------- execution
struct Run<'a> {
    rec: Recorder,
    nests: &'a [Nest],
    seqs: &'a [SeqElem],
}

impl Run<'_> {
    fn exec_nest(&mut self, n: &Nest, accs: &[Acc]) -> String {
        let line = format!("nest {} {}{}", hex(PROGRAM_ID.as_ref()), n.rendered, accs.iter().map(|a| format!(" {}", a.tok())).collect::<String>());
        let specs: Vec<AcctSpec> = accs
            .iter()
            .map(|a| AcctSpec::new(Pubkey::new_from_array(a.key), Pubkey::new_from_array(a.owner)).signer(a.signer).writable(a.writable).data(a.data.clone()).lamports(1_000_000))
            .collect();
        let world = World::new(&specs);
        let ans = (n.run)(world.infos());
        self.rec.op(&line, &ans);
        self.rec.bump(&format!("ans:{ans}"));
        let want = oracle_accepts(&n.spec, accs);
        if ans == "panic" {
            // no nest may panic (the `Init` slice panic on data shorter than the discriminant, D12b, is repaired: d51f9cb)
            self.rec.fail("nest_panics", &line);
        } else if (ans == "ok") != want {
            self.rec.fail(if want { "nest_rejects_valid_accounts" } else { "nest_accepts_invalid_accounts" }, &format!("{line} -> {ans}, oracle accepts={want}"));
        }
        ans
    }
    fn exec_seq(&mut self, e: &SeqElem, carrier: &str, form: &str, ns: &[u8], accs: &[Acc]) -> String {
        let line = format!(
            "seq {} {carrier} {form} {} {}{}{}",
            hex(PROGRAM_ID.as_ref()),
            e.rendered,
            ns.len(),
            ns.iter().map(|n| format!(" {}", hex(&pda(*n)))).collect::<String>(),
            accs.iter().map(|a| format!(" {}", a.tok())).collect::<String>()
        );
        let specs: Vec<AcctSpec> = accs
            .iter()
            .map(|a| AcctSpec::new(Pubkey::new_from_array(a.key), Pubkey::new_from_array(a.owner)).signer(a.signer).writable(a.writable).data(a.data.clone()).lamports(1_000_000))
            .collect();
        let world = World::new(&specs);
        let ans = (e.run)(world.infos(), carrier, form, ns);
        self.rec.op(&line, &ans);
        if ans == "bad-op" {
            return ans;
        }
        self.rec.bump(&format!("seq:{form}:{}", if ans == "ok" { "ok" } else { ans.as_str() }));
        let want = oracle_seq(e, carrier, form, ns, accs);
        if ans == "panic" {
            self.rec.fail("seq_panics", &line);
        } else if (ans == "ok") != want {
            self.rec.fail(if want { "seq_rejects_valid_accounts" } else { "seq_accepts_unvalidated_element" }, &format!("{line} -> {ans}, oracle accepts={want}"));
        }
        ans
    }
    fn exec_meta(&mut self, n: &Nest) {
        let Some(m) = n.meta else { return };
        let line = format!("meta {}", n.rendered);
        let ans = m();
        self.rec.op(&line, &ans);
        // advertised flags, recomputed in plain Rust from the layer list
        if let Set::Chain(ls, _) = &n.spec {
            let s = ls.iter().any(|l| matches!(l, L::Signer | L::AdvS));
            let w = ls.iter().any(|l| matches!(l, L::Mut | L::AdvW | L::Init | L::InitNf));
            if ans != format!("{}{}", s as u8, w as u8) {
                self.rec.fail("advertised_meta_wrong", &format!("{line} -> {ans}"));
            }
        }
    }
    fn exec_eq(&mut self, a: [u8; 32], b: [u8; 32]) {
        let line = format!("eq {} {}", hex(&a), hex(&b));
        let got = fast_32_byte_eq(&a, &b);
        self.rec.op(&line, if got { "1" } else { "0" });
        if got != (a == b) {
            self.rec.fail("fast_eq_differs_from_byte_eq", &line);
        }
    }
    fn replay_line(&mut self, l: &str) {
        let t: Vec<&str> = l.split(' ').filter(|x| !x.is_empty()).collect();
        let nests = self.nests;
        match t.as_slice() {
            ["nest", pid, set, accs @ ..] => {
                let accs: Option<Vec<Acc>> = accs.iter().map(|a| Acc::parse(a)).collect();
                match (nests.iter().find(|n| n.rendered == *set), accs, *pid == hex(PROGRAM_ID.as_ref())) {
                    (Some(n), Some(accs), true) => {
                        self.exec_nest(n, &accs);
                    }
                    _ => self.rec.op(l, "bad-op"),
                }
            }
            ["seq", pid, carrier, form, chain, m, rest @ ..] => {
                let seqs = self.seqs;
                let strict = |x: &str| if x.chars().all(|c| c.is_ascii_hexdigit()) { unhex(x).and_then(|v| <[u8; 32]>::try_from(v).ok()) } else { None };
                let m: Option<usize> = if !m.is_empty() && m.len() <= 2 && m.chars().all(|c| c.is_ascii_digit()) { m.parse().ok() } else { None };
                let parsed = (|| {
                    let m = m.filter(|m| *m <= rest.len())?;
                    let ns: Vec<u8> = rest[..m].iter().map(|k| strict(k).and_then(|k| (0..=64u8).find(|n| pda(*n) == k))).collect::<Option<_>>()?;
                    let accs: Vec<Acc> = rest[m..].iter().map(|a| Acc::parse(a)).collect::<Option<_>>()?;
                    let e = seqs.iter().find(|e| e.rendered == *chain)?;
                    (*pid == hex(PROGRAM_ID.as_ref())).then_some((e, ns, accs))
                })();
                match parsed {
                    Some((e, ns, accs)) => {
                        self.exec_seq(e, carrier, form, &ns, &accs);
                    }
                    None => self.rec.op(l, "bad-op"),
                }
            }
            ["meta", chain] => match nests.iter().find(|n| n.rendered == *chain && n.meta.is_some()) {
                Some(n) => self.exec_meta(n),
                None => self.rec.op(l, "bad-op"),
            },
            ["eq", a, b] => {
                let p = |s: &str| unhex(s).and_then(|v| <[u8; 32]>::try_from(v).ok());
                match (p(a), p(b)) {
                    (Some(a), Some(b)) => self.exec_eq(a, b),
                    _ => self.rec.op(l, "bad-op"),
                }
            }
            _ => self.rec.op(l, "bad-op"),
        }
    }
}

/// Keys derived from `base` that differ from it in ways a *folded* comparison could cancel:
/// the same xor mask in several 8-byte words, +m / -m (wrapping) in two words, swapped words,
/// reversed bytes, all words different, only the top / bottom bit of each word.
fn adversarial_variants(base: [u8; 32], rng: &mut Rng) -> Vec<[u8; 32]> {
    let mut out = vec![];
    let word = |k: &[u8; 32], i: usize| u64::from_le_bytes(k[i * 8..i * 8 + 8].try_into().unwrap());
    let set = |k: &mut [u8; 32], i: usize, v: u64| k[i * 8..i * 8 + 8].copy_from_slice(&v.to_le_bytes());
    for subset in 1u8..16 {
        if subset.count_ones() < 2 {
            continue;
        }
        for mask in [1u64, 0x80, 1 << 63, 0xA5 << 40, rng.next() | 1, u64::MAX] {
            let mut k = base;
            for i in 0..4 {
                if subset & (1 << i) != 0 {
                    let w = word(&k, i) ^ mask;
                    set(&mut k, i, w);
                }
            }
            out.push(k);
        }
    }
    for i in 0..4 {
        for j in 0..4 {
            if i == j {
                continue;
            }
            for m in [1u64, 0x100, rng.next() | 1] {
                let mut k = base;
                let (wi, wj) = (word(&k, i).wrapping_add(m), word(&k, j).wrapping_sub(m));
                set(&mut k, i, wi);
                set(&mut k, j, wj);
                out.push(k);
            }
            if i < j {
                let mut k = base;
                let (wi, wj) = (word(&base, i), word(&base, j));
                set(&mut k, i, wj);
                set(&mut k, j, wi);
                out.push(k);
            }
        }
    }
    let mut r = base;
    r.reverse();
    out.push(r);
    let mut all = base;
    for b in all.iter_mut() {
        *b = !*b;
    }
    out.push(all);
    for (lo, hi) in [(0usize, 16usize), (16, 32), (8, 24)] {
        // half / middle equal only
        let mut k = key_from(rng.next()).to_bytes();
        k[lo..hi].copy_from_slice(&base[lo..hi]);
        out.push(k);
    }
    out.retain(|k| *k != base);
    out
}

fn flip(k: &[u8; 32], bit: usize) -> [u8; 32] {
    let mut o = *k;
    o[bit / 8] ^= 1 << (bit % 8);
    o
}

pub fn run(args: &Args) {
    install_hooks();
    let table = nests();
    let seq_table = seq_elems();
    let mut r = Run {
        rec: Recorder::new(
            "one case per nest type (hand-picked nests of nests.txt + Init/Seeded nests + random nests of the layer grammar generated by build.rs, each a real Rust type): \
             the all-good accounts, then one perturbation at a time per account (signer / writable off, key and owner single-bit flips, adversarial multi-word key / owner \
             differences, foreign / System owner, discriminant deviations, short / zeroed / oversize data, Option placeholder), missing and extra accounts, Rest of 0..3 elements, \
             random flag / key mixes; the advertised SingleSetMeta of every chain; direct fast_32_byte_eq pairs. A case is non-trivial when it contains at least one accepted and \
             one rejected account list; distinct by case text hash.",
        ),
        nests: &table,
        seqs: &seq_table,
    };
    if let Some(cases) = args.replay_cases() {
        for c in cases {
            r.rec.case(&c[0]);
            for l in &c[1..] {
                r.replay_line(l);
            }
            r.rec.mark_nontrivial();
        }
        r.rec.finish(args);
        return;
    }
    let mut rng = Rng::new(args.seed);
    let thorough = args.thorough();
    let mut ci = 0;
    for c in crate::corpus_cases("C09") {
        ci += 1;
        r.rec.case(&format!("case {ci} corpus {}", c[0].trim_start_matches("case").trim()));
        for l in &c[1..] {
            r.replay_line(l);
        }
        r.rec.mark_nontrivial();
    }
    let pid = PROGRAM_ID.to_bytes();
    for n in table.iter().filter(|n| thorough || !n.random || n.spec.depth() <= 4) {
        ci += 1;
        r.rec.case(&format!("case {ci} nest {}{}", n.spec.show(), if n.random { " (random)" } else { "" }));
        r.rec.bump(&format!("depth:{}", n.spec.depth()));
        r.rec.bump(if n.random { "nests:random" } else { "nests:hand" });
        let before_ok = r.rec.distribution.get("ans:ok").copied().unwrap_or(0);
        r.exec_meta(n);
        for rest_n in if n.spec.has_rest() { vec![2usize, 0, 1, 3] } else { vec![2] } {
            let mut base = vec![];
            good(&n.spec, None, rest_n, &mut rng, &mut base);
            r.exec_nest(n, &base);
            if rest_n != 2 {
                continue;
            }
            // one perturbation at a time
            for i in 0..base.len() {
                let mut variants: Vec<Acc> = vec![];
                let a = &base[i];
                let mut push = |f: &dyn Fn(&mut Acc)| {
                    let mut x = a.clone();
                    f(&mut x);
                    variants.push(x);
                };
                push(&|x| x.signer = false);
                push(&|x| x.writable = false);
                push(&|x| {
                    x.signer = false;
                    x.writable = false
                });
                let mut bits: Vec<usize> = vec![0, 7, 63, 64, 127, 128, 191, 192, 255];
                bits.extend((0..if thorough { 64 } else { 6 }).map(|_| rng.below(256) as usize));
                for b in bits {
                    push(&|x| x.key = flip(&x.key, b));
                    push(&|x| x.owner = flip(&x.owner, b));
                }
                let (rk, ro) = (key_from(rng.next()).to_bytes(), key_from(rng.next()).to_bytes());
                push(&|x| x.key = rk);
                push(&|x| x.key = pid); // the Option placeholder
                push(&|x| x.owner = ro);
                push(&|x| x.owner = [0; 32]);
                push(&|x| x.owner = pid);
                if !a.data.is_empty() {
                    let w = a.data.len();
                    push(&|x| x.data[0] ^= 0x80);
                    push(&|x| x.data[w.min(8).min(w - 1).saturating_sub(if w > 8 { 1 } else { 2 })] ^= 0x01);
                    push(&|x| x.data.clear());
                    push(&|x| x.data.truncate(1));
                    push(&|x| x.data.iter_mut().for_each(|b| *b = 0));
                    push(&|x| x.data.iter_mut().for_each(|b| *b = 0xFF));
                    push(&|x| x.data.push(0x55));
                    push(&|x| {
                        x.data.pop();
                    });
                    push(&|x| {
                        x.data.pop();
                        x.data.pop();
                        x.data.pop();
                    });
                } else {
                    push(&|x| x.data = vec![1, 2, 3]);
                }
                if i == 0 || thorough {
                    // differences a folded / word-wise comparison could cancel
                    for k in adversarial_variants(a.key, &mut rng) {
                        push(&|x| x.key = k);
                    }
                    for o in adversarial_variants(a.owner, &mut rng) {
                        push(&|x| x.owner = o);
                    }
                }
                for v in variants {
                    let mut accs = base.clone();
                    accs[i] = v;
                    r.exec_nest(n, &accs);
                }
            }
            // missing / extra accounts
            for k in 1..=base.len().min(3) {
                r.exec_nest(n, &base[..base.len() - k]);
            }
            let mut extra = base.clone();
            extra.push(Acc { key: key_from(rng.next()).to_bytes(), owner: [0; 32], signer: false, writable: false, data: vec![] });
            r.exec_nest(n, &extra);
            // random flag / key mixes
            for _ in 0..if thorough { 200 } else { 30 } {
                let mut accs = base.clone();
                for a in accs.iter_mut() {
                    if rng.chance(1, 3) {
                        a.signer = rng.chance(1, 2);
                    }
                    if rng.chance(1, 3) {
                        a.writable = rng.chance(1, 2);
                    }
                    if rng.chance(1, 8) {
                        a.key = if rng.chance(1, 2) { pid } else { flip(&a.key, rng.below(256) as usize) };
                    }
                    if rng.chance(1, 8) {
                        a.owner = if rng.chance(1, 2) { [0; 32] } else { flip(&a.owner, rng.below(256) as usize) };
                    }
                }
                r.exec_nest(n, &accs);
            }
        }
        if r.rec.distribution.get("ans:ok").copied().unwrap_or(0) > before_ok {
            r.rec.mark_nontrivial();
        }
        r.rec.sample_current(0);
    }
    // sequences of argument-taking elements validated with (arg,), Vec<arg>, [arg; M]: argument lists of length
    // n-1, n, n+1 for n = 0..3 decoded elements; all-good accounts, and one bad account at every position
    // (in particular the LAST one) — so an element that escapes validation is seen
    for e in seq_table.iter() {
        ci += 1;
        let name = e.chain("ARG").show();
        r.rec.case(&format!("case {ci} seq {name}"));
        let before_ok = r.rec.distribution.get("seq:vecargs:ok").copied().unwrap_or(0);
        let mut cfgs: Vec<(String, &str, usize, usize)> = vec![]; // carrier, form, n, m
        for n in 0..=3usize {
            cfgs.push(("vec".into(), "bcast", n, 1));
            for m in [n.wrapping_sub(1), n, n + 1] {
                if m <= 4 {
                    cfgs.push(("vec".into(), "vecargs", n, m));
                    cfgs.push(("vec".into(), "arrargs", n, m));
                }
            }
            if n >= 1 {
                cfgs.push((format!("arr{n}"), "bcast", n, 1));
                cfgs.push((format!("arr{n}"), "arrargs", n, n));
            }
        }
        for (carrier, form, n, m) in cfgs {
            // argument i = seed number 10 + i (broadcast: all elements share argument 10)
            let ns: Vec<u8> = (0..m).map(|i| 10 + i as u8).collect();
            let arg_of = |i: usize| if form == "bcast" { 10 } else { 10 + i as u8 };
            let mut base = vec![];
            for i in 0..n {
                good(&e.chain(&format!("S{}", arg_of(i))), None, 0, &mut rng, &mut base);
            }
            r.exec_seq(e, &carrier, form, &ns, &base);
            for i in 0..n {
                for v in 0..6 {
                    let mut accs = base.clone();
                    let a = &mut accs[i];
                    match v {
                        0 => a.key = pda(arg_of(i).wrapping_add(1)), // the PDA of ANOTHER argument
                        1 => a.key = flip(&a.key, rng.below(256) as usize),
                        2 => a.signer = false,
                        3 => a.writable = false,
                        4 => a.owner = flip(&a.owner, rng.below(256) as usize),
                        _ => {
                            if a.data.is_empty() {
                                a.owner = key_from(rng.next() | 1).to_bytes()
                            } else {
                                a.data[0] ^= 1
                            }
                        }
                    }
                    r.exec_seq(e, &carrier, form, &ns, &accs);
                }
            }
            if n >= 1 && carrier != "vec" {
                r.exec_seq(e, &carrier, form, &ns, &base[..n - 1]); // an array one account short
            }
            if n >= 2 {
                // the accounts of two elements swapped: each is fine under the OTHER's argument only
                let mut accs = base.clone();
                accs.swap(0, n - 1);
                r.exec_seq(e, &carrier, form, &ns, &accs);
            }
        }
        if r.rec.distribution.get("seq:vecargs:ok").copied().unwrap_or(0) > before_ok {
            r.rec.mark_nontrivial();
        }
        r.rec.sample_current(0);
    }
    // direct comparisons: equal, single-bit, single-byte, word-k-only differences, random, adversarial
    r.rec.case("case eq fast_32_byte_eq");
    let n_rand = if thorough { 20000 } else { 500 };
    for i in 0..n_rand {
        let a = key_from(rng.next()).to_bytes();
        r.exec_eq(a, a);
        let b = key_from(rng.next()).to_bytes();
        r.exec_eq(a, b);
        r.exec_eq(a, flip(&a, (i % 256) as usize));
        let mut d = a;
        let word = (i % 4) as usize;
        for x in &mut d[word * 8..word * 8 + 8] {
            *x = x.wrapping_add((rng.below(255) + 1) as u8);
        }
        r.exec_eq(a, d);
        r.exec_eq(d, a);
        if i % 10 == 0 {
            for v in adversarial_variants(a, &mut rng) {
                r.exec_eq(a, v);
                r.exec_eq(v, a);
            }
        }
    }
    r.rec.mark_nontrivial();
    r.rec.samples.push(hx_common::json!({"nests": table.iter().map(|n| n.spec.show()).collect::<Vec<_>>()}));
    r.rec.finish(args);
}
