//! C09 — Signer, writable, address, program, sysvar and owner checks are exact.
//!
//! Op lines:
//!   `val <nest> <present> <signer> <writable> <key-hex> <owner-hex>` → `ok` | `err:<Class>`
//!       nest = layers outer→inner joined by `,`, the last one being the base:
//!       layers: `opt` `signer` `mut` `nsigner` (MaybeSigner<false>) `nmut` (MaybeMut<false>) `addr:<hex32>`
//!               `advw` / `advs`: a user single-account set that ADVERTISES writable / signer in its
//!               meta (like `Init` does) but checks nothing itself (pass-through for validation)
//!       bases : `info` `sysacct` `program:<hex32>` `sysvar:<hex32>`
//!   `eq <a-hex32> <b-hex32>` → `1` | `0`   (the framework's fast 32-byte comparison)
use crate::progs::HxProgram;
use hx_common::{hex, unhex, Args, Recorder, Rng};
use hx_native::{key_from, res_class, AcctSpec, World};
use star_frame::{
    account_set::{
        modifiers::{MaybeMut, MaybeSigner},
        AccountSetDecode, AccountSetValidate,
    },
    prelude::*,
    util::fast_32_byte_eq,
};

static PROGRAM_ID: Pubkey = Pubkey::new_from_array([7u8; 32]);
pub const ADDR_A: Pubkey = Pubkey::new_from_array([
    0xA0, 1, 2, 3, 4, 5, 6, 7, 8, 9, 10, 11, 12, 13, 14, 15, 16, 17, 18, 19, 20, 21, 22, 23, 24, 25, 26, 27, 28, 29, 30, 0xAF,
]);

#[derive(AccountSet, Debug)]
pub struct AddrInfo {
    #[validate(address = &ADDR_A)]
    a: AccountInfo,
}
#[derive(AccountSet, Debug)]
pub struct AddrSignerMut {
    #[validate(address = &ADDR_A)]
    a: Signer<Mut<AccountInfo>>,
}
#[derive(AccountSet, Debug)]
pub struct AddrMutSys {
    #[validate(address = &ADDR_A)]
    a: Mut<SystemAccount>,
}
#[derive(AccountSet, Debug)]
pub struct AddrOptSigner {
    #[validate(address = &ADDR_A)]
    a: Signer<AccountInfo>,
}

/// Advertises `writable` in its `SingleSetMeta` without checking the flag (as `Init<T>` does).
#[derive(AccountSet, Debug, Clone, Copy)]
#[repr(transparent)]
pub struct AdvW<T>(#[single_account_set(writable)] T);
/// Advertises `signer` in its `SingleSetMeta` without checking the flag.
#[derive(AccountSet, Debug, Clone, Copy)]
#[repr(transparent)]
pub struct AdvS<T>(#[single_account_set(signer)] T);

type Runner = fn(&[AccountInfo]) -> String;

fn run_nest<T>(accounts: &[AccountInfo]) -> String
where
    T: for<'a> AccountSetDecode<'a, ()> + AccountSetValidate<()>,
{
    let mut ctx = Context::new(&PROGRAM_ID);
    let mut accs = accounts;
    let mut set = match T::decode_accounts(&mut accs, (), &mut ctx) {
        Ok(s) => s,
        Err(_) => return "err:MissingAccount".to_string(),
    };
    res_class(set.validate_accounts((), &mut ctx))
}

fn k(p: &Pubkey) -> String {
    hex(p.as_ref())
}

/// (layer string, runner). The layer string is what the model interprets.
fn nests() -> Vec<(String, Runner)> {
    let sys = k(&System::ID);
    let hxp = k(&HxProgram::ID);
    let rent = k(&<star_frame::pinocchio::sysvars::rent::Rent as star_frame::account_set::sysvar::SysvarId>::id());
    let ixs = k(&<star_frame::account_set::sysvar::InstructionsSysvar as star_frame::account_set::sysvar::SysvarId>::id());
    let a = k(&ADDR_A);
    macro_rules! n {
        ($s:expr, $t:ty) => {
            ($s.to_string(), run_nest::<$t> as Runner)
        };
    }
    vec![
        n!("info", AccountInfo),
        n!("signer,info", Signer<AccountInfo>),
        n!("mut,info", Mut<AccountInfo>),
        n!("signer,mut,info", Signer<Mut<AccountInfo>>),
        n!("mut,signer,info", Mut<Signer<AccountInfo>>),
        n!("sysacct", SystemAccount),
        n!("signer,sysacct", Signer<SystemAccount>),
        n!("mut,sysacct", Mut<SystemAccount>),
        n!("signer,mut,sysacct", Signer<Mut<SystemAccount>>),
        n!("mut,signer,sysacct", Mut<Signer<SystemAccount>>),
        n!(format!("program:{sys}"), Program<System>),
        n!(format!("program:{hxp}"), Program<HxProgram>),
        n!(format!("signer,program:{sys}"), Signer<Program<System>>),
        n!(format!("mut,signer,program:{hxp}"), Mut<Signer<Program<HxProgram>>>),
        n!(format!("sysvar:{rent}"), Sysvar<star_frame::pinocchio::sysvars::rent::Rent>),
        n!(format!("mut,sysvar:{ixs}"), Mut<Sysvar<star_frame::account_set::sysvar::InstructionsSysvar>>),
        n!(format!("signer,mut,sysvar:{rent}"), Signer<Mut<Sysvar<star_frame::pinocchio::sysvars::rent::Rent>>>),
        n!("nsigner,info", MaybeSigner<false, AccountInfo>),
        n!("nmut,info", MaybeMut<false, AccountInfo>),
        n!("nsigner,mut,sysacct", MaybeSigner<false, Mut<SystemAccount>>),
        n!("nmut,signer,info", MaybeMut<false, Signer<AccountInfo>>),
        n!("nsigner,nmut,info", MaybeSigner<false, MaybeMut<false, AccountInfo>>),
        n!("signer,nmut,mut,sysacct", Signer<MaybeMut<false, Mut<SystemAccount>>>),
        n!("mut,nsigner,signer,info", Mut<MaybeSigner<false, Signer<AccountInfo>>>),
        n!("mut,advw,info", Mut<AdvW<AccountInfo>>),
        n!("signer,advs,info", Signer<AdvS<AccountInfo>>),
        n!("mut,advw,signer,sysacct", Mut<AdvW<Signer<SystemAccount>>>),
        n!("signer,mut,advs,advw,info", Signer<Mut<AdvS<AdvW<AccountInfo>>>>),
        n!("advw,mut,info", AdvW<Mut<AccountInfo>>),
        n!("opt,mut,advw,signer,info", Option<Mut<AdvW<Signer<AccountInfo>>>>),
        n!("opt,info", Option<AccountInfo>),
        n!("opt,signer,info", Option<Signer<AccountInfo>>),
        n!("opt,mut,info", Option<Mut<AccountInfo>>),
        n!("opt,signer,mut,sysacct", Option<Signer<Mut<SystemAccount>>>),
        n!("opt,mut,signer,sysacct", Option<Mut<Signer<SystemAccount>>>),
        n!(format!("opt,program:{sys}"), Option<Program<System>>),
        n!(format!("opt,signer,sysvar:{rent}"), Option<Signer<Sysvar<star_frame::pinocchio::sysvars::rent::Rent>>>),
        n!(format!("opt,mut,signer,program:{hxp}"), Option<Mut<Signer<Program<HxProgram>>>>),
        n!(format!("addr:{a},info"), AddrInfo),
        n!(format!("addr:{a},signer,mut,info"), AddrSignerMut),
        n!(format!("addr:{a},mut,sysacct"), AddrMutSys),
        n!(format!("opt,addr:{a},signer,info"), Option<AddrOptSigner>),
        n!(format!("opt,addr:{a},signer,mut,info"), Option<AddrSignerMut>),
    ]
}

/// The key a nest expects (if any), used to aim the generator at near misses.
fn expected_key(nest: &str) -> Option<[u8; 32]> {
    for l in nest.split(',') {
        for p in ["program:", "sysvar:", "addr:"] {
            if let Some(h) = l.strip_prefix(p) {
                return unhex(h).and_then(|v| v.try_into().ok());
            }
        }
    }
    None
}

/// Keys derived from `base` that differ from it in ways a *folded* comparison could cancel:
/// the same xor mask in several 8-byte words, +m / -m (wrapping) in two words, swapped words,
/// reversed bytes, all words different, only the top / bottom bit of each word.
fn adversarial_variants(base: [u8; 32], rng: &mut Rng) -> Vec<[u8; 32]> {
    let mut out = vec![];
    let word = |k: &[u8; 32], i: usize| u64::from_le_bytes(k[i * 8..i * 8 + 8].try_into().unwrap());
    let set = |k: &mut [u8; 32], i: usize, v: u64| k[i * 8..i * 8 + 8].copy_from_slice(&v.to_le_bytes());
    for subset in 1u8..16 {
        if subset.count_ones() < 2 {
            continue;
        }
        for mask in [1u64, 0x80, 1 << 63, 0xA5 << 40, rng.next() | 1, u64::MAX] {
            let mut k = base;
            for i in 0..4 {
                if subset & (1 << i) != 0 {
                    let w = word(&k, i) ^ mask;
                    set(&mut k, i, w);
                }
            }
            out.push(k);
        }
    }
    for i in 0..4 {
        for j in 0..4 {
            if i == j {
                continue;
            }
            for m in [1u64, 0x100, rng.next() | 1] {
                let mut k = base;
                let (wi, wj) = (word(&k, i).wrapping_add(m), word(&k, j).wrapping_sub(m));
                set(&mut k, i, wi);
                set(&mut k, j, wj);
                out.push(k);
            }
            if i < j {
                let mut k = base;
                let (wi, wj) = (word(&base, i), word(&base, j));
                set(&mut k, i, wj);
                set(&mut k, j, wi);
                out.push(k);
            }
        }
    }
    let mut r = base;
    r.reverse();
    out.push(r);
    let mut all = base;
    for b in all.iter_mut() {
        *b = !*b;
    }
    out.push(all);
    for (lo, hi) in [(0usize, 16usize), (16, 32), (8, 24)] {
        // half / middle equal only
        let mut k = key_from(rng.next()).to_bytes();
        k[lo..hi].copy_from_slice(&base[lo..hi]);
        out.push(k);
    }
    out.retain(|k| *k != base);
    out
}

// ---------------------------------------------------------------- independent oracle (plain Rust)
fn oracle_accepts(nest: &str, present: bool, signer: bool, writable: bool, key: &[u8; 32], owner: &[u8; 32]) -> Option<bool> {
    let layers: Vec<&str> = nest.split(',').collect();
    if !present {
        return Some(layers[0] == "opt");
    }
    let mut ok = true;
    for l in layers {
        ok &= match l {
            "opt" | "nsigner" | "nmut" | "info" | "advw" | "advs" => true,
            "signer" => signer,
            "mut" => writable,
            "sysacct" => owner == &[0u8; 32],
            _ => {
                let (_, h) = l.split_once(':')?;
                let want: [u8; 32] = unhex(h)?.try_into().ok()?;
                key.iter().zip(want.iter()).all(|(x, y)| x == y)
            }
        };
    }
    Some(ok)
}

fn exec_val(rec: &mut Recorder, table: &[(String, Runner)], nest: &str, present: bool, signer: bool, writable: bool, key: [u8; 32], owner: [u8; 32]) {
    let line = format!("val {nest} {} {} {} {} {}", present as u8, signer as u8, writable as u8, hex(&key), hex(&owner));
    let Some((_, runner)) = table.iter().find(|(n, _)| n == nest) else {
        rec.op(&line, "bad-op");
        return;
    };
    // An absent optional account is encoded as the program id (or as no account at all).
    let specs: Vec<AcctSpec> = if present {
        vec![AcctSpec::new(Pubkey::new_from_array(key), Pubkey::new_from_array(owner)).signer(signer).writable(writable)]
    } else if signer || !nest.starts_with("opt") {
        vec![] // no accounts left: the second encoding of "absent" for optional accounts, an error otherwise
    } else {
        vec![AcctSpec::new(PROGRAM_ID, Pubkey::new_from_array(owner)).writable(writable)]
    };
    let world = World::new(&specs);
    let ans = match hx_common::catch(|| runner(world.infos())) {
        Ok(a) => a,
        Err(_) => "panic".to_string(),
    };
    rec.op(&line, &ans);
    rec.bump(&format!("ans:{ans}"));
    match oracle_accepts(nest, present, signer, writable, &key, &owner) {
        Some(want) => {
            let got = ans == "ok";
            if got != want || ans == "panic" {
                rec.fail(
                    if want { "modifier_rejects_valid_account" } else { "modifier_accepts_invalid_account" },
                    &format!("{line} -> {ans}, oracle accepts={want}"),
                );
            }
        }
        None => {}
    }
}

fn exec_eq(rec: &mut Recorder, a: [u8; 32], b: [u8; 32]) {
    let line = format!("eq {} {}", hex(&a), hex(&b));
    let got = fast_32_byte_eq(&a, &b);
    rec.op(&line, if got { "1" } else { "0" });
    if got != (a == b) {
        rec.fail("fast_eq_differs_from_byte_eq", &line);
    }
}

fn parse32(s: &str) -> Option<[u8; 32]> {
    unhex(s)?.try_into().ok()
}

fn replay_line(rec: &mut Recorder, table: &[(String, Runner)], l: &str) {
    let t: Vec<&str> = l.split(' ').collect();
    match t.as_slice() {
        ["val", nest, p, s, w, key, owner] => {
            let (Some(key), Some(owner)) = (parse32(key), parse32(owner)) else { return rec.op(l, "bad-op") };
            let b = |x: &str| x == "1";
            if ![p, s, w].iter().all(|x| **x == "0" || **x == "1") {
                return rec.op(l, "bad-op");
            }
            exec_val(rec, table, nest, b(p), b(s), b(w), key, owner);
        }
        ["eq", a, b] => {
            let (Some(a), Some(b)) = (parse32(a), parse32(b)) else { return rec.op(l, "bad-op") };
            exec_eq(rec, a, b);
        }
        _ => rec.op(l, "bad-op"),
    }
}

pub fn run(args: &Args) {
    let table = nests();
    let mut rec = Recorder::new(
        "one case per nesting (43 modifier nestings up to depth 5, see c09.rs) x flag combinations x key/owner perturbations \
         (exact, every single-bit flip, every single-byte replacement, random, and multi-word differences that a folded comparison would cancel: equal xor masks in several words, +m/-m in two words, swapped words, reversed bytes); plus direct fast_32_byte_eq pairs. \
         A case is non-trivial when it contains at least one accepted and one rejected account; distinct by case text hash.",
    );
    if let Some(cases) = args.replay_cases() {
        for c in cases {
            rec.case(&c[0]);
            for l in &c[1..] {
                replay_line(&mut rec, &table, l);
            }
            rec.mark_nontrivial();
        }
        rec.finish(args);
        return;
    }
    let mut rng = Rng::new(args.seed);
    let thorough = args.thorough();
    let sys = [0u8; 32];
    for (ci, (nest, _)) in table.iter().enumerate() {
        rec.case(&format!("case {ci} nest {nest}"));
        let want_key = expected_key(nest).unwrap_or_else(|| key_from(1000 + ci as u64).to_bytes());
        let other_owner = key_from(77).to_bytes();
        let before = (rec.distribution.get("ans:ok").copied().unwrap_or(0), rec.evaluations);
        // all flag combinations x {exact key, random key} x {system owner, other owner}
        for bits in 0..8u8 {
            let (present, signer, writable) = (bits & 4 != 0, bits & 2 != 0, bits & 1 != 0);
            for key in [want_key, key_from(rng.next()).to_bytes()] {
                for owner in [sys, other_owner] {
                    exec_val(&mut rec, &table, nest, present, signer, writable, key, owner);
                }
            }
        }
        // every single-bit flip of the key and of the owner, with all flags granted
        for bit in 0..256usize {
            let mut key = want_key;
            key[bit / 8] ^= 1 << (bit % 8);
            exec_val(&mut rec, &table, nest, true, true, true, key, sys);
            let mut owner = sys;
            owner[bit / 8] ^= 1 << (bit % 8);
            exec_val(&mut rec, &table, nest, true, true, true, want_key, owner);
        }
        // every single-byte replacement (random byte; all 255 in thorough)
        for pos in 0..32usize {
            let reps: Vec<u8> = if thorough { (1..=255u8).collect() } else { vec![(rng.below(255) + 1) as u8] };
            for d in reps {
                let mut key = want_key;
                key[pos] = key[pos].wrapping_add(d);
                exec_val(&mut rec, &table, nest, true, true, true, key, sys);
                let mut owner = sys;
                owner[pos] = owner[pos].wrapping_add(d);
                exec_val(&mut rec, &table, nest, true, rng.chance(1, 2), rng.chance(1, 2), want_key, owner);
            }
        }
        // differences a folded / word-wise comparison could cancel
        for key in adversarial_variants(want_key, &mut rng) {
            exec_val(&mut rec, &table, nest, true, true, true, key, sys);
        }
        for owner in adversarial_variants(sys, &mut rng) {
            exec_val(&mut rec, &table, nest, true, true, true, want_key, owner);
        }
        let oks = rec.distribution.get("ans:ok").copied().unwrap_or(0) - before.0;
        let _ = before.1;
        if oks > 0 {
            rec.mark_nontrivial();
        }
        rec.sample_current(0);
    }
    // direct comparisons: equal, single-bit, single-byte, word-k-only differences, random
    rec.case("case eq fast_32_byte_eq");
    let n_rand = if thorough { 20000 } else { 500 };
    for i in 0..n_rand {
        let a = key_from(rng.next()).to_bytes();
        exec_eq(&mut rec, a, a);
        let b = key_from(rng.next()).to_bytes();
        exec_eq(&mut rec, a, b);
        let mut c = a;
        let bit = (i % 256) as usize;
        c[bit / 8] ^= 1 << (bit % 8);
        exec_eq(&mut rec, a, c);
        let mut d = a;
        let word = (i % 4) as usize;
        for x in &mut d[word * 8..word * 8 + 8] {
            *x = x.wrapping_add((rng.below(255) + 1) as u8);
        }
        exec_eq(&mut rec, a, d);
        exec_eq(&mut rec, d, a);
        if i % 10 == 0 {
            for v in adversarial_variants(a, &mut rng) {
                exec_eq(&mut rec, a, v);
                exec_eq(&mut rec, v, a);
            }
        }
    }
    rec.mark_nontrivial();
    rec.samples.push(serde_json_sample(&table));
    rec.finish(args);
}

fn serde_json_sample(table: &[(String, Runner)]) -> hx_common::Value {
    hx_common::json!({"nestings": table.iter().map(|(n, _)| n.clone()).collect::<Vec<_>>()})
}
