//! The nest grammar shared by `build.rs` (which turns every nest into a REAL Rust account-set type)
//! and the harness (generator, oracle, op lines). Keys appear symbolically here (`addr:A`,
//! `program:system`, `acct:zc8`); the harness substitutes the real constants when it writes op lines.
//!
//! ```text
//! set   := opt(set) | box(set) | rest(set) | arr<N>(set) | vec<N>(set) | addr:<K>(set) | st(set;set;…) | chain
//! chain := layer,layer,…,base
//! layer := signer | mut | nsigner | nmut | advw | advs | box | addr:<K> | seeded:<K> | init | initnf
//! base  := info | sysacct | program:<P> | sysvar:<S> | acct:<T> | borsh:<T>
//! ```
#![allow(dead_code)]

#[derive(Clone, Debug, PartialEq)]
pub enum L {
    Signer,
    Mut,
    NSigner,
    NMut,
    AdvW,
    AdvS,
    Box,
    Addr(String),
    Seeded(String),
    Init,
    InitNf,
}

#[derive(Clone, Debug, PartialEq)]
pub enum B {
    Info,
    SysAcct,
    Program(String),
    Sysvar(String),
    Acct(String),
    Borsh(String),
}

#[derive(Clone, Debug, PartialEq)]
pub enum Set {
    Chain(Vec<L>, B),
    Opt(Box<Set>),
    BoxS(Box<Set>),
    Rest(Box<Set>),
    Arr(usize, Box<Set>),
    Vecn(usize, Box<Set>),
    Addr(String, Box<Set>),
    St(Vec<Set>),
}

fn parse_item(s: &str) -> Option<Result<L, B>> {
    Some(match s {
        "signer" => Ok(L::Signer),
        "mut" => Ok(L::Mut),
        "nsigner" => Ok(L::NSigner),
        "nmut" => Ok(L::NMut),
        "advw" => Ok(L::AdvW),
        "advs" => Ok(L::AdvS),
        "box" => Ok(L::Box),
        "init" => Ok(L::Init),
        "initnf" => Ok(L::InitNf),
        "info" => Err(B::Info),
        "sysacct" => Err(B::SysAcct),
        _ => {
            let (h, t) = s.split_once(':')?;
            match h {
                "addr" => Ok(L::Addr(t.into())),
                "seeded" => Ok(L::Seeded(t.into())),
                "program" => Err(B::Program(t.into())),
                "sysvar" => Err(B::Sysvar(t.into())),
                "acct" => Err(B::Acct(t.into())),
                "borsh" => Err(B::Borsh(t.into())),
                _ => return None,
            }
        }
    })
}

fn split_top(s: &str) -> Vec<String> {
    let (mut depth, mut cur, mut out) = (0i32, String::new(), vec![]);
    for c in s.chars() {
        match c {
            '(' => depth += 1,
            ')' => depth -= 1,
            ';' if depth == 0 => {
                out.push(std::mem::take(&mut cur));
                continue;
            }
            _ => {}
        }
        cur.push(c);
    }
    out.push(cur);
    out
}

pub fn parse(s: &str) -> Option<Set> {
    if let (Some(p), true) = (s.find('('), s.ends_with(')')) {
        let (head, inner) = (&s[..p], &s[p + 1..s.len() - 1]);
        let sub = || parse(inner).map(Box::new);
        return Some(match head {
            "opt" => Set::Opt(sub()?),
            "box" => Set::BoxS(sub()?),
            "rest" => Set::Rest(sub()?),
            "st" => Set::St(split_top(inner).iter().map(|p| parse(p)).collect::<Option<Vec<_>>>()?),
            _ if head.starts_with("arr") => Set::Arr(head[3..].parse().ok().filter(|n| *n <= 8)?, sub()?),
            _ if head.starts_with("vec") => Set::Vecn(head[3..].parse().ok().filter(|n| *n <= 8)?, sub()?),
            _ if head.starts_with("addr:") => Set::Addr(head[5..].into(), sub()?),
            _ => return None,
        });
    }
    if s.contains('(') || s.contains(')') {
        return None;
    }
    let items: Vec<&str> = s.split(',').collect();
    let (last, layers) = items.split_last()?;
    let base = match parse_item(last)? {
        Err(b) => b,
        Ok(_) => return None,
    };
    let mut ls = vec![];
    for l in layers {
        match parse_item(l)? {
            Ok(l) => ls.push(l),
            Err(_) => return None,
        }
    }
    Some(Set::Chain(ls, base))
}

impl L {
    pub fn show(&self) -> String {
        match self {
            L::Signer => "signer".into(),
            L::Mut => "mut".into(),
            L::NSigner => "nsigner".into(),
            L::NMut => "nmut".into(),
            L::AdvW => "advw".into(),
            L::AdvS => "advs".into(),
            L::Box => "box".into(),
            L::Addr(k) => format!("addr:{k}"),
            L::Seeded(k) => format!("seeded:{k}"),
            L::Init => "init".into(),
            L::InitNf => "initnf".into(),
        }
    }
}
impl B {
    pub fn show(&self) -> String {
        match self {
            B::Info => "info".into(),
            B::SysAcct => "sysacct".into(),
            B::Program(k) => format!("program:{k}"),
            B::Sysvar(k) => format!("sysvar:{k}"),
            B::Acct(k) => format!("acct:{k}"),
            B::Borsh(k) => format!("borsh:{k}"),
        }
    }
}
impl Set {
    /// `f` renders a symbol (kind, name) — identity for the symbolic form, hex for op lines.
    pub fn render(&self, f: &dyn Fn(&str, &str) -> String) -> String {
        match self {
            Set::Chain(ls, b) => {
                let mut items: Vec<String> = ls
                    .iter()
                    .map(|l| match l {
                        L::Addr(k) => format!("addr:{}", f("key", k)),
                        L::Seeded(k) => format!("seeded:{}", f("pda", k)),
                        l => l.show(),
                    })
                    .collect();
                items.push(match b {
                    B::Program(k) => format!("program:{}", f("program", k)),
                    B::Sysvar(k) => format!("sysvar:{}", f("sysvar", k)),
                    B::Acct(k) => format!("acct:{}", f("type", k)),
                    B::Borsh(k) => format!("borsh:{}", f("type", k)),
                    b => b.show(),
                });
                items.join(",")
            }
            Set::Opt(s) => format!("opt({})", s.render(f)),
            Set::BoxS(s) => format!("box({})", s.render(f)),
            Set::Rest(s) => format!("rest({})", s.render(f)),
            Set::Arr(n, s) => format!("arr{n}({})", s.render(f)),
            Set::Vecn(n, s) => format!("vec{n}({})", s.render(f)),
            Set::Addr(k, s) => format!("addr:{}({})", f("key", k), s.render(f)),
            Set::St(ss) => format!("st({})", ss.iter().map(|s| s.render(f)).collect::<Vec<_>>().join(";")),
        }
    }
    pub fn show(&self) -> String {
        self.render(&|_, n| n.to_string())
    }
    pub fn depth(&self) -> usize {
        match self {
            Set::Chain(ls, _) => ls.len() + 1,
            Set::Opt(s) | Set::BoxS(s) | Set::Rest(s) | Set::Arr(_, s) | Set::Vecn(_, s) | Set::Addr(_, s) => 1 + s.depth(),
            Set::St(ss) => 1 + ss.iter().map(|s| s.depth()).max().unwrap_or(0),
        }
    }
    pub fn has_rest(&self) -> bool {
        match self {
            Set::Chain(..) => false,
            Set::Rest(_) => true,
            Set::Opt(s) | Set::BoxS(s) | Set::Arr(_, s) | Set::Vecn(_, s) | Set::Addr(_, s) => s.has_rest(),
            Set::St(ss) => ss.iter().any(|s| s.has_rest()),
        }
    }
}

/// SplitMix64 (the same generator as `hx_common::Rng`, duplicated so `build.rs` has no dependency).
pub struct Sm(pub u64);
impl Sm {
    pub fn next(&mut self) -> u64 {
        self.0 = self.0.wrapping_add(0x9E37_79B9_7F4A_7C15);
        let mut z = self.0;
        z = (z ^ (z >> 30)).wrapping_mul(0xBF58_476D_1CE4_E5B9);
        z = (z ^ (z >> 27)).wrapping_mul(0x94D0_49BB_1331_11EB);
        z ^ (z >> 31)
    }
    pub fn below(&mut self, n: u64) -> u64 {
        self.next() % n.max(1)
    }
}

/// A random single-account chain of up to `max_layers` wrapper layers (no `init` / `seeded`: those
/// need special validate arguments and are written by hand).
pub fn gen_chain(r: &mut Sm, max_layers: usize) -> Set {
    let n = r.below(max_layers as u64 + 1) as usize;
    let mut ls = vec![];
    for _ in 0..n {
        ls.push(match r.below(9) {
            0 | 1 => L::Signer,
            2 | 3 => L::Mut,
            4 => L::NSigner,
            5 => L::NMut,
            6 => if r.below(2) == 0 { L::AdvW } else { L::AdvS },
            7 => L::Box,
            _ => L::Addr(if r.below(2) == 0 { "A" } else { "B" }.into()),
        });
    }
    let b = match r.below(10) {
        0 | 1 => B::Info,
        2 | 3 => B::SysAcct,
        4 => B::Program(["system", "hx", "p2"][r.below(3) as usize].into()),
        5 => B::Sysvar(["rent", "ixs", "slothashes"][r.below(3) as usize].into()),
        6 | 7 => B::Acct(["zc8", "zc2"][r.below(2) as usize].into()),
        _ => B::Borsh(["fix8", "fix2"][r.below(2) as usize].into()),
    };
    Set::Chain(ls, b)
}

/// Something `CheckKey` is implemented for: a chain, `Option` of such, `Box` of a chain.
fn gen_keyable(r: &mut Sm, depth: usize) -> Set {
    match r.below(4) {
        0 if depth > 1 => Set::Opt(Box::new(gen_keyable(r, depth - 1))),
        1 if depth > 1 => Set::BoxS(Box::new(gen_chain(r, depth.saturating_sub(2)))),
        _ => gen_chain(r, depth.saturating_sub(1)),
    }
}

/// An element type for `Rest`: must consume at least one account per element (else `Rest` would not terminate).
fn gen_rest_elem(r: &mut Sm, depth: usize) -> Set {
    match r.below(4) {
        0 if depth > 1 => Set::Opt(Box::new(gen_chain(r, depth.saturating_sub(2)))),
        1 if depth > 1 => Set::Arr(r.below(2) as usize + 1, Box::new(gen_chain(r, depth.saturating_sub(2)))),
        2 if depth > 1 => Set::BoxS(Box::new(gen_chain(r, depth.saturating_sub(2)))),
        _ => gen_chain(r, depth.saturating_sub(1)),
    }
}

/// A random nest of depth ≤ `depth`. `last`: a `Rest` is only allowed in tail position.
pub fn gen_set(r: &mut Sm, depth: usize, last: bool) -> Set {
    if depth <= 1 {
        return gen_chain(r, 0);
    }
    match r.below(12) {
        0 | 1 => Set::Opt(Box::new(gen_set(r, depth - 1, false))),
        2 => Set::BoxS(Box::new(gen_set(r, depth - 1, false))),
        3 | 4 => Set::Arr(r.below(3) as usize + 1, Box::new(gen_set(r, depth - 1, false))),
        5 => Set::St(vec![Set::Vecn(r.below(3) as usize, Box::new(gen_set(r, depth.saturating_sub(2).max(1), false)))]),
        6 if last => Set::Rest(Box::new(gen_rest_elem(r, depth - 1))),
        7 => Set::Addr(if r.below(2) == 0 { "A" } else { "B" }.into(), Box::new(gen_keyable(r, depth - 1))),
        8 | 9 => {
            let n = r.below(3) as usize + 1;
            Set::St((0..n).map(|i| gen_set(r, depth - 1, last && i + 1 == n)).collect())
        }
        _ => gen_chain(r, depth - 1),
    }
}
