//! Turns every nest of `nests.txt` (hand-picked) and ≈50 random nests of the layer grammar into a REAL Rust
//! account-set type (+ the derived structs it needs) and emits the table `generated_nests()`:
//! `(symbolic nest string, runner, meta fn for chains, random?)`.
#[path = "src/spec.rs"]
mod spec;
use spec::*;
use std::fmt::Write;

struct Gen {
    defs: String,
    n: usize,
}

impl Gen {
    fn chain_ty(&self, ls: &[L], b: &B) -> String {
        let mut t = match b {
            B::Info => "AccountInfo".to_string(),
            B::SysAcct => "SystemAccount".to_string(),
            B::Program(p) => format!(
                "Program<{}>",
                match p.as_str() {
                    "system" => "System",
                    "hx" => "crate::progs::HxProgram",
                    "p2" => "crate::progs::P2",
                    o => panic!("unknown program {o}"),
                }
            ),
            B::Sysvar(s) => format!(
                "Sysvar<{}>",
                match s.as_str() {
                    "rent" => "star_frame::pinocchio::sysvars::rent::Rent",
                    "ixs" => "star_frame::account_set::sysvar::InstructionsSysvar",
                    "slothashes" => "star_frame::account_set::sysvar::SlotHashesSysvar",
                    o => panic!("unknown sysvar {o}"),
                }
            ),
            B::Acct(t) => format!("Account<crate::progs::{}>", type_name(t)),
            B::Borsh(t) => format!("BorshAccount<crate::progs::{}>", type_name(t)),
        };
        for l in ls.iter().rev() {
            t = match l {
                L::Signer => format!("Signer<{t}>"),
                L::Mut => format!("Mut<{t}>"),
                L::NSigner => format!("MaybeSigner<false, {t}>"),
                L::NMut => format!("MaybeMut<false, {t}>"),
                L::AdvW => format!("crate::c09::AdvW<{t}>"),
                L::AdvS => format!("crate::c09::AdvS<{t}>"),
                L::Box => format!("Box<{t}>"),
                L::Addr(k) => format!("crate::c09::Addr{k}<{t}>"),
                L::Seeded(_) | L::Init | L::InitNf => panic!("init / seeded nests are written by hand"),
            };
        }
        t
    }
    fn ty(&mut self, s: &Set) -> String {
        match s {
            Set::Chain(ls, b) => self.chain_ty(ls, b),
            Set::Opt(s) => format!("Option<{}>", self.ty(s)),
            Set::BoxS(s) => format!("Box<{}>", self.ty(s)),
            Set::Rest(s) => format!("Rest<{}>", self.ty(s)),
            Set::Arr(n, s) => format!("[{}; {n}]", self.ty(s)),
            Set::Vecn(..) => panic!("vecN(..) must be a field of st(..) (it needs a decode argument)"),
            Set::Addr(k, s) => {
                let inner = self.ty(s);
                self.n += 1;
                let name = format!("G{}", self.n);
                writeln!(self.defs, "#[derive(AccountSet, Debug)]\n#[account_set(skip_default_idl, skip_cpi_account_set, skip_client_account_set)]\npub struct {name} {{\n    #[validate(address = &crate::c09::ADDR_{k})]\n    f: {inner},\n}}").unwrap();
                name
            }
            Set::St(fs) => {
                let fields: Vec<String> = fs
                    .iter()
                    .enumerate()
                    .map(|(i, f)| match f {
                        Set::Vecn(n, e) => format!("    #[decode(arg = {n}usize)]\n    f{i}: Vec<{}>,", self.ty(e)),
                        f => format!("    f{i}: {},", self.ty(f)),
                    })
                    .collect();
                self.n += 1;
                let name = format!("G{}", self.n);
                writeln!(self.defs, "#[derive(AccountSet, Debug)]\n#[account_set(skip_default_idl, skip_cpi_account_set, skip_client_account_set)]\npub struct {name} {{\n{}\n}}", fields.join("\n")).unwrap();
                name
            }
        }
    }
}

fn type_name(t: &str) -> &'static str {
    match t {
        "zc8" => "Zc8",
        "zc2" => "Zc2",
        "fix8" => "Fix8",
        "fix2" => "Fix2",
        o => panic!("unknown account type {o}"),
    }
}

fn main() {
    println!("cargo:rerun-if-changed=nests.txt");
    println!("cargo:rerun-if-changed=src/spec.rs");
    println!("cargo:rerun-if-changed=build.rs");
    let mut nests: Vec<(Set, bool)> = vec![];
    for l in std::fs::read_to_string("nests.txt").unwrap().lines() {
        let l = l.trim();
        if l.is_empty() || l.starts_with('#') {
            continue;
        }
        let s = parse(l).unwrap_or_else(|| panic!("nests.txt: cannot parse `{l}`"));
        assert_eq!(s.show(), l, "nests.txt: `{l}` is not in canonical form");
        nests.push((s, false));
    }
    // ≈50 random nests of depth ≤ 5 from the layer grammar (fixed seed: the table is part of the build)
    let mut r = Sm(0xC09_5EED);
    let mut tries = 0;
    while nests.iter().filter(|n| n.1).count() < 50 && tries < 5000 {
        tries += 1;
        let depth = 2 + r.below(4) as usize;
        let s = gen_set(&mut r, depth, true);
        if s.depth() > 6 || nests.iter().any(|(x, _)| *x == s) {
            continue;
        }
        nests.push((s, true));
    }
    let mut g = Gen { defs: String::new(), n: 0 };
    let mut table = String::new();
    for (s, random) in &nests {
        let ty = g.ty(s);
        let meta = if matches!(s, Set::Chain(..)) { format!("Some(crate::c09::meta_of::<{ty}> as crate::c09::MetaFn)") } else { "None".into() };
        writeln!(table, "        ({:?}, crate::c09::run_nest::<{ty}> as crate::c09::Runner, {meta}, {random}),", s.show()).unwrap();
    }
    let out = format!(
        "// @generated by build.rs\n#[allow(unused_imports)]\nuse star_frame::{{account_set::modifiers::{{MaybeMut, MaybeSigner}}, prelude::*}};\n{}\npub fn generated_nests() -> Vec<(&'static str, crate::c09::Runner, Option<crate::c09::MetaFn>, bool)> {{\n    vec![\n{}    ]\n}}\n",
        g.defs, table
    );
    std::fs::write(std::path::Path::new(&std::env::var("OUT_DIR").unwrap()).join("gen_nests.rs"), out).unwrap();
}
