//! Tuple-struct (and one named control) instructions for `derive(InstructionArgs)`: every placement of
//! `#[ix_args(decode|validate|run|cleanup)]` among un-annotated fields of the same type (`u8`), plus a
//! struct-level `#[ix_args(run)]`. The account set `Spy` makes every phase's argument observable:
//! decode = number of accounts its vector takes, validate / cleanup = logged by `extra_validation` /
//! `extra_cleanup`, run = logged by `process`.
use crate::sets::{HxIxSet, PID};
use hx_native::err_class;
use star_frame::{
    account_set::{AccountSetDecode, AccountSetValidate},
    instruction::{InstructionDiscriminant, IxArgs},
    prelude::*,
};
use std::cell::RefCell;

#[derive(Debug, Default, Clone)]
pub struct SpyLog {
    pub decoded: Option<usize>,
    pub validate: Option<u8>,
    pub run: Option<String>,
    pub cleanup: Option<u8>,
}
thread_local! { pub static SPY: RefCell<SpyLog> = RefCell::new(SpyLog::default()); }

#[derive(AccountSet, Debug)]
#[decode(arg = u8)]
#[validate(arg = u8, extra_validation = { SPY.with_borrow_mut(|s| s.validate = Some(arg)); Ok(()) })]
#[cleanup(arg = u8, extra_cleanup = { SPY.with_borrow_mut(|s| s.cleanup = Some(arg)); star_frame::Result::<()>::Ok(()) })]
pub struct Spy {
    #[decode(arg = (arg as usize, ()))]
    pub v: Vec<AccountInfo>,
}

/// how a run argument prints: values joined by `+`, a whole struct as its fields joined by `.`
pub trait Obs {
    fn obs(&self) -> String;
}
impl Obs for () {
    fn obs(&self) -> String {
        "-".into()
    }
}
impl Obs for u8 {
    fn obs(&self) -> String {
        self.to_string()
    }
}
impl<T: Obs> Obs for &T {
    fn obs(&self) -> String {
        (**self).obs()
    }
}
impl<T: Obs> Obs for &mut T {
    fn obs(&self) -> String {
        (**self).obs()
    }
}
impl<A: Obs, B: Obs> Obs for (A, B) {
    fn obs(&self) -> String {
        format!("{}+{}", self.0.obs(), self.1.obs())
    }
}

pub struct TReal {
    /// direct decode: `Ok((accounts left, vector length))` or the error class
    pub direct: Result<(usize, usize), String>,
    pub entry: String,
    pub spy: SpyLog,
}

pub struct TEntry {
    pub name: &'static str,
    /// struct-level annotation, then one token per field: letters of `d v r c`, `-` for none
    pub self_ann: &'static str,
    pub anns: &'static str,
    pub disc: fn() -> [u8; 8],
    /// client side: the instruction data for these field values (`star_frame_instruction_data`)
    pub data: fn(&[u8]) -> Option<Vec<u8>>,
    pub exec: fn(&[AccountInfo], &[u8]) -> TReal,
}

macro_rules! t_ix {
    // tuple struct
    ($name:ident, $self_ann:expr, $anns:expr, $(#[$sa:meta])* ( $( $(#[$a:meta])* $t:ty ),* $(,)? )) => {
        #[derive(BorshSerialize, BorshDeserialize, Debug, Clone, Copy, InstructionArgs)]
        #[instruction_args(skip_idl)]
        $(#[$sa])*
        pub struct $name( $( $(#[$a])* pub $t ),* );
        t_ix!(@impls $name, $self_ann, $anns, |it| $name($({ let x: $t = *it.next()?; x }),*));
    };
    // named struct
    ($name:ident, $self_ann:expr, $anns:expr, $(#[$sa:meta])* { $( $(#[$a:meta])* $f:ident : $t:ty ),* $(,)? }) => {
        #[derive(BorshSerialize, BorshDeserialize, Debug, Clone, Copy, InstructionArgs)]
        #[instruction_args(skip_idl)]
        $(#[$sa])*
        pub struct $name { $( $(#[$a])* pub $f: $t ),* }
        t_ix!(@impls $name, $self_ann, $anns, |it| $name { $($f: *it.next()?),* });
    };
    (@impls $name:ident, $self_ann:expr, $anns:expr, |$it:ident| $build:expr) => {
        impl StarFrameInstruction for $name {
            type ReturnType = ();
            type Accounts<'decode, 'arg> = Spy;
            fn process(accounts: &mut Self::Accounts<'_, '_>, run_arg: Self::RunArg<'_>, _ctx: &mut Context) -> Result<()> {
                SPY.with_borrow_mut(|s| {
                    s.decoded = Some(accounts.v.len());
                    s.run = Some(run_arg.obs());
                });
                Ok(())
            }
        }
        impl $name {
            fn build(vals: &[u8]) -> Option<Self> {
                let mut $it = vals.iter();
                let r = $build;
                if $it.next().is_some() { return None; }
                Some(r)
            }
            pub fn entry() -> TEntry {
                TEntry {
                    name: stringify!($name),
                    self_ann: $self_ann,
                    anns: $anns,
                    disc: || <$name as InstructionDiscriminant<HxIxSet>>::DISCRIMINANT,
                    data: |vals| {
                        let ix = Self::build(vals)?;
                        star_frame::client::star_frame_instruction_data::<HxIxSet, $name>(&ix).ok()
                    },
                    exec: |infos, data| {
                        // what `process_from_raw` does, step by step, to see how many accounts decode leaves
                        let direct = (|| {
                            let mut ctx = Context::new(&PID);
                            let mut payload = &data[8..];
                            let mut ix = <$name as BorshDeserialize>::deserialize(&mut payload).map_err(|_| "err:data".to_string())?;
                            let IxArgs { decode, validate, .. } = <$name as InstructionArgs>::split_to_args(&mut ix);
                            let mut accs = infos;
                            let mut set = <Spy as AccountSetDecode<_>>::decode_accounts(&mut accs, decode, &mut ctx).map_err(err_class)?;
                            let out = (accs.len(), set.v.len());
                            set.validate_accounts(validate, &mut ctx).map_err(err_class)?;
                            Ok(out)
                        })();
                        SPY.with_borrow_mut(|s| *s = SpyLog::default());
                        let entry = match <HxIxSet as InstructionSet>::dispatch(&PID, infos, data) {
                            Ok(()) => "ok".to_string(),
                            Err(e) => err_class(e),
                        };
                        TReal { direct, entry, spy: SPY.with_borrow(|s| s.clone()) }
                    },
                }
            }
        }
    };
}

// the red-team case: an un-annotated field before the annotated ones
t_ix!(T01, "-", "-,dvc,r", (u8, #[ix_args(decode, validate, cleanup)] u8, #[ix_args(run)] u8));
t_ix!(T02, "-", "-,d,-,v,r,c", (u8, #[ix_args(decode)] u8, u8, #[ix_args(validate)] u8, #[ix_args(run)] u8, #[ix_args(cleanup)] u8));
t_ix!(T03, "-", "r,-,c,v,-,d", (#[ix_args(run)] u8, u8, #[ix_args(cleanup)] u8, #[ix_args(validate)] u8, u8, #[ix_args(decode)] u8));
// no gaps (control)
t_ix!(T04, "-", "d,v,c,r", (#[ix_args(decode)] u8, #[ix_args(validate)] u8, #[ix_args(cleanup)] u8, #[ix_args(run)] u8));
t_ix!(T05, "-", "-,-,dvcr", (u8, u8, #[ix_args(decode, validate, cleanup, run)] u8));
// struct-level run argument (the whole struct)
t_ix!(T06, "r", "-,d,vc", #[ix_args(run)] (u8, #[ix_args(decode)] u8, #[ix_args(validate, cleanup)] u8));
// by-reference run arguments
t_ix!(T07, "-", "c,-,r,d,-,v", (#[ix_args(cleanup)] u8, u8, #[ix_args(&run)] u8, #[ix_args(decode)] u8, u8, #[ix_args(validate)] u8));
t_ix!(T08, "-", "-,r,d,r,vc", (u8, #[ix_args(run)] u8, #[ix_args(decode)] u8, #[ix_args(&run)] u8, #[ix_args(validate, cleanup)] u8));
// named fields (control: the accessor is the field name)
t_ix!(T09, "-", "-,dvc,r", { version: u8, #[ix_args(decode, validate, cleanup)] count: u8, #[ix_args(run)] share: u8 });
t_ix!(T10, "-", "dvc,-,-,r", (#[ix_args(decode, validate, cleanup)] u8, u8, u8, #[ix_args(&mut run)] u8));

impl Obs for T06 {
    fn obs(&self) -> String {
        format!("{}.{}.{}", self.0, self.1, self.2)
    }
}

pub fn t_registry() -> Vec<TEntry> {
    vec![T01::entry(), T02::entry(), T03::entry(), T04::entry(), T05::entry(), T06::entry(), T07::entry(), T08::entry(), T09::entry(), T10::entry()]
}
