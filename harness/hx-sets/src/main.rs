//! Correspondence harness for C14 (client / on-chain decode / CPI views of an instruction agree).
mod c14;
pub mod probe;
pub mod sets;
pub mod sexp;
pub mod tuples;

fn main() {
    let args = hx_common::Args::parse();
    hx_common::quiet_panics();
    match args.prop.as_str() {
        "C14" => c14::run(&args),
        other => panic!("hx-sets: unknown property {other}"),
    }
}
