//! The harness program: ≈ 45 derived account sets, one instruction per set, one instruction set.
#![allow(clippy::type_complexity)]
use crate::{
    probe::{Probe, ProbeSet},
    sexp::Sexp,
};
use hx_native::{err_class, res_class};
use star_frame::{
    account_set::{
        modifiers::{MaybeMut, MaybeSigner},
        sysvar::InstructionsSysvar, AccountSetDecode, AccountSetValidate, ClientAccountSet, CpiAccountSet,
    },
    cpi::{CpiProgramInput, HandleCpiArray},
    instruction::{InstructionDiscriminant, IxArgs},
    pinocchio::sysvars::rent::Rent,
    prelude::*,
    typenum::{Bit, False, True, Unsigned},
    verif_hooks::CpiRecord,
    SolanaInstruction,
};
use std::cell::RefCell;

#[derive(StarFrameProgram, Debug, Clone, Copy)]
#[program(instruction_set = HxIxSet, id = "HxSets1111111111111111111111111111111111111", no_entrypoint)]
pub struct HxSets;

pub static PID: Pubkey = HxSets::ID;

/// The run arguments every harness instruction carries (borsh: u8, u64 LE, bool byte, u32 LE length + bytes).
#[derive(BorshSerialize, BorshDeserialize, Debug, Clone, PartialEq, Eq, Default)]
pub struct RunArgs {
    pub a: u8,
    pub b: u64,
    pub c: bool,
    pub d: Vec<u8>,
}

// ------------------------------------------------------------------------------- in-process trace
#[derive(Debug, Default)]
pub struct Trace {
    /// the decoded set as seen inside `process`
    pub val: Option<String>,
    pub run: Option<RunArgs>,
    /// result class of the CPI built from the decoded set + what the hook captured
    pub cpi: Option<(String, Option<CpiRecord>)>,
}

#[derive(Debug, Default)]
pub struct Stash {
    /// instruction data of the running instruction (so `process` can rebuild the instruction for the CPI)
    pub data: Vec<u8>,
    /// the program's own `AccountInfo`, for account sets that contain an `Option`
    pub prog: Option<AccountInfo>,
    pub do_cpi: bool,
}

thread_local! {
    pub static TRACE: RefCell<Trace> = RefCell::new(Trace::default());
    pub static STASH: RefCell<Stash> = RefCell::new(Stash::default());
}

/// Builds the builder's `program` input from the program's `AccountInfo` for either `ContainsOption`.
pub trait MkInput: CpiProgramInput<HxSets> + Bit {
    /// `over`: pass an explicit program id where the builder takes one (`ContainsOption = False`)
    fn mk(info: &AccountInfo, over: bool) -> Self::Input<'_>;
}
impl MkInput for True {
    fn mk(info: &AccountInfo, _over: bool) -> &AccountInfo {
        info
    }
}
/// The program id override used for sets without optionals when the run argument `c` is set.
pub static OVERRIDE_ID: Pubkey = Pubkey::new_from_array([0xC1; 32]);
impl MkInput for False {
    fn mk(_info: &AccountInfo, over: bool) -> Option<&Pubkey> {
        over.then_some(&OVERRIDE_ID)
    }
}

/// Body of every harness instruction: log what was decoded, then CPI "to ourselves" with the decoded set.
///
/// `S` is the set as `process` sees it, `A` the same set at `'static` (what `MakeCpi` is keyed on); they differ
/// only for sets with a lifetime parameter (`&'a AccountInfo` fields), whose `CpiAccounts` hold `AccountInfo`
/// copies and carry the lifetime as a phantom.
pub fn process_generic<I, S, A>(accounts: &mut S, run: &RunArgs) -> Result<()>
where
    S: Probe + CpiAccountSet,
    A: CpiAccountSet,
    A::AccountLen: HandleCpiArray,
    A::ContainsOption: MkInput,
    I: StarFrameInstruction<Accounts<'static, 'static> = A> + InstructionDiscriminant<HxIxSet> + BorshSerialize + BorshDeserialize,
{
    TRACE.with_borrow_mut(|t| {
        t.val = Some(accounts.show().to_string());
        t.run = Some(run.clone());
    });
    let (data, prog, do_cpi) = STASH.with_borrow(|s| (s.data.clone(), s.prog, s.do_cpi));
    if do_cpi {
        let prog = prog.expect("program info stashed");
        let ix = <I as BorshDeserialize>::deserialize(&mut &data[8..])?;
        let cpi_accounts = accounts.to_cpi_accounts();
        assert_eq!(
            (size_of::<S::CpiAccounts>(), align_of::<S::CpiAccounts>()),
            (size_of::<A::CpiAccounts>(), align_of::<A::CpiAccounts>())
        );
        // SAFETY: `A` is `S` with its (phantom) lifetime parameter set to 'static
        let cpi_static: A::CpiAccounts = unsafe { std::ptr::read((&raw const cpi_accounts).cast::<A::CpiAccounts>()) };
        std::mem::forget(cpi_accounts);
        let res = HxSets::cpi::<I, A>(ix, cpi_static, <A::ContainsOption as MkInput>::mk(&prog, run.c)).invoke();
        let class = res_class(res);
        TRACE.with_borrow_mut(|t| match &mut t.cpi {
            Some((c, _)) => *c = class,
            None => t.cpi = Some((class, None)),
        });
    }
    Ok(())
}

// ------------------------------------------------------------------------------- decode-arg parsing
/// canonical all-unit decode argument of a shape (`None` if it contains a `vec`)
pub fn unit_arg(shape: &Sexp) -> Option<Sexp> {
    let Sexp::List(v) = shape else { return None };
    match v.first()?.as_atom()? {
        "single" => Some(Sexp::atom("u")),
        "opt" | "boxed" | "rest" => unit_arg(v.get(1)?),
        "arr" => unit_arg(v.get(2)?),
        "struct" => Some(Sexp::tagged("fields", v[1..].iter().map(unit_arg).collect::<Option<Vec<_>>>()?)),
        _ => None,
    }
}

fn strip_to<'a>(shape: &'a Sexp, tag: &str) -> Option<&'a [Sexp]> {
    let Sexp::List(v) = shape else { return None };
    match v.first()?.as_atom()? {
        t if t == tag => Some(&v[1..]),
        "opt" | "boxed" | "rest" => strip_to(v.get(1)?, tag),
        _ => None,
    }
}

pub trait DArg: Sized + Copy + std::fmt::Debug {
    fn parse_for(shape: &Sexp, a: &Sexp) -> Option<Self>;
    /// the model's `ArgTy` of this Rust argument type when used for `shape`
    fn ty_for(shape: &Sexp) -> Sexp;
}
impl DArg for () {
    fn parse_for(shape: &Sexp, a: &Sexp) -> Option<()> {
        (unit_arg(shape)? == *a).then_some(())
    }
    fn ty_for(shape: &Sexp) -> Sexp {
        unit_arg(shape).expect("`()` is the decode argument of a shape without `Vec`")
    }
}
/// `[T; N]`: one argument per element — of a `Vec` (`AccountSetDecode<[TA; N]> for Vec<T>`, also reached
/// through the `(I,)` form) or of an array (`AccountSetDecode<[DArg; N]> for [A; N]`)
impl<T: DArg, const N: usize> DArg for [T; N] {
    fn parse_for(shape: &Sexp, a: &Sexp) -> Option<Self> {
        let (tag, elem) = match (strip_to(shape, "vec"), strip_to(shape, "arr")) {
            (Some([e]), _) => ("each", e),
            (_, Some([n, e])) if n.as_atom() == Some(N.to_string().as_str()) => ("arreach", e),
            _ => return None,
        };
        let items = a.items(tag)?;
        if items.len() != N {
            return None;
        }
        let v: Vec<T> = items.iter().map(|x| T::parse_for(elem, x)).collect::<Option<_>>()?;
        v.try_into().ok()
    }
    fn ty_for(shape: &Sexp) -> Sexp {
        match (strip_to(shape, "vec"), strip_to(shape, "arr")) {
            (Some([e]), _) => Sexp::tagged("each", vec![Sexp::atom(N.to_string()), T::ty_for(e)]),
            (_, Some([_, e])) => Sexp::tagged("arreach", vec![Sexp::atom(N.to_string()), T::ty_for(e)]),
            _ => panic!("[T; N] argument for a shape that is neither vec nor arr"),
        }
    }
}
impl<T: DArg> DArg for (usize, T) {
    fn parse_for(shape: &Sexp, a: &Sexp) -> Option<Self> {
        let [elem] = strip_to(shape, "vec")? else { return None };
        let [n, inner] = a.items("len")? else { return None };
        let n = n.as_atom()?;
        if n.len() > 3 || n.is_empty() || !n.bytes().all(|c| c.is_ascii_digit()) || (n.len() > 1 && n.starts_with('0')) {
            return None;
        }
        Some((n.parse().ok()?, T::parse_for(elem, inner)?))
    }
    fn ty_for(shape: &Sexp) -> Sexp {
        let [elem] = strip_to(shape, "vec").expect("(usize, T) is the argument of a vec") else { unreachable!() };
        Sexp::tagged("len", vec![T::ty_for(elem)])
    }
}
impl<T: DArg> DArg for (T,) {
    fn parse_for(shape: &Sexp, a: &Sexp) -> Option<Self> {
        let [_n, elem] = strip_to(shape, "arr")? else { return None };
        Some((T::parse_for(elem, a)?,))
    }
    fn ty_for(shape: &Sexp) -> Sexp {
        let [_n, elem] = strip_to(shape, "arr").expect("(T,) is the argument of an array") else { unreachable!() };
        T::ty_for(elem)
    }
}

// ------------------------------------------------------------------------------- macros
/// A derived set whose decode argument is `()` (the default generated decode).
macro_rules! plain_set {
    ($name:ident $(<$lt:lifetime>)?, $client:ident { $($f:ident : $t:ty),* $(,)? }) => {
        #[derive(AccountSet, Debug)]
        pub struct $name $(<$lt>)? { $(pub $f: $t),* }
        impl $(<$lt>)? Probe for $name $(<$lt>)? {
            type Client = $client $(<$lt>)?;
            fn shape() -> Sexp { Sexp::tagged("struct", vec![$(<$t as Probe>::shape()),*]) }
            #[allow(unused_mut, unused_variables)]
            fn client(v: &Sexp) -> Option<Self::Client> {
                let mut it = v.items("many")?.iter();
                let c = $client { $($f: <$t as Probe>::client(it.next()?)?),* };
                if it.next().is_some() { return None; }
                Some(c)
            }
            fn show(&self) -> Sexp { Sexp::tagged("many", vec![$(self.$f.show()),*]) }
            #[allow(unused_variables)]
            fn static_metas(out: &mut Vec<(bool, bool)>) { $(<$t as Probe>::static_metas(out);)* }
        }
    };
}

/// A derived tuple-struct set (decode argument `()`); fields are given with their index.
macro_rules! tuple_set {
    ($name:ident $(<$lt:lifetime>)?, $client:ident ( $($i:tt : $t:ty),* $(,)? )) => {
        #[derive(AccountSet, Debug)]
        pub struct $name $(<$lt>)? ( $(pub $t),* );
        impl $(<$lt>)? Probe for $name $(<$lt>)? {
            type Client = $client $(<$lt>)?;
            fn shape() -> Sexp { Sexp::tagged("struct", vec![$(<$t as Probe>::shape()),*]) }
            #[allow(unused_mut, unused_variables)]
            fn client(v: &Sexp) -> Option<Self::Client> {
                let mut it = v.items("many")?.iter();
                let c = $client( $(<$t as Probe>::client(it.next()?)?),* );
                if it.next().is_some() { return None; }
                Some(c)
            }
            fn show(&self) -> Sexp { Sexp::tagged("many", vec![$(self.$i.show()),*]) }
            #[allow(unused_variables)]
            fn static_metas(out: &mut Vec<(bool, bool)>) { $(<$t as Probe>::static_metas(out);)* }
        }
    };
}

/// A derived set with a custom decode argument: one argument per field.
macro_rules! args_set {
    ($name:ident $(<$lt:lifetime>)?, $client:ident, $arg:ident { $($f:ident : $t:ty => $a:ty $([$via:ident])?),* $(,)? }) => {
        #[derive(BorshSerialize, BorshDeserialize, Debug, Clone, Copy)]
        pub struct $arg { $(pub $f: $a),* }
        #[derive(AccountSet, Debug)]
        #[decode(arg = $arg)]
        pub struct $name $(<$lt>)? { $(#[decode(arg = via!($($via)? arg.$f))] pub $f: $t),* }
        impl $(<$lt>)? Probe for $name $(<$lt>)? {
            type Client = $client $(<$lt>)?;
            fn shape() -> Sexp { Sexp::tagged("struct", vec![$(<$t as Probe>::shape()),*]) }
            fn client(v: &Sexp) -> Option<Self::Client> {
                let mut it = v.items("many")?.iter();
                let c = $client { $($f: <$t as Probe>::client(it.next()?)?),* };
                if it.next().is_some() { return None; }
                Some(c)
            }
            fn show(&self) -> Sexp { Sexp::tagged("many", vec![$(self.$f.show()),*]) }
            fn static_metas(out: &mut Vec<(bool, bool)>) { $(<$t as Probe>::static_metas(out);)* }
        }
        impl DArg for $arg {
            fn parse_for(shape: &Sexp, a: &Sexp) -> Option<Self> {
                let mut sh = strip_to(shape, "struct")?.iter();
                let mut it = a.items("fields")?.iter();
                let r = $arg { $($f: <$a as DArg>::parse_for(sh.next()?, it.next()?)?),* };
                if it.next().is_some() || sh.next().is_some() { return None; }
                Some(r)
            }
            fn ty_for(shape: &Sexp) -> Sexp {
                let mut sh = strip_to(shape, "struct").expect("struct argument for a struct shape").iter();
                Sexp::tagged("fields", vec![$(<$a as DArg>::ty_for(sh.next().unwrap())),*])
            }
        }
    };
}

/// how a field's decode argument is passed on: as it is, or wrapped in a 1-tuple (the `(I,)` iterator form of `Vec`)
macro_rules! via {
    (tuple $e:expr) => { ($e,) };
    ($e:expr) => { $e };
}

#[derive(Debug)]
pub enum Direct {
    DataErr,
    DecodeErr(String),
    Ok { rem: usize, val: String, v: String },
}

pub trait HxIx: Sized {
    type Set: ProbeSet;
    fn make(darg: &Sexp, run: RunArgs) -> Option<Self>;
    fn argty() -> Sexp;
    fn direct(infos: &[AccountInfo], data: &[u8]) -> Direct;
}

/// The instruction for a set: `{ d: decode arg, r: run args }`, processed by `process_generic`.
macro_rules! hx_ix {
    ($ix:ident, $set:ty, $darg:ty) => {
        hx_ix!(@ $ix, $set, $set, $set, $darg);
    };
    // a set with a lifetime parameter (`&'a AccountInfo` fields)
    (lt $ix:ident, $set:ident, $darg:ty) => {
        hx_ix!(@ $ix, $set<'decode>, $set<'_>, $set<'static>, $darg);
    };
    (@ $ix:ident, $acc:ty, $anon:ty, $set:ty, $darg:ty) => {
        #[derive(BorshSerialize, BorshDeserialize, Debug, Clone, InstructionArgs)]
        #[instruction_args(skip_idl)]
        pub struct $ix {
            #[ix_args(decode)]
            pub d: $darg,
            #[ix_args(&run)]
            pub r: RunArgs,
        }
        impl StarFrameInstruction for $ix {
            type ReturnType = ();
            type Accounts<'decode, 'arg> = $acc;
            fn process(accounts: &mut Self::Accounts<'_, '_>, run_arg: Self::RunArg<'_>, _ctx: &mut Context) -> Result<()> {
                process_generic::<$ix, _, $set>(accounts, run_arg)
            }
        }
        impl HxIx for $ix {
            type Set = $set;
            fn make(darg: &Sexp, run: RunArgs) -> Option<Self> {
                Some($ix { d: <$darg as DArg>::parse_for(&<$set as Probe>::shape(), darg)?, r: run })
            }
            fn argty() -> Sexp {
                <$darg as DArg>::ty_for(&<$set as Probe>::shape())
            }
            fn direct(infos: &[AccountInfo], data: &[u8]) -> Direct {
                let mut ctx = Context::new(&PID);
                let mut payload = &data[8..];
                let Ok(mut ix) = <$ix as BorshDeserialize>::deserialize(&mut payload) else { return Direct::DataErr };
                let IxArgs { decode, validate, .. } = <$ix as InstructionArgs>::split_to_args(&mut ix);
                let mut accs = infos;
                match <$anon as AccountSetDecode<_>>::decode_accounts(&mut accs, decode, &mut ctx) {
                    Err(e) => Direct::DecodeErr(err_class(e)),
                    Ok(mut s) => {
                        let rem = accs.len();
                        let val = s.show().to_string();
                        let v = res_class(s.validate_accounts(validate, &mut ctx));
                        Direct::Ok { rem, val, v }
                    }
                }
            }
        }
    };
}

pub struct SetEntry {
    pub name: &'static str,
    /// from `gen_sets.rs` (seeded-random) rather than the curated family
    pub generated: bool,
    pub shape: fn() -> Sexp,
    /// the model's type of the instruction's decode argument
    pub argty: fn() -> Sexp,
    /// `ClientAccountSet::MIN_LEN`, `CpiAccountSet::AccountLen`, `CpiAccountSet::ContainsOption`
    pub statics: fn() -> (usize, usize, bool),
    pub static_metas: fn() -> Vec<(bool, bool)>,
    /// `ClientAccountSet::extend_account_metas` called directly
    pub client_metas: fn(&Sexp) -> Option<Vec<AccountMeta>>,
    /// `MakeInstruction::instruction`; `None` = the value / argument does not have the set's type
    pub instruction: fn(&Sexp, &Sexp, RunArgs) -> Option<std::result::Result<SolanaInstruction, String>>,
    pub direct: fn(&[AccountInfo], &[u8]) -> Direct,
    pub disc: fn() -> [u8; 8],
}

pub fn entry<I>(name: &'static str, generated: bool) -> SetEntry
where
    I: HxIx + StarFrameInstruction<Accounts<'static, 'static> = <I as HxIx>::Set> + InstructionDiscriminant<HxIxSet> + BorshSerialize,
    I::Set: CpiAccountSet,
    <I::Set as CpiAccountSet>::ContainsOption: Bit,
{
    SetEntry {
        name,
        generated,
        shape: <I::Set as Probe>::shape,
        argty: I::argty,
        statics: || {
            (
                <I::Set as ClientAccountSet>::MIN_LEN,
                <<I::Set as CpiAccountSet>::AccountLen as Unsigned>::USIZE,
                <<I::Set as CpiAccountSet>::ContainsOption as Bit>::BOOL,
            )
        },
        static_metas: || {
            let mut v = vec![];
            <I::Set as Probe>::static_metas(&mut v);
            v
        },
        client_metas: |v| {
            let c = <I::Set as Probe>::client(v)?;
            let mut metas = vec![];
            <I::Set as ClientAccountSet>::extend_account_metas(&PID, &c, &mut metas);
            Some(metas)
        },
        instruction: |v, darg, run| {
            let c = <I::Set as Probe>::client(v)?;
            let ix = I::make(darg, run)?;
            Some(HxSets::instruction::<I, I::Set>(&ix, c).map_err(|e| err_class(e)))
        },
        direct: I::direct,
        disc: || <I as InstructionDiscriminant<HxIxSet>>::DISCRIMINANT,
    }
}

macro_rules! registry {
    (gen [$(($gset:ident, $gix:ident, $gdarg:ty)),* $(,)?] [$(($set:ident, $ix:ident, $darg:ty)),* $(,)?]
     lt [$(($lset:ident, $lix:ident, $ldarg:ty)),* $(,)?] extra $($t:ident),* $(,)?) => {
        $(hx_ix!($ix, $set, $darg);)*
        $(hx_ix!(lt $lix, $lset, $ldarg);)*
        $(hx_ix!($gix, $gset, $gdarg);)*
        #[derive(InstructionSet)]
        #[ix_set(skip_idl)]
        pub enum HxIxSet { $($ix($ix),)* $($lix($lix),)* $($gix($gix),)* $($t($t)),* }
        /// the curated family, then the seeded-random generated sets (`gen_sets.rs`)
        pub fn registry() -> Vec<SetEntry> {
            vec![$(entry::<$ix>(stringify!($set), false),)* $(entry::<$lix>(stringify!($lset), false),)* $(entry::<$gix>(stringify!($gset), true)),*]
        }
    };
}

// ------------------------------------------------------------------------------- the sets
type Sg = Signer<AccountInfo>;
type Mu = Mut<AccountInfo>;

// building-block inner structs
plain_set!(InA, InAClientAccounts { x: Sg, y: Option<Mu> });
plain_set!(InB, InBClientAccounts { x: AccountInfo, y: Mu });
plain_set!(InC, InCClientAccounts { a: InA, b: [InB; 1], o: Option<InA> });
plain_set!(InR, InRClientAccounts { x: AccountInfo, r: Rest<AccountInfo> });
plain_set!(InE, InEClientAccounts {});

plain_set!(S01, S01ClientAccounts { a: AccountInfo });
plain_set!(S02, S02ClientAccounts { a: Sg, b: Mu, c: Mut<Sg>, d: Signer<Mu> });
plain_set!(S03, S03ClientAccounts { p: Program<System>, r: Sysvar<Rent>, i: Sysvar<InstructionsSysvar> });
plain_set!(S04, S04ClientAccounts { o: Option<AccountInfo> });
plain_set!(S05, S05ClientAccounts { a: Option<Sg>, b: Option<Mu>, c: Option<Mut<Sg>> });
plain_set!(S06, S06ClientAccounts { p: Option<Program<System>>, s: Option<Sysvar<Rent>>, z: Sg });
plain_set!(S07, S07ClientAccounts { a: [Mu; 2], b: [Sg; 3] });
plain_set!(S08, S08ClientAccounts { a: [AccountInfo; 0], b: AccountInfo });
plain_set!(S09, S09ClientAccounts { a: [Option<AccountInfo>; 2] });
plain_set!(S10, S10ClientAccounts { a: [Option<Mu>; 2], o: Option<Sg> });
plain_set!(S11, S11ClientAccounts { a: Box<AccountInfo>, b: Box<Mut<Sg>> });
plain_set!(S12, S12ClientAccounts { a: Box<Option<AccountInfo>>, b: Option<Box<Mu>> });
plain_set!(S13, S13ClientAccounts { a: Mut<Sg>, inner: InA, p: Program<System> });
plain_set!(S14, S14ClientAccounts { o: Option<InB>, z: AccountInfo });
plain_set!(S15, S15ClientAccounts { a: [InB; 2] });
plain_set!(S16, S16ClientAccounts { b: Box<InA> });
plain_set!(S17, S17ClientAccounts { a: Sg, r: Rest<AccountInfo> });
plain_set!(S18, S18ClientAccounts { r: Rest<Option<Mu>> });
plain_set!(S19, S19ClientAccounts { a: AccountInfo, r: Rest<InB> });
plain_set!(S20, S20ClientAccounts { r: Rest<[Sg; 2]> });
plain_set!(S21, S21ClientAccounts { r: Rest<Box<Mu>> });
plain_set!(S22, S22ClientAccounts { a: Mut<Sg>, opt: Option<AccountInfo>, inner: InA, prog: Program<System>, arr: [Mu; 2], rest: Rest<Sg> });
plain_set!(S23, S23ClientAccounts {});
plain_set!(S24, S24ClientAccounts { o: Option<Option<AccountInfo>>, z: AccountInfo });
plain_set!(S25, S25ClientAccounts { a: [[AccountInfo; 2]; 2] });
plain_set!(S26, S26ClientAccounts { a: Box<Box<Sg>> });
plain_set!(S27, S27ClientAccounts { o: Option<[AccountInfo; 2]>, z: Mu });
plain_set!(S28, S28ClientAccounts { n: InC, e: InE });
plain_set!(S29, S29ClientAccounts { a: AccountInfo, o: Option<InR> });
plain_set!(S30, S30ClientAccounts { p: Mut<Program<System>>, s: Signer<Sysvar<Rent>> });
plain_set!(S31, S31ClientAccounts { p: Program<HxSets>, o: Option<AccountInfo>, q: Option<Program<HxSets>> });
plain_set!(S32, S32ClientAccounts { o: Option<InE>, z: AccountInfo });
// pass-through wrappers (`MaybeSigner<false, _>`, `MaybeMut<false, _>`) alone and over checking ones
type NSg<T> = MaybeSigner<false, T>;
type NMu<T> = MaybeMut<false, T>;
plain_set!(S33, S33ClientAccounts { a: NSg<AccountInfo>, b: NMu<AccountInfo>, c: NSg<NMu<Mut<Sg>>>, d: Signer<NSg<AccountInfo>>, e: Mut<NMu<Sg>> });
plain_set!(S34, S34ClientAccounts { a: NSg<Sg> });
plain_set!(S35, S35ClientAccounts { a: AccountInfo, b: NMu<Mu> });
plain_set!(S36, S36ClientAccounts { a: Mut<NSg<Sg>>, b: NMu<Signer<Mu>>, c: Signer<NMu<Mu>> });
plain_set!(S37, S37ClientAccounts { o: Option<NSg<Sg>>, v: [NMu<Mut<Sg>>; 2], r: Rest<NSg<Signer<Mu>>> });
// a `Box` BETWEEN single-account modifiers (transparent: the stack's meta is the union of its flags)
plain_set!(S38, S38ClientAccounts { a: Mut<Box<Sg>>, b: Signer<Box<Mu>>, c: Box<Mut<Box<Sg>>>, d: Mut<Box<Box<Signer<Mu>>>>, e: NSg<Box<Sg>>, f: Signer<Box<AccountInfo>> });
plain_set!(S39, S39ClientAccounts { o: Option<Mut<Box<Sg>>>, v: [Signer<Box<Mu>>; 2], p: Mut<Box<Program<System>>>, r: Rest<Mut<Box<Signer<Box<AccountInfo>>>>> });
plain_set!(S40, S40ClientAccounts { a: Signer<Box<Mut<Box<Sg>>>>, o: Option<Box<Signer<Box<Mu>>>> });
// zero-account sets in every position (`AccountLen` arithmetic at 0, `MIN_LEN` 0, ambiguous present optionals)
plain_set!(S41, S41ClientAccounts { o: Option<[AccountInfo; 0]>, u: (), z: Sg });
plain_set!(S42, S42ClientAccounts { a: [InE; 2], o: Option<()>, b: Box<InE>, c: [Option<InE>; 2], z: Mu });
plain_set!(S43, S43ClientAccounts { a: [[AccountInfo; 0]; 3], b: [(); 2], c: [[Sg; 2]; 0], o: Option<Box<[Mu; 0]>> });
plain_set!(S44, S44ClientAccounts { u: () });
plain_set!(S45, S45ClientAccounts { o: Option<InE>, p: Option<[Option<AccountInfo>; 0]>, r: Rest<Sg> });

// the by-reference spelling `&'a AccountInfo` (hand-written client / decode / CPI impls of its own), alone, next to
// the by-value spelling, under modifiers and in every container
plain_set!(R01<'a>, R01ClientAccounts { a: &'a AccountInfo });
plain_set!(R02<'a>, R02ClientAccounts { v: AccountInfo, r: &'a AccountInfo, m: Mut<&'a AccountInfo>, s: Signer<&'a AccountInfo>, b: Mut<Box<Signer<&'a AccountInfo>>> });
plain_set!(R03<'a>, R03ClientAccounts { o: Option<&'a AccountInfo>, b: Box<&'a AccountInfo>, a: [&'a AccountInfo; 2], oa: [Option<&'a AccountInfo>; 2], rest: Rest<&'a AccountInfo> });
tuple_set!(RT<'a>, RTClientAccounts (0: &'a AccountInfo, 1: AccountInfo, 2: Option<Box<&'a AccountInfo>>));
plain_set!(R04<'a>, R04ClientAccounts { inner: R01<'a>, t: RT<'a>, bt: Box<RT<'a>>, r: Rest<RT<'a>> });
args_set!(R05<'a>, R05ClientAccounts, R05Arg { v: Vec<&'a AccountInfo> => (usize, ()), w: Vec<RT<'a>> => [(); 2], z: &'a AccountInfo => () });

// tuple-struct and generic derived account sets
tuple_set!(TS1, TS1ClientAccounts (0: Sg, 1: Option<Mu>, 2: [AccountInfo; 2]));
tuple_set!(TS2, TS2ClientAccounts (0: TS1, 1: Box<TS1>, 2: Rest<TS3>));
tuple_set!(TS3, TS3ClientAccounts (0: Mut<Sg>));

/// what a field type of a generic derived set has to provide for the three lifecycle impls
pub trait GenericField: for<'x> AccountSetDecode<'x, ()> + AccountSetValidate<()> + star_frame::account_set::AccountSetCleanup<()> {}
impl<T> GenericField for T where T: for<'x> AccountSetDecode<'x, ()> + AccountSetValidate<()> + star_frame::account_set::AccountSetCleanup<()> {}

/// A derived set generic in its field types (the bounds the generated `…ClientAccounts` / `…CpiAccounts`
/// structs need have to be written by the user; `Option<A>` cannot be, its CPI helper trait is private).
#[derive(AccountSet, Debug)]
pub struct GPair<A, B>
where
    A: CpiAccountSet<CpiAccounts: Clone> + ClientAccountSet + Clone + std::fmt::Debug + GenericField,
    B: CpiAccountSet<CpiAccounts: Clone> + ClientAccountSet + Clone + std::fmt::Debug + GenericField,
    B::AccountLen: core::ops::Mul<star_frame::typenum::U2>,
    star_frame::typenum::Prod<B::AccountLen, star_frame::typenum::U2>: Unsigned,
{
    pub a: A,
    pub b: [B; 2],
    pub c: Box<A>,
}
impl<A, B> Probe for GPair<A, B>
where
    A: crate::probe::ProbeSet + CpiAccountSet<CpiAccounts: Clone> + Clone + std::fmt::Debug + GenericField,
    B: crate::probe::ProbeSet + CpiAccountSet<CpiAccounts: Clone> + Clone + std::fmt::Debug + GenericField,
    B::AccountLen: core::ops::Mul<star_frame::typenum::U2>,
    star_frame::typenum::Prod<B::AccountLen, star_frame::typenum::U2>: Unsigned,
    GPairClientAccounts<A, B>: Clone + std::fmt::Debug,
{
    type Client = GPairClientAccounts<A, B>;
    fn shape() -> Sexp {
        Sexp::tagged("struct", vec![A::shape(), <[B; 2] as Probe>::shape(), <Box<A> as Probe>::shape()])
    }
    fn client(v: &Sexp) -> Option<Self::Client> {
        let [a, b, c] = v.items("many")? else { return None };
        Some(GPairClientAccounts { a: A::client(a)?, b: <[B; 2] as Probe>::client(b)?, c: <Box<A> as Probe>::client(c)? })
    }
    fn show(&self) -> Sexp {
        Sexp::tagged("many", vec![self.a.show(), self.b.show(), self.c.show()])
    }
    fn static_metas(out: &mut Vec<(bool, bool)>) {
        A::static_metas(out);
        <[B; 2] as Probe>::static_metas(out);
        <Box<A> as Probe>::static_metas(out);
    }
}
plain_set!(GS1, GS1ClientAccounts { g: GPair<Sg, Mu>, h: GPair<Option<Mu>, Option<AccountInfo>>, z: AccountInfo });
type GS2 = GPair<Mut<Sg>, Sg>;

args_set!(V01, V01ClientAccounts, V01Arg { v: Vec<AccountInfo> => (usize, ()) });
args_set!(V02, V02ClientAccounts, V02Arg { a: Sg => (), v: Vec<Mut<Sg>> => (usize, ()), z: AccountInfo => () });
args_set!(V03, V03ClientAccounts, V03Arg { v: Vec<Option<AccountInfo>> => (usize, ()), z: Sg => () });
args_set!(V04, V04ClientAccounts, V04Arg { v: Vec<InB> => (usize, ()) });
args_set!(V05, V05ClientAccounts, V05Arg { v: Vec<Vec<AccountInfo>> => (usize, (usize, ())) });
args_set!(V06, V06ClientAccounts, V06Arg { v: Vec<AccountInfo> => (usize, ()), w: Vec<Sg> => (usize, ()) });
args_set!(V07, V07ClientAccounts, V07Arg { v: Vec<[Mu; 2]> => (usize, ()) });
args_set!(V08, V08ClientAccounts, V08Arg { a: [Vec<AccountInfo>; 2] => ((usize, ()),) });
args_set!(V09, V09ClientAccounts, V09Arg { o: Option<Vec<AccountInfo>> => (usize, ()), z: AccountInfo => () });
args_set!(V10, V10ClientAccounts, V10Arg { v: Box<Vec<Box<AccountInfo>>> => (usize, ()) });
args_set!(V11, V11ClientAccounts, V11Arg { v: Vec<Sg> => (usize, ()), r: Rest<Mu> => () });
// per-element decode arguments: `[TA; N]` for a `Vec` (directly and through the `(I,)` form), `[DArg; N]` for an array
args_set!(V13, V13ClientAccounts, V13Arg { v: Vec<Mu> => [(); 2], z: AccountInfo => () });
args_set!(V14, V14ClientAccounts, V14Arg { v: Vec<Vec<AccountInfo>> => [(usize, ()); 3] });
args_set!(V15, V15ClientAccounts, V15Arg { a: [Vec<Sg>; 2] => [(usize, ()); 2], z: Mu => () });
args_set!(V16, V16ClientAccounts, V16Arg { v: Vec<[Vec<AccountInfo>; 2]> => (usize, [(usize, ()); 2]) });
args_set!(V17, V17ClientAccounts, V17Arg { v: Vec<Option<Sg>> => [(); 3] [tuple], w: Vec<Vec<Mu>> => [(usize, ()); 1] [tuple] });
args_set!(V18, V18ClientAccounts, V18Arg { v: Vec<AccountInfo> => [(); 0], a: [Vec<AccountInfo>; 0] => [(usize, ()); 0], o: Option<Vec<Sg>> => [(); 1] });
args_set!(V12, V12ClientAccounts, V12Arg { n: V01 => V01Arg, z: AccountInfo => (), m: Vec<V06> => (usize, V06Arg) });

include!("gen_sets.rs");

with_generated_sets! { [
    (S01, IxS01, ()), (S02, IxS02, ()), (S03, IxS03, ()), (S04, IxS04, ()), (S05, IxS05, ()), (S06, IxS06, ()),
    (S07, IxS07, ()), (S08, IxS08, ()), (S09, IxS09, ()), (S10, IxS10, ()), (S11, IxS11, ()), (S12, IxS12, ()),
    (S13, IxS13, ()), (S14, IxS14, ()), (S15, IxS15, ()), (S16, IxS16, ()), (S17, IxS17, ()), (S18, IxS18, ()),
    (S19, IxS19, ()), (S20, IxS20, ()), (S21, IxS21, ()), (S22, IxS22, ()), (S23, IxS23, ()), (S24, IxS24, ()),
    (S25, IxS25, ()), (S26, IxS26, ()), (S27, IxS27, ()), (S28, IxS28, ()), (S29, IxS29, ()), (S30, IxS30, ()),
    (S31, IxS31, ()), (S32, IxS32, ()), (S33, IxS33, ()), (S34, IxS34, ()), (S35, IxS35, ()), (S36, IxS36, ()), (S37, IxS37, ()), (S38, IxS38, ()), (S39, IxS39, ()), (S40, IxS40, ()), (S41, IxS41, ()), (S42, IxS42, ()), (S43, IxS43, ()), (S44, IxS44, ()), (S45, IxS45, ()),
    (TS1, IxTS1, ()), (TS2, IxTS2, ()), (GS1, IxGS1, ()), (GS2, IxGS2, ()),
    (V01, IxV01, V01Arg), (V02, IxV02, V02Arg), (V03, IxV03, V03Arg), (V04, IxV04, V04Arg), (V05, IxV05, V05Arg),
    (V06, IxV06, V06Arg), (V07, IxV07, V07Arg), (V08, IxV08, V08Arg), (V09, IxV09, V09Arg), (V10, IxV10, V10Arg),
    (V11, IxV11, V11Arg), (V12, IxV12, V12Arg), (V13, IxV13, V13Arg), (V14, IxV14, V14Arg), (V15, IxV15, V15Arg),
    (V16, IxV16, V16Arg), (V17, IxV17, V17Arg), (V18, IxV18, V18Arg)]
    lt [(R01, IxR01, ()), (R02, IxR02, ()), (R03, IxR03, ()), (R04, IxR04, ()), (R05, IxR05, R05Arg)]
    extra T01, T02, T03, T04, T05, T06, T07, T08, T09, T10
}
pub use crate::tuples::{T01, T02, T03, T04, T05, T06, T07, T08, T09, T10};
