//! Compact s-expressions without spaces: `atom` or `(head,item,item,…)`.
use std::fmt;

#[derive(Debug, Clone, PartialEq, Eq)]
pub enum Sexp {
    Atom(String),
    List(Vec<Sexp>),
}

impl Sexp {
    pub fn atom(s: impl Into<String>) -> Sexp {
        Sexp::Atom(s.into())
    }
    /// `(tag,items…)`
    pub fn tagged(tag: &str, items: Vec<Sexp>) -> Sexp {
        let mut v = vec![Sexp::atom(tag)];
        v.extend(items);
        Sexp::List(v)
    }
    pub fn as_atom(&self) -> Option<&str> {
        match self {
            Sexp::Atom(a) => Some(a),
            _ => None,
        }
    }
    /// the items of `(tag,items…)`
    pub fn items(&self, tag: &str) -> Option<&[Sexp]> {
        match self {
            Sexp::List(v) if v.first().and_then(Sexp::as_atom) == Some(tag) => Some(&v[1..]),
            _ => None,
        }
    }
    pub fn parse(s: &str) -> Option<Sexp> {
        let b = s.as_bytes();
        let mut i = 0;
        let r = parse_at(b, &mut i, 0)?;
        (i == b.len()).then_some(r)
    }
}

fn atom_char(c: u8) -> bool {
    c.is_ascii_alphanumeric() || c == b':' || c == b'_' || c == b'-'
}

fn parse_at(b: &[u8], i: &mut usize, depth: usize) -> Option<Sexp> {
    if depth > 64 {
        return None;
    }
    if *i < b.len() && b[*i] == b'(' {
        *i += 1;
        let mut items = vec![];
        loop {
            items.push(parse_at(b, i, depth + 1)?);
            match b.get(*i)? {
                b',' => *i += 1,
                b')' => {
                    *i += 1;
                    return Some(Sexp::List(items));
                }
                _ => return None,
            }
        }
    }
    let st = *i;
    while *i < b.len() && atom_char(b[*i]) {
        *i += 1;
    }
    (*i > st).then(|| Sexp::Atom(String::from_utf8_lossy(&b[st..*i]).into_owned()))
}

impl fmt::Display for Sexp {
    fn fmt(&self, f: &mut fmt::Formatter<'_>) -> fmt::Result {
        match self {
            Sexp::Atom(a) => f.write_str(a),
            Sexp::List(v) => {
                f.write_str("(")?;
                for (i, x) in v.iter().enumerate() {
                    if i > 0 {
                        f.write_str(",")?;
                    }
                    x.fmt(f)?;
                }
                f.write_str(")")
            }
        }
    }
}
