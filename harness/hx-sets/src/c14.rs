//! C14 — Client, on-chain decode and CPI views of an instruction agree.
//!
//! Op lines (state = current set, client value, tampering, built instruction, last run):
//!   `set <name> <shape> <arg-type> <idx>` → `ok min=<MIN_LEN> len=<AccountLen> copt=<ContainsOption>`
//!   `client <client-val>`             → `ok <key:s:w,…>`          the metas `extend_account_metas` pushes
//!   `extra <key>…`                    → `ok`                      extra readonly accounts appended after the metas
//!   `drop <i> s|w`                    → `ok`                      account i is created without that flag
//!   `grant <i> s|w`                   → `ok`                      account i is created with that flag in addition
//!   `grantall s|w|sw`                 → `ok`                      every account is created with the flag(s) in addition (replaces earlier grants)
//!   `ix <decode-arg> <a> <b> <c> <d>` → `ok <data-hex>`           `MakeInstruction::instruction`
//!   `run`                             → `ok used=<n> rem=<k> val=<decoded> v=<ok|sig|wr|key> args=<a>,<b>,<c>,<d>` | `err:<class>`
//!   `cpi`                             → `ok metas=<…> infos=<key,…> decl=<n>` | `err:<class>`
//!   `tix <idx> <name> <self-ann> <anns> <vals> <k>` → `ok <data-hex> used=<n> rem=<r> d=<len> v=<..> r=<..> c=<..>`
//!       a tuple-struct instruction (`tuples.rs`) with `u8` field values `vals`, sent with `k` accounts:
//!       what each phase of the entry path received (`anns`: per field the letters of d/v/r/c it is annotated with)
//! Keys are names: `pid` (the program), `sys`, `rent`, `ixs`, `k<N>` (`key_from(N)`).
use crate::{
    probe::{key_of_name, name_of_key},
    sets::{registry, Direct, HxIxSet, RunArgs, SetEntry, Stash, Trace, PID, STASH, TRACE},
    tuples::{t_registry, TEntry},
    sexp::Sexp,
};
use hx_common::{hex, json, unhex, Args, Recorder, Rng, Value};
use hx_native::{err_class, AcctSpec, World};
use star_frame::{prelude::*, verif_hooks::CPI_HANDLER, SolanaInstruction};

// =============================================================================== independent oracle
// Plain-Rust statement of what the three views must be, over the untyped shape / value trees.
type OMeta = (String, bool, bool);

fn sh<'a>(s: &'a Sexp) -> (&'a str, &'a [Sexp]) {
    match s {
        Sexp::List(v) => (v[0].as_atom().unwrap_or(""), &v[1..]),
        Sexp::Atom(a) => (a.as_str(), &[]),
    }
}
fn flag(s: &Sexp) -> bool {
    s.as_atom() == Some("1")
}

/// expected client metas of a client value
fn o_metas(shape: &Sexp, v: &Sexp, out: &mut Vec<OMeta>) -> Option<()> {
    let (tag, a) = sh(shape);
    match tag {
        "single" => {
            let [k] = v.items("key")? else { return None };
            let k = k.as_atom()?;
            let key = if k == "-" { a[2].as_atom()? } else { k };
            out.push((key.to_string(), flag(&a[0]), flag(&a[1])));
        }
        "opt" => {
            if v.as_atom() == Some("absent") {
                out.push(("pid".into(), false, false));
            } else {
                let [x] = v.items("present")? else { return None };
                o_metas(&a[0], x, out)?;
            }
        }
        "vec" | "rest" => {
            for x in v.items("many")? {
                o_metas(&a[0], x, out)?;
            }
        }
        "arr" => {
            for x in v.items("many")? {
                o_metas(&a[1], x, out)?;
            }
        }
        "boxed" => o_metas(&a[0], v, out)?,
        "struct" => {
            let vs = v.items("many")?;
            if vs.len() != a.len() {
                return None;
            }
            for (s, x) in a.iter().zip(vs) {
                o_metas(s, x, out)?;
            }
        }
        _ => return None,
    }
    Some(())
}

fn o_min_len(shape: &Sexp) -> usize {
    let (tag, a) = sh(shape);
    match tag {
        "single" | "opt" => 1,
        "vec" | "rest" => 0,
        "arr" => a[0].as_atom().unwrap().parse::<usize>().unwrap() * o_min_len(&a[1]),
        "boxed" => o_min_len(&a[0]),
        "struct" => a.iter().map(o_min_len).sum(),
        _ => 0,
    }
}

/// `Some(n)`: the set always uses exactly n accounts; `None`: dynamic
fn o_fixed_len(shape: &Sexp) -> Option<usize> {
    let (tag, a) = sh(shape);
    match tag {
        "single" => Some(1),
        "opt" => (o_fixed_len(&a[0]) == Some(1)).then_some(1),
        "vec" | "rest" => None,
        "arr" => {
            let n = a[0].as_atom().unwrap().parse::<usize>().unwrap();
            if n == 0 {
                Some(0)
            } else {
                Some(n * o_fixed_len(&a[1])?)
            }
        }
        "boxed" => o_fixed_len(&a[0]),
        "struct" => a.iter().map(o_fixed_len).sum(),
        _ => None,
    }
}

/// some single account's static meta lacks a flag its validation checks (`MaybeSigner<false, Signer<_>>` …)
fn o_meta_misses_requirement(shape: &Sexp) -> bool {
    let (tag, a) = sh(shape);
    if tag == "single" {
        let cs = a[3].as_atom().unwrap_or("");
        (cs.contains('s') && !flag(&a[0])) || (cs.contains('w') && !flag(&a[1]))
    } else {
        a.iter().any(o_meta_misses_requirement)
    }
}

fn o_has_opt(shape: &Sexp) -> bool {
    let (tag, a) = sh(shape);
    tag == "opt" || a.iter().any(o_has_opt)
}
fn o_has_rest(shape: &Sexp) -> bool {
    let (tag, a) = sh(shape);
    tag == "rest" || a.iter().any(o_has_rest)
}

/// The value with default keys filled in — what the decoded set must denote.
fn o_resolve(shape: &Sexp, v: &Sexp) -> Option<Sexp> {
    let (tag, a) = sh(shape);
    Some(match tag {
        "single" => {
            let [k] = v.items("key")? else { return None };
            let k = k.as_atom()?;
            Sexp::tagged("key", vec![Sexp::atom(if k == "-" { a[2].as_atom()? } else { k })])
        }
        "opt" => {
            if v.as_atom() == Some("absent") {
                v.clone()
            } else {
                let [x] = v.items("present")? else { return None };
                Sexp::tagged("present", vec![o_resolve(&a[0], x)?])
            }
        }
        "vec" | "rest" => Sexp::tagged("many", v.items("many")?.iter().map(|x| o_resolve(&a[0], x)).collect::<Option<_>>()?),
        "arr" => Sexp::tagged("many", v.items("many")?.iter().map(|x| o_resolve(&a[1], x)).collect::<Option<_>>()?),
        "boxed" => o_resolve(&a[0], v)?,
        "struct" => Sexp::tagged("many", a.iter().zip(v.items("many")?).map(|(s, x)| o_resolve(s, x)).collect::<Option<_>>()?),
        _ => return None,
    })
}

/// decoded value → client value (`(acct,k:s:w)` → `(key,k)`)
fn o_to_client(v: &Sexp) -> Sexp {
    match v {
        Sexp::List(items) if items[0].as_atom() == Some("acct") => {
            let k = items[1].as_atom().unwrap_or("").split(':').next().unwrap_or("").to_string();
            Sexp::tagged("key", vec![Sexp::atom(k)])
        }
        Sexp::List(items) => Sexp::List(items.iter().map(o_to_client).collect()),
        a => a.clone(),
    }
}

/// Inherent ambiguity of the placeholder encoding: a present optional whose metas are empty or start
/// with the program id. Such values are outside the round-trip claim.
fn o_ambiguous(shape: &Sexp, v: &Sexp) -> bool {
    let (tag, a) = sh(shape);
    match tag {
        "opt" => match v.items("present") {
            Some([x]) => {
                let mut m = vec![];
                let _ = o_metas(&a[0], x, &mut m);
                m.first().map_or(true, |f| f.0 == "pid") || o_ambiguous(&a[0], x)
            }
            _ => false,
        },
        "vec" | "rest" => v.items("many").map_or(false, |vs| vs.iter().any(|x| o_ambiguous(&a[0], x))),
        "arr" => v.items("many").map_or(false, |vs| vs.iter().any(|x| o_ambiguous(&a[1], x))),
        "boxed" => o_ambiguous(&a[0], v),
        "struct" => v.items("many").map_or(false, |vs| a.iter().zip(vs).any(|(s, x)| o_ambiguous(s, x))),
        _ => false,
    }
}

/// A wrong explicit key for a fixed-address account (validation must reject it).
fn o_wrong_fixed(shape: &Sexp, v: &Sexp) -> bool {
    let (tag, a) = sh(shape);
    match tag {
        "single" => match v.items("key") {
            Some([k]) => a[2].as_atom() != Some("-") && k.as_atom() != Some("-") && k.as_atom() != a[2].as_atom(),
            _ => false,
        },
        "opt" => v.items("present").map_or(false, |x| o_wrong_fixed(&a[0], &x[0])),
        "vec" | "rest" => v.items("many").map_or(false, |vs| vs.iter().any(|x| o_wrong_fixed(&a[0], x))),
        "arr" => v.items("many").map_or(false, |vs| vs.iter().any(|x| o_wrong_fixed(&a[1], x))),
        "boxed" => o_wrong_fixed(&a[0], v),
        "struct" => v.items("many").map_or(false, |vs| a.iter().zip(vs).any(|(s, x)| o_wrong_fixed(s, x))),
        _ => false,
    }
}

/// borsh of a decode argument: its vector lengths in order, each a u64
fn o_ser_arg(a: &Sexp, out: &mut Vec<u8>) {
    if let Sexp::List(v) = a {
        if v[0].as_atom() == Some("len") {
            out.extend_from_slice(&v[1].as_atom().unwrap().parse::<u64>().unwrap().to_le_bytes());
            o_ser_arg(&v[2], out);
        } else {
            v[1..].iter().for_each(|x| o_ser_arg(x, out));
        }
    }
}

/// the argument type below one layer of a shape
fn ty_child(tag: &str, ty: &Sexp, i: usize) -> Sexp {
    let (tt, ta) = sh(ty);
    match (tag, tt) {
        ("arr", "arreach") | ("vec", "each") => ta[1].clone(),
        ("vec", "len") => ta[0].clone(),
        ("struct", "fields") => ta[i].clone(),
        _ => ty.clone(),
    }
}
/// `Some(N)` if a `Vec` with this argument type takes exactly N elements (per-element arguments)
fn ty_vec_count(ty: &Sexp) -> Option<usize> {
    let (tt, ta) = sh(ty);
    (tt == "each").then(|| ta[0].as_atom().unwrap().parse().unwrap())
}

/// the decode argument (of type `ty`) a client must send for its value (`None`: not expressible, e.g. ragged
/// nested vectors under a single shared length argument)
fn o_arg_for(shape: &Sexp, ty: &Sexp, v: &Sexp) -> Option<Sexp> {
    let (tag, a) = sh(shape);
    let (tt, _) = sh(ty);
    let same = |inner: Vec<Sexp>, dflt: Sexp| -> Option<Sexp> {
        let first = inner.first().cloned().unwrap_or(dflt);
        inner.iter().all(|x| *x == first).then_some(first)
    };
    Some(match tag {
        "single" => Sexp::atom("u"),
        "opt" => match v.items("present") {
            Some([x]) => o_arg_for(&a[0], ty, x)?,
            _ => default_arg(ty),
        },
        "vec" => {
            let vs = v.items("many")?;
            let et = ty_child("vec", ty, 0);
            let inner: Vec<Sexp> = vs.iter().map(|x| o_arg_for(&a[0], &et, x)).collect::<Option<_>>()?;
            if let Some(n) = ty_vec_count(ty) {
                if vs.len() != n {
                    return None;
                }
                Sexp::tagged("each", inner)
            } else {
                Sexp::tagged("len", vec![Sexp::atom(vs.len().to_string()), same(inner, default_arg(&et))?])
            }
        }
        "arr" | "rest" => {
            let e = if tag == "arr" { &a[1] } else { &a[0] };
            let et = ty_child(tag, ty, 0);
            let inner: Vec<Sexp> = v.items("many")?.iter().map(|x| o_arg_for(e, &et, x)).collect::<Option<_>>()?;
            if tag == "arr" && tt == "arreach" {
                Sexp::tagged("arreach", inner)
            } else {
                same(inner, default_arg(&et))?
            }
        }
        "boxed" => o_arg_for(&a[0], ty, v)?,
        "struct" => Sexp::tagged(
            "fields",
            a.iter().zip(v.items("many")?).enumerate().map(|(i, (s, x))| o_arg_for(s, &ty_child("struct", ty, i), x)).collect::<Option<_>>()?,
        ),
        _ => return None,
    })
}
/// the argument of a type for "nothing there" (absent optional, empty vector)
fn default_arg(ty: &Sexp) -> Sexp {
    let (tt, ta) = sh(ty);
    match tt {
        "len" => Sexp::tagged("len", vec![Sexp::atom("0"), default_arg(&ta[0])]),
        "each" | "arreach" => {
            let n: usize = ta[0].as_atom().unwrap().parse().unwrap();
            Sexp::tagged(tt, vec![default_arg(&ta[1]); n])
        }
        "fields" => Sexp::tagged("fields", ta.iter().map(default_arg).collect()),
        _ => Sexp::atom("u"),
    }
}

// =============================================================================== executor
fn fmt_metas(m: &[(String, bool, bool)]) -> String {
    if m.is_empty() {
        return "-".into();
    }
    m.iter().map(|(k, s, w)| format!("{k}:{}:{}", *s as u8, *w as u8)).collect::<Vec<_>>().join(",")
}
fn real_metas(m: &[AccountMeta]) -> Vec<OMeta> {
    m.iter().map(|m| (name_of_key(&m.pubkey), m.is_signer, m.is_writable)).collect()
}
fn v_class(c: &str) -> String {
    match c {
        "ok" => "ok".into(),
        "err:Custom1001" => "sig".into(),
        "err:Custom1000" => "wr".into(),
        "err:Custom1002" | "err:IncorrectProgramId" => "key".into(),
        other => other.replace(' ', "_"),
    }
}
fn fmt_args(r: &RunArgs) -> String {
    format!("{},{},{},{}", r.a, r.b, r.c as u8, hex(&r.d))
}

/// Everything one `run` observes of the real code, as plain data (it crosses a process boundary).
struct Real {
    direct: Direct,
    entry_class: String,
    tval: Option<String>,
    trun: Option<RunArgs>,
    cpi: Option<(String, Option<CpiOut>)>,
}

fn run_real(e: &SetEntry, specs: &[AcctSpec], n: usize, data: &[u8]) -> Real {
    let world = World::new(specs);
    let infos = &world.infos()[..n];
    let direct = (e.direct)(infos, data);
    // the program's own entry path
    TRACE.with_borrow_mut(|t| *t = Trace::default());
    STASH.with_borrow_mut(|s| *s = Stash { data: data.to_vec(), prog: Some(*world.info(n)), do_cpi: true });
    CPI_HANDLER.with_borrow_mut(|h| {
        *h = Some(Box::new(|r| {
            TRACE.with_borrow_mut(|t| t.cpi = Some((String::new(), Some(r.clone()))));
            // fall through: the rest of `invoke_signed` (the fixed-array `assert_eq!`s, pinocchio's pairing of
            // infos with metas) runs for real; natively the syscall itself is a no-op
            None
        }))
    });
    let entry = <HxIxSet as InstructionSet>::dispatch(&PID, infos, data);
    CPI_HANDLER.with_borrow_mut(|h| *h = None);
    let entry_class = match entry {
        Ok(()) => "ok".to_string(),
        Err(e) => err_class(e),
    };
    let trace = TRACE.with_borrow_mut(std::mem::take);
    let cpi = trace.cpi.as_ref().map(|(c, r)| {
        (
            c.clone(),
            r.as_ref().map(|r| CpiOut {
                program_id: r.program_id,
                data: r.data.clone(),
                metas: r.metas.iter().map(|(k, s, w)| (name_of_key(k), *s, *w)).collect(),
                infos: r.infos.iter().map(|i| name_of_key(&Pubkey::new_from_array(*i.key()))).collect(),
                declared_len: r.declared_len,
            }),
        )
    });
    Real { direct, entry_class, tval: trace.val, trun: trace.run, cpi }
}

impl Real {
    fn to_json(&self) -> Value {
        let direct = match &self.direct {
            Direct::DataErr => json!({"k": "data"}),
            Direct::DecodeErr(c) => json!({"k": "decode", "c": c}),
            Direct::Ok { rem, val, v } => json!({"k": "ok", "rem": rem, "val": val, "v": v}),
        };
        let cpi = self.cpi.as_ref().map(|(c, r)| {
            json!({"c": c, "r": r.as_ref().map(|r| json!({
                "pid": hex(r.program_id.as_ref()), "data": hex(&r.data),
                "metas": r.metas.iter().map(|(k, s, w)| json!([k, s, w])).collect::<Vec<_>>(),
                "infos": r.infos, "decl": r.declared_len,
            }))})
        });
        json!({
            "direct": direct, "entry": self.entry_class, "tval": self.tval,
            "trun": self.trun.as_ref().map(|r| json!([r.a, r.b.to_string(), r.c, hex(&r.d)])),
            "cpi": cpi,
        })
    }
    fn from_json(v: &Value) -> Option<Real> {
        let d = &v["direct"];
        let direct = match d["k"].as_str()? {
            "data" => Direct::DataErr,
            "decode" => Direct::DecodeErr(d["c"].as_str()?.to_string()),
            _ => Direct::Ok { rem: d["rem"].as_u64()? as usize, val: d["val"].as_str()?.to_string(), v: d["v"].as_str()?.to_string() },
        };
        let trun = match &v["trun"] {
            Value::Null => None,
            t => Some(RunArgs { a: t[0].as_u64()? as u8, b: t[1].as_str()?.parse().ok()?, c: t[2].as_bool()?, d: unhex(t[3].as_str()?)? }),
        };
        let cpi = match &v["cpi"] {
            Value::Null => None,
            c => Some((
                c["c"].as_str()?.to_string(),
                match &c["r"] {
                    Value::Null => None,
                    r => Some(CpiOut {
                        program_id: Pubkey::new_from_array(unhex(r["pid"].as_str()?)?.try_into().ok()?),
                        data: unhex(r["data"].as_str()?)?,
                        metas: r["metas"].as_array()?.iter().map(|m| Some((m[0].as_str()?.to_string(), m[1].as_bool()?, m[2].as_bool()?))).collect::<Option<_>>()?,
                        infos: r["infos"].as_array()?.iter().map(|i| i.as_str().map(str::to_string)).collect::<Option<_>>()?,
                        declared_len: r["decl"].as_u64()? as usize,
                    }),
                },
            )),
        };
        Some(Real { direct, entry_class: v["entry"].as_str()?.to_string(), tval: v["tval"].as_str().map(str::to_string), trun, cpi })
    }
}

/// Run `f` in a forked child (20 s CPU limit, 180 s wall-clock backstop, 2 GiB address space) and bring its JSON result back.
fn isolated(f: impl FnOnce() -> Value) -> std::result::Result<Value, String> {
    unsafe {
        let mut fds = [0i32; 2];
        if libc::pipe(fds.as_mut_ptr()) != 0 {
            return Err("pipe failed".into());
        }
        let pid = libc::fork();
        if pid < 0 {
            return Err("fork failed".into());
        }
        if pid == 0 {
            libc::close(fds[0]);
            let lim = libc::rlimit { rlim_cur: 2 << 30, rlim_max: 2 << 30 };
            libc::setrlimit(libc::RLIMIT_AS, &lim);
            // a busy hang is cut by CPU time (independent of machine load); the wall-clock alarm is only a
            // backstop for a sleeping hang and is generous because checks may run on a saturated machine
            let cpu = libc::rlimit { rlim_cur: 20, rlim_max: 20 };
            libc::setrlimit(libc::RLIMIT_CPU, &cpu);
            libc::alarm(180);
            let out = match hx_common::catch(f) {
                Ok(v) => v.to_string(),
                Err(_) => "\"panic\"".to_string(),
            };
            let b = out.as_bytes();
            let mut off = 0;
            while off < b.len() {
                let k = libc::write(fds[1], b[off..].as_ptr().cast(), b.len() - off);
                if k <= 0 {
                    break;
                }
                off += k as usize;
            }
            libc::_exit(0);
        }
        libc::close(fds[1]);
        let mut buf = vec![];
        let mut chunk = [0u8; 65536];
        loop {
            let k = libc::read(fds[0], chunk.as_mut_ptr().cast(), chunk.len());
            if k <= 0 {
                break;
            }
            buf.extend_from_slice(&chunk[..k as usize]);
        }
        libc::close(fds[0]);
        let mut status = 0;
        libc::waitpid(pid, &mut status, 0);
        if libc::WIFEXITED(status) && libc::WEXITSTATUS(status) == 0 {
            String::from_utf8_lossy(&buf).parse::<Value>().map_err(|_| "child result unreadable".to_string())
        } else if libc::WIFSIGNALED(status) {
            Err(format!("killed by signal {}", libc::WTERMSIG(status)))
        } else {
            Err("child exited abnormally".to_string())
        }
    }
}

struct CpiOut {
    program_id: Pubkey,
    data: Vec<u8>,
    metas: Vec<OMeta>,
    infos: Vec<String>,
    declared_len: usize,
}

struct RunOut {
    /// direct decode+validate result was `ok` and validation passed
    reached_process: bool,
    /// result class of the CPI made inside `process` and what the hook captured (names resolved while
    /// the accounts were still alive)
    cpi: Option<(String, Option<CpiOut>)>,
}

#[derive(Default)]
struct St<'a> {
    /// the discriminant table of the `table` line
    listed: Option<Vec<String>>,
    entry: Option<&'a SetEntry>,
    shape: Option<Sexp>,
    argty: Option<Sexp>,
    client: Option<Sexp>,
    metas: Vec<AccountMeta>,
    extras: Vec<String>,
    drops: Vec<(usize, char)>,
    grants: Vec<(usize, char)>,
    ix: Option<(SolanaInstruction, RunArgs, Sexp)>,
    run: Option<RunOut>,
}

fn small_dec(s: &str, max_digits: usize) -> Option<u64> {
    if s.is_empty() || s.len() > max_digits || !s.bytes().all(|c| c.is_ascii_digit()) || (s.len() > 1 && s.starts_with('0')) {
        return None;
    }
    s.parse().ok()
}

fn exec<'a>(rec: &mut Recorder, table: &'a [SetEntry], st: &mut St<'a>, line: &str) {
    let t: Vec<&str> = line.split(' ').filter(|x| !x.is_empty()).collect();
    let ans = match hx_common::catch(|| exec_inner(rec, table, st, &t, line)) {
        Ok(a) => a,
        Err(_) => {
            pend("panic", line);
            "panic".to_string()
        }
    };
    rec.bump(&format!("op:{}:{}", t.first().copied().unwrap_or(""), ans.split(' ').next().unwrap_or("")));
    if t.first() == Some(&"run") && (ans.contains("absent") || ans.contains("(many,(") || ans.starts_with("err:") || !ans.contains("v=ok")) {
        NONTRIVIAL.set(true);
    }
    rec.op(line, &ans);
    // report failures only now, so that the failing case text includes this op line
    for (class, detail) in PENDING.with_borrow_mut(std::mem::take) {
        rec.fail(&class, &detail);
    }
}

thread_local! { static PENDING: std::cell::RefCell<Vec<(String, String)>> = const { std::cell::RefCell::new(vec![]) }; }
fn pend(class: &str, detail: &str) {
    PENDING.with_borrow_mut(|p| p.push((class.to_string(), detail.to_string())));
}

fn exec_inner<'a>(rec: &mut Recorder, table: &'a [SetEntry], st: &mut St<'a>, t: &[&str], line: &str) -> String {
    let bad = || "bad-op".to_string();
    match t {
        ["table", discs @ ..] => {
            // any list of real instruction discriminants (so that a corpus file survives new sets)
            let all = all_discs(table);
            if discs.iter().any(|d| !all.contains(&d.to_string())) {
                return bad();
            }
            *st = St { listed: Some(discs.iter().map(|d| d.to_string()).collect()), ..St::default() };
            // oracle: the dispatch arms are pairwise distinct
            let mut ds: Vec<String> = all_discs(table);
            let n_all = ds.len();
            ds.sort();
            ds.dedup();
            if ds.len() != n_all {
                pend("duplicate_instruction_discriminants", line);
            }
            format!("ok {}", discs.len())
        }
        ["set", name, shape, argty, idx] => {
            let Some(listed) = st.listed.clone() else { return bad() };
            let Some(idx) = small_dec(idx, 3) else { return bad() };
            let Some(disc) = listed.get(idx as usize) else { return bad() };
            let Some(e) = table.iter().find(|e| e.name == *name) else { return bad() };
            let real_shape = (e.shape)();
            if hex(&(e.disc)()) != *disc || real_shape.to_string() != *shape || (e.argty)().to_string() != *argty {
                return bad();
            }
            *st = St { listed: Some(listed), ..St::default() };
            let (min, len, copt) = (e.statics)();
            st.entry = Some(e);
            st.shape = Some(real_shape.clone());
            st.argty = Some((e.argty)());
            // oracle: the static facts
            if min != o_min_len(&real_shape) {
                pend("min_len_wrong", &format!("{line}: MIN_LEN={min}, shape says {}", o_min_len(&real_shape)));
            }
            let want_len = o_fixed_len(&real_shape).unwrap_or(100);
            if len != want_len {
                pend("account_len_wrong", &format!("{line}: AccountLen={len}, shape says {want_len}"));
            }
            format!("ok min={min} len={len} copt={}", copt as u8)
        }
        ["tix", idx, name, self_ann, anns, vals, k] => {
            let Some(listed) = st.listed.clone() else { return bad() };
            let (Some(idx), Some(k)) = (small_dec(idx, 3), small_dec(k, 2)) else { return bad() };
            let ts = t_registry();
            let Some(te) = ts.iter().find(|t| t.name == *name) else { return bad() };
            if listed.get(idx as usize) != Some(&hex(&(te.disc)())) || te.self_ann != *self_ann || te.anns != *anns || k > 20 {
                return bad();
            }
            let Some(vals) = vals.split(',').map(|v| small_dec(v, 3).filter(|x| *x < 256).map(|x| x as u8)).collect::<Option<Vec<u8>>>() else { return bad() };
            let Some(data) = (te.data)(&vals) else { return bad() };
            tix_exec(te, &vals, k as usize, &data)
        }
        ["client", val] => {
            let (Some(e), Some(shape)) = (st.entry, st.shape.clone()) else { return bad() };
            let Some(v) = Sexp::parse(val) else { return bad() };
            let Some(metas) = (e.client_metas)(&v) else { return bad() };
            st.client = Some(v.clone());
            st.metas = metas;
            st.extras.clear();
            st.drops.clear();
            st.grants.clear();
            st.ix = None;
            st.run = None;
            let got = real_metas(&st.metas);
            let mut want = vec![];
            if o_metas(&shape, &v, &mut want).is_none() || want != got {
                pend("client_metas_differ_from_spec", &format!("{line}: got {} want {}", fmt_metas(&got), fmt_metas(&want)));
            }
            if got.len() < (e.statics)().0 && !o_ambiguous(&shape, &v) {
                pend("fewer_metas_than_min_len", &format!("{line}: {} < MIN_LEN", got.len()));
            }
            format!("ok {}", fmt_metas(&got))
        }
        ["extra", names @ ..] => {
            if st.client.is_none() || names.len() > 8 || names.iter().any(|n| key_of_name(n).is_none()) {
                return bad();
            }
            st.extras = names.iter().map(|s| s.to_string()).collect();
            st.run = None;
            "ok".into()
        }
        ["drop", i, f] => {
            let Some(i) = small_dec(i, 2) else { return bad() };
            if st.client.is_none() || i as usize >= st.metas.len() || !(*f == "s" || *f == "w") {
                return bad();
            }
            st.drops.push((i as usize, f.chars().next().unwrap()));
            st.run = None;
            "ok".into()
        }
        ["grant", i, f] => {
            let Some(i) = small_dec(i, 2) else { return bad() };
            if st.client.is_none() || i as usize >= st.metas.len() || !(*f == "s" || *f == "w") {
                return bad();
            }
            st.grants.push((i as usize, f.chars().next().unwrap()));
            st.run = None;
            "ok".into()
        }
        ["grantall", f] => {
            // every account gets the flag(s) on top of what its meta asks for (replaces earlier grants)
            if st.client.is_none() || !["s", "w", "sw"].contains(f) {
                return bad();
            }
            st.grants = (0..st.metas.len()).flat_map(|i| f.chars().map(move |c| (i, c))).collect();
            st.run = None;
            "ok".into()
        }
        ["ix", darg, a, b, c, d] => {
            let (Some(e), Some(client)) = (st.entry, st.client.clone()) else { return bad() };
            let (Some(darg), Some(a), Some(b), Some(d)) = (Sexp::parse(darg), small_dec(a, 3), small_dec(b, 20), unhex(d)) else { return bad() };
            if a > 255 || !(*c == "0" || *c == "1") || d.len() > 64 {
                return bad();
            }
            let run = RunArgs { a: a as u8, b, c: *c == "1", d };
            let Some(res) = (e.instruction)(&client, &darg, run.clone()) else { return bad() };
            st.run = None;
            match res {
                Err(c) => {
                    st.ix = None;
                    pend("make_instruction_failed", line);
                    c
                }
                Ok(ix) => {
                    // oracle: the instruction is (program id, the same metas, disc ++ borsh(decode args) ++ borsh(run args))
                    if ix.program_id != PID || ix.accounts != st.metas {
                        pend("instruction_metas_differ_from_extend_account_metas", line);
                    }
                    let mut want = (e.disc)().to_vec();
                    o_ser_arg(&darg, &mut want);
                    want.extend(borsh::to_vec(&run).unwrap());
                    if ix.data != want {
                        pend("instruction_data_layout", line);
                    }
                    let out = format!("ok {}", hex(&ix.data));
                    st.ix = Some((ix, run, darg));
                    out
                }
            }
        }
        ["run"] => {
            let (Some(e), Some(shape), Some(client), Some((ix, run, darg))) = (st.entry, st.shape.clone(), st.client.clone(), st.ix.clone()) else {
                return bad();
            };
            // native accounts with exactly the metas' keys and flags (minus the dropped ones), then the extras,
            // then (not passed to the program) the program's own account for the CPI builder
            let mut specs: Vec<AcctSpec> = ix.accounts.iter().map(|m| AcctSpec::new(m.pubkey, System::ID).signer(m.is_signer).writable(m.is_writable).lamports(1)).collect();
            for (i, f) in &st.drops {
                if *f == 's' {
                    specs[*i].is_signer = false;
                } else {
                    specs[*i].is_writable = false;
                }
            }
            for (i, f) in &st.grants {
                if *f == 's' {
                    specs[*i].is_signer = true;
                } else {
                    specs[*i].is_writable = true;
                }
            }
            for x in &st.extras {
                specs.push(AcctSpec::new(key_of_name(x).unwrap(), System::ID));
            }
            let n = specs.len();
            specs.push(AcctSpec::new(PID, System::ID));
            // the real code runs in a forked child: a hang, an abort or a crash of a (mutated) decode then
            // becomes an oracle failure with this case as its failing input instead of killing the harness
            if CRASHES.get() >= 3 {
                // this (mutated) tree keeps hanging / crashing: do not wait for every further run
                pend("run_crashes_or_hangs", "(skipped after 3 crashes)");
                st.run = Some(RunOut { reached_process: false, cpi: None });
                return "crash".into();
            }
            let real = match isolated(|| run_real(e, &specs, n, &ix.data).to_json()) {
                Ok(v) if v.as_str() == Some("panic") => {
                    pend("run_panics", &rec.current_case_text());
                    st.run = Some(RunOut { reached_process: false, cpi: None });
                    return "panic".into();
                }
                Ok(v) => Real::from_json(&v).expect("child result parses"),
                Err(how) => {
                    CRASHES.set(CRASHES.get() + 1);
                    pend("run_crashes_or_hangs", &format!("{how}: set {} client {client}", e.name));
                    st.run = Some(RunOut { reached_process: false, cpi: None });
                    return "crash".into();
                }
            };
            let Real { direct, entry_class, tval, trun, cpi: cpi_out } = real;
            struct Tr {
                val: Option<String>,
                run: Option<RunArgs>,
            }
            let trace = Tr { val: tval, run: trun };
            let tampered = st.drops.iter().any(|d| !st.grants.contains(d));
            let ambiguous = o_ambiguous(&shape, &client);
            let arg_fits = o_arg_for(&shape, st.argty.as_ref().unwrap(), &client).as_ref() == Some(&darg);
            let in_claim = !ambiguous && arg_fits && (st.extras.is_empty() || !o_has_rest(&shape));
            match direct {
                Direct::DataErr => {
                    pend("instruction_data_does_not_deserialize", line);
                    st.run = Some(RunOut { reached_process: false, cpi: None });
                    "err:data".into()
                }
                Direct::DecodeErr(c) => {
                    if in_claim {
                        pend("client_instruction_fails_to_decode", &format!("{} -> {c}", rec.current_case_text()));
                    }
                    if entry_class != c {
                        pend("entry_path_differs_from_direct_decode", &format!("{entry_class} vs {c}"));
                    }
                    st.run = Some(RunOut { reached_process: false, cpi: None });
                    if c == "err:Custom9004" { "err:notenough".into() } else { c }
                }
                Direct::Ok { rem, val, v } => {
                    let used = n - rem;
                    let vc = v_class(&v);
                    // ---- oracle
                    let valx = Sexp::parse(&val).expect("decoded value prints as an s-expression");
                    if in_claim {
                        let want_rem = if o_has_rest(&shape) { 0 } else { st.extras.len() };
                        if used + want_rem != n || rem != want_rem {
                            pend("decode_consumed_count_differs_from_client_metas", &format!("used {used} of {} metas, {rem} left", ix.accounts.len()));
                        }
                        if Some(o_to_client(&valx)) != o_resolve(&shape, &client) {
                            pend("decoded_set_differs_from_client_value", &format!("client {client} decoded {val}"));
                        }
                        let should_pass = !tampered && !o_wrong_fixed(&shape, &client);
                        if should_pass && vc != "ok" {
                            let class = if o_meta_misses_requirement(&shape) {
                                "single_set_meta_override_drops_inner_requirement"
                            } else {
                                "client_flags_insufficient_for_validation"
                            };
                            pend(class, &format!("set {} client {client} -> validation {v}", e.name));
                        }
                        if !should_pass && vc == "ok" {
                            pend("validation_accepts_missing_flag_or_wrong_address", &format!("client {client} drops {:?}", st.drops));
                        }
                    }
                    if entry_class != v {
                        pend("entry_path_differs_from_direct_decode", &format!("{entry_class} vs {v}"));
                    }
                    if vc == "ok" {
                        if trace.val.as_deref() != Some(val.as_str()) {
                            pend("process_saw_a_different_set", &format!("{:?} vs {val}", trace.val));
                        }
                        if trace.run.as_ref() != Some(&run) {
                            pend("run_args_do_not_round_trip", &format!("{:?} vs {run:?}", trace.run));
                        }
                    }
                    let args = trace.run.as_ref().map(fmt_args).unwrap_or_else(|| "-".into());
                    st.run = Some(RunOut { reached_process: vc == "ok", cpi: cpi_out });
                    format!("ok used={used} rem={rem} val={val} v={vc} args={args}")
                }
            }
        }
        ["cpi"] => {
            let (Some(e), Some(shape), Some(client), Some((ix, run_args, darg))) = (st.entry, st.shape.clone(), st.client.clone(), st.ix.clone()) else {
                return bad();
            };
            let Some(run) = &st.run else { return bad() };
            if !run.reached_process {
                return bad();
            }
            let Some((class, record)) = &run.cpi else { return "err:nocpi".into() };
            let in_claim = !o_ambiguous(&shape, &client) && o_arg_for(&shape, st.argty.as_ref().unwrap(), &client).as_ref() == Some(&darg) && st.extras.is_empty();
            let has_absent = real_metas(&ix.accounts).iter().any(|m| m.0 == "pid");
            match (class.as_str(), record) {
                ("ok", Some(r)) => {
                    let (metas, infos) = (r.metas.clone(), r.infos.clone());
                    // ---- oracle
                    let client_metas = real_metas(&ix.accounts);
                    if in_claim && metas != client_metas {
                        pend("cpi_metas_differ_from_client_metas", &format!("cpi {} client {}", fmt_metas(&metas), fmt_metas(&client_metas)));
                    }
                    if infos.len() != metas.len() || infos.iter().zip(&metas).any(|(i, m)| *i != m.0) {
                        pend("cpi_infos_do_not_match_cpi_metas", &format!("infos {infos:?} metas {}", fmt_metas(&metas)));
                    }
                    let (_, len, _) = (e.statics)();
                    let want_decl = if len == 100 { 64 } else { len };
                    if r.declared_len != want_decl || (len != 100 && metas.len() != len) {
                        pend("cpi_written_count_differs_from_declared_length", &format!("declared {} written {} AccountLen {len}", r.declared_len, metas.len()));
                    }
                    // program id: the program account's key when the set has optionals, else the explicit override
                    // (passed when run arg `c` is set) or the program's own id
                    let want_pid = if !(e.statics)().2 && run_args.c { crate::sets::OVERRIDE_ID } else { PID };
                    if r.program_id != want_pid || r.data != ix.data {
                        pend("cpi_program_or_data_differs_from_client", &format!("program id {} data {}", r.program_id, hex(&r.data)));
                    }
                    // never more privilege than the static meta of the account it stands for
                    if in_claim {
                        let mut want = vec![];
                        let _ = o_metas(&shape, &client, &mut want);
                        for (m, w) in metas.iter().zip(&want) {
                            if (m.1 && !w.1) || (m.2 && !w.2) {
                                pend("cpi_asks_more_privilege_than_static_meta", &format!("{m:?} vs {w:?}"));
                            }
                        }
                    }
                    format!("ok metas={} infos={} decl={}", fmt_metas(&metas), if infos.is_empty() { "-".into() } else { infos.join(",") }, r.declared_len)
                }
                (c, _) => {
                    if c == "err:Custom1006" && has_absent && !(e.statics)().2 && o_has_opt(&shape) {
                        pend("cpi_absent_option_without_program_account", &format!("set {} client {client}: CPI -> {c}", e.name));
                    } else {
                        pend("cpi_fails", &format!("set {} client {client}: CPI -> {c}", e.name));
                    }
                    if c == "err:Custom1006" { "err:missingprog".into() } else { c.to_string() }
                }
            }
        }
        _ => bad(),
    }
}

fn all_discs(table: &[SetEntry]) -> Vec<String> {
    table.iter().map(|e| hex(&(e.disc)())).chain(t_registry().iter().map(|t| hex(&(t.disc)()))).collect()
}

/// expected argument of a phase from the source-level annotations: the whole struct if the struct is annotated,
/// then the annotated fields' values
fn o_phase(letter: char, te: &TEntry, vals: &[u8]) -> String {
    let mut parts: Vec<String> = vec![];
    if te.self_ann.contains(letter) {
        parts.push(vals.iter().map(|v| v.to_string()).collect::<Vec<_>>().join("."));
    }
    for (a, v) in te.anns.split(',').zip(vals) {
        if a.contains(letter) {
            parts.push(v.to_string());
        }
    }
    if parts.is_empty() { "-".into() } else { parts.join("+") }
}

fn tix_exec(te: &TEntry, vals: &[u8], k: usize, data: &[u8]) -> String {
    // oracle: client data = discriminant ++ the fields in declaration order
    let mut want = (te.disc)().to_vec();
    want.extend_from_slice(vals);
    if data != want {
        pend("instruction_data_layout", &format!("{} {vals:?}", te.name));
    }
    let specs: Vec<AcctSpec> = (1..=k).map(|i| AcctSpec::new(key_of_name(&format!("k{i}")).unwrap(), System::ID).lamports(1)).collect();
    let res = isolated(|| {
        let world = World::new(&specs);
        let r = (te.exec)(world.infos(), data);
        json!({
            "direct": match &r.direct { Ok((rem, len)) => json!({"rem": rem, "len": len}), Err(c) => json!({"err": c}) },
            "entry": r.entry, "decoded": r.spy.decoded, "validate": r.spy.validate, "run": r.spy.run, "cleanup": r.spy.cleanup,
        })
    });
    let v = match res {
        Ok(v) if v.as_str() == Some("panic") => {
            pend("run_panics", te.name);
            return "panic".into();
        }
        Ok(v) => v,
        Err(how) => {
            pend("run_crashes_or_hangs", &format!("{how}: {}", te.name));
            return "crash".into();
        }
    };
    let d_want: usize = o_phase('d', te, vals).parse().unwrap_or(usize::MAX);
    if let Some(c) = v["direct"]["err"].as_str() {
        if k >= d_want {
            pend("ix_args_phase_gets_wrong_field", &format!("{} vals {vals:?} with {k} accounts: decode -> {c} (decode argument should be {d_want})", te.name));
        }
        if v["entry"].as_str() != Some(c) {
            pend("entry_path_differs_from_direct_decode", te.name);
        }
        return if c == "err:Custom9004" { "err:notenough".into() } else { c.to_string() };
    }
    let (rem, len) = (v["direct"]["rem"].as_u64().unwrap() as usize, v["direct"]["len"].as_u64().unwrap() as usize);
    let num = |x: &Value| x.as_u64().map(|n| n.to_string()).unwrap_or_else(|| "-".into());
    let (val, cln) = (num(&v["validate"]), num(&v["cleanup"]));
    let run = v["run"].as_str().unwrap_or("-").to_string();
    // ---- oracle: every phase saw the field annotated for it
    let got = format!("d={len} v={val} r={run} c={cln}");
    let want = format!("d={} v={} r={} c={}", o_phase('d', te, vals), o_phase('v', te, vals), o_phase('r', te, vals), o_phase('c', te, vals));
    if got != want || v["entry"].as_str() != Some("ok") || v["decoded"].as_u64() != Some(len as u64) || k < d_want || rem != k - d_want.min(k) {
        pend(
            "ix_args_phase_gets_wrong_field",
            &format!("{} fields {vals:?} sent with {k} accounts: program saw {got} (used {} accounts, entry {}), client meant {want}", te.name, k - rem, v["entry"]),
        );
    }
    format!("ok {} used={} rem={rem} {got}", hex(data), k - rem)
}

// =============================================================================== generator
struct Gen<'r> {
    rng: &'r mut Rng,
    next_key: u64,
    /// probability (per cent) of the special choices
    special: u64,
}

impl Gen<'_> {
    fn fresh(&mut self) -> String {
        self.next_key += 1;
        format!("k{}", self.next_key)
    }
    fn value(&mut self, shape: &Sexp, ty: &Sexp, max_len: u64) -> Sexp {
        let (tag, a) = sh(shape);
        match tag {
            "single" => {
                let fixed = a[2].as_atom().unwrap();
                let bare = !flag(&a[0]) && !flag(&a[1]) && a[3].as_atom() == Some("-");
                let k = if fixed != "-" {
                    if self.rng.below(100) < self.special {
                        self.fresh() // wrong address
                    } else if bare && self.rng.chance(1, 2) {
                        "-".to_string()
                    } else {
                        fixed.to_string()
                    }
                } else if self.rng.below(100) < self.special {
                    "pid".to_string() // an ordinary account that happens to be the program
                } else {
                    self.fresh()
                };
                Sexp::tagged("key", vec![Sexp::atom(k)])
            }
            "opt" => {
                if self.rng.chance(1, 2) {
                    Sexp::atom("absent")
                } else {
                    Sexp::tagged("present", vec![self.value(&a[0], ty, max_len)])
                }
            }
            "vec" | "rest" => {
                // per-element arguments fix the number of elements; a shared inner argument needs uniform inner
                // vectors (non-uniform values are filtered out by the caller)
                let n = if tag == "vec" { ty_vec_count(ty).map(|n| n as u64) } else { None }.unwrap_or_else(|| self.rng.below(max_len + 1));
                let et = ty_child(tag, ty, 0);
                let items: Vec<Sexp> = (0..n).map(|_| self.value(&a[0], &et, max_len)).collect();
                Sexp::tagged("many", items)
            }
            "arr" => {
                let n: u64 = a[0].as_atom().unwrap().parse().unwrap();
                let et = ty_child("arr", ty, 0);
                Sexp::tagged("many", (0..n).map(|_| self.value(&a[1], &et, max_len)).collect())
            }
            "boxed" => self.value(&a[0], ty, max_len),
            "struct" => Sexp::tagged("many", a.iter().enumerate().map(|(i, s)| self.value(s, &ty_child("struct", ty, i), max_len)).collect()),
            _ => Sexp::atom("absent"),
        }
    }
}

/// all present/absent choices for the options of a shape with the vec/rest lengths given by `len`
fn enumerate(shape: &Sexp, ty: &Sexp, len: usize, ctr: &mut u64, cap: usize) -> Vec<Sexp> {
    fn go(shape: &Sexp, ty: &Sexp, len: usize, ctr: &mut u64) -> Vec<Sexp> {
        let (tag, a) = sh(shape);
        match tag {
            "single" => {
                let fixed = a[2].as_atom().unwrap();
                let k = if fixed != "-" {
                    if !flag(&a[0]) && !flag(&a[1]) && a[3].as_atom() == Some("-") { "-".to_string() } else { fixed.to_string() }
                } else {
                    *ctr += 1;
                    format!("k{ctr}")
                };
                vec![Sexp::tagged("key", vec![Sexp::atom(k)])]
            }
            "opt" => {
                let mut v = vec![Sexp::atom("absent")];
                v.extend(go(&a[0], ty, len, ctr).into_iter().map(|x| Sexp::tagged("present", vec![x])));
                v
            }
            "boxed" => go(&a[0], ty, len, ctr),
            "vec" | "rest" | "arr" | "struct" => {
                let elems: Vec<&Sexp> = match tag {
                    "struct" => a.iter().collect(),
                    "arr" => vec![&a[1]; a[0].as_atom().unwrap().parse().unwrap()],
                    "vec" => vec![&a[0]; ty_vec_count(ty).unwrap_or(len)],
                    _ => vec![&a[0]; len],
                };
                let mut acc: Vec<Vec<Sexp>> = vec![vec![]];
                for (i, e) in elems.into_iter().enumerate() {
                    let opts = go(e, &ty_child(tag, ty, i), len, ctr);
                    let mut next = vec![];
                    for pre in &acc {
                        for o in &opts {
                            if next.len() >= 4096 {
                                break;
                            }
                            let mut p = pre.clone();
                            p.push(o.clone());
                            next.push(p);
                        }
                    }
                    acc = next;
                }
                acc.into_iter().map(|items| Sexp::tagged("many", items)).collect()
            }
            _ => vec![],
        }
    }
    let mut v = go(shape, ty, len, ctr);
    v.truncate(cap);
    v
}

fn emit_group<'a>(rec: &mut Recorder, table: &'a [SetEntry], st: &mut St<'a>, rng: &mut Rng, shape: &Sexp, ty: &Sexp, client: &Sexp, perturb: bool) {
    exec(rec, table, st, &format!("client {client}"));
    let n = st.metas.len();
    let mut tampered = false;
    if perturb && rng.chance(1, 4) {
        let k = rng.range(1, 2);
        let names: Vec<String> = (0..k).map(|i| format!("k{}", 900 + i)).collect();
        exec(rec, table, st, &format!("extra {}", names.join(" ")));
    }
    if perturb && n > 0 && rng.chance(1, 4) {
        // drop one flag the static meta requires (if any)
        let cands: Vec<(usize, char)> = st
            .metas
            .iter()
            .enumerate()
            .flat_map(|(i, m)| [(i, 's', m.is_signer), (i, 'w', m.is_writable)])
            .filter(|x| x.2)
            .map(|x| (x.0, x.1))
            .collect();
        if !cands.is_empty() {
            let (i, f) = *rng.pick(&cands);
            exec(rec, table, st, &format!("drop {i} {f}"));
            if rng.chance(1, 3) {
                // a second missing flag, possibly of the same account (the first failing check decides)
                let (i, f) = *rng.pick(&cands);
                exec(rec, table, st, &format!("drop {i} {f}"));
            }
            tampered = true;
        }
    }
    if perturb && n > 0 && rng.chance(1, 3) {
        // more privilege than the set requires: nothing may change (in particular not the CPI metas)
        for _ in 0..rng.range(1, 2) {
            exec(rec, table, st, &format!("grant {} {}", rng.below(n as u64), if rng.chance(1, 2) { "s" } else { "w" }));
        }
    }
    let mut darg = o_arg_for(shape, ty, client).unwrap_or_else(|| default_arg(ty));
    if perturb && rng.chance(1, 6) {
        darg = bump_len(&darg, rng);
    }
    let d = rng.below(9) as usize;
    let dbytes = rng.bytes(d);
    let b = match rng.below(4) {
        0 => 0,
        1 => u64::MAX,
        2 => rng.below(1 << 16),
        _ => rng.next(),
    };
    exec(rec, table, st, &format!("ix {darg} {} {b} {} {}", rng.below(256), rng.below(2), hex(&dbytes)));
    exec(rec, table, st, "run");
    exec(rec, table, st, "cpi");
    // the same instruction on infos that carry STRICTLY MORE privileges than their slots ask for (+signer,
    // +writable, both — e.g. the caller's fee payer in a read-only slot): nothing may change, in particular the CPI metas
    if n > 0 && !tampered && (!perturb || rng.chance(1, 4)) {
        for f in ["s", "w", "sw"] {
            exec(rec, table, st, &format!("grantall {f}"));
            exec(rec, table, st, "run");
            exec(rec, table, st, "cpi");
        }
    }
}

/// change one vector length in a decode argument by ±1
fn bump_len(a: &Sexp, rng: &mut Rng) -> Sexp {
    fn lens(a: &Sexp) -> usize {
        match a {
            Sexp::List(v) => (v[0].as_atom() == Some("len")) as usize + v[1..].iter().map(lens).sum::<usize>(),
            _ => 0,
        }
    }
    fn go(a: &Sexp, target: &mut isize, up: bool) -> Sexp {
        match a {
            Sexp::List(v) => {
                let mut v = v.clone();
                if v[0].as_atom() == Some("len") {
                    if *target == 0 {
                        let n: u64 = v[1].as_atom().unwrap().parse().unwrap();
                        v[1] = Sexp::atom(if up || n == 0 { n + 1 } else { n - 1 }.to_string());
                    }
                    *target -= 1;
                    v[2] = go(&v[2], target, up);
                } else {
                    for x in v[1..].iter_mut() {
                        *x = go(x, target, up);
                    }
                }
                Sexp::List(v)
            }
            x => x.clone(),
        }
    }
    let n = lens(a);
    if n == 0 {
        return a.clone();
    }
    let mut target = rng.below(n as u64) as isize;
    go(a, &mut target, rng.chance(1, 2))
}

pub fn run(args: &Args) {
    let _ = name_of_key(&PID); // build the name table before any fork
    let table = registry();
    let mut rec = Recorder::new(
        "derived account sets = the curated family (every building block and pairwise nesting, zero-account sets, tuple and \
         generic derived sets, every decode-argument form) + 30 seeded-random generated sets (bin/gen_c14_sets.py); \
         one case per (derived account set, batch): every present/absent combination of its optional accounts at vec/rest lengths 0..2 \
         (capped), then PRNG-driven values (lengths 0..3, default/explicit/wrong fixed addresses, accounts that equal the program id, \
         extra trailing accounts, one required flag dropped, surplus flags granted (single accounts at random; and every run of the enumeration repeated with +signer, +writable, +both on ALL accounts), one vector length argument off by one). A case is non-trivial when it \
         contains a run with an absent optional, a run with a non-empty vec/rest, or a rejected (validation / decode error) run; \
         distinct by case text hash.",
    );
    if let Some(cases) = args.replay_cases() {
        for c in cases {
            rec.case(&c[0]);
            let mut st = St::default();
            for l in &c[1..] {
                exec(&mut rec, &table, &mut st, l);
            }
            rec.mark_nontrivial();
        }
        rec.finish(args);
        return;
    }
    // corpus first
    let corpus_dir = std::path::Path::new(&std::env::var("VERIF_DIR").unwrap_or_else(|_| "/verif".into())).join("corpus/C14");
    if let Ok(rd) = std::fs::read_dir(&corpus_dir) {
        let mut files: Vec<_> = rd.filter_map(|e| e.ok()).map(|e| e.path()).filter(|p| p.extension().map_or(false, |x| x == "replay")).collect();
        files.sort();
        for f in files {
            let a = Args { replay: Some(f), ..args.clone() };
            for c in a.replay_cases().unwrap_or_default() {
                rec.case(&c[0]);
                let mut st = St::default();
                for l in &c[1..] {
                    exec(&mut rec, &table, &mut st, l);
                }
                rec.mark_nontrivial();
                rec.bump("corpus_cases");
            }
        }
    }
    let mut rng = Rng::new(args.seed);
    let thorough = args.thorough();
    let table_line = format!("table {}", all_discs(&table).join(" "));
    let (enum_cap, n_batches, per_batch) = if thorough { (512, 12, 100) } else { (128, 4, 40) };
    for (si, e) in table.iter().enumerate() {
        let shape = (e.shape)();
        let ty = (e.argty)();
        let header = format!("set {} {shape} {ty} {si}", e.name);
        // ---- boundary enumeration
        // the seeded-random generated sets get the full treatment in the thorough tier only
        let light = e.generated && !thorough;
        for len in 0..=(if light { 1 } else { 2usize }) {
            let mut ctr = 0u64;
            let vals = enumerate(&shape, &ty, len, &mut ctr, enum_cap);
            if len > 0 && !(o_has_rest(&shape) || shape.to_string().contains("vec")) {
                continue;
            }
            rec.case(&format!("case {si}.{len} enum {}", e.name));
            let mut st = St::default();
            exec(&mut rec, &table, &mut st, &table_line);
            exec(&mut rec, &table, &mut st, &header);
            for v in &vals {
                emit_group(&mut rec, &table, &mut st, &mut rng, &shape, &ty, v, false);
            }
            rec.bump(&format!("set:{}", e.name));
            mark(&mut rec);
            if len == 1 && ["S22", "V12"].contains(&e.name) {
                rec.sample_current(5);
            }
        }
        // ---- random
        for batch in 0..(if light { 1 } else { n_batches }) {
            rec.case(&format!("case {si}.r{batch} random {}", e.name));
            let mut st = St::default();
            exec(&mut rec, &table, &mut st, &table_line);
            exec(&mut rec, &table, &mut st, &header);
            for _ in 0..per_batch {
                let mut g = Gen { rng: &mut rng, next_key: 0, special: 6 };
                let v = g.value(&shape, &ty, 3);
                // uniform nested vectors only (else there is no decode argument for the value)
                if o_arg_for(&shape, &ty, &v).is_none() {
                    continue;
                }
                emit_group(&mut rec, &table, &mut st, &mut rng, &shape, &ty, &v, true);
            }
            mark(&mut rec);
            if batch == 0 && ["S13", "S37", "V05"].contains(&e.name) {
                rec.sample_current(5);
            }
        }
    }
    // ---- tuple-struct instructions: which field each phase receives
    for (ti, te) in t_registry().iter().enumerate() {
        rec.case(&format!("case t{ti} tuple-ix {}", te.name));
        let mut st = St::default();
        exec(&mut rec, &table, &mut st, &table_line);
        let n_fields = te.anns.split(',').count();
        let d_pos = te.anns.split(',').position(|a| a.contains('d')).unwrap();
        let n = if thorough { 400 } else { 40 };
        for j in 0..n {
            // distinct values in every field so that a mix-up is visible; the decode field small
            let mut vals: Vec<u64> = (0..n_fields).map(|f| if j == 0 { 1 + f as u64 } else { rng.below(256) }).collect();
            vals[d_pos] = if j == 0 { 2 } else { rng.below(6) };
            let k = match rng.below(8) {
                0 => vals[d_pos] + 1 + rng.below(2),
                1 if vals[d_pos] > 0 => vals[d_pos] - 1,
                _ => vals[d_pos],
            };
            let vs = vals.iter().map(|v| v.to_string()).collect::<Vec<_>>().join(",");
            exec(&mut rec, &table, &mut st, &format!("tix {} {} {} {} {vs} {k}", table.len() + ti, te.name, te.self_ann, te.anns));
        }
        rec.bump(&format!("tuple_ix:{}", te.name));
        rec.mark_nontrivial();
        if ti == 0 {
            rec.sample_current(6);
        }
    }
    rec.extra.insert("sets".into(), hx_common::json!(table.iter().map(|e| format!("{} {}", e.name, (e.shape)())).collect::<Vec<_>>()));
    rec.finish(args);
}

thread_local! {
    static NONTRIVIAL: std::cell::Cell<bool> = const { std::cell::Cell::new(false) };
    static CRASHES: std::cell::Cell<u32> = const { std::cell::Cell::new(0) };
}

fn mark(rec: &mut Recorder) {
    if NONTRIVIAL.replace(false) {
        rec.mark_nontrivial();
    }
}
