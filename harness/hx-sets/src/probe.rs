//! `Probe`: for every building block (and, through `sets::plain_set!`, every derived set) its model
//! shape, a parser from the op line's client value to the typed `ClientAccounts`, and a printer of
//! the decoded set (which key / runtime flags each field decoded to, present / absent).
use crate::sexp::Sexp;
use star_frame::{
    account_set::{
        modifiers::{MaybeMut, MaybeSigner},
        rest::Rest,
        sysvar::{InstructionsSysvar, SysvarId},
        ClientAccountSet,
    },
    pinocchio::sysvars::rent::Rent,
    prelude::*,
};
use std::{collections::HashMap, sync::OnceLock};

use crate::sets::HxSets;

// ------------------------------------------------------------------------------------ key names
pub fn key_of_name(n: &str) -> Option<Pubkey> {
    match n {
        "pid" => Some(HxSets::ID),
        "sys" => Some(System::ID),
        "rent" => Some(<Rent as SysvarId>::id()),
        "ixs" => Some(<InstructionsSysvar as SysvarId>::id()),
        _ => {
            if let Some(d) = n.strip_prefix('k') {
                if d.len() <= 4 && !d.is_empty() && d.bytes().all(|c| c.is_ascii_digit()) && (d == "0" || !d.starts_with('0')) {
                    return Some(hx_native::key_from(d.parse::<u64>().ok()?));
                }
            }
            None
        }
    }
}

pub fn name_of_key(k: &Pubkey) -> String {
    static MAP: OnceLock<HashMap<Pubkey, String>> = OnceLock::new();
    let m = MAP.get_or_init(|| {
        let mut m = HashMap::new();
        for i in (0..10000u64).rev() {
            m.insert(hx_native::key_from(i), format!("k{i}"));
        }
        for n in ["ixs", "rent", "sys", "pid"] {
            m.insert(key_of_name(n).unwrap(), n.to_string());
        }
        m
    });
    m.get(k).cloned().unwrap_or_else(|| hx_common::hex(k.as_ref()))
}

pub fn show_info(info: &AccountInfo) -> Sexp {
    let k = Pubkey::new_from_array(*info.key());
    Sexp::tagged("acct", vec![Sexp::atom(format!("{}:{}:{}", name_of_key(&k), info.is_signer() as u8, info.is_writable() as u8))])
}

/// `(single,<meta signer>,<meta writable>,<fixed key>,<flag checks of validation in execution order: s/w, - for none>)`
fn single(sg: bool, wr: bool, fixed: Option<&str>) -> Sexp {
    let b = |x: bool| Sexp::atom(if x { "1" } else { "0" });
    Sexp::tagged("single", vec![b(sg), b(wr), Sexp::atom(fixed.unwrap_or("-")), Sexp::atom("-")])
}

/// wrap a single shape in a checking wrapper: the meta flag is set, the check runs after the inner ones.
/// A `Box` *inside* a wrapper stack (`Mut<Box<Signer<_>>>`) is transparent — the stack is still one
/// single account whose meta is the union of the flags — so its `boxed` marker is absorbed here; only an
/// outermost `Box` shows up as `boxed` in the shape.
fn wrap(shape: Sexp, idx: usize, check: char) -> Sexp {
    match shape {
        Sexp::List(mut v) if v.len() == 5 && v[0].as_atom() == Some("single") => {
            v[idx] = Sexp::atom("1");
            let cs = v[4].as_atom().unwrap().trim_start_matches('-').to_string();
            v[4] = Sexp::atom(format!("{cs}{check}"));
            Sexp::List(v)
        }
        Sexp::List(v) if v.len() == 2 && v[0].as_atom() == Some("boxed") => wrap(v[1].clone(), idx, check),
        other => panic!("not a single shape: {other}"),
    }
}

/// the shape below a pass-through wrapper (absorbing an in-stack `Box`, as above)
fn pass(shape: Sexp) -> Sexp {
    match shape {
        Sexp::List(v) if v.len() == 2 && v[0].as_atom() == Some("boxed") => pass(v[1].clone()),
        other => other,
    }
}

fn key_client(v: &Sexp) -> Option<Pubkey> {
    match v.items("key")? {
        [k] => key_of_name(k.as_atom()?),
        _ => None,
    }
}
fn opt_key_client(v: &Sexp) -> Option<Option<Pubkey>> {
    match v.items("key")? {
        [k] if k.as_atom() == Some("-") => Some(None),
        [k] => Some(Some(key_of_name(k.as_atom()?)?)),
        _ => None,
    }
}

// ------------------------------------------------------------------------------------ the trait
pub trait Probe: Sized {
    type Client: Clone + std::fmt::Debug;
    fn shape() -> Sexp;
    fn client(v: &Sexp) -> Option<Self::Client>;
    fn show(&self) -> Sexp;
    /// the static `SingleSetMeta`s (signer, writable) of the single accounts below, for the oracle
    fn static_metas(out: &mut Vec<(bool, bool)>);
}

fn push_meta<T: SingleAccountSet>(out: &mut Vec<(bool, bool)>) {
    let m = T::meta();
    out.push((m.signer, m.writable));
}

impl Probe for AccountInfo {
    type Client = Pubkey;
    fn shape() -> Sexp {
        single(false, false, None)
    }
    fn client(v: &Sexp) -> Option<Pubkey> {
        key_client(v)
    }
    fn show(&self) -> Sexp {
        show_info(self)
    }
    fn static_metas(out: &mut Vec<(bool, bool)>) {
        push_meta::<Self>(out)
    }
}

/// the by-reference spelling of a plain account (its own hand-written client / decode / CPI impls)
impl Probe for &AccountInfo {
    type Client = Pubkey;
    fn shape() -> Sexp {
        single(false, false, None)
    }
    fn client(v: &Sexp) -> Option<Pubkey> {
        key_client(v)
    }
    fn show(&self) -> Sexp {
        show_info(self)
    }
    fn static_metas(out: &mut Vec<(bool, bool)>) {
        push_meta::<Self>(out)
    }
}

impl<T: Probe + SingleAccountSet> Probe for MaybeSigner<true, T>
where
    Self: SingleAccountSet,
{
    type Client = Pubkey;
    fn shape() -> Sexp {
        wrap(T::shape(), 1, 's')
    }
    fn client(v: &Sexp) -> Option<Pubkey> {
        key_client(v)
    }
    fn show(&self) -> Sexp {
        show_info(self.account_info())
    }
    fn static_metas(out: &mut Vec<(bool, bool)>) {
        push_meta::<Self>(out)
    }
}

impl<T: Probe + SingleAccountSet> Probe for MaybeMut<true, T>
where
    Self: SingleAccountSet,
{
    type Client = Pubkey;
    fn shape() -> Sexp {
        wrap(T::shape(), 2, 'w')
    }
    fn client(v: &Sexp) -> Option<Pubkey> {
        key_client(v)
    }
    fn show(&self) -> Sexp {
        show_info(self.account_info())
    }
    fn static_metas(out: &mut Vec<(bool, bool)>) {
        push_meta::<Self>(out)
    }
}

/// `MaybeSigner<false, T>` is a pass-through: meta `signer = false || T::meta().signer` (before the /repo fix
/// it was `signer: false`, forgetting an inner `Signer` whose validation still ran — C14 finding
/// `single_set_meta_override_drops_inner_requirement`).
impl<T: Probe + SingleAccountSet> Probe for MaybeSigner<false, T>
where
    Self: SingleAccountSet,
{
    type Client = Pubkey;
    fn shape() -> Sexp {
        pass(T::shape())
    }
    fn client(v: &Sexp) -> Option<Pubkey> {
        key_client(v)
    }
    fn show(&self) -> Sexp {
        show_info(self.account_info())
    }
    fn static_metas(out: &mut Vec<(bool, bool)>) {
        push_meta::<Self>(out)
    }
}

impl<T: Probe + SingleAccountSet> Probe for MaybeMut<false, T>
where
    Self: SingleAccountSet,
{
    type Client = Pubkey;
    fn shape() -> Sexp {
        pass(T::shape())
    }
    fn client(v: &Sexp) -> Option<Pubkey> {
        key_client(v)
    }
    fn show(&self) -> Sexp {
        show_info(self.account_info())
    }
    fn static_metas(out: &mut Vec<(bool, bool)>) {
        push_meta::<Self>(out)
    }
}

impl Probe for Program<System> {
    type Client = Option<Pubkey>;
    fn shape() -> Sexp {
        single(false, false, Some("sys"))
    }
    fn client(v: &Sexp) -> Option<Self::Client> {
        opt_key_client(v)
    }
    fn show(&self) -> Sexp {
        show_info(self.account_info())
    }
    fn static_metas(out: &mut Vec<(bool, bool)>) {
        push_meta::<Self>(out)
    }
}

impl Probe for Program<HxSets> {
    type Client = Option<Pubkey>;
    fn shape() -> Sexp {
        single(false, false, Some("pid"))
    }
    fn client(v: &Sexp) -> Option<Self::Client> {
        opt_key_client(v)
    }
    fn show(&self) -> Sexp {
        show_info(self.account_info())
    }
    fn static_metas(out: &mut Vec<(bool, bool)>) {
        push_meta::<Self>(out)
    }
}

impl Probe for Sysvar<Rent> {
    type Client = Option<Pubkey>;
    fn shape() -> Sexp {
        single(false, false, Some("rent"))
    }
    fn client(v: &Sexp) -> Option<Self::Client> {
        opt_key_client(v)
    }
    fn show(&self) -> Sexp {
        show_info(self.account_info())
    }
    fn static_metas(out: &mut Vec<(bool, bool)>) {
        push_meta::<Self>(out)
    }
}

impl Probe for Sysvar<InstructionsSysvar> {
    type Client = Option<Pubkey>;
    fn shape() -> Sexp {
        single(false, false, Some("ixs"))
    }
    fn client(v: &Sexp) -> Option<Self::Client> {
        opt_key_client(v)
    }
    fn show(&self) -> Sexp {
        show_info(self.account_info())
    }
    fn static_metas(out: &mut Vec<(bool, bool)>) {
        push_meta::<Self>(out)
    }
}

impl<T: Probe> Probe for Option<T> {
    type Client = Option<T::Client>;
    fn shape() -> Sexp {
        Sexp::tagged("opt", vec![T::shape()])
    }
    fn client(v: &Sexp) -> Option<Self::Client> {
        if v.as_atom() == Some("absent") {
            return Some(None);
        }
        match v.items("present")? {
            [x] => Some(Some(T::client(x)?)),
            _ => None,
        }
    }
    fn show(&self) -> Sexp {
        match self {
            None => Sexp::atom("absent"),
            Some(x) => Sexp::tagged("present", vec![x.show()]),
        }
    }
    fn static_metas(out: &mut Vec<(bool, bool)>) {
        T::static_metas(out)
    }
}

fn many_client<T: Probe>(v: &Sexp) -> Option<Vec<T::Client>> {
    v.items("many")?.iter().map(T::client).collect()
}
fn many_show<'a, T: Probe + 'a>(it: impl Iterator<Item = &'a T>) -> Sexp {
    Sexp::tagged("many", it.map(Probe::show).collect())
}

impl<T: Probe> Probe for Vec<T> {
    type Client = Vec<T::Client>;
    fn shape() -> Sexp {
        Sexp::tagged("vec", vec![T::shape()])
    }
    fn client(v: &Sexp) -> Option<Self::Client> {
        many_client::<T>(v)
    }
    fn show(&self) -> Sexp {
        many_show(self.iter())
    }
    fn static_metas(out: &mut Vec<(bool, bool)>) {
        T::static_metas(out)
    }
}

impl<T: Probe> Probe for Rest<T> {
    type Client = Vec<T::Client>;
    fn shape() -> Sexp {
        Sexp::tagged("rest", vec![T::shape()])
    }
    fn client(v: &Sexp) -> Option<Self::Client> {
        many_client::<T>(v)
    }
    fn show(&self) -> Sexp {
        many_show(self.iter())
    }
    fn static_metas(out: &mut Vec<(bool, bool)>) {
        T::static_metas(out)
    }
}

impl<T: Probe, const N: usize> Probe for [T; N] {
    type Client = [T::Client; N];
    fn shape() -> Sexp {
        Sexp::tagged("arr", vec![Sexp::atom(N.to_string()), T::shape()])
    }
    fn client(v: &Sexp) -> Option<Self::Client> {
        many_client::<T>(v)?.try_into().ok()
    }
    fn show(&self) -> Sexp {
        many_show(self.iter())
    }
    fn static_metas(out: &mut Vec<(bool, bool)>) {
        T::static_metas(out)
    }
}

impl<T: Probe> Probe for Box<T> {
    type Client = T::Client;
    fn shape() -> Sexp {
        Sexp::tagged("boxed", vec![T::shape()])
    }
    fn client(v: &Sexp) -> Option<Self::Client> {
        T::client(v)
    }
    fn show(&self) -> Sexp {
        T::show(self)
    }
    fn static_metas(out: &mut Vec<(bool, bool)>) {
        T::static_metas(out)
    }
}

/// `()`: the account set without accounts (an empty struct in the model)
impl Probe for () {
    type Client = ();
    fn shape() -> Sexp {
        Sexp::tagged("struct", vec![])
    }
    fn client(v: &Sexp) -> Option<()> {
        matches!(v.items("many"), Some([])).then_some(())
    }
    fn show(&self) -> Sexp {
        Sexp::tagged("many", vec![])
    }
    fn static_metas(_out: &mut Vec<(bool, bool)>) {}
}

/// Compile-time tie between `Probe::Client` and the real `ClientAccounts`.
pub trait ProbeSet: Probe + ClientAccountSet<ClientAccounts = <Self as Probe>::Client> {}
impl<T> ProbeSet for T where T: Probe + ClientAccountSet<ClientAccounts = <T as Probe>::Client> {}
