//! Native `AccountInfo`s: lays out the runtime's serialized instruction input (as the BPF loader
//! does) in a u64-aligned buffer and lets pinocchio's own `deserialize` build the `AccountInfo`s,
//! so the real accessor/borrow/resize code runs natively.
use star_frame::pinocchio::{self, account_info::AccountInfo};
use star_frame::prelude::Pubkey;
use std::mem::MaybeUninit;

pub const MAX_PERMITTED_DATA_INCREASE: usize = 10_240;
/// borrow_state, is_signer, is_writable, executable, resize_delta(4), key(32), owner(32), lamports(8), data_len(8)
pub const STATIC_ACCOUNT_DATA: usize = 88;

#[derive(Debug, Clone, PartialEq, Eq)]
pub struct AcctSpec {
    pub key: Pubkey,
    pub owner: Pubkey,
    pub lamports: u64,
    pub data: Vec<u8>,
    pub is_signer: bool,
    pub is_writable: bool,
    pub executable: bool,
}

impl AcctSpec {
    pub fn new(key: Pubkey, owner: Pubkey) -> Self {
        AcctSpec { key, owner, lamports: 0, data: vec![], is_signer: false, is_writable: false, executable: false }
    }
    pub fn data(mut self, d: Vec<u8>) -> Self {
        self.data = d;
        self
    }
    pub fn lamports(mut self, l: u64) -> Self {
        self.lamports = l;
        self
    }
    pub fn signer(mut self, s: bool) -> Self {
        self.is_signer = s;
        self
    }
    pub fn writable(mut self, w: bool) -> Self {
        self.is_writable = w;
        self
    }
}

pub const MAX_ACCOUNTS: usize = 64;

/// Owns the serialized input buffer; the `AccountInfo`s point into it.
pub struct World {
    _buf: Vec<u64>,
    infos: Vec<AccountInfo>,
    /// byte offset of each account's data start within the buffer
    data_offsets: Vec<usize>,
    orig_lens: Vec<usize>,
    base: *mut u8,
}

impl World {
    /// Build the world. Duplicate keys are NOT marked as duplicates (each spec gets its own slot).
    pub fn new(specs: &[AcctSpec]) -> World {
        Self::with_ix(specs, &[], &Pubkey::new_from_array([0; 32]))
    }

    pub fn with_ix(specs: &[AcctSpec], ix_data: &[u8], program_id: &Pubkey) -> World {
        assert!(specs.len() <= MAX_ACCOUNTS);
        let mut bytes: Vec<u8> = vec![];
        bytes.extend_from_slice(&(specs.len() as u64).to_le_bytes());
        let mut data_offsets = vec![];
        for s in specs {
            bytes.push(0xFF); // NON_DUP_MARKER, doubles as the borrow state (all borrows available)
            bytes.push(s.is_signer as u8);
            bytes.push(s.is_writable as u8);
            bytes.push(s.executable as u8);
            bytes.extend_from_slice(&0u32.to_le_bytes()); // resize_delta
            bytes.extend_from_slice(s.key.as_ref());
            bytes.extend_from_slice(s.owner.as_ref());
            bytes.extend_from_slice(&s.lamports.to_le_bytes());
            bytes.extend_from_slice(&(s.data.len() as u64).to_le_bytes());
            data_offsets.push(bytes.len());
            bytes.extend_from_slice(&s.data);
            bytes.extend(std::iter::repeat(0u8).take(MAX_PERMITTED_DATA_INCREASE));
            while bytes.len() % 8 != 0 {
                bytes.push(0);
            }
            bytes.extend_from_slice(&0u64.to_le_bytes()); // rent epoch
        }
        bytes.extend_from_slice(&(ix_data.len() as u64).to_le_bytes());
        bytes.extend_from_slice(ix_data);
        bytes.extend_from_slice(program_id.as_ref());
        let mut buf = vec![0u64; bytes.len().div_ceil(8) + 1];
        let base = buf.as_mut_ptr().cast::<u8>();
        unsafe { std::ptr::copy_nonoverlapping(bytes.as_ptr(), base, bytes.len()) };
        let mut arr: [MaybeUninit<AccountInfo>; MAX_ACCOUNTS] = [const { MaybeUninit::uninit() }; MAX_ACCOUNTS];
        let (_pid, n, _data) = unsafe { pinocchio::entrypoint::deserialize::<MAX_ACCOUNTS>(base, &mut arr) };
        assert_eq!(n, specs.len());
        let infos = (0..n).map(|i| unsafe { arr[i].assume_init_read() }).collect();
        World { _buf: buf, infos, data_offsets, orig_lens: specs.iter().map(|s| s.data.len()).collect(), base }
    }

    pub fn infos(&self) -> &[AccountInfo] {
        &self.infos
    }
    pub fn info(&self, i: usize) -> &AccountInfo {
        &self.infos[i]
    }
    pub fn len(&self) -> usize {
        self.infos.len()
    }
    pub fn is_empty(&self) -> bool {
        self.infos.is_empty()
    }
    pub fn orig_len(&self, i: usize) -> usize {
        self.orig_lens[i]
    }
    /// Raw bytes of account `i`'s data region: current data plus the rest of the realloc headroom,
    /// read without going through the borrow machinery.
    pub fn raw_region(&self, i: usize) -> &[u8] {
        unsafe { std::slice::from_raw_parts(self.base.add(self.data_offsets[i]), self.orig_lens[i] + MAX_PERMITTED_DATA_INCREASE) }
    }
    /// Current data (length `data_len()`), read raw.
    pub fn raw_data(&self, i: usize) -> Vec<u8> {
        let len = self.infos[i].data_len();
        unsafe { std::slice::from_raw_parts(self.base.add(self.data_offsets[i]), len) }.to_vec()
    }
    /// The raw borrow-state byte of account `i`.
    pub fn borrow_state(&self, i: usize) -> u8 {
        unsafe { *self.base.add(self.data_offsets[i] - STATIC_ACCOUNT_DATA) }
    }
    pub fn snapshot(&self, i: usize) -> AcctSpec {
        let a = &self.infos[i];
        AcctSpec {
            key: *a_key(a),
            owner: Pubkey::new_from_array(*a.owner()),
            lamports: a.lamports(),
            data: self.raw_data(i),
            is_signer: a.is_signer(),
            is_writable: a.is_writable(),
            executable: a.executable(),
        }
    }
}

fn a_key(a: &AccountInfo) -> &Pubkey {
    // Pubkey is repr(transparent) over [u8; 32]
    unsafe { &*(a.key() as *const [u8; 32]).cast::<Pubkey>() }
}

/// Deterministic pseudo-random key.
pub fn key_from(seed: u64) -> Pubkey {
    let mut b = [0u8; 32];
    let mut x = seed.wrapping_mul(0x9E37_79B9_7F4A_7C15) ^ 0xD6E8_FEB8_6659_FD93;
    for c in b.chunks_mut(8) {
        x ^= x >> 31;
        x = x.wrapping_mul(0xBF58_476D_1CE4_E5B9);
        x ^= x >> 29;
        c.copy_from_slice(&x.to_le_bytes());
    }
    Pubkey::new_from_array(b)
}

#[cfg(test)]
mod tests {
    use super::*;
    #[test]
    fn builds() {
        let k = key_from(1);
        let o = key_from(2);
        let w = World::new(&[AcctSpec::new(k, o).data(vec![1, 2, 3]).lamports(5).signer(true), AcctSpec::new(o, k).writable(true)]);
        assert_eq!(w.info(0).data_len(), 3);
        assert_eq!(w.snapshot(0).data, vec![1, 2, 3]);
        assert!(w.info(0).is_signer() && !w.info(0).is_writable());
        assert!(w.info(1).is_writable());
        assert_eq!(w.info(0).lamports(), 5);
        assert_eq!(w.borrow_state(0), 0xFF);
    }
}

/// Canonical error class of a star_frame error as the runtime would see it: `err:Custom<code>` for
/// custom errors (e.g. 1000 ExpectedWritable, 1001 ExpectedSigner, 1002 AddressMismatch,
/// 1003 DiscriminantMismatch), the `ProgramError` variant name otherwise.
pub fn err_class(e: star_frame::errors::Error) -> String {
    let pe: star_frame::pinocchio::program_error::ProgramError = e.into();
    match pe {
        star_frame::pinocchio::program_error::ProgramError::Custom(c) => format!("err:Custom{c}"),
        other => format!("err:{other:?}"),
    }
}

/// `ok` or the canonical error class.
pub fn res_class<T>(r: star_frame::Result<T>) -> String {
    match r {
        Ok(_) => "ok".to_string(),
        Err(e) => err_class(e),
    }
}
