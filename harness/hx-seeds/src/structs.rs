//! The seed structs under test (all through the REAL `#[derive(GetSeeds)]`), their shape table
//! (mirrored by `structTable` in `lean/Account/Account/Driver/C10.lean`) and typed field values.
use star_frame::prelude::*;

#[derive(Clone, Debug, PartialEq, Eq)]
pub enum Ty {
    U(usize),
    I(usize),
    Key,
    Arr(usize),
    Bool,
    /// a padding-free nested `NoUninit` struct: its members in declaration order
    Nested(Vec<Ty>),
}

impl Ty {
    pub fn name(&self) -> String {
        match self {
            Ty::U(w) => format!("u{}", w * 8),
            Ty::I(w) => format!("i{}", w * 8),
            Ty::Key => "key".into(),
            Ty::Arr(n) => format!("a{n}"),
            Ty::Bool => "bool".into(),
            Ty::Nested(ts) => format!("n({})", ts.iter().map(|t| t.name()).collect::<Vec<_>>().join("+")),
        }
    }
    pub fn parse(s: &str) -> Option<Ty> {
        if let Some(inner) = s.strip_prefix("n(").and_then(|r| r.strip_suffix(')')) {
            if inner.is_empty() {
                return Some(Ty::Nested(vec![]));
            }
            let parts: Option<Vec<Ty>> = inner.split('+').map(Ty::parse).collect();
            let parts = parts?;
            if parts.iter().any(|t| matches!(t, Ty::Nested(_))) {
                return None;
            }
            return Some(Ty::Nested(parts));
        }
        Some(match s {
            "bool" => Ty::Bool,
            "u8" => Ty::U(1),
            "u16" => Ty::U(2),
            "u32" => Ty::U(4),
            "u64" => Ty::U(8),
            "u128" => Ty::U(16),
            "i8" => Ty::I(1),
            "i16" => Ty::I(2),
            "i32" => Ty::I(4),
            "i64" => Ty::I(8),
            "i128" => Ty::I(16),
            "key" => Ty::Key,
            _ => {
                let rest = s.strip_prefix('a')?;
                let n: usize = rest.parse().ok()?;
                if n.to_string() != rest {
                    return None;
                }
                Ty::Arr(n)
            }
        })
    }
}

/// A typed field value as written on an op line (decimal integers, hex keys / arrays).
#[derive(Clone, Debug, PartialEq, Eq)]
pub enum Val {
    U(usize, u128),
    I(usize, i128),
    Key([u8; 32]),
    Arr(Vec<u8>),
    Bool(bool),
    Nested(Vec<Val>),
}

impl Val {
    pub fn parse(ty: &Ty, tok: &str) -> Option<Val> {
        match ty {
            Ty::U(w) => {
                let v: u128 = tok.parse().ok()?;
                if v.to_string() != tok || (*w < 16 && v >> (8 * w) != 0) {
                    return None;
                }
                Some(Val::U(*w, v))
            }
            Ty::I(w) => {
                let v: i128 = tok.parse().ok()?;
                if v.to_string() != tok {
                    return None;
                }
                if *w < 16 {
                    let half = 1i128 << (8 * w - 1);
                    if v < -half || v >= half {
                        return None;
                    }
                }
                Some(Val::I(*w, v))
            }
            Ty::Key => {
                let b = hx_common::unhex(tok)?;
                Some(Val::Key(b.try_into().ok()?))
            }
            Ty::Arr(n) => {
                let b = hx_common::unhex(tok)?;
                (b.len() == *n).then_some(Val::Arr(b))
            }
            Ty::Bool => match tok {
                "true" => Some(Val::Bool(true)),
                "false" => Some(Val::Bool(false)),
                _ => None,
            },
            Ty::Nested(ts) => {
                if ts.is_empty() {
                    return (tok == "-").then(|| Val::Nested(vec![]));
                }
                let toks: Vec<&str> = tok.split('+').collect();
                if toks.len() != ts.len() {
                    return None;
                }
                let vs: Option<Vec<Val>> = ts.iter().zip(toks).map(|(t, s)| Val::parse(t, s)).collect();
                Some(Val::Nested(vs?))
            }
        }
    }
    pub fn show(&self) -> String {
        match self {
            Val::U(_, v) => v.to_string(),
            Val::I(_, v) => v.to_string(),
            Val::Key(k) => hx_common::hex(k),
            Val::Arr(b) => hx_common::hex(b),
            Val::Bool(b) => b.to_string(),
            Val::Nested(vs) => {
                if vs.is_empty() {
                    "-".into()
                } else {
                    vs.iter().map(|v| v.show()).collect::<Vec<_>>().join("+")
                }
            }
        }
    }
    /// Independent encoding used by the property oracle: plain little-endian bytes.
    pub fn le_bytes(&self) -> Vec<u8> {
        match self {
            Val::U(w, v) => v.to_le_bytes()[..*w].to_vec(),
            Val::I(w, v) => v.to_le_bytes()[..*w].to_vec(),
            Val::Key(k) => k.to_vec(),
            Val::Arr(b) => b.clone(),
            Val::Bool(b) => vec![*b as u8],
            Val::Nested(vs) => vs.iter().flat_map(|v| v.le_bytes()).collect(),
        }
    }
}

pub trait FieldT: Sized + Clone + 'static {
    fn ty() -> Ty;
    fn from_val(v: &Val) -> Option<Self>;
    fn to_val(&self) -> Val;
}

macro_rules! uint_field {
    ($($t:ty),*) => {$(
        impl FieldT for $t {
            fn ty() -> Ty { Ty::U(std::mem::size_of::<$t>()) }
            fn from_val(v: &Val) -> Option<Self> {
                match v { Val::U(w, x) if *w == std::mem::size_of::<$t>() => <$t>::try_from(*x).ok(), _ => None }
            }
            fn to_val(&self) -> Val { Val::U(std::mem::size_of::<$t>(), *self as u128) }
        }
    )*};
}
macro_rules! sint_field {
    ($($t:ty),*) => {$(
        impl FieldT for $t {
            fn ty() -> Ty { Ty::I(std::mem::size_of::<$t>()) }
            fn from_val(v: &Val) -> Option<Self> {
                match v { Val::I(w, x) if *w == std::mem::size_of::<$t>() => <$t>::try_from(*x).ok(), _ => None }
            }
            fn to_val(&self) -> Val { Val::I(std::mem::size_of::<$t>(), *self as i128) }
        }
    )*};
}
uint_field!(u8, u16, u32, u64, u128);
sint_field!(i8, i16, i32, i64, i128);

impl FieldT for Pubkey {
    fn ty() -> Ty {
        Ty::Key
    }
    fn from_val(v: &Val) -> Option<Self> {
        match v {
            Val::Key(k) => Some(Pubkey::new_from_array(*k)),
            _ => None,
        }
    }
    fn to_val(&self) -> Val {
        Val::Key(self.to_bytes())
    }
}
impl<const N: usize> FieldT for [u8; N] {
    fn ty() -> Ty {
        Ty::Arr(N)
    }
    fn from_val(v: &Val) -> Option<Self> {
        match v {
            Val::Arr(b) => b.as_slice().try_into().ok(),
            _ => None,
        }
    }
    fn to_val(&self) -> Val {
        Val::Arr(self.to_vec())
    }
}

impl FieldT for bool {
    fn ty() -> Ty {
        Ty::Bool
    }
    fn from_val(v: &Val) -> Option<Self> {
        match v {
            Val::Bool(b) => Some(*b),
            _ => None,
        }
    }
    fn to_val(&self) -> Val {
        Val::Bool(*self)
    }
}
/// `PackedValue<T>` encodes exactly like `T` (align-1 wrapper).
impl<T: FieldT + Copy> FieldT for PackedValue<T> {
    fn ty() -> Ty {
        T::ty()
    }
    fn from_val(v: &Val) -> Option<Self> {
        Some(PackedValue(T::from_val(v)?))
    }
    fn to_val(&self) -> Val {
        let inner: T = self.0;
        inner.to_val()
    }
}

/// Nested padding-free `NoUninit` structs used as single seed fields.
#[derive(Clone, Copy, Debug, NoUninit)]
#[repr(C)]
pub struct Inner {
    pub a: u32,
    pub b: u16,
    pub c: u16,
}
#[derive(Clone, Copy, Debug, NoUninit)]
#[repr(C, packed)]
pub struct InnerP {
    pub a: u8,
    pub b: u64,
    pub c: i32,
}
#[derive(Clone, Copy, Debug, NoUninit)]
#[repr(C)]
pub struct Zst;

impl FieldT for Inner {
    fn ty() -> Ty {
        Ty::Nested(vec![Ty::U(4), Ty::U(2), Ty::U(2)])
    }
    fn from_val(v: &Val) -> Option<Self> {
        match v {
            Val::Nested(p) if p.len() == 3 => Some(Inner { a: u32::from_val(&p[0])?, b: u16::from_val(&p[1])?, c: u16::from_val(&p[2])? }),
            _ => None,
        }
    }
    fn to_val(&self) -> Val {
        Val::Nested(vec![self.a.to_val(), self.b.to_val(), self.c.to_val()])
    }
}
impl FieldT for InnerP {
    fn ty() -> Ty {
        Ty::Nested(vec![Ty::U(1), Ty::U(8), Ty::I(4)])
    }
    fn from_val(v: &Val) -> Option<Self> {
        match v {
            Val::Nested(p) if p.len() == 3 => Some(InnerP { a: u8::from_val(&p[0])?, b: u64::from_val(&p[1])?, c: i32::from_val(&p[2])? }),
            _ => None,
        }
    }
    fn to_val(&self) -> Val {
        let (a, b, c) = (self.a, self.b, self.c);
        Val::Nested(vec![a.to_val(), b.to_val(), c.to_val()])
    }
}
impl FieldT for Zst {
    fn ty() -> Ty {
        Ty::Nested(vec![])
    }
    fn from_val(v: &Val) -> Option<Self> {
        match v {
            Val::Nested(p) if p.is_empty() => Some(Zst),
            _ => None,
        }
    }
    fn to_val(&self) -> Val {
        Val::Nested(vec![])
    }
}

#[derive(Clone, Debug, PartialEq, Eq)]
pub struct Shape {
    pub sid: usize,
    pub cst: Option<Vec<u8>>,
    pub tys: Vec<Ty>,
    /// `seeds()` ends with the empty bump placeholder (every derived impl; `false` only for the
    /// hand-written impls that return just their real seeds)
    pub placeholder: bool,
}

impl Shape {
    /// Number of user seeds (constant prefix included).
    pub fn n_user(&self) -> usize {
        self.tys.len() + self.cst.is_some() as usize
    }
}

pub trait SeedStructT: GetSeeds + Clone + 'static {
    fn shape() -> Shape;
    fn from_vals(v: &[Val]) -> Option<Self>;
    fn to_vals(&self) -> Vec<Val>;
}

pub const TEST_CONST: &[u8] = b"TEST_CONST";
pub struct Cool;
impl Cool {
    pub const DISC: &'static [u8] = b"market";
}
pub const LONG_CONST: &[u8] = &[120u8; 33];
pub const CONST32: &[u8] = &[7u8; 32];

pub trait StructVisitor {
    type Out;
    fn visit<S: SeedStructT>(self) -> Self::Out;
}

macro_rules! seed_structs {
    ( $( $sid:literal $name:ident [$($cst:expr)?] { $($f:ident : $t:ty),* } )* ) => {
        $(
            #[derive(Debug, GetSeeds, Clone)]
            $( #[get_seeds(seed_const = $cst)] )?
            pub struct $name { $(pub $f: $t),* }

            impl SeedStructT for $name {
                fn shape() -> Shape {
                    #[allow(unused_mut, unused_assignments)]
                    let mut cst: Option<Vec<u8>> = None;
                    $( cst = Some(AsRef::<[u8]>::as_ref($cst).to_vec()); )?
                    Shape { sid: $sid, cst, tys: vec![$(<$t as FieldT>::ty()),*], placeholder: true }
                }
                #[allow(unused_mut, unused_variables)]
                fn from_vals(v: &[Val]) -> Option<Self> {
                    let mut it = v.iter();
                    let s = $name { $($f: <$t as FieldT>::from_val(it.next()?)?),* };
                    if it.next().is_some() { return None; }
                    Some(s)
                }
                fn to_vals(&self) -> Vec<Val> {
                    vec![$(self.$f.to_val()),*]
                }
            }
        )*

        /// Shapes of every derived struct, by sid.
        pub fn derived_shapes() -> Vec<Shape> {
            vec![$(<$name as SeedStructT>::shape()),*]
        }

        /// Calls the visitor with the struct type registered under `sid`.
        pub fn with_struct<V: StructVisitor>(sid: usize, v: V) -> Option<V::Out> {
            match sid {
                $( $sid => Some(v.visit::<$name>()), )*
                29 => Some(v.visit::<Pubkey>()),
                30 => Some(v.visit::<u64>()),
                52 => Some(v.visit::<ManualTrailingEmpty>()),
                53 => Some(v.visit::<ManualNoSlot>()),
                54 => Some(v.visit::<ManualWithSlot>()),
                _ => None,
            }
        }
    };
}

seed_structs! {
    0 UnitSeeds [] {}
    1 SingleKey [] { key: Pubkey }
    2 TwoKeys [] { key1: Pubkey, key2: Pubkey }
    3 KeyAndNumber [] { key: Pubkey, number: u64 }
    4 OnlyConstSeed [b"TEST_CONST"] {}
    5 OneKeyConstSeed [TEST_CONST] { key: Pubkey }
    6 OneU8 [] { a: u8 }
    7 OneU16 [] { a: u16 }
    8 OneU32 [] { a: u32 }
    9 OneU64 [] { a: u64 }
    10 OneU128 [] { a: u128 }
    11 OneI8 [] { a: i8 }
    12 OneI16 [] { a: i16 }
    13 OneI32 [] { a: i32 }
    14 OneI64 [] { a: i64 }
    15 OneI128 [] { a: i128 }
    16 EmptyArr [] { a: [u8; 0] }
    17 Arrs [] { a: [u8; 1], b: [u8; 32] }
    18 Mixed [b"p"] { a: u8, b: i16, c: u32, d: i64, e: u128, f: Pubkey, g: [u8; 7] }
    19 Market [Cool::DISC] { currency: Pubkey, market_token: Pubkey, index: u64, kind: u8 }
    20 TooLongArr [] { a: [u8; 33] }
    21 TooLongConst [LONG_CONST] { a: u8 }
    22 Fourteen [] { f0: u8, f1: u8, f2: u8, f3: u8, f4: u8, f5: u8, f6: u8,
                     f7: u16, f8: u16, f9: u16, f10: u16, f11: u16, f12: u16, f13: u16 }
    23 ThirteenConst [b"x"] { f0: u8, f1: i8, f2: u16, f3: i16, f4: u32, f5: i32, f6: u64, f7: i64,
                              f8: u128, f9: i128, f10: Pubkey, f11: [u8; 3], f12: u8 }
    24 Fifteen [] { f0: u8, f1: u8, f2: u8, f3: u8, f4: u8, f5: u8, f6: u8, f7: u8,
                    f8: u8, f9: u8, f10: u8, f11: u8, f12: u8, f13: u8, f14: u8 }
    25 FourteenConst [b"c"] { f0: u8, f1: u8, f2: u8, f3: u8, f4: u8, f5: u8, f6: u8,
                              f7: u16, f8: u16, f9: u16, f10: u16, f11: u16, f12: u16, f13: Pubkey }
    26 TwoU16 [] { a: u16, b: u16 }
    27 Sixteen [] { f0: u8, f1: u8, f2: u8, f3: u8, f4: u8, f5: u8, f6: u8, f7: u8,
                    f8: u8, f9: u8, f10: u8, f11: u8, f12: u8, f13: u8, f14: u8, f15: u8 }
    28 EmptyConst [b""] { a: u32 }
    31 TrailingEmptyArr [] { a: u8, b: [u8; 0] }
    // --- field types outside the first table
    32 BoolSeed [] { a: bool }
    33 Packed [b"pk"] { a: PackedValue<u64>, b: PackedValue<i16>, c: PackedValue<u128> }
    34 NestedRepr [] { a: Inner, b: u8 }
    35 NestedPacked [] { a: InnerP, b: InnerP }
    // --- zero-length components in front of / between other seeds (the bump slot is the LAST one)
    36 EmptyMiddle [] { a: u8, b: [u8; 0], c: u16 }
    37 EmptyFirst [] { a: [u8; 0], b: u8 }
    38 AllEmpty [] { a: [u8; 0], b: [u8; 0] }
    39 EmptyConstEmptyMiddle [b""] { a: u16, b: [u8; 0], c: Pubkey }
    40 UnitNested [] { a: Zst, b: u32 }
    // --- seeds that straddle the 32-byte chunks of the hash-oracle table differently
    41 Straddle31x2 [] { a: [u8; 31], b: [u8; 2] }
    42 Straddle1Key [] { a: [u8; 1], b: Pubkey }
    43 Straddle17 [] { a: [u8; 17], b: [u8; 17], c: [u8; 30] }
    // --- same concatenation, different split (must derive the same address)
    44 Split3x5 [] { a: [u8; 3], b: [u8; 5] }
    45 Split5x3 [] { a: [u8; 5], b: [u8; 3] }
    46 Split8 [] { a: [u8; 8] }
    47 Split4x0x4 [] { a: [u8; 4], b: [u8; 0], c: [u8; 4] }
    // --- limits exactly at the boundary with maximal seeds
    48 FourteenKeys [] { f0: Pubkey, f1: Pubkey, f2: Pubkey, f3: Pubkey, f4: Pubkey, f5: Pubkey, f6: Pubkey,
                         f7: Pubkey, f8: Pubkey, f9: Pubkey, f10: Pubkey, f11: Pubkey, f12: Pubkey, f13: Pubkey }
    49 FifteenKeys [] { f0: Pubkey, f1: Pubkey, f2: Pubkey, f3: Pubkey, f4: Pubkey, f5: Pubkey, f6: Pubkey, f7: Pubkey,
                        f8: Pubkey, f9: Pubkey, f10: Pubkey, f11: Pubkey, f12: Pubkey, f13: Pubkey, f14: Pubkey }
    50 Const32Arr32 [CONST32] { a: [u8; 32] }
    51 Arr31Bool [] { a: [u8; 31], b: bool }
}

/// Groups of structs whose seeds can carry the same concatenated bytes in different splits.
pub const RESPLIT_GROUPS: &[&[usize]] = &[&[44, 45, 46, 47], &[41, 42]];

// sid 29 / 30: `Pubkey` and `u64` themselves are `GetSeeds` through the blanket
// `impl<T: Seed + Debug> GetSeeds for T` (`vec![self.seed(), &[]]`).
impl SeedStructT for Pubkey {
    fn shape() -> Shape {
        Shape { sid: 29, cst: None, tys: vec![Ty::Key], placeholder: true }
    }
    fn from_vals(v: &[Val]) -> Option<Self> {
        match v {
            [x] => <Pubkey as FieldT>::from_val(x),
            _ => None,
        }
    }
    fn to_vals(&self) -> Vec<Val> {
        vec![self.to_val()]
    }
}
impl SeedStructT for u64 {
    fn shape() -> Shape {
        Shape { sid: 30, cst: None, tys: vec![Ty::U(8)], placeholder: true }
    }
    fn from_vals(v: &[Val]) -> Option<Self> {
        match v {
            [x] => <u64 as FieldT>::from_val(x),
            _ => None,
        }
    }
    fn to_vals(&self) -> Vec<Val> {
        vec![self.to_val()]
    }
}

// sid 52..54: hand-written `impl GetSeeds`.
// 52: no placeholder and the LAST REAL seed is empty (`without_bump_placeholder` pops a real seed);
// 53: no placeholder, last seed non-empty (the bump is pushed);
// 54: the impl shown in the trait documentation (constant, fields, placeholder).
#[derive(Debug, Clone)]
pub struct ManualTrailingEmpty {
    pub a: u8,
    pub b: [u8; 0],
}
impl GetSeeds for ManualTrailingEmpty {
    fn seeds(&self) -> Vec<&[u8]> {
        vec![self.a.seed(), self.b.seed()]
    }
}
#[derive(Debug, Clone)]
pub struct ManualNoSlot {
    pub a: u64,
}
impl GetSeeds for ManualNoSlot {
    fn seeds(&self) -> Vec<&[u8]> {
        vec![self.a.seed()]
    }
}
#[derive(Debug, Clone)]
pub struct ManualWithSlot {
    pub key: Pubkey,
    pub number: u64,
}
impl GetSeeds for ManualWithSlot {
    fn seeds(&self) -> Vec<&[u8]> {
        vec![b"TEST_CONST", self.key.seed(), self.number.seed(), &[]]
    }
}
macro_rules! manual_struct {
    ($name:ident, $sid:literal, $cst:expr, $ph:literal, { $($f:ident : $t:ty),* }) => {
        impl SeedStructT for $name {
            fn shape() -> Shape {
                Shape { sid: $sid, cst: $cst, tys: vec![$(<$t as FieldT>::ty()),*], placeholder: $ph }
            }
            fn from_vals(v: &[Val]) -> Option<Self> {
                let mut it = v.iter();
                let s = $name { $($f: <$t as FieldT>::from_val(it.next()?)?),* };
                if it.next().is_some() { return None; }
                Some(s)
            }
            fn to_vals(&self) -> Vec<Val> {
                vec![$(self.$f.to_val()),*]
            }
        }
    };
}
manual_struct!(ManualTrailingEmpty, 52, None, false, { a: u8, b: [u8; 0] });
manual_struct!(ManualNoSlot, 53, None, false, { a: u64 });
manual_struct!(ManualWithSlot, 54, Some(TEST_CONST.to_vec()), true, { key: Pubkey, number: u64 });

pub fn all_shapes() -> Vec<Shape> {
    let mut v = derived_shapes();
    v.push(<Pubkey as SeedStructT>::shape());
    v.push(<u64 as SeedStructT>::shape());
    v.push(<ManualTrailingEmpty as SeedStructT>::shape());
    v.push(<ManualNoSlot as SeedStructT>::shape());
    v.push(<ManualWithSlot as SeedStructT>::shape());
    v.sort_by_key(|s| s.sid);
    v
}
