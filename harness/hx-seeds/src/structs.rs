//! The seed structs under test (all through the REAL `#[derive(GetSeeds)]`), their shape table
//! (mirrored by `structTable` in `lean/Account/Account/Driver/C10.lean`) and typed field values.
use star_frame::prelude::*;

#[derive(Clone, Debug, PartialEq, Eq)]
pub enum Ty {
    U(usize),
    I(usize),
    Key,
    Arr(usize),
}

impl Ty {
    pub fn name(&self) -> String {
        match self {
            Ty::U(w) => format!("u{}", w * 8),
            Ty::I(w) => format!("i{}", w * 8),
            Ty::Key => "key".into(),
            Ty::Arr(n) => format!("a{n}"),
        }
    }
    pub fn parse(s: &str) -> Option<Ty> {
        Some(match s {
            "u8" => Ty::U(1),
            "u16" => Ty::U(2),
            "u32" => Ty::U(4),
            "u64" => Ty::U(8),
            "u128" => Ty::U(16),
            "i8" => Ty::I(1),
            "i16" => Ty::I(2),
            "i32" => Ty::I(4),
            "i64" => Ty::I(8),
            "i128" => Ty::I(16),
            "key" => Ty::Key,
            _ => {
                let rest = s.strip_prefix('a')?;
                let n: usize = rest.parse().ok()?;
                if n.to_string() != rest {
                    return None;
                }
                Ty::Arr(n)
            }
        })
    }
}

/// A typed field value as written on an op line (decimal integers, hex keys / arrays).
#[derive(Clone, Debug, PartialEq, Eq)]
pub enum Val {
    U(usize, u128),
    I(usize, i128),
    Key([u8; 32]),
    Arr(Vec<u8>),
}

impl Val {
    pub fn parse(ty: &Ty, tok: &str) -> Option<Val> {
        match ty {
            Ty::U(w) => {
                let v: u128 = tok.parse().ok()?;
                if v.to_string() != tok || (*w < 16 && v >> (8 * w) != 0) {
                    return None;
                }
                Some(Val::U(*w, v))
            }
            Ty::I(w) => {
                let v: i128 = tok.parse().ok()?;
                if v.to_string() != tok {
                    return None;
                }
                if *w < 16 {
                    let half = 1i128 << (8 * w - 1);
                    if v < -half || v >= half {
                        return None;
                    }
                }
                Some(Val::I(*w, v))
            }
            Ty::Key => {
                let b = hx_common::unhex(tok)?;
                Some(Val::Key(b.try_into().ok()?))
            }
            Ty::Arr(n) => {
                let b = hx_common::unhex(tok)?;
                (b.len() == *n).then_some(Val::Arr(b))
            }
        }
    }
    pub fn show(&self) -> String {
        match self {
            Val::U(_, v) => v.to_string(),
            Val::I(_, v) => v.to_string(),
            Val::Key(k) => hx_common::hex(k),
            Val::Arr(b) => hx_common::hex(b),
        }
    }
    /// Independent encoding used by the property oracle: plain little-endian bytes.
    pub fn le_bytes(&self) -> Vec<u8> {
        match self {
            Val::U(w, v) => v.to_le_bytes()[..*w].to_vec(),
            Val::I(w, v) => v.to_le_bytes()[..*w].to_vec(),
            Val::Key(k) => k.to_vec(),
            Val::Arr(b) => b.clone(),
        }
    }
}

pub trait FieldT: Sized + Clone + 'static {
    fn ty() -> Ty;
    fn from_val(v: &Val) -> Option<Self>;
    fn to_val(&self) -> Val;
}

macro_rules! uint_field {
    ($($t:ty),*) => {$(
        impl FieldT for $t {
            fn ty() -> Ty { Ty::U(std::mem::size_of::<$t>()) }
            fn from_val(v: &Val) -> Option<Self> {
                match v { Val::U(w, x) if *w == std::mem::size_of::<$t>() => <$t>::try_from(*x).ok(), _ => None }
            }
            fn to_val(&self) -> Val { Val::U(std::mem::size_of::<$t>(), *self as u128) }
        }
    )*};
}
macro_rules! sint_field {
    ($($t:ty),*) => {$(
        impl FieldT for $t {
            fn ty() -> Ty { Ty::I(std::mem::size_of::<$t>()) }
            fn from_val(v: &Val) -> Option<Self> {
                match v { Val::I(w, x) if *w == std::mem::size_of::<$t>() => <$t>::try_from(*x).ok(), _ => None }
            }
            fn to_val(&self) -> Val { Val::I(std::mem::size_of::<$t>(), *self as i128) }
        }
    )*};
}
uint_field!(u8, u16, u32, u64, u128);
sint_field!(i8, i16, i32, i64, i128);

impl FieldT for Pubkey {
    fn ty() -> Ty {
        Ty::Key
    }
    fn from_val(v: &Val) -> Option<Self> {
        match v {
            Val::Key(k) => Some(Pubkey::new_from_array(*k)),
            _ => None,
        }
    }
    fn to_val(&self) -> Val {
        Val::Key(self.to_bytes())
    }
}
impl<const N: usize> FieldT for [u8; N] {
    fn ty() -> Ty {
        Ty::Arr(N)
    }
    fn from_val(v: &Val) -> Option<Self> {
        match v {
            Val::Arr(b) => b.as_slice().try_into().ok(),
            _ => None,
        }
    }
    fn to_val(&self) -> Val {
        Val::Arr(self.to_vec())
    }
}

#[derive(Clone, Debug, PartialEq, Eq)]
pub struct Shape {
    pub sid: usize,
    pub cst: Option<Vec<u8>>,
    pub tys: Vec<Ty>,
}

impl Shape {
    /// Number of user seeds (constant prefix included).
    pub fn n_user(&self) -> usize {
        self.tys.len() + self.cst.is_some() as usize
    }
}

pub trait SeedStructT: GetSeeds + Clone + 'static {
    fn shape() -> Shape;
    fn from_vals(v: &[Val]) -> Option<Self>;
    fn to_vals(&self) -> Vec<Val>;
}

pub const TEST_CONST: &[u8] = b"TEST_CONST";
pub struct Cool;
impl Cool {
    pub const DISC: &'static [u8] = b"market";
}
pub const LONG_CONST: &[u8] = &[120u8; 33];

pub trait StructVisitor {
    type Out;
    fn visit<S: SeedStructT>(self) -> Self::Out;
}

macro_rules! seed_structs {
    ( $( $sid:literal $name:ident [$($cst:expr)?] { $($f:ident : $t:ty),* } )* ) => {
        $(
            #[derive(Debug, GetSeeds, Clone)]
            $( #[get_seeds(seed_const = $cst)] )?
            pub struct $name { $(pub $f: $t),* }

            impl SeedStructT for $name {
                fn shape() -> Shape {
                    #[allow(unused_mut, unused_assignments)]
                    let mut cst: Option<Vec<u8>> = None;
                    $( cst = Some(AsRef::<[u8]>::as_ref($cst).to_vec()); )?
                    Shape { sid: $sid, cst, tys: vec![$(<$t as FieldT>::ty()),*] }
                }
                #[allow(unused_mut, unused_variables)]
                fn from_vals(v: &[Val]) -> Option<Self> {
                    let mut it = v.iter();
                    let s = $name { $($f: <$t as FieldT>::from_val(it.next()?)?),* };
                    if it.next().is_some() { return None; }
                    Some(s)
                }
                fn to_vals(&self) -> Vec<Val> {
                    vec![$(self.$f.to_val()),*]
                }
            }
        )*

        /// Shapes of every derived struct, by sid.
        pub fn derived_shapes() -> Vec<Shape> {
            vec![$(<$name as SeedStructT>::shape()),*]
        }

        /// Calls the visitor with the struct type registered under `sid`.
        pub fn with_struct<V: StructVisitor>(sid: usize, v: V) -> Option<V::Out> {
            match sid {
                $( $sid => Some(v.visit::<$name>()), )*
                29 => Some(v.visit::<Pubkey>()),
                30 => Some(v.visit::<u64>()),
                _ => None,
            }
        }
    };
}

seed_structs! {
    0 UnitSeeds [] {}
    1 SingleKey [] { key: Pubkey }
    2 TwoKeys [] { key1: Pubkey, key2: Pubkey }
    3 KeyAndNumber [] { key: Pubkey, number: u64 }
    4 OnlyConstSeed [b"TEST_CONST"] {}
    5 OneKeyConstSeed [TEST_CONST] { key: Pubkey }
    6 OneU8 [] { a: u8 }
    7 OneU16 [] { a: u16 }
    8 OneU32 [] { a: u32 }
    9 OneU64 [] { a: u64 }
    10 OneU128 [] { a: u128 }
    11 OneI8 [] { a: i8 }
    12 OneI16 [] { a: i16 }
    13 OneI32 [] { a: i32 }
    14 OneI64 [] { a: i64 }
    15 OneI128 [] { a: i128 }
    16 EmptyArr [] { a: [u8; 0] }
    17 Arrs [] { a: [u8; 1], b: [u8; 32] }
    18 Mixed [b"p"] { a: u8, b: i16, c: u32, d: i64, e: u128, f: Pubkey, g: [u8; 7] }
    19 Market [Cool::DISC] { currency: Pubkey, market_token: Pubkey, index: u64, kind: u8 }
    20 TooLongArr [] { a: [u8; 33] }
    21 TooLongConst [LONG_CONST] { a: u8 }
    22 Fourteen [] { f0: u8, f1: u8, f2: u8, f3: u8, f4: u8, f5: u8, f6: u8,
                     f7: u16, f8: u16, f9: u16, f10: u16, f11: u16, f12: u16, f13: u16 }
    23 ThirteenConst [b"x"] { f0: u8, f1: i8, f2: u16, f3: i16, f4: u32, f5: i32, f6: u64, f7: i64,
                              f8: u128, f9: i128, f10: Pubkey, f11: [u8; 3], f12: u8 }
    24 Fifteen [] { f0: u8, f1: u8, f2: u8, f3: u8, f4: u8, f5: u8, f6: u8, f7: u8,
                    f8: u8, f9: u8, f10: u8, f11: u8, f12: u8, f13: u8, f14: u8 }
    25 FourteenConst [b"c"] { f0: u8, f1: u8, f2: u8, f3: u8, f4: u8, f5: u8, f6: u8,
                              f7: u16, f8: u16, f9: u16, f10: u16, f11: u16, f12: u16, f13: Pubkey }
    26 TwoU16 [] { a: u16, b: u16 }
    27 Sixteen [] { f0: u8, f1: u8, f2: u8, f3: u8, f4: u8, f5: u8, f6: u8, f7: u8,
                    f8: u8, f9: u8, f10: u8, f11: u8, f12: u8, f13: u8, f14: u8, f15: u8 }
    28 EmptyConst [b""] { a: u32 }
    31 TrailingEmptyArr [] { a: u8, b: [u8; 0] }
}

// sid 29 / 30: `Pubkey` and `u64` themselves are `GetSeeds` through the blanket
// `impl<T: Seed + Debug> GetSeeds for T` (`vec![self.seed(), &[]]`).
impl SeedStructT for Pubkey {
    fn shape() -> Shape {
        Shape { sid: 29, cst: None, tys: vec![Ty::Key] }
    }
    fn from_vals(v: &[Val]) -> Option<Self> {
        match v {
            [x] => <Pubkey as FieldT>::from_val(x),
            _ => None,
        }
    }
    fn to_vals(&self) -> Vec<Val> {
        vec![self.to_val()]
    }
}
impl SeedStructT for u64 {
    fn shape() -> Shape {
        Shape { sid: 30, cst: None, tys: vec![Ty::U(8)] }
    }
    fn from_vals(v: &[Val]) -> Option<Self> {
        match v {
            [x] => <u64 as FieldT>::from_val(x),
            _ => None,
        }
    }
    fn to_vals(&self) -> Vec<Val> {
        vec![self.to_val()]
    }
}

pub fn all_shapes() -> Vec<Shape> {
    let mut v = derived_shapes();
    v.push(<Pubkey as SeedStructT>::shape());
    v.push(<u64 as SeedStructT>::shape());
    v.sort_by_key(|s| s.sid);
    v
}
