//! hx-seeds: correspondence harness for C10 (seeded accounts / program derived addresses).
//!
//! `hx-seeds C10 --tier quick|thorough --seed N --out DIR [--replay FILE]`
//!
//! The harness is an interpreter of op lines (see `exec.rs`); the generator (`gen.rs`) emits op
//! lines, including the `h …` hash-oracle lines the Lean model needs, and runs them through the same
//! interpreter.
use hx_common::{Args, Recorder};
use star_frame::prelude::*;

pub mod exec;
pub mod gen;
pub mod structs;

#[derive(StarFrameProgram)]
#[program(instruction_set = (), id = Pubkey::new_from_array(exec::prog_bytes(0)), no_entrypoint)]
pub struct P0;

pub const RULE: &str = "a case is non-trivial when a validation on a fresh Seeded compared a derived address with the account key (accept or AddressMismatch) or took an error/panic path (create error, find panic, access before validation)";

/// Test knob (mutation experiments only, never set by bin/check): leave out the corpus and the seed
/// structs of the former known-finding class D10 (15 user seeds), to see what else a change affects.
pub fn exclude_d10() -> bool {
    std::env::var("HX_SEEDS_EXCLUDE_D10").map(|v| v == "1").unwrap_or(false)
}

pub fn run_case(rec: &mut Recorder, lines: &[String]) {
    let mut ex = exec::Exec::new();
    let mut it = lines.iter();
    let Some(head) = it.next() else { return };
    if head.starts_with("case") {
        rec.case(head);
    } else {
        rec.case("case replay");
        run_line(rec, &mut ex, head);
    }
    for l in it {
        run_line(rec, &mut ex, l);
    }
}

pub fn run_line(rec: &mut Recorder, ex: &mut exec::Exec, line: &str) -> String {
    let was_compared = ex.compared;
    let o = ex.step(line);
    rec.op(line, &o.answer);
    let op = line.split(' ').next().unwrap_or("");
    if op != "h" {
        let class = o.answer.split(' ').next().unwrap_or("");
        rec.bump(&format!("ans:{op}:{class}"));
    }
    if !ex.marked && ((ex.compared && !was_compared) || o.answer.starts_with("err:") || o.answer == "panic") {
        // once per case (the hash is over the case text so far)
        ex.marked = true;
        rec.mark_nontrivial();
    }
    for (class, detail) in &o.fails {
        rec.fail(class, detail);
    }
    o.answer
}

fn main() {
    let args = Args::parse();
    hx_common::quiet_panics();
    if args.prop == "corpus-d10" {
        // helper: write the D10 regression cases (used to create corpus/C10/*.replay)
        gen::write_d10_corpus(&args);
        return;
    }
    assert_eq!(args.prop, "C10", "hx-seeds serves C10");
    let mut rec = Recorder::new(RULE);
    if let Some(cases) = args.replay_cases() {
        for c in cases {
            run_case(&mut rec, &c);
        }
    } else {
        // 1. corpus
        let dir = std::env::var("VERIF_DIR").unwrap_or_else(|_| "/verif".into());
        let mut files: Vec<_> = std::fs::read_dir(format!("{dir}/corpus/C10"))
            .map(|d| d.filter_map(|e| e.ok()).map(|e| e.path()).filter(|p| p.extension().map(|x| x == "replay").unwrap_or(false)).collect())
            .unwrap_or_default();
        files.sort();
        if exclude_d10() {
            files.clear();
        }
        for f in files {
            let a = Args { replay: Some(f), ..args.clone() };
            for c in a.replay_cases().unwrap_or_default() {
                rec.bump("kind:corpus");
                run_case(&mut rec, &c);
            }
        }
        // 2. boundary enumeration, 3. PRNG-driven
        gen::generate(&mut rec, &args);
    }
    rec.finish(&args);
}
