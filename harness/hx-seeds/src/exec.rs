//! Interpreter of C10 op lines against the REAL code, plus the independent property oracle.
use crate::structs::*;
use hx_common::{catch, hex, unhex};
use hx_native::{AcctSpec, World};
use star_frame::{
    account_set::{
        modifiers::{CurrentProgram, HasOwnerProgram, HasSeeds, SeedProgram, SignedAccount},
        AccountSetDecode, AccountSetValidate,
    },
    client::FindProgramAddress,
    errors::{ErrorCode, StarFrameError},
    prelude::*,
};
use std::marker::PhantomData;

// ------------------------------------------------------------------------------------------------
// programs

pub const fn prog_bytes(k: usize) -> [u8; 32] {
    let mut b = [0u8; 32];
    let mut i = 0;
    while i < 32 {
        b[i] = ((k * 37 + i * 11 + 5) % 256) as u8;
        i += 1;
    }
    b
}

pub use crate::P0;
#[derive(StarFrameProgram)]
#[program(instruction_set = (), id = Pubkey::new_from_array(prog_bytes(1)), no_entrypoint, no_setup)]
pub struct P1;
#[derive(StarFrameProgram)]
#[program(instruction_set = (), id = Pubkey::new_from_array(prog_bytes(2)), no_entrypoint, no_setup)]
pub struct P2;

#[derive(Clone, Copy, Debug, PartialEq, Eq)]
pub enum Mode {
    Cur,
    Fixed(usize),
}

/// How the seed program of `Seeded<_, _, P>` is chosen.
pub trait ProgSel: 'static {
    type SP: SeedProgram + 'static;
    /// `signer_seeds()` exists only for `CurrentProgram`.
    fn signer<S: GetSeeds + Clone>(s: &Seeded<AccountInfo, S, Self::SP>) -> Option<Option<Vec<Vec<u8>>>>;
}
pub struct SelCur;
impl ProgSel for SelCur {
    type SP = CurrentProgram;
    fn signer<S: GetSeeds + Clone>(s: &Seeded<AccountInfo, S, CurrentProgram>) -> Option<Option<Vec<Vec<u8>>>> {
        Some(s.signer_seeds().map(|v| v.into_iter().map(|x| x.to_vec()).collect()))
    }
}
pub struct SelFixed<P>(PhantomData<P>);
impl<P: StarFrameProgram + 'static> ProgSel for SelFixed<P> {
    type SP = P;
    fn signer<S: GetSeeds + Clone>(_s: &Seeded<AccountInfo, S, P>) -> Option<Option<Vec<Vec<u8>>>> {
        None
    }
}

/// Client-side marker: `FindProgramAddress` is implemented for anything with seeds and an owner program.
pub struct ClientOf<S, P>(PhantomData<(S, P)>);
impl<S: GetSeeds, P> HasSeeds for ClientOf<S, P> {
    type Seeds = S;
}
impl<S, P: StarFrameProgram> HasOwnerProgram for ClientOf<S, P> {
    type OwnerProgram = P;
}

pub fn classify(e: Error) -> String {
    match ProgramError::from(e) {
        ProgramError::Custom(c) if c == ErrorCode::AddressMismatch.code() => "err:AddressMismatch".into(),
        ProgramError::Custom(c) => format!("err:Custom{c}"),
        pe => format!("err:{pe:?}"),
    }
}

// ------------------------------------------------------------------------------------------------
// the real objects of one case, type-erased over (seed struct, seed program)

pub trait CaseObj {
    fn set_vals(&mut self, vals: &[Val]) -> bool;
    fn seeds(&self) -> Option<Result<Vec<Vec<u8>>, String>>;
    fn new_account(&mut self, key: [u8; 32], ctx_prog: &'static Pubkey) -> bool;
    fn has_account(&self) -> bool;
    fn vseeds(&mut self) -> Option<String>;
    fn vbump(&mut self, b: u8) -> Option<String>;
    /// `Err` = panic
    fn access(&self) -> Option<Result<(Vec<Val>, u8), String>>;
    /// outer `None`: no account; middle `None`: not available in this mode
    fn signer(&self) -> Option<Option<Result<Vec<Vec<u8>>, String>>>;
    fn cfind(&self, k: usize) -> Option<Result<([u8; 32], u8), String>>;
    /// inner `Err` = error class
    fn ccreate(&self, k: usize, b: u8) -> Option<Result<Result<[u8; 32], String>, String>>;
}

pub struct Obj<S: SeedStructT, M: ProgSel> {
    vals: Option<S>,
    world: Option<World>,
    ctx: Option<Context>,
    seeded: Option<Seeded<AccountInfo, S, M::SP>>,
}

impl<S: SeedStructT, M: ProgSel> Obj<S, M> {
    pub fn new() -> Self {
        Obj { vals: None, world: None, ctx: None, seeded: None }
    }
}

impl<S: SeedStructT, M: ProgSel> CaseObj for Obj<S, M> {
    fn set_vals(&mut self, vals: &[Val]) -> bool {
        match S::from_vals(vals) {
            Some(s) => {
                self.vals = Some(s);
                true
            }
            None => false,
        }
    }
    fn seeds(&self) -> Option<Result<Vec<Vec<u8>>, String>> {
        let s = self.vals.as_ref()?;
        Some(catch(|| s.seeds().into_iter().map(|x| x.to_vec()).collect()))
    }
    fn new_account(&mut self, key: [u8; 32], ctx_prog: &'static Pubkey) -> bool {
        self.seeded = None;
        let owner = Pubkey::new_from_array([7; 32]);
        let world = World::new(&[AcctSpec::new(Pubkey::new_from_array(key), owner).lamports(1)]);
        let mut ctx = Context::new(ctx_prog);
        let decoded = {
            let mut rem: &[AccountInfo] = world.infos();
            <Seeded<AccountInfo, S, M::SP> as AccountSetDecode<()>>::decode_accounts(&mut rem, (), &mut ctx)
        };
        match decoded {
            Ok(sd) => {
                self.seeded = Some(sd);
                self.world = Some(world);
                self.ctx = Some(ctx);
                true
            }
            Err(_) => false,
        }
    }
    fn has_account(&self) -> bool {
        self.seeded.is_some()
    }
    fn vseeds(&mut self) -> Option<String> {
        let s = self.vals.clone()?;
        let sd = self.seeded.as_mut()?;
        let ctx = self.ctx.as_mut()?;
        Some(match catch(|| sd.validate_accounts(Seeds(s), ctx)) {
            Ok(Ok(())) => "ok".into(),
            Ok(Err(e)) => classify(e),
            Err(_) => "panic".into(),
        })
    }
    fn vbump(&mut self, b: u8) -> Option<String> {
        let s = self.vals.clone()?;
        let sd = self.seeded.as_mut()?;
        let ctx = self.ctx.as_mut()?;
        Some(match catch(|| sd.validate_accounts(SeedsWithBump { seeds: s, bump: b }, ctx)) {
            Ok(Ok(())) => "ok".into(),
            Ok(Err(e)) => classify(e),
            Err(_) => "panic".into(),
        })
    }
    fn access(&self) -> Option<Result<(Vec<Val>, u8), String>> {
        let sd = self.seeded.as_ref()?;
        Some(catch(|| {
            let r = sd.access_seeds();
            (r.seeds.to_vals(), r.bump)
        }))
    }
    fn signer(&self) -> Option<Option<Result<Vec<Vec<u8>>, String>>> {
        let sd = self.seeded.as_ref()?;
        match catch(|| M::signer(sd)) {
            Ok(None) => Some(None),
            Ok(Some(Some(v))) => Some(Some(Ok(v))),
            // `signer_seeds` never returns `None` for `Seeded`; keep it distinguishable
            Ok(Some(None)) => Some(Some(Err("none".into()))),
            Err(m) => Some(Some(Err(m))),
        }
    }
    fn cfind(&self, k: usize) -> Option<Result<([u8; 32], u8), String>> {
        let s = self.vals.as_ref()?;
        let r = match k {
            0 => catch(|| <ClientOf<S, P0> as FindProgramAddress>::find_program_address(s)),
            1 => catch(|| <ClientOf<S, P1> as FindProgramAddress>::find_program_address(s)),
            2 => catch(|| <ClientOf<S, P2> as FindProgramAddress>::find_program_address(s)),
            _ => return None,
        };
        Some(r.map(|(k, b)| (k.to_bytes(), b)))
    }
    fn ccreate(&self, k: usize, b: u8) -> Option<Result<Result<[u8; 32], String>, String>> {
        let s = self.vals.as_ref()?;
        let r = match k {
            0 => catch(|| <ClientOf<S, P0> as FindProgramAddress>::create_program_address(s, b)),
            1 => catch(|| <ClientOf<S, P1> as FindProgramAddress>::create_program_address(s, b)),
            2 => catch(|| <ClientOf<S, P2> as FindProgramAddress>::create_program_address(s, b)),
            _ => return None,
        };
        Some(r.map(|x| x.map(|k| k.to_bytes()).map_err(classify)))
    }
}

struct MakeObj(Mode);
impl StructVisitor for MakeObj {
    type Out = Option<Box<dyn CaseObj>>;
    fn visit<S: SeedStructT>(self) -> Self::Out {
        Some(match self.0 {
            Mode::Cur => Box::new(Obj::<S, SelCur>::new()),
            Mode::Fixed(0) => Box::new(Obj::<S, SelFixed<P0>>::new()),
            Mode::Fixed(1) => Box::new(Obj::<S, SelFixed<P1>>::new()),
            Mode::Fixed(2) => Box::new(Obj::<S, SelFixed<P2>>::new()),
            _ => return None,
        })
    }
}

// ------------------------------------------------------------------------------------------------
// independent oracle helpers (plain solana_pubkey on plainly concatenated seeds)

pub fn expected_seeds(shape: &Shape, vals: &[Val]) -> Vec<Vec<u8>> {
    let mut e = vec![];
    if let Some(c) = &shape.cst {
        e.push(c.clone());
    }
    for v in vals {
        e.push(v.le_bytes());
    }
    e
}

pub fn ref_create(seeds: &[Vec<u8>], p: &[u8; 32]) -> Result<[u8; 32], String> {
    let refs: Vec<&[u8]> = seeds.iter().map(|s| s.as_slice()).collect();
    star_frame::solana_pubkey::Pubkey::create_program_address(&refs, &Pubkey::new_from_array(*p))
        .map(|k| k.to_bytes())
        .map_err(|e| format!("err:{e:?}"))
}

pub fn ref_find(seeds: &[Vec<u8>], p: &[u8; 32]) -> Option<([u8; 32], u8)> {
    let refs: Vec<&[u8]> = seeds.iter().map(|s| s.as_slice()).collect();
    star_frame::solana_pubkey::Pubkey::try_find_program_address(&refs, &Pubkey::new_from_array(*p))
        .map(|(k, b)| (k.to_bytes(), b))
}

/// The real hash of a FLATTENED byte string (re-chunked into 32-byte seeds): `Some(None)` = on curve,
/// outer `None` = longer than the runtime could ever hash (more than 16 * 32 bytes).
pub fn hash_flat(flat: &[u8], p: &[u8; 32]) -> Option<Option<[u8; 32]>> {
    let chunks: Vec<Vec<u8>> = flat.chunks(32).map(|c| c.to_vec()).collect();
    if chunks.len() > 16 {
        return None;
    }
    match ref_create(&chunks, p) {
        Ok(k) => Some(Some(k)),
        Err(e) if e == "err:InvalidSeeds" => Some(None),
        Err(_) => None,
    }
}

pub fn limits_ok(seeds: &[Vec<u8>]) -> bool {
    seeds.len() <= 16 && seeds.iter().all(|s| s.len() <= 32)
}

pub fn show_seeds(ss: &[Vec<u8>]) -> String {
    if ss.is_empty() {
        return "-".into();
    }
    ss.iter().map(|s| hex(s)).collect::<Vec<_>>().join(",")
}

pub fn show_vals(vs: &[Val]) -> String {
    if vs.is_empty() {
        return "-".into();
    }
    vs.iter().map(|v| v.show()).collect::<Vec<_>>().join(",")
}


// ------------------------------------------------------------------------------------------------
// executor

pub struct Exec {
    shapes: Vec<Shape>,
    pub table: Vec<(Vec<u8>, [u8; 32], Option<[u8; 32]>)>,
    pub mode: Option<Mode>,
    pub ctx_prog: [u8; 32],
    pub shape: Option<Shape>,
    pub vals: Option<Vec<Val>>,
    obj: Option<Box<dyn CaseObj>>,
    pub key: Option<[u8; 32]>,
    /// oracle's view of what a correct `Seeded` has recorded
    pub exp_recorded: Option<(Vec<Val>, u8)>,
    /// branch flags for the coverage rule
    pub compared: bool,
    pub marked: bool,
}

pub struct StepOut {
    pub answer: String,
    pub fails: Vec<(String, String)>,
}

fn out(a: impl Into<String>) -> StepOut {
    StepOut { answer: a.into(), fails: vec![] }
}
fn bad() -> StepOut {
    out("bad-op")
}

fn parse_key(s: &str) -> Option<[u8; 32]> {
    unhex(s)?.try_into().ok()
}
fn parse_sel(s: &str) -> Option<usize> {
    match s {
        "p0" => Some(0),
        "p1" => Some(1),
        "p2" => Some(2),
        _ => None,
    }
}
fn parse_bump(s: &str) -> Option<u8> {
    let b: u8 = s.parse().ok()?;
    (b.to_string() == s).then_some(b)
}

impl Exec {
    pub fn new() -> Exec {
        Exec {
            shapes: all_shapes(),
            table: vec![],
            mode: None,
            ctx_prog: [0; 32],
            shape: None,
            vals: None,
            obj: None,
            key: None,
            exp_recorded: None,
            compared: false,
            marked: false,
        }
    }

    pub fn shapes(&self) -> &[Shape] {
        &self.shapes
    }

    fn lookup(&self, flat: &[u8], p: &[u8; 32]) -> Option<Option<[u8; 32]>> {
        self.table.iter().find(|e| e.0 == flat && &e.1 == p).map(|e| e.2)
    }

    /// The seed program id on-chain validation must use in the current mode.
    pub fn seed_prog(&self) -> Option<[u8; 32]> {
        match self.mode? {
            Mode::Cur => Some(self.ctx_prog),
            Mode::Fixed(k) => Some(prog_bytes(k)),
        }
    }

    fn e_seeds(&self) -> Option<Vec<Vec<u8>>> {
        Some(expected_seeds(self.shape.as_ref()?, self.vals.as_ref()?))
    }

    fn first_missing_create(&self, seeds: &[Vec<u8>], p: &[u8; 32]) -> Option<(Vec<u8>, [u8; 32])> {
        if !limits_ok(seeds) {
            return None;
        }
        let flat = seeds.concat();
        match self.lookup(&flat, p) {
            Some(_) => None,
            None => Some((flat, *p)),
        }
    }

    fn first_missing_find(&self, seeds: &[Vec<u8>], p: &[u8; 32]) -> Option<(Vec<u8>, [u8; 32])> {
        for b in (1..=255u8).rev() {
            let mut s = seeds.to_vec();
            s.push(vec![b]);
            if !limits_ok(&s) {
                return None;
            }
            let flat = s.concat();
            match self.lookup(&flat, p) {
                None => return Some((flat, *p)),
                Some(Some(_)) => return None,
                Some(None) => {}
            }
        }
        None
    }

    /// The seed list every path hands to the runtime next to the bump, as the MODEL sees it:
    /// `seeds()` (declared seeds + placeholder when the impl has one) with a trailing empty seed
    /// dropped (`without_bump_placeholder`; `seeds_with_bump` replaces the same slot).
    fn eff_seeds(&self, vals: &[Val]) -> Option<Vec<Vec<u8>>> {
        let shape = self.shape.as_ref()?;
        let mut e = expected_seeds(shape, vals);
        if shape.placeholder {
            e.push(vec![]);
        }
        if e.last().is_some_and(|l| l.is_empty()) {
            e.pop();
        }
        Some(e)
    }

    /// The first hash-oracle entry the model needs for this op that the table lacks (the op is
    /// answered `bad-op` while one is missing).
    pub fn first_missing(&self, toks: &[&str]) -> Option<(Vec<u8>, [u8; 32])> {
        let eff = self.eff_seeds(self.vals.as_ref()?)?;
        match toks {
            ["vseeds"] => {
                if self.exp_recorded.is_some() || self.key.is_none() {
                    return None;
                }
                self.first_missing_find(&eff, &self.seed_prog()?)
            }
            ["vbump", b] => {
                if self.exp_recorded.is_some() || self.key.is_none() {
                    return None;
                }
                let b = parse_bump(b)?;
                let mut s = eff;
                s.push(vec![b]);
                self.first_missing_create(&s, &self.seed_prog()?)
            }
            ["signer"] => {
                let (v, b) = self.exp_recorded.as_ref()?;
                let mut s = self.eff_seeds(v)?;
                s.push(vec![*b]);
                self.first_missing_create(&s, &self.seed_prog()?)
            }
            ["cfind", p] => self.first_missing_find(&eff, &prog_bytes(parse_sel(p)?)),
            ["ccreate", p, b] => {
                let b = parse_bump(b)?;
                let mut s = eff;
                s.push(vec![b]);
                self.first_missing_create(&s, &prog_bytes(parse_sel(p)?))
            }
            _ => None,
        }
    }

    fn rebuild_obj(&mut self) {
        self.obj = None;
        self.key = None;
        self.exp_recorded = None;
        if let (Some(shape), Some(mode)) = (&self.shape, self.mode) {
            self.obj = with_struct(shape.sid, MakeObj(mode)).flatten();
            if let (Some(o), Some(v)) = (self.obj.as_mut(), &self.vals) {
                o.set_vals(v);
            }
        }
    }

    /// After an oracle failure on a validation: adopt the implementation's recorded state.
    fn resync(&mut self) {
        self.exp_recorded = self.obj.as_ref().and_then(|o| o.access()).and_then(|r| r.ok());
    }

    pub fn step(&mut self, line: &str) -> StepOut {
        let toks: Vec<&str> = line.split(' ').filter(|t| !t.is_empty()).collect();
        match toks.as_slice() {
            ["h", flat, prog, "->", res] => {
                let (Some(f), Some(p)) = (unhex(flat), parse_key(prog)) else { return bad() };
                let r = if *res == "none" {
                    None
                } else {
                    match parse_key(res) {
                        Some(k) => Some(k),
                        None => return bad(),
                    }
                };
                // oracle lines are data for the model; refuse wrong ones instead of replaying nonsense
                if hash_flat(&f, &p) != Some(r) {
                    return bad();
                }
                self.table.push((f, p, r));
                out("ok")
            }
            ["prog", m, ctx] => {
                let Some(c) = parse_key(ctx) else { return bad() };
                let mode = if *m == "cur" {
                    Mode::Cur
                } else {
                    match parse_sel(m) {
                        Some(k) => Mode::Fixed(k),
                        None => return bad(),
                    }
                };
                self.mode = Some(mode);
                self.ctx_prog = c;
                self.rebuild_obj();
                out("ok")
            }
            ["struct", sid, c, tys] | ["struct", sid, c, tys, "noslot"] => {
                let placeholder = toks.len() == 4;
                let Ok(n) = sid.parse::<usize>() else { return bad() };
                if n.to_string() != *sid {
                    return bad();
                }
                let cst = if *c == "none" {
                    None
                } else {
                    match unhex(c) {
                        Some(b) => Some(b),
                        None => return bad(),
                    }
                };
                let tys: Option<Vec<Ty>> =
                    if *tys == "-" { Some(vec![]) } else { tys.split(',').map(Ty::parse).collect() };
                let Some(tys) = tys else { return bad() };
                let claimed = Shape { sid: n, cst, tys, placeholder };
                if !self.shapes.contains(&claimed) {
                    return bad();
                }
                self.shape = Some(claimed);
                self.vals = None;
                self.rebuild_obj();
                out("ok")
            }
            ["vals", vs @ ..] => {
                let Some(shape) = &self.shape else { return bad() };
                if vs.len() != shape.tys.len() {
                    return bad();
                }
                let parsed: Option<Vec<Val>> = shape.tys.iter().zip(vs.iter()).map(|(t, s)| Val::parse(t, s)).collect();
                let Some(parsed) = parsed else { return bad() };
                if let Some(o) = self.obj.as_mut() {
                    if !o.set_vals(&parsed) {
                        return out("err:harness-set-vals");
                    }
                }
                self.vals = Some(parsed);
                out("ok")
            }
            ["seeds"] => {
                let (Some(shape), Some(vals)) = (&self.shape, &self.vals) else { return bad() };
                // `seeds()` does not depend on the program: use any mode when none is set yet
                let mut tmp;
                let obj: &dyn CaseObj = match &self.obj {
                    Some(o) => o.as_ref(),
                    None => {
                        tmp = with_struct(shape.sid, MakeObj(Mode::Cur)).flatten().expect("registered");
                        tmp.set_vals(vals);
                        tmp.as_ref()
                    }
                };
                let mut e = expected_seeds(shape, vals);
                if shape.placeholder {
                    e.push(vec![]);
                }
                match obj.seeds() {
                    Some(Ok(ss)) => {
                        let mut o = out(format!("ok {}", show_seeds(&ss)));
                        if ss != e {
                            o.fails.push(("seeds_layout_wrong".into(), format!("seeds()={} expected={}", show_seeds(&ss), show_seeds(&e))));
                        }
                        o
                    }
                    Some(Err(_)) => {
                        let mut o = out("panic");
                        o.fails.push(("seeds_layout_wrong".into(), "seeds() panicked".into()));
                        o
                    }
                    None => bad(),
                }
            }
            ["key", k] => {
                let Some(kb) = parse_key(k) else { return bad() };
                if self.shape.is_none() || self.mode.is_none() {
                    return bad();
                }
                let Some(o) = self.obj.as_mut() else { return bad() };
                let leaked: &'static Pubkey = Box::leak(Box::new(Pubkey::new_from_array(self.ctx_prog)));
                if !o.new_account(kb, leaked) {
                    return out("err:harness-decode");
                }
                self.key = Some(kb);
                self.exp_recorded = None;
                out("ok")
            }
            ["vseeds"] => {
                let (Some(key), Some(_), Some(p)) = (self.key, &self.vals, self.seed_prog()) else { return bad() };
                if self.first_missing(&toks).is_some() {
                    return bad();
                }
                let e = self.e_seeds().unwrap();
                let Some(ans) = self.obj.as_mut().and_then(|o| o.vseeds()) else { return bad() };
                let mut o = out(ans.clone());
                // oracle: accept iff already validated, or the key is the canonical PDA of the plain seeds
                let expect_ok = if self.exp_recorded.is_some() {
                    true
                } else {
                    self.compared = true;
                    match ref_find(&e, &p) {
                        Some((k, b)) if k == key => {
                            self.exp_recorded = Some((self.vals.clone().unwrap(), b));
                            true
                        }
                        _ => false,
                    }
                };
                if expect_ok != (ans == "ok") {
                    let class = "seeds_validation_wrong";
                    o.fails.push((class.into(), format!("vseeds answered {ans}, canonical-address oracle expects accept={expect_ok}")));
                    // continue from what the implementation actually did (no cascading reports)
                    self.resync();
                }
                o
            }
            ["vbump", b] => {
                let Some(bump) = parse_bump(b) else { return bad() };
                let (Some(key), Some(_), Some(p)) = (self.key, &self.vals, self.seed_prog()) else { return bad() };
                if self.first_missing(&toks).is_some() {
                    return bad();
                }
                let mut e = self.e_seeds().unwrap();
                let Some(ans) = self.obj.as_mut().and_then(|o| o.vbump(bump)) else { return bad() };
                let mut o = out(ans.clone());
                let expect_ok = if self.exp_recorded.is_some() {
                    true
                } else {
                    self.compared = true;
                    e.push(vec![bump]);
                    match ref_create(&e, &p) {
                        Ok(k) if k == key => {
                            self.exp_recorded = Some((self.vals.clone().unwrap(), bump));
                            true
                        }
                        _ => false,
                    }
                };
                if expect_ok != (ans == "ok") {
                    o.fails.push(("bump_validation_wrong".into(), format!("vbump {bump} answered {ans}, create-address oracle expects accept={expect_ok}")));
                    self.resync();
                }
                o
            }
            ["access"] => {
                let Some(r) = self.obj.as_ref().and_then(|o| o.access()) else { return bad() };
                match r {
                    Ok((vals, bump)) => {
                        let mut o = out(format!("ok bump={} vals={}", bump, show_vals(&vals)));
                        if self.exp_recorded != Some((vals, bump)) {
                            o.fails.push(("recorded_seeds_wrong".into(), format!("access_seeds() = {} but the oracle expects {:?}", o.answer, self.exp_recorded.as_ref().map(|(v, b)| (show_vals(v), *b)))));
                        }
                        o
                    }
                    Err(_) => {
                        let mut o = out("panic");
                        if self.exp_recorded.is_some() {
                            o.fails.push(("recorded_seeds_wrong".into(), "access_seeds() panicked although validation must have succeeded".into()));
                        }
                        o
                    }
                }
            }
            ["signer"] => {
                if self.mode != Some(Mode::Cur) {
                    return bad();
                }
                if self.first_missing(&toks).is_some() {
                    return bad();
                }
                let Some(Some(r)) = self.obj.as_ref().and_then(|o| o.signer()) else { return bad() };
                match r {
                    Ok(ss) => {
                        // the signer seeds must recreate the account key under the seed program;
                        // printed as the hashed bytes and the address they recreate
                        let p = self.seed_prog().unwrap();
                        let recreated = ref_create(&ss, &p);
                        let mut o = out(format!("ok {} -> {}", hex(&ss.concat()), match &recreated {
                            Ok(k) => hex(k),
                            Err(c) => c.clone(),
                        }));
                        if recreated.as_ref().ok() != self.key.as_ref() {
                            o.fails.push(("signer_seeds_wrong".into(), format!("create_program_address(signer_seeds) = {:?}, account key {}", recreated.map(|k| hex(&k)), hex(&self.key.unwrap_or([0; 32])))));
                        }
                        if let (Some((v, b)), Some(shape)) = (&self.exp_recorded, &self.shape) {
                            let mut e = expected_seeds(shape, v);
                            e.push(vec![*b]);
                            if e.concat() != ss.concat() {
                                o.fails.push(("signer_seeds_wrong".into(), "signer seeds do not concatenate to the expected seeds + bump".into()));
                            }
                        }
                        o
                    }
                    Err(_) => {
                        let mut o = out("panic");
                        if self.exp_recorded.is_some() {
                            o.fails.push(("signer_seeds_wrong".into(), "signer_seeds() panicked although validation must have succeeded".into()));
                        }
                        o
                    }
                }
            }
            ["cfind", p] => {
                let Some(k) = parse_sel(p) else { return bad() };
                let (Some(shape), Some(_)) = (&self.shape, &self.vals) else { return bad() };
                if self.first_missing(&toks).is_some() {
                    return bad();
                }
                let e = self.e_seeds().unwrap();
                // client helpers do not depend on the validation mode: use any object of this struct
                let mut tmp;
                let obj: &dyn CaseObj = match &self.obj {
                    Some(o) => o.as_ref(),
                    None => {
                        tmp = with_struct(shape.sid, MakeObj(Mode::Cur)).flatten().expect("registered");
                        tmp.set_vals(self.vals.as_ref().unwrap());
                        tmp.as_ref()
                    }
                };
                let Some(r) = obj.cfind(k) else { return bad() };
                let expect = ref_find(&e, &prog_bytes(k));
                let mut o = match &r {
                    Ok((a, b)) => out(format!("ok {} {}", hex(a), b)),
                    Err(_) => out("panic"),
                };
                if r.ok() != expect {
                    let class = "client_find_wrong";
                    o.fails.push((class.into(), format!("client find_program_address answered {}, plain find gives {:?}", o.answer, expect.map(|(a, b)| (hex(&a), b)))));
                }
                o
            }
            ["ccreate", p, b] => {
                let (Some(k), Some(bump)) = (parse_sel(p), parse_bump(b)) else { return bad() };
                let (Some(shape), Some(_)) = (&self.shape, &self.vals) else { return bad() };
                if self.first_missing(&toks).is_some() {
                    return bad();
                }
                let mut e = self.e_seeds().unwrap();
                e.push(vec![bump]);
                let mut tmp;
                let obj: &dyn CaseObj = match &self.obj {
                    Some(o) => o.as_ref(),
                    None => {
                        tmp = with_struct(shape.sid, MakeObj(Mode::Cur)).flatten().expect("registered");
                        tmp.set_vals(self.vals.as_ref().unwrap());
                        tmp.as_ref()
                    }
                };
                let Some(r) = obj.ccreate(k, bump) else { return bad() };
                let expect = ref_create(&e, &prog_bytes(k));
                let (mut o, got) = match r {
                    Ok(Ok(a)) => (out(format!("ok {}", hex(&a))), Ok(a)),
                    Ok(Err(c)) => (out(c.clone()), Err(c)),
                    Err(_) => (out("panic"), Err("panic".into())),
                };
                if got != expect {
                    let class = "client_create_wrong";
                    o.fails.push((class.into(), format!("client create_program_address answered {}, plain create gives {:?}", o.answer, expect.map(|a| hex(&a)))));
                }
                o
            }
            _ => bad(),
        }
    }
}
