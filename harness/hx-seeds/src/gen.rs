//! Case generator for C10. Emits op lines and runs them through the interpreter as it goes, so that
//! the `h …` hash-oracle lines the model needs can be computed from the interpreter's oracle state.
use crate::{
    exec::{expected_seeds, hash_flat, prog_bytes, ref_create, ref_find, Exec, Mode},
    run_line,
    structs::{Shape, Ty, Val},
};
use hx_common::{hex, Args, Recorder, Rng};

pub struct Gen<'a> {
    rec: &'a mut Recorder,
    ex: Exec,
    rng: Rng,
    shapes: Vec<Shape>,
    n: u64,
}

fn tys_str(s: &Shape) -> String {
    if s.tys.is_empty() {
        "-".into()
    } else {
        s.tys.iter().map(|t| t.name()).collect::<Vec<_>>().join(",")
    }
}

pub fn struct_line(s: &Shape) -> String {
    format!(
        "struct {} {} {}{}",
        s.sid,
        s.cst.as_ref().map(|c| hex(c)).unwrap_or_else(|| "none".into()),
        tys_str(s),
        if s.placeholder { "" } else { " noslot" }
    )
}

pub fn vals_line(v: &[Val]) -> String {
    let mut l = "vals".to_string();
    for x in v {
        l.push(' ');
        l.push_str(&x.show());
    }
    l
}

fn mask(w: usize) -> u128 {
    if w >= 16 {
        u128::MAX
    } else {
        (1u128 << (8 * w)) - 1
    }
}

fn rand_u128(rng: &mut Rng) -> u128 {
    ((rng.next() as u128) << 64) | rng.next() as u128
}

pub fn gen_val(rng: &mut Rng, ty: &Ty) -> Val {
    match ty {
        Ty::U(w) => {
            let m = mask(*w);
            let v = match rng.below(8) {
                0 => 0,
                1 => 1,
                2 => m,
                3 => 255 & m,
                4 => 256 & m,
                5 => 0x0102_0304_0506_0708_090a_0b0c_0d0e_0f10u128 & m,
                _ => rand_u128(rng) & m,
            };
            Val::U(*w, v)
        }
        Ty::I(w) => {
            let bits = 8 * *w as u32;
            let (min, max) = if *w >= 16 { (i128::MIN, i128::MAX) } else { (-(1i128 << (bits - 1)), (1i128 << (bits - 1)) - 1) };
            let v = match rng.below(8) {
                0 => 0,
                1 => -1,
                2 => 1,
                3 => min,
                4 => max,
                5 => -2,
                _ => {
                    let r = rand_u128(rng) & mask(*w);
                    // sign-extend from `bits`
                    if *w >= 16 {
                        r as i128
                    } else if r >> (bits - 1) & 1 == 1 {
                        (r as i128) - (1i128 << bits)
                    } else {
                        r as i128
                    }
                }
            };
            Val::I(*w, v)
        }
        Ty::Key => {
            let k: [u8; 32] = match rng.below(10) {
                0 => [0; 32],
                1 => prog_bytes(rng.below(3) as usize),
                _ => rng.bytes(32).try_into().unwrap(),
            };
            Val::Key(k)
        }
        Ty::Arr(n) => Val::Arr(rng.bytes(*n)),
        Ty::Bool => Val::Bool(rng.chance(1, 2)),
        Ty::Nested(ts) => Val::Nested(ts.iter().map(|t| gen_val(rng, t)).collect()),
    }
}

fn be_bytes(v: &Val) -> Vec<u8> {
    if let Val::Nested(vs) = v {
        return vs.iter().flat_map(be_bytes).collect();
    }
    let mut b = v.le_bytes();
    if matches!(v, Val::U(..) | Val::I(..)) {
        b.reverse();
    }
    b
}

/// Values of `shape` (all-array fields) whose concatenation is `flat`.
fn split_into(shape: &Shape, flat: &[u8]) -> Vec<Val> {
    let mut off = 0;
    shape
        .tys
        .iter()
        .map(|t| match t {
            Ty::Arr(n) => {
                let v = Val::Arr(flat[off..off + n].to_vec());
                off += n;
                v
            }
            Ty::Key => {
                let v = Val::Key(flat[off..off + 32].try_into().unwrap());
                off += 32;
                v
            }
            _ => unreachable!("resplit groups only hold byte-array / key fields"),
        })
        .collect()
}

impl<'a> Gen<'a> {
    fn begin(&mut self, kind: &str, detail: &str) {
        self.ex = Exec::new();
        self.rec.case(&format!("case {} {} {}", self.n, kind, detail));
        self.rec.bump(&format!("kind:{kind}"));
        self.n += 1;
    }

    /// Emit one op line, preceded by the hash-oracle lines the model will need for it.
    fn emit(&mut self, line: &str) -> String {
        let toks: Vec<&str> = line.split(' ').filter(|t| !t.is_empty()).collect();
        let mut guard = 0;
        while let Some((flat, p)) = self.ex.first_missing(&toks) {
            let Some(r) = hash_flat(&flat, &p) else { break };
            let l = format!("h {} {} -> {}", hex(&flat), hex(&p), r.map(|k| hex(&k)).unwrap_or_else(|| "none".into()));
            run_line(self.rec, &mut self.ex, &l);
            guard += 1;
            if guard > 300 {
                break;
            }
        }
        run_line(self.rec, &mut self.ex, line)
    }

    fn rand_key(&mut self) -> [u8; 32] {
        self.rng.bytes(32).try_into().unwrap()
    }

    fn pick_mode(&mut self) -> (Mode, [u8; 32]) {
        match self.rng.below(10) {
            0..=3 => (Mode::Cur, prog_bytes(self.rng.below(3) as usize)),
            4..=5 => (Mode::Cur, self.rand_key()),
            _ => (Mode::Fixed(self.rng.below(3) as usize), self.rand_key()),
        }
    }

    fn setup(&mut self, shape: &Shape, mode: Mode, ctx: [u8; 32]) -> Vec<Val> {
        let m = match mode {
            Mode::Cur => "cur".to_string(),
            Mode::Fixed(k) => format!("p{k}"),
        };
        self.emit(&format!("prog {m} {}", hex(&ctx)));
        self.emit(&struct_line(shape));
        self.rec.bump(&format!("struct:{:02}", shape.sid));
        self.rec.bump(&format!("mode:{m}"));
        self.new_vals(shape)
    }

    fn new_vals(&mut self, shape: &Shape) -> Vec<Val> {
        let vals: Vec<Val> = shape.tys.iter().map(|t| gen_val(&mut self.rng, t)).collect();
        self.emit(&vals_line(&vals));
        vals
    }

    fn seed_prog(mode: Mode, ctx: [u8; 32]) -> [u8; 32] {
        match mode {
            Mode::Cur => ctx,
            Mode::Fixed(k) => prog_bytes(k),
        }
    }

    /// The client program selector that agrees with the on-chain seed program, when there is one.
    fn client_sel(&mut self, p: &[u8; 32]) -> usize {
        (0..3).find(|k| &prog_bytes(*k) == p).unwrap_or_else(|| self.rng.below(3) as usize)
    }

    /// Keys a buggy implementation would derive, and other near misses.
    fn wrong_key(&mut self, shape: &Shape, vals: &[Val], p: &[u8; 32]) -> (String, [u8; 32]) {
        let e = expected_seeds(shape, vals);
        let canon = ref_find(&e, p);
        let mut force_first_empty = e.iter().any(|s| s.is_empty()) && self.rng.chance(1, 2);
        for _ in 0..6 {
            let choice = if force_first_empty { 10 } else { self.rng.below(12) };
            force_first_empty = false;
            let (name, key): (&str, Option<[u8; 32]>) = match choice {
                10 | 11 => {
                    // what an implementation that puts the bump into the FIRST empty component
                    // (instead of the last slot) would derive
                    let k = canon.and_then(|(_, cb)| {
                        let i = e.iter().position(|s| s.is_empty())?;
                        let mut f = e.clone();
                        f[i] = vec![cb];
                        ref_create(&f, p).ok()
                    });
                    ("bump-at-first-empty", k)
                }
                9 => {
                    // the right address with a single bit flipped (sloppy comparisons)
                    let k = canon.map(|(mut k, _)| {
                        let i = self.rng.below(32) as usize;
                        k[i] ^= 1 << self.rng.below(8);
                        k
                    });
                    ("bitflip", k)
                }
                0 if e.len() >= 2 => {
                    let i = self.rng.below(e.len() as u64) as usize;
                    let j = (i + 1 + self.rng.below(e.len() as u64 - 1) as usize) % e.len();
                    let mut f = e.clone();
                    f.swap(i, j);
                    ("permuted", (f != e).then(|| ref_find(&f, p)).flatten().map(|x| x.0))
                }
                1 => {
                    let idx: Vec<usize> = (0..e.len()).filter(|i| !e[*i].is_empty()).collect();
                    if idx.is_empty() {
                        ("perturbed", None)
                    } else {
                        let i = *self.rng.pick(&idx);
                        let mut f = e.clone();
                        let j = self.rng.below(f[i].len() as u64) as usize;
                        f[i][j] ^= 1 << self.rng.below(8);
                        ("perturbed", ref_find(&f, p).map(|x| x.0))
                    }
                }
                2 => {
                    let k = canon.and_then(|(_, cb)| {
                        (1..cb).rev().find_map(|b| {
                            let mut f = e.clone();
                            f.push(vec![b]);
                            ref_create(&f, p).ok()
                        })
                    });
                    ("other-bump", k)
                }
                3 => ("random", Some(self.rand_key())),
                4 => {
                    let mut q = prog_bytes(self.rng.below(3) as usize);
                    if &q == p {
                        q = self.rand_key();
                    }
                    ("other-program", ref_find(&e, &q).map(|x| x.0))
                }
                5 => {
                    let f: Vec<Vec<u8>> = if shape.cst.is_some() { e[1..].to_vec() } else { [vec![b"TEST_CONST".to_vec()], e.clone()].concat() };
                    ("prefix-toggled", ref_find(&f, p).map(|x| x.0))
                }
                6 => {
                    let mut f: Vec<Vec<u8>> = shape.cst.iter().cloned().collect();
                    f.extend(vals.iter().map(be_bytes));
                    ("big-endian", (f != e).then(|| ref_find(&f, p)).flatten().map(|x| x.0))
                }
                7 if e.len() >= 2 => {
                    let mut f = e.clone();
                    f.reverse();
                    ("reversed", (f != e).then(|| ref_find(&f, p)).flatten().map(|x| x.0))
                }
                _ => {
                    // the hash without the bump: what `create` on the bare seeds would give
                    ("no-bump", ref_create(&e, p).ok())
                }
            };
            if let Some(k) = key {
                if Some(k) != canon.map(|c| c.0) {
                    return (name.to_string(), k);
                }
            }
        }
        ("random".into(), self.rand_key())
    }

    fn post_ok_ops(&mut self, mode: Mode, sel: usize, bump: u8) {
        self.emit("access");
        if mode == Mode::Cur || self.rng.chance(1, 8) {
            self.emit("signer");
        }
        self.emit(&format!("cfind p{sel}"));
        self.emit(&format!("ccreate p{sel} {bump}"));
    }

    fn case_agree(&mut self, shape: &Shape, mode: Mode, ctx: [u8; 32]) {
        self.begin("agree", &format!("s{}", shape.sid));
        let vals = self.setup(shape, mode, ctx);
        self.emit("seeds");
        let p = Self::seed_prog(mode, ctx);
        let e = expected_seeds(shape, &vals);
        let canon = ref_find(&e, &p);
        let key = canon.map(|c| c.0).unwrap_or_else(|| self.rand_key());
        self.emit(&format!("key {}", hex(&key)));
        self.emit("vseeds");
        let sel = self.client_sel(&p);
        self.post_ok_ops(mode, sel, canon.map(|c| c.1).unwrap_or(255));
        self.rec.sample_current(2);
    }

    fn case_bump(&mut self, shape: &Shape, mode: Mode, ctx: [u8; 32]) {
        self.begin("bump", &format!("s{}", shape.sid));
        let vals = self.setup(shape, mode, ctx);
        let p = Self::seed_prog(mode, ctx);
        let e = expected_seeds(shape, &vals);
        let canon = ref_find(&e, &p);
        let with = |b: u8| {
            let mut f = e.clone();
            f.push(vec![b]);
            ref_create(&f, &p)
        };
        let cat = self.rng.below(6);
        let bump: u8 = match cat {
            0 | 1 => canon.map(|c| c.1).unwrap_or(255),
            2 => canon.and_then(|c| (0..c.1).rev().find(|b| with(*b).is_ok())).unwrap_or(0),
            3 => (0..=255u8).rev().find(|b| with(*b).is_err()).unwrap_or(0),
            4 => 0,
            _ => self.rng.below(256) as u8,
        };
        self.rec.bump(&format!("bumpcat:{cat}"));
        let key = match with(bump) {
            Ok(k) if !self.rng.chance(1, 6) => k,
            _ => canon.map(|c| c.0).unwrap_or_else(|| self.rand_key()),
        };
        self.emit(&format!("key {}", hex(&key)));
        self.emit(&format!("vbump {bump}"));
        let sel = self.client_sel(&p);
        self.post_ok_ops(mode, sel, bump);
        if self.rng.chance(1, 3) {
            self.emit("vseeds");
        }
    }

    fn case_wrong(&mut self, shape: &Shape, mode: Mode, ctx: [u8; 32]) {
        let vals_probe: Vec<Val>;
        self.begin("wrong", &format!("s{}", shape.sid));
        vals_probe = self.setup(shape, mode, ctx);
        let p = Self::seed_prog(mode, ctx);
        let (name, key) = self.wrong_key(shape, &vals_probe, &p);
        self.rec.bump(&format!("wrong:{name}"));
        self.emit(&format!("key {}", hex(&key)));
        self.emit("vseeds");
        self.emit("access");
        let e = expected_seeds(shape, &vals_probe);
        let canon = ref_find(&e, &p);
        if let Some((ck, cb)) = canon {
            if name == "bump-at-first-empty" || self.rng.chance(1, 2) {
                self.emit(&format!("vbump {cb}"));
            }
            if self.rng.chance(1, 2) {
                self.emit(&format!("key {}", hex(&ck)));
                self.emit("vseeds");
                let sel = self.client_sel(&p);
                self.post_ok_ops(mode, sel, cb);
            }
        }
        self.rec.sample_current(4);
    }

    fn case_sticky(&mut self, shape: &Shape, mode: Mode, ctx: [u8; 32]) {
        self.begin("sticky", &format!("s{}", shape.sid));
        let vals = self.setup(shape, mode, ctx);
        let p = Self::seed_prog(mode, ctx);
        let e = expected_seeds(shape, &vals);
        let canon = ref_find(&e, &p);
        let key = canon.map(|c| c.0).unwrap_or_else(|| self.rand_key());
        self.emit(&format!("key {}", hex(&key)));
        if self.rng.chance(1, 2) {
            self.emit("vseeds");
        } else {
            self.emit(&format!("vbump {}", canon.map(|c| c.1).unwrap_or(255)));
        }
        // other values, other bump: an already validated Seeded answers Ok without looking
        self.new_vals(shape);
        self.emit("vseeds");
        let rb = self.rng.below(256);
        self.emit(&format!("vbump {rb}"));
        self.emit("access");
        self.emit("signer");
        // a fresh Seeded over the same account does look
        self.emit(&format!("key {}", hex(&key)));
        self.emit("vseeds");
        self.emit("access");
        self.rec.sample_current(5);
    }

    /// Histories on ONE `Seeded` value: failed validations (wrong seeds for this account) followed
    /// by the right ones, then more calls after the success.
    fn case_retry(&mut self, shape: &Shape, mode: Mode, ctx: [u8; 32]) {
        self.begin("retry", &format!("s{}", shape.sid));
        let right = self.setup(shape, mode, ctx);
        let p = Self::seed_prog(mode, ctx);
        let e = expected_seeds(shape, &right);
        let canon = ref_find(&e, &p);
        let key = canon.map(|c| c.0).unwrap_or_else(|| self.rand_key());
        self.emit(&format!("key {}", hex(&key)));
        // 1..3 failing calls with other values / wrong bumps
        for _ in 0..self.rng.range(1, 3) {
            match self.rng.below(3) {
                0 => {
                    self.new_vals(shape);
                    self.emit("vseeds");
                }
                1 => {
                    self.new_vals(shape);
                    let b = canon.map(|c| c.1).unwrap_or(255);
                    self.emit(&format!("vbump {b}"));
                }
                _ => {
                    // right values, wrong bump
                    self.emit(&vals_line(&right));
                    let b = canon.map(|c| c.1.wrapping_sub(1 + self.rng.below(5) as u8)).unwrap_or(7);
                    self.emit(&format!("vbump {b}"));
                }
            }
            self.emit("access");
            if self.rng.chance(1, 3) {
                self.emit("signer");
            }
        }
        // the right call on the same value
        self.emit(&vals_line(&right));
        if self.rng.chance(2, 3) {
            self.emit("vseeds");
        } else {
            self.emit(&format!("vbump {}", canon.map(|c| c.1).unwrap_or(255)));
        }
        self.emit("access");
        self.emit("signer");
        // calls after the success: other values, other bump
        self.new_vals(shape);
        self.emit("vseeds");
        let rb = self.rng.below(256);
        self.emit(&format!("vbump {rb}"));
        self.emit("access");
        self.emit("signer");
        self.rec.sample_current(6);
    }

    /// The same concatenated bytes split differently over the fields of two structs derive the same
    /// address; the second validation needs no new hash-oracle entries.
    fn case_resplit(&mut self, mode: Mode, ctx: [u8; 32]) {
        let group = *self.rng.pick(crate::structs::RESPLIT_GROUPS);
        let i = self.rng.below(group.len() as u64) as usize;
        let j = (i + 1 + self.rng.below(group.len() as u64 - 1) as usize) % group.len();
        let sa = self.shapes.iter().find(|s| s.sid == group[i]).unwrap().clone();
        let sb = self.shapes.iter().find(|s| s.sid == group[j]).unwrap().clone();
        self.begin("resplit", &format!("s{}-s{}", sa.sid, sb.sid));
        let total: usize = sa.tys.iter().map(|t| match t { Ty::Arr(n) => *n, Ty::Key => 32, _ => 0 }).sum();
        let flat = self.rng.bytes(total);
        let m = match mode {
            Mode::Cur => "cur".to_string(),
            Mode::Fixed(k) => format!("p{k}"),
        };
        let p = Self::seed_prog(mode, ctx);
        self.emit(&format!("prog {m} {}", hex(&ctx)));
        self.emit(&struct_line(&sa));
        self.rec.bump(&format!("struct:{:02}", sa.sid));
        let va = split_into(&sa, &flat);
        self.emit(&vals_line(&va));
        self.emit("seeds");
        let canon = ref_find(&expected_seeds(&sa, &va), &p);
        let key = canon.map(|c| c.0).unwrap_or_else(|| self.rand_key());
        self.emit(&format!("key {}", hex(&key)));
        self.emit("vseeds");
        self.emit("access");
        // other split, same account key
        self.emit(&struct_line(&sb));
        self.rec.bump(&format!("struct:{:02}", sb.sid));
        let vb = split_into(&sb, &flat);
        self.emit(&vals_line(&vb));
        self.emit("seeds");
        self.emit(&format!("key {}", hex(&key)));
        if self.rng.chance(1, 2) {
            self.emit("vseeds");
        } else {
            self.emit(&format!("vbump {}", canon.map(|c| c.1).unwrap_or(255)));
        }
        let sel = self.client_sel(&p);
        self.post_ok_ops(mode, sel, canon.map(|c| c.1).unwrap_or(255));
        self.rec.sample_current(7);
    }

    fn case_noise(&mut self, shape: &Shape, mode: Mode, ctx: [u8; 32]) {
        self.begin("noise", &format!("s{}", shape.sid));
        // ops before setup, malformed lines, then a random walk
        let pool = ["vseeds", "access", "signer", "seeds", "cfind p0", "ccreate p1 255", "vbump 3", "vbump 256", "vals 1 2", "vals", "key 00", "struct 99 none -", "struct 6 none u16", "prog p3 00", "frobnicate", "cfind p9", "h 00 00 -> none"];
        for _ in 0..self.rng.range(1, 3) {
            let l = *self.rng.pick(&pool);
            self.emit(l);
        }
        let vals = self.setup(shape, mode, ctx);
        let p = Self::seed_prog(mode, ctx);
        let e = expected_seeds(shape, &vals);
        let canon = ref_find(&e, &p);
        for _ in 0..self.rng.range(3, 9) {
            match self.rng.below(10) {
                0 => {
                    let k = canon.map(|c| c.0).unwrap_or_else(|| self.rand_key());
                    self.emit(&format!("key {}", hex(&k)));
                }
                1 => {
                    let (_, k) = self.wrong_key(shape, &vals, &p);
                    self.emit(&format!("key {}", hex(&k)));
                }
                2 => {
                    self.emit("vseeds");
                }
                3 => {
                    let b = if self.rng.chance(1, 2) { canon.map(|c| c.1).unwrap_or(255) } else { self.rng.below(256) as u8 };
                    self.emit(&format!("vbump {b}"));
                }
                4 => {
                    self.emit("access");
                }
                5 => {
                    self.emit("signer");
                }
                6 => {
                    let k = self.rng.below(3);
                    self.emit(&format!("cfind p{k}"));
                }
                7 => {
                    let k = self.rng.below(3);
                    let b = self.rng.below(256);
                    self.emit(&format!("ccreate p{k} {b}"));
                }
                8 => {
                    self.emit("seeds");
                }
                _ => {
                    let l = *self.rng.pick(&pool);
                    self.emit(l);
                }
            }
        }
    }
}

pub fn generate(rec: &mut Recorder, args: &Args) {
    let ex = Exec::new();
    let mut shapes = ex.shapes().to_vec();
    if crate::exclude_d10() {
        shapes.retain(|s| !(s.n_user() + 2 > 16 && s.n_user() + 1 <= 16));
    }
    let mut g = Gen { rec, ex, rng: Rng::new(args.seed), shapes: shapes.clone(), n: 0 };
    // boundary enumeration: every struct under the current-program and a fixed-program mode
    for s in &shapes {
        g.case_agree(s, Mode::Cur, prog_bytes(0));
        g.case_agree(s, Mode::Fixed(1), [9; 32]);
        g.case_wrong(s, Mode::Cur, prog_bytes(2));
        g.case_bump(s, Mode::Fixed(2), [3; 32]);
        g.case_retry(s, Mode::Cur, prog_bytes(1));
    }
    for _ in 0..8 {
        g.case_resplit(Mode::Cur, prog_bytes(0));
        g.case_resplit(Mode::Fixed(1), [5; 32]);
    }
    let n = if args.thorough() { 100_000 } else { 2_000 };
    for _ in 0..n {
        let s = g.shapes[g.rng.below(g.shapes.len() as u64) as usize].clone();
        let (mode, ctx) = g.pick_mode();
        match g.rng.below(24) {
            0..=6 => g.case_agree(&s, mode, ctx),
            7..=10 => g.case_bump(&s, mode, ctx),
            11..=16 => g.case_wrong(&s, mode, ctx),
            17..=18 => g.case_sticky(&s, mode, ctx),
            19..=21 => g.case_retry(&s, mode, ctx),
            22 => g.case_resplit(mode, ctx),
            _ => g.case_noise(&s, mode, ctx),
        }
    }
}

/// Regression cases for the repaired defect D10 (repo commit 801ca3a): structs with 15 user seeds
/// must derive on every path. Written to `<out>/ops.txt` (copied into corpus/C10 with a header).
pub fn write_d10_corpus(args: &Args) {
    let mut rec = Recorder::new(crate::RULE);
    {
        let ex = Exec::new();
        let shapes = ex.shapes().to_vec();
        let mut g = Gen { rec: &mut rec, ex, rng: Rng::new(1), shapes: shapes.clone(), n: 0 };
        let shape = shapes.iter().find(|s| s.sid == 24).unwrap().clone();
        let vals: Vec<Val> = (0..15).map(|i| Val::U(1, i)).collect();
        for (mode, ctx) in [(Mode::Fixed(0), [9u8; 32]), (Mode::Cur, prog_bytes(0))] {
            g.begin("corpus-d10-fixed", "s24");
            let m = match mode {
                Mode::Cur => "cur".to_string(),
                Mode::Fixed(k) => format!("p{k}"),
            };
            g.emit(&format!("prog {m} {}", hex(&ctx)));
            g.emit(&struct_line(&shape));
            g.emit(&vals_line(&vals));
            let p = Gen::seed_prog(mode, ctx);
            let (key, bump) = ref_find(&expected_seeds(&shape, &vals), &p).expect("canonical address of 15 seeds exists");
            g.emit(&format!("key {}", hex(&key)));
            g.emit("vseeds");
            g.post_ok_ops(mode, 0, bump);
        }
    }
    rec.finish(args);
}
