//! Harness program, account types and seed type.
use star_frame::{
    borsh::{BorshDeserialize, BorshSerialize},
    prelude::*,
};

/// The calling program (owner of the created accounts, PDA program).
pub const PROGRAM_ID: Pubkey = Pubkey::new_from_array([0x5A; 32]);
pub static PROGRAM_ID_STATIC: Pubkey = PROGRAM_ID;
/// A third program.
pub const THIRD_ID: Pubkey = Pubkey::new_from_array([0x33; 32]);

#[derive(StarFrameProgram)]
#[program(instruction_set = (), id = PROGRAM_ID, no_entrypoint)]
pub struct SysProgram;

pub const DISC_ZC16: [u8; 8] = [0xA1, 1, 2, 3, 4, 5, 6, 0x1A];
pub const DISC_ZCLIST: [u8; 8] = [0xB2, 0, 0, 0, 0, 0, 0, 0x2B];
pub const DISC_BORSH: [u8; 8] = [0, 0, 0, 0xC3, 0, 0, 0, 0x3C];
pub const DISC_BUNIT: [u8; 8] = [0xD4, 0, 0, 0, 0, 0, 0, 0x4D];
pub const W: usize = 8;

/// Zero-copy pod account, 16 bytes.
#[zero_copy(pod)]
#[derive(ProgramAccount, Default, Debug, Eq, PartialEq)]
#[program_account(skip_idl, discriminant = DISC_ZC16)]
pub struct Zc16 {
    pub a: u64,
    pub b: [u8; 8],
}

/// Zero-copy unsized account: a `u32`-prefixed byte list.
#[unsized_type(program_account, skip_idl, discriminant = DISC_ZCLIST)]
pub struct ZcList {
    #[unsized_start]
    pub list: List<u8>,
}

/// Borsh account: `u64` then a `u32`-prefixed byte vector.
#[derive(ProgramAccount, BorshSerialize, BorshDeserialize, Debug, Default, Clone, PartialEq, Eq)]
#[program_account(skip_idl, discriminant = DISC_BORSH)]
#[borsh(crate = "star_frame::borsh")]
pub struct BData {
    pub a: u64,
    pub v: Vec<u8>,
}

/// Borsh account with an EMPTY encoding (discriminant-only account).
#[derive(ProgramAccount, BorshSerialize, BorshDeserialize, Debug, Default, Clone, PartialEq, Eq)]
#[program_account(skip_idl, discriminant = DISC_BUNIT)]
#[borsh(crate = "star_frame::borsh")]
pub struct BUnit;

/// Arbitrary seed vectors (manual `GetSeeds`, as documented in seeded.rs).
#[derive(Debug, Clone, PartialEq, Eq)]
pub struct RawSeeds(pub Vec<Vec<u8>>);
impl GetSeeds for RawSeeds {
    fn seeds(&self) -> Vec<&[u8]> {
        self.0.iter().map(|s| s.as_slice()).collect()
    }
}

/// Derived account sets that cache BOTH a funder and a recipient through the derive-generated
/// validation (`#[validate(funder)]` / `#[validate(recipient)]`), in both declaration orders, with
/// each of the four cached cleanup arguments on the target.
pub mod sets {
    use super::Zc16;
    use star_frame::{
        account_set::account::{CloseAccount, NormalizeRent, ReceiveRent, RefundRent},
        prelude::*,
    };
    macro_rules! fr_set {
        ($name:ident, $arg:expr) => {
            #[derive(AccountSet, Debug)]
            pub struct $name {
                #[validate(funder)]
                pub funder: Signer<Mut<AccountInfo>>,
                #[validate(recipient)]
                pub recipient: Mut<AccountInfo>,
                #[cleanup(arg = $arg)]
                pub target: Account<Zc16>,
            }
        };
    }
    macro_rules! rf_set {
        ($name:ident, $arg:expr) => {
            #[derive(AccountSet, Debug)]
            pub struct $name {
                #[validate(recipient)]
                pub recipient: Mut<AccountInfo>,
                #[validate(funder)]
                pub funder: Signer<Mut<AccountInfo>>,
                #[cleanup(arg = $arg)]
                pub target: Account<Zc16>,
            }
        };
    }
    fr_set!(FrNormalize, NormalizeRent(()));
    fr_set!(FrRefund, RefundRent(()));
    fr_set!(FrReceive, ReceiveRent(()));
    fr_set!(FrClose, CloseAccount(()));
    rf_set!(RfNormalize, NormalizeRent(()));
    rf_set!(RfRefund, RefundRent(()));
    rf_set!(RfReceive, ReceiveRent(()));
    rf_set!(RfClose, CloseAccount(()));
}
