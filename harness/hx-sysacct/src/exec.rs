//! CPI executor (hook H1): logs every intercepted CPI in canonical form and executes it with the
//! REAL System program through mollusk-svm, writing the result back into the native `AccountInfo`s.
//!
//! What is hand-written here (and therefore trusted, see checks/C12.json): the two steps the
//! runtime performs before entering the callee —
//!   * `translate_signers`: every signer seed set must derive an address under the calling program
//!     (`Pubkey::create_program_address`), else the CPI fails with that error;
//!   * `prepare_next_instruction`: a meta flagged writable must be writable in the outer
//!     instruction, a meta flagged signer must be an outer signer or a derived address, else
//!     `PrivilegeEscalation` —
//! and the write-back of lamports / owner / data length / data.
use crate::progs::PROGRAM_ID;
use hx_common::hex;
use mollusk_svm::Mollusk;
use solana_account::Account as SolAccount;
use solana_instruction::{error::InstructionError, AccountMeta as SolMeta, Instruction as SolInstruction};
use star_frame::{
    pinocchio::{account_info::AccountInfo, program_error::ProgramError},
    prelude::Pubkey,
    verif_hooks::{CpiRecord, CPI_HANDLER},
};
use std::cell::RefCell;

/// Custom codes standing for runtime errors that have no `ProgramError` counterpart (on chain they
/// abort the transaction; the framework only ever propagates them).
const SENTINEL: u32 = 0x7E57_0000;

thread_local! {
    static LOG: RefCell<Vec<String>> = const { RefCell::new(Vec::new()) };
    static NAMES: RefCell<Vec<String>> = const { RefCell::new(Vec::new()) };
    static MOLLUSK: Mollusk = Mollusk::default();
}

fn sentinel(name: &str) -> ProgramError {
    NAMES.with_borrow_mut(|n| {
        let idx = n.iter().position(|x| x == name).unwrap_or_else(|| {
            n.push(name.to_string());
            n.len() - 1
        });
        ProgramError::Custom(SENTINEL + idx as u32)
    })
}

/// Canonical class of a framework error (sentinels mapped back to the runtime error's name).
pub fn err_class(e: star_frame::errors::Error) -> String {
    let pe: ProgramError = e.into();
    match pe {
        ProgramError::Custom(c) if c >= SENTINEL && c < SENTINEL + 0x1000 => {
            NAMES.with_borrow(|n| format!("err:{}", n.get((c - SENTINEL) as usize).cloned().unwrap_or_else(|| "?".into())))
        }
        ProgramError::Custom(c) => format!("err:Custom{c}"),
        other => format!("err:{other:?}"),
    }
}

fn map_instruction_error(e: &InstructionError) -> ProgramError {
    use InstructionError as I;
    match e {
        I::Custom(c) => ProgramError::Custom(*c),
        I::InvalidArgument => ProgramError::InvalidArgument,
        I::MissingRequiredSignature => ProgramError::MissingRequiredSignature,
        I::InsufficientFunds => ProgramError::InsufficientFunds,
        I::InvalidRealloc => ProgramError::InvalidRealloc,
        I::ArithmeticOverflow => ProgramError::ArithmeticOverflow,
        I::InvalidInstructionData => ProgramError::InvalidInstructionData,
        I::InvalidAccountData => ProgramError::InvalidAccountData,
        I::NotEnoughAccountKeys => ProgramError::NotEnoughAccountKeys,
        other => sentinel(&format!("{other:?}")),
    }
}

pub fn key_of(info: &AccountInfo) -> Pubkey {
    Pubkey::new_from_array(*info.key())
}

fn render_seeds(sets: &[Vec<Vec<u8>>]) -> String {
    let sets: Vec<String> = sets.iter().map(|set| set.iter().map(|s| hex(s)).collect::<Vec<_>>().join(".")).collect();
    format!("[{}]", sets.join("|"))
}

fn u64_at(d: &[u8], at: usize) -> Option<u64> {
    Some(u64::from_le_bytes(d.get(at..at + 8)?.try_into().ok()?))
}

/// Canonical rendering of one CPI: decoded System instruction over the META keys, meta flags, seeds.
fn render(rec: &CpiRecord) -> String {
    let k = |i: usize| rec.metas.get(i).map(|m| hex(m.0.as_ref())).unwrap_or_else(|| "?".into());
    let d = &rec.data;
    let disc = d.get(0..4).map(|b| u32::from_le_bytes(b.try_into().unwrap()));
    let is_system = rec.program_id == Pubkey::new_from_array([0; 32]);
    let body = match (is_system, disc, d.len(), rec.metas.len()) {
        (true, Some(0), 52, 2) => format!("create({},{},{},{},{})", k(0), k(1), u64_at(d, 4).unwrap(), u64_at(d, 12).unwrap(), hex(&d[20..52])),
        (true, Some(1), 36, 1) => format!("assign({},{})", k(0), hex(&d[4..36])),
        (true, Some(2), 12, 2) => format!("transfer({},{},{})", k(0), k(1), u64_at(d, 4).unwrap()),
        (true, Some(8), 12, 1) => format!("allocate({},{})", k(0), u64_at(d, 4).unwrap()),
        _ => format!("unknown({},{},{})", hex(rec.program_id.as_ref()), hex(d), rec.metas.len()),
    };
    let flags: Vec<String> = rec.metas.iter().map(|m| format!("{}{}", if m.1 { "s" } else { "-" }, if m.2 { "w" } else { "-" })).collect();
    let infos_match = rec.infos.len() == rec.metas.len() && rec.infos.iter().zip(&rec.metas).all(|(i, m)| key_of(i) == m.0);
    format!("{body}<{}>{}{}", flags.join(","), render_seeds(&rec.signer_seeds), if infos_match { "" } else { "!infos" })
}

fn execute(rec: &CpiRecord) -> Result<(), ProgramError> {
    // translate_signers
    let mut pdas: Vec<Pubkey> = vec![];
    for set in &rec.signer_seeds {
        let seeds: Vec<&[u8]> = set.iter().map(|s| s.as_slice()).collect();
        match Pubkey::create_program_address(&seeds, &PROGRAM_ID) {
            Ok(k) => pdas.push(k),
            Err(e) => {
                return Err(match format!("{e:?}").as_str() {
                    "MaxSeedLengthExceeded" => ProgramError::MaxSeedLengthExceeded,
                    _ => ProgramError::InvalidSeeds,
                })
            }
        }
    }
    // prepare_next_instruction: privileges
    for m in &rec.metas {
        let Some(info) = rec.infos.iter().find(|i| key_of(i) == m.0) else {
            return Err(ProgramError::NotEnoughAccountKeys);
        };
        if m.2 && !info.is_writable() {
            return Err(sentinel("PrivilegeEscalation"));
        }
        if m.1 && !(info.is_signer() || pdas.contains(&m.0)) {
            return Err(sentinel("PrivilegeEscalation"));
        }
    }
    // the callee: the real System program
    let mut accounts: Vec<(solana_pubkey::Pubkey, SolAccount)> = vec![];
    for info in &rec.infos {
        let key = solana_pubkey::Pubkey::new_from_array(*info.key());
        if accounts.iter().any(|(k, _)| *k == key) {
            continue;
        }
        let data = unsafe { info.borrow_data_unchecked() }.to_vec();
        accounts.push((
            key,
            SolAccount { lamports: info.lamports(), data, owner: solana_pubkey::Pubkey::new_from_array(*info.owner()), executable: info.executable(), rent_epoch: 0 },
        ));
    }
    let ix = SolInstruction {
        program_id: solana_pubkey::Pubkey::new_from_array(rec.program_id.to_bytes()),
        accounts: rec.metas.iter().map(|m| SolMeta { pubkey: solana_pubkey::Pubkey::new_from_array(m.0.to_bytes()), is_signer: m.1, is_writable: m.2 }).collect(),
        data: rec.data.clone(),
    };
    let res = MOLLUSK.with(|m| m.process_instruction(&ix, &accounts));
    if let Err(e) = &res.raw_result {
        return Err(map_instruction_error(e));
    }
    // write back
    for (key, acct) in &res.resulting_accounts {
        for info in rec.infos.iter().filter(|i| i.key() == &key.to_bytes()) {
            unsafe {
                *info.borrow_mut_lamports_unchecked() = acct.lamports;
                info.assign(&acct.owner.to_bytes());
            }
            info.resize(acct.data.len())?;
            unsafe { info.borrow_mut_data_unchecked() }.copy_from_slice(&acct.data);
        }
    }
    Ok(())
}

/// Install the handler for this thread (idempotent).
pub fn install() {
    CPI_HANDLER.with_borrow_mut(|h| {
        *h = Some(Box::new(|rec: &CpiRecord| {
            LOG.with_borrow_mut(|l| l.push(render(rec)));
            Some(execute(rec).map_err(Into::into))
        }));
    });
}

/// Take the CPI log (`-` when empty).
pub fn take_log() -> Vec<String> {
    LOG.with_borrow_mut(std::mem::take)
}
