//! Op-line interpreter shared by C12 and C13, the plain-Rust property oracles, and the generators.
//!
//! Op lines (one answer line each; a case starts with default rent `3480 2`, no accounts):
//!   `rent <lamports_per_byte> <threshold 1|2|3>`                     -> `ok`
//!   `h <flat-seed-hex> <key-hex|->`                                  -> `ok`   hash oracle entry for the model:
//!        `create_program_address` of seeds whose concatenation is `flat`, under the harness program
//!        (`-` = on curve); the harness re-computes it and answers `bad-hash` if the line lies
//!   `acct <key> <lamports> <owner> <data-hex> <signer> <writable>`   -> `ok`   (before any other account op)
//!   `funder <key> <none | seed.seed…> [box]`                            -> `ok` | `err:…`
//!        declares the funder / recipient: `Signer<Mut<AccountInfo>>` (decode only) or
//!        `Seeded<Mut<AccountInfo>, RawSeeds>` validated with `Seeds(..)`
//!   `cache <funder|recipient>`                                       -> `ok`   put the declared one into the context cache
//!   `init <zc16|zclist|borsh> <create|ifneeded> <target> <none | seeds> <arg|cached> <default | value-hex>`
//!        -> `<ok needed=0|1 | err:… | panic> cpis=<log>`
//!   `reinit <create|ifneeded> <arg|cached> [clone]`                   -> like `init`: validates the SAME pending wrapper again
//!        (or a clone of it, which becomes the pending one) with the default initial value
//!   `needed`                                                        -> `0|1`  `needed_init()` of the pending wrapper
//!   `cleanup`                                                        -> `ok` | `err:…` | `panic`   default cleanup of the last init'ed set
//!   `clean <zc16|borsh> <normalize|refund|receive|close> <target> <arg|cached> <keep | value-hex>`
//!        -> `<ok | err:… | panic> cpis=<log>`
//!   `set <fr|rf> <normalize|refund|receive|close> <funder> <recipient> <target>`
//!        -> `<ok | err:… | panic> cpis=<log>`   decode + derive-generated validate (caches funder AND
//!        recipient, declaration order funder-first / recipient-first) + cached cleanup on `Account<Zc16>`
//!   `world`                                                          -> `<key>=<lamports>,<owner>,<data>;…`
use crate::{
    exec::{self, err_class},
    progs::*,
};
use hx_common::{hex, unhex, Args, Recorder, Rng};
use hx_native::{AcctSpec, World};
use star_frame::{
    account_set::{
        account::{CloseAccount, NormalizeRent, ReceiveRent, RefundRent},
        AccountSetCleanup, AccountSetDecode, AccountSetValidate, CanFundRent,
    },
    pinocchio::sysvars::rent::Rent,
    prelude::*,
    unsize::init::DefaultInit,
    verif_hooks,
};

const MAX_ACCTS: usize = 16;

type FPlain = Signer<Mut<AccountInfo>>;
type FSeeded = Seeded<Mut<AccountInfo>, RawSeeds>;

#[derive(Clone)]
enum FunderObj {
    Plain(FPlain),
    Seeded(FSeeded),
    /// the same two behind the `Box<T>` carrier (impls/boxed.rs forwards every trait)
    BoxPlain(Box<FPlain>),
    BoxSeeded(Box<FSeeded>),
}
impl FunderObj {
    fn boxed(&self) -> Box<dyn CanFundRent> {
        match self {
            FunderObj::Plain(f) => Box::new(*f),
            FunderObj::Seeded(f) => Box::new(f.clone()),
            FunderObj::BoxPlain(f) => Box::new(f.clone()),
            FunderObj::BoxSeeded(f) => Box::new(f.clone()),
        }
    }
    fn as_dyn(&self) -> &dyn CanFundRent {
        match self {
            FunderObj::Plain(f) => f,
            FunderObj::Seeded(f) => f,
            FunderObj::BoxPlain(f) => f,
            FunderObj::BoxSeeded(f) => f,
        }
    }
    fn is_seeded(&self) -> bool {
        matches!(self, FunderObj::Seeded(_) | FunderObj::BoxSeeded(_))
    }
    fn boxed_carrier(self) -> Self {
        match self {
            FunderObj::Plain(f) => FunderObj::BoxPlain(Box::new(f)),
            FunderObj::Seeded(f) => FunderObj::BoxSeeded(Box::new(f)),
            other => other,
        }
    }
}

/// The decoded `Init<…>` wrapper kept between ops: it can be validated again (same wrapper, default
/// initial value, funder as argument or from the cache), cloned, asked for `needed_init()`, cleaned up.
trait Wrapper {
    fn revalidate(&mut self, if_needed: bool, funder: Option<&dyn CanFundRent>, ctx: &mut Context) -> star_frame::Result<()>;
    fn needed_flag(&self) -> bool;
    fn cleanup(&mut self, ctx: &mut Context) -> star_frame::Result<()>;
    fn boxed_clone(&self) -> Box<dyn Wrapper>;
}
type Pending = Box<dyn Wrapper>;

/// Re-validation forms of a keypair target set.
trait ReInitPlain:
    Clone
    + NeededInit
    + AccountSetCleanup<()>
    + AccountSetValidate<Create<()>>
    + AccountSetValidate<CreateIfNeeded<()>>
    + for<'a> AccountSetValidate<Create<(&'a dyn CanFundRent,)>>
    + for<'a> AccountSetValidate<CreateIfNeeded<(&'a dyn CanFundRent,)>>
    + 'static
{
}
impl<T> ReInitPlain for T where
    T: Clone
        + NeededInit
        + AccountSetCleanup<()>
        + AccountSetValidate<Create<()>>
        + AccountSetValidate<CreateIfNeeded<()>>
        + for<'a> AccountSetValidate<Create<(&'a dyn CanFundRent,)>>
        + for<'a> AccountSetValidate<CreateIfNeeded<(&'a dyn CanFundRent,)>>
        + 'static
{
}
/// Re-validation forms of a seeded target set.
trait ReInitSeeded:
    Clone
    + NeededInit
    + AccountSetCleanup<()>
    + AccountSetValidate<(Create<()>, Seeds<RawSeeds>)>
    + AccountSetValidate<(CreateIfNeeded<()>, Seeds<RawSeeds>)>
    + for<'a> AccountSetValidate<(Create<(&'a dyn CanFundRent,)>, Seeds<RawSeeds>)>
    + for<'a> AccountSetValidate<(CreateIfNeeded<(&'a dyn CanFundRent,)>, Seeds<RawSeeds>)>
    + 'static
{
}
impl<T> ReInitSeeded for T where
    T: Clone
        + NeededInit
        + AccountSetCleanup<()>
        + AccountSetValidate<(Create<()>, Seeds<RawSeeds>)>
        + AccountSetValidate<(CreateIfNeeded<()>, Seeds<RawSeeds>)>
        + for<'a> AccountSetValidate<(Create<(&'a dyn CanFundRent,)>, Seeds<RawSeeds>)>
        + for<'a> AccountSetValidate<(CreateIfNeeded<(&'a dyn CanFundRent,)>, Seeds<RawSeeds>)>
        + 'static
{
}

struct HeldPlain<S>(S);
impl<S: ReInitPlain> Wrapper for HeldPlain<S> {
    fn revalidate(&mut self, if_needed: bool, funder: Option<&dyn CanFundRent>, ctx: &mut Context) -> star_frame::Result<()> {
        match (if_needed, funder) {
            (false, Some(f)) => self.0.validate_accounts(Create((f,)), ctx),
            (true, Some(f)) => self.0.validate_accounts(CreateIfNeeded((f,)), ctx),
            (false, None) => self.0.validate_accounts(Create(()), ctx),
            (true, None) => self.0.validate_accounts(CreateIfNeeded(()), ctx),
        }
    }
    fn needed_flag(&self) -> bool {
        self.0.needed()
    }
    fn cleanup(&mut self, ctx: &mut Context) -> star_frame::Result<()> {
        self.0.cleanup_accounts((), ctx)
    }
    fn boxed_clone(&self) -> Box<dyn Wrapper> {
        Box::new(HeldPlain(self.0.clone()))
    }
}
struct HeldSeeded<S>(S, RawSeeds);
impl<S: ReInitSeeded> Wrapper for HeldSeeded<S> {
    fn revalidate(&mut self, if_needed: bool, funder: Option<&dyn CanFundRent>, ctx: &mut Context) -> star_frame::Result<()> {
        let seeds = Seeds(self.1.clone());
        match (if_needed, funder) {
            (false, Some(f)) => self.0.validate_accounts((Create((f,)), seeds), ctx),
            (true, Some(f)) => self.0.validate_accounts((CreateIfNeeded((f,)), seeds), ctx),
            (false, None) => self.0.validate_accounts((Create(()), seeds), ctx),
            (true, None) => self.0.validate_accounts((CreateIfNeeded(()), seeds), ctx),
        }
    }
    fn needed_flag(&self) -> bool {
        self.0.needed()
    }
    fn cleanup(&mut self, ctx: &mut Context) -> star_frame::Result<()> {
        self.0.cleanup_accounts((), ctx)
    }
    fn boxed_clone(&self) -> Box<dyn Wrapper> {
        Box::new(HeldSeeded(self.0.clone(), self.1.clone()))
    }
}

pub struct Case {
    rent: (u64, u64),
    specs: Vec<AcctSpec>,
    world: Option<World>,
    funder: Option<(usize, FunderObj)>,
    /// every `cache funder` line = one `ctx.set_funder` call (replayed in order on each op's context)
    funder_sets: Vec<(usize, FunderObj)>,
    /// every `cache recipient` line = one `ctx.set_recipient` call
    recipient_sets: Vec<usize>,
    pending: Option<Pending>,
    /// (type, target, seeds string) of the pending wrapper — what a `reinit` line re-validates
    pending_desc: Option<(String, Pubkey, String)>,
}

fn rent_of(r: (u64, u64)) -> Rent {
    #[allow(deprecated)]
    Rent { lamports_per_byte_year: r.0, exemption_threshold: r.1 as f64, burn_percent: 50 }
}
pub fn rent_min(r: (u64, u64), len: usize) -> u64 {
    rent_of(r).minimum_balance(len)
}

fn parse_key(s: &str) -> Option<Pubkey> {
    let v: [u8; 32] = unhex(s)?.try_into().ok()?;
    Some(Pubkey::new_from_array(v))
}
fn parse_seeds(s: &str) -> Option<Option<RawSeeds>> {
    if s == "none" {
        return Some(None);
    }
    let v: Option<Vec<Vec<u8>>> = s.split('.').map(unhex).collect();
    Some(Some(RawSeeds(v?)))
}
pub fn seeds_str(s: &[Vec<u8>]) -> String {
    s.iter().map(|x| hex(x)).collect::<Vec<_>>().join(".")
}
fn parse_u64(s: &str) -> Option<u64> {
    if s.is_empty() || !s.bytes().all(|b| b.is_ascii_digit()) {
        return None;
    }
    s.parse().ok()
}
fn parse_flag(s: &str) -> Option<bool> {
    match s {
        "0" => Some(false),
        "1" => Some(true),
        _ => None,
    }
}
fn khex(k: &Pubkey) -> String {
    hex(k.as_ref())
}

/// Encoded initial value → is it a value of the named harness type?
fn valid_value(ty: &str, enc: &[u8]) -> bool {
    match ty {
        "zc16" => enc.len() == 16,
        "zclist" => enc.len() >= 4 && [3usize, 17].contains(&(enc.len() - 4)) && u32::from_le_bytes(enc[..4].try_into().unwrap()) as usize == enc.len() - 4,
        "bunit" => enc.is_empty(),
        "borsh" => enc.len() >= 12 && enc.len() <= 1000 && u32::from_le_bytes(enc[8..12].try_into().unwrap()) as usize == enc.len() - 12,
        _ => false,
    }
}
fn default_value(ty: &str) -> Vec<u8> {
    match ty {
        "zc16" => vec![0; 16],
        "zclist" => vec![0; 4],
        "bunit" => vec![],
        _ => vec![0; 12],
    }
}
pub fn disc_of(ty: &str) -> [u8; 8] {
    match ty {
        "zc16" => DISC_ZC16,
        "zclist" => DISC_ZCLIST,
        "bunit" => DISC_BUNIT,
        _ => DISC_BORSH,
    }
}

impl Case {
    pub fn new() -> Self {
        Case { rent: (3480, 2), specs: vec![], world: None, funder: None, funder_sets: vec![], recipient_sets: vec![], pending: None, pending_desc: None }
    }
    fn idx(&self, k: &Pubkey) -> Option<usize> {
        self.specs.iter().position(|s| s.key == *k)
    }
    fn freeze(&mut self) -> &World {
        if self.world.is_none() {
            self.world = Some(World::new(&self.specs));
        }
        self.world.as_ref().unwrap()
    }
    fn ctx(&self) -> Context {
        let mut ctx = Context::new(&PROGRAM_ID_STATIC);
        for (_, f) in &self.funder_sets {
            ctx.set_funder(f.boxed());
        }
        for i in &self.recipient_sets {
            let info = *self.world.as_ref().unwrap().info(*i);
            ctx.set_recipient(Box::new(decode1::<Mut<AccountInfo>>(&info)));
        }
        ctx
    }
    pub fn snapshot(&mut self) -> Vec<AcctSpec> {
        self.freeze();
        let w = self.world.as_ref().unwrap();
        (0..w.len()).map(|i| w.snapshot(i)).collect()
    }
    pub fn dump(&mut self) -> String {
        let snap = self.snapshot();
        if snap.is_empty() {
            return "-".into();
        }
        snap.iter().map(|a| format!("{}={},{},{}", khex(&a.key), a.lamports, khex(&a.owner), hex(&a.data))).collect::<Vec<_>>().join(";")
    }
}

fn decode1<T: for<'a> AccountSetDecode<'a, ()>>(info: &AccountInfo) -> T {
    let mut ctx = Context::new(&PROGRAM_ID_STATIC);
    let arr = [*info];
    let mut sl: &[AccountInfo] = &arr;
    // decode of single-account wrappers copies the info; nothing borrows `arr` afterwards
    let r = T::decode_accounts(unsafe { &mut *(&mut sl as *mut &[AccountInfo]) }, (), &mut ctx);
    r.unwrap_or_else(|_| panic!("decode of a single account cannot fail"))
}

fn try_decode1<T: for<'a> AccountSetDecode<'a, ()>>(info: &AccountInfo) -> star_frame::Result<T> {
    let mut ctx = Context::new(&PROGRAM_ID_STATIC);
    let arr = [*info];
    let mut sl: &[AccountInfo] = &arr;
    T::decode_accounts(unsafe { &mut *(&mut sl as *mut &[AccountInfo]) }, (), &mut ctx)
}

fn cls(r: Result<star_frame::Result<String>, String>) -> String {
    match r {
        Ok(Ok(s)) => s,
        Ok(Err(e)) => err_class(e),
        Err(_) => "panic".into(),
    }
}

fn log_str() -> String {
    let l = exec::take_log();
    if l.is_empty() {
        "-".into()
    } else {
        l.join(";")
    }
}

// ------------------------------------------------------------------------------------------ init

/// `needed_init()` through the carriers.
trait NeededInit {
    fn needed(&self) -> bool;
}
impl<T> NeededInit for Init<T> {
    fn needed(&self) -> bool {
        self.needed_init()
    }
}
impl<T> NeededInit for Box<Init<T>> {
    fn needed(&self) -> bool {
        self.needed_init()
    }
}
/// A set type that can be decoded from one account, validated with the `Create` form `A1` and the
/// `CreateIfNeeded` form `A2`, and cleaned up.
trait InitSet<A1, A2>: for<'a> AccountSetDecode<'a, ()> + AccountSetValidate<A1> + AccountSetValidate<A2> + AccountSetCleanup<()> + NeededInit + 'static {}
impl<T, A1, A2> InitSet<A1, A2> for T where T: for<'a> AccountSetDecode<'a, ()> + AccountSetValidate<A1> + AccountSetValidate<A2> + AccountSetCleanup<()> + NeededInit + 'static {}

/// Decode `S`, validate it with `arg`; the decoded set survives a failed validation (as in a program
/// that handles the error): its default cleanup (borsh: `serialize()`) can still be run by `cleanup`.
fn validate_set<S, A>(info: &AccountInfo, arg: A, hold: impl FnOnce(S) -> Pending, ctx: &mut Context) -> star_frame::Result<(String, Pending)>
where
    S: for<'a> AccountSetDecode<'a, ()> + AccountSetValidate<A> + NeededInit + 'static,
{
    let mut set: S = try_decode1(info)?;
    let ans = match set.validate_accounts(arg, ctx) {
        Ok(()) => format!("ok needed={}", set.needed() as u8),
        Err(e) => err_class(e),
    };
    Ok((ans, hold(set)))
}

/// Validate the target with `Create(c)` / `CreateIfNeeded(c)`. Target kinds: keypair
/// (`Signer<AS>`) / seeded (`Seeded<AS, RawSeeds>`); carriers: 0 = `Init<X>`, 1 = `Box<Init<X>>`,
/// 2 = `Init<Box<X>>` (the `Box` forwarding impls of `CanInitSeeds` / `CanInitAccount`).
fn init_with<AS, C>(info: &AccountInfo, tseeds: Option<RawSeeds>, if_needed: bool, carrier: u8, c: C, ctx: &mut Context) -> star_frame::Result<(String, Pending)>
where
    Init<Signer<AS>>: InitSet<Create<C>, CreateIfNeeded<C>>,
    Box<Init<Signer<AS>>>: InitSet<Create<C>, CreateIfNeeded<C>>,
    Init<Box<Signer<AS>>>: InitSet<Create<C>, CreateIfNeeded<C>>,
    Init<Seeded<AS, RawSeeds>>: InitSet<(Create<C>, Seeds<RawSeeds>), (CreateIfNeeded<C>, Seeds<RawSeeds>)>,
    Box<Init<Seeded<AS, RawSeeds>>>: InitSet<(Create<C>, Seeds<RawSeeds>), (CreateIfNeeded<C>, Seeds<RawSeeds>)>,
    Init<Box<Seeded<AS, RawSeeds>>>: InitSet<(Create<C>, Seeds<RawSeeds>), (CreateIfNeeded<C>, Seeds<RawSeeds>)>,
    Init<Signer<AS>>: ReInitPlain,
    Box<Init<Signer<AS>>>: ReInitPlain,
    Init<Box<Signer<AS>>>: ReInitPlain,
    Init<Seeded<AS, RawSeeds>>: ReInitSeeded,
    Box<Init<Seeded<AS, RawSeeds>>>: ReInitSeeded,
    Init<Box<Seeded<AS, RawSeeds>>>: ReInitSeeded,
{
    fn hp<S: ReInitPlain>(s: S) -> Pending {
        Box::new(HeldPlain(s))
    }
    match (tseeds, if_needed, carrier) {
        (None, false, 0) => validate_set::<Init<Signer<AS>>, _>(info, Create(c), hp, ctx),
        (None, true, 0) => validate_set::<Init<Signer<AS>>, _>(info, CreateIfNeeded(c), hp, ctx),
        (None, false, 1) => validate_set::<Box<Init<Signer<AS>>>, _>(info, Create(c), hp, ctx),
        (None, true, 1) => validate_set::<Box<Init<Signer<AS>>>, _>(info, CreateIfNeeded(c), hp, ctx),
        (None, false, _) => validate_set::<Init<Box<Signer<AS>>>, _>(info, Create(c), hp, ctx),
        (None, true, _) => validate_set::<Init<Box<Signer<AS>>>, _>(info, CreateIfNeeded(c), hp, ctx),
        (Some(raw), false, 0) => validate_set::<Init<Seeded<AS, RawSeeds>>, _>(info, (Create(c), Seeds(raw.clone())), move |s| Box::new(HeldSeeded(s, raw)) as Pending, ctx),
        (Some(raw), true, 0) => validate_set::<Init<Seeded<AS, RawSeeds>>, _>(info, (CreateIfNeeded(c), Seeds(raw.clone())), move |s| Box::new(HeldSeeded(s, raw)) as Pending, ctx),
        (Some(raw), false, 1) => validate_set::<Box<Init<Seeded<AS, RawSeeds>>>, _>(info, (Create(c), Seeds(raw.clone())), move |s| Box::new(HeldSeeded(s, raw)) as Pending, ctx),
        (Some(raw), true, 1) => validate_set::<Box<Init<Seeded<AS, RawSeeds>>>, _>(info, (CreateIfNeeded(c), Seeds(raw.clone())), move |s| Box::new(HeldSeeded(s, raw)) as Pending, ctx),
        (Some(raw), false, _) => validate_set::<Init<Box<Seeded<AS, RawSeeds>>>, _>(info, (Create(c), Seeds(raw.clone())), move |s| Box::new(HeldSeeded(s, raw)) as Pending, ctx),
        (Some(raw), true, _) => validate_set::<Init<Box<Seeded<AS, RawSeeds>>>, _>(info, (CreateIfNeeded(c), Seeds(raw.clone())), move |s| Box::new(HeldSeeded(s, raw)) as Pending, ctx),
    }
}

/// The four argument shapes of init.rs / account.rs / borsh_account.rs: value + funder argument,
/// funder argument only (default value), value only (cached funder), `()` (default, cached).
macro_rules! init_shapes {
    ($as:ty, $info:expr, $tseeds:expr, $ifn:expr, $car:expr, $funder:expr, $ctx:expr, default) => {
        match $funder {
            Some(f) => init_with::<$as, (&dyn CanFundRent,)>($info, $tseeds, $ifn, $car, (f,), $ctx),
            None => init_with::<$as, ()>($info, $tseeds, $ifn, $car, (), $ctx),
        }
    };
    ($as:ty, $info:expr, $tseeds:expr, $ifn:expr, $car:expr, $funder:expr, $ctx:expr, $mk:expr) => {{
        let mk = $mk;
        match $funder {
            Some(f) => init_with::<$as, (_, &dyn CanFundRent)>($info, $tseeds, $ifn, $car, (mk, f), $ctx),
            None => init_with::<$as, _>($info, $tseeds, $ifn, $car, mk, $ctx),
        }
    }};
}

fn run_init(case: &mut Case, ty: &str, if_needed: bool, tgt: usize, tseeds: Option<RawSeeds>, use_arg: bool, val: Option<Vec<u8>>, carrier: u8) -> String {
    case.freeze();
    exec::install();
    exec::take_log();
    verif_hooks::RENT.set(Some(rent_of(case.rent)));
    let info = *case.world.as_ref().unwrap().info(tgt);
    let funder_obj = case.funder.as_ref().map(|(_, f)| f.clone());
    let desc_seeds = tseeds.as_ref().map(|r| seeds_str(&r.0)).unwrap_or_else(|| "none".into());
    let mut ctx = case.ctx();
    let r = hx_common::catch(|| -> star_frame::Result<(String, Pending)> {
        let funder: Option<&dyn CanFundRent> = if use_arg { Some(funder_obj.as_ref().unwrap().as_dyn()) } else { None };
        let ctx = &mut ctx;
        match (ty, val) {
            ("zc16", None) => init_shapes!(Account<Zc16>, &info, tseeds, if_needed, carrier, funder, ctx, default),
            ("zc16", Some(v)) => {
                let z = Zc16 { a: u64::from_le_bytes(v[..8].try_into().unwrap()), b: v[8..16].try_into().unwrap() };
                init_shapes!(Account<Zc16>, &info, tseeds, if_needed, carrier, funder, ctx, move || z)
            }
            ("zclist", None) => init_shapes!(Account<ZcList>, &info, tseeds, if_needed, carrier, funder, ctx, default),
            ("zclist", Some(v)) if v.len() == 7 => {
                let a: [u8; 3] = v[4..].try_into().unwrap();
                init_shapes!(Account<ZcList>, &info, tseeds, if_needed, carrier, funder, ctx, move || ZcListInit { list: a })
            }
            ("zclist", Some(v)) => {
                let a: [u8; 17] = v[4..].try_into().unwrap();
                init_shapes!(Account<ZcList>, &info, tseeds, if_needed, carrier, funder, ctx, move || ZcListInit { list: a })
            }
            ("bunit", None) => init_shapes!(BorshAccount<BUnit>, &info, tseeds, if_needed, carrier, funder, ctx, default),
            ("bunit", Some(_)) => init_shapes!(BorshAccount<BUnit>, &info, tseeds, if_needed, carrier, funder, ctx, move || BUnit),
            ("borsh", None) => init_shapes!(BorshAccount<BData>, &info, tseeds, if_needed, carrier, funder, ctx, default),
            (_, Some(v)) => {
                let b = <BData as star_frame::borsh::BorshDeserialize>::try_from_slice(&v).expect("validated");
                init_shapes!(BorshAccount<BData>, &info, tseeds, if_needed, carrier, funder, ctx, move || b)
            }
            _ => unreachable!(),
        }
    });
    let _ = DefaultInit;
    let ans = match r {
        Ok(Ok((s, pending))) => {
            case.pending = Some(pending);
            case.pending_desc = Some((ty.to_string(), Pubkey::new_from_array(*info.key()), desc_seeds));
            s
        }
        Ok(Err(e)) => err_class(e),
        Err(_) => "panic".into(),
    };
    format!("{ans} cpis={}", log_str())
}

// ----------------------------------------------------------------------------------------- clean

fn clean_set<S>(set: &mut S, op: &str, use_arg: bool, fobj: Option<&FunderObj>, recip: Option<&Mut<AccountInfo>>, ctx: &mut Context) -> star_frame::Result<()>
where
    S: for<'x> AccountSetCleanup<NormalizeRent<&'x FPlain>>
        + for<'x> AccountSetCleanup<NormalizeRent<&'x FSeeded>>
        + for<'x> AccountSetCleanup<NormalizeRent<&'x Box<FPlain>>>
        + for<'x> AccountSetCleanup<NormalizeRent<&'x Box<FSeeded>>>
        + for<'x> AccountSetCleanup<ReceiveRent<&'x Box<FPlain>>>
        + for<'x> AccountSetCleanup<ReceiveRent<&'x Box<FSeeded>>>
        + AccountSetCleanup<NormalizeRent<()>>
        + for<'x> AccountSetCleanup<ReceiveRent<&'x FPlain>>
        + for<'x> AccountSetCleanup<ReceiveRent<&'x FSeeded>>
        + AccountSetCleanup<ReceiveRent<()>>
        + for<'x> AccountSetCleanup<RefundRent<&'x Mut<AccountInfo>>>
        + AccountSetCleanup<RefundRent<()>>
        + for<'x> AccountSetCleanup<CloseAccount<&'x Mut<AccountInfo>>>
        + AccountSetCleanup<CloseAccount<()>>,
{
    match (op, use_arg) {
        ("normalize", true) => match fobj.unwrap() {
            FunderObj::Plain(f) => set.cleanup_accounts(NormalizeRent(f), ctx),
            FunderObj::Seeded(f) => set.cleanup_accounts(NormalizeRent(f), ctx),
            FunderObj::BoxPlain(f) => set.cleanup_accounts(NormalizeRent(f), ctx),
            FunderObj::BoxSeeded(f) => set.cleanup_accounts(NormalizeRent(f), ctx),
        },
        ("normalize", false) => set.cleanup_accounts(NormalizeRent(()), ctx),
        ("receive", true) => match fobj.unwrap() {
            FunderObj::Plain(f) => set.cleanup_accounts(ReceiveRent(f), ctx),
            FunderObj::Seeded(f) => set.cleanup_accounts(ReceiveRent(f), ctx),
            FunderObj::BoxPlain(f) => set.cleanup_accounts(ReceiveRent(f), ctx),
            FunderObj::BoxSeeded(f) => set.cleanup_accounts(ReceiveRent(f), ctx),
        },
        ("receive", false) => set.cleanup_accounts(ReceiveRent(()), ctx),
        ("refund", true) => set.cleanup_accounts(RefundRent(recip.unwrap()), ctx),
        ("refund", false) => set.cleanup_accounts(RefundRent(()), ctx),
        ("close", true) => set.cleanup_accounts(CloseAccount(recip.unwrap()), ctx),
        ("close", false) => set.cleanup_accounts(CloseAccount(()), ctx),
        _ => unreachable!(),
    }
}

fn run_clean(case: &mut Case, ty: &str, op: &str, tgt: usize, use_arg: bool, newval: Option<Vec<u8>>) -> String {
    case.freeze();
    exec::install();
    exec::take_log();
    verif_hooks::RENT.set(Some(rent_of(case.rent)));
    let world = case.world.as_ref().unwrap();
    let info = *world.info(tgt);
    let fobj = case.funder.as_ref().map(|(_, f)| f.clone());
    let recip: Option<Mut<AccountInfo>> = case.funder.as_ref().map(|(i, _)| decode1::<Mut<AccountInfo>>(world.info(*i)));
    let mut ctx = case.ctx();
    let r = hx_common::catch(|| -> star_frame::Result<String> {
        match ty {
            "zc16" => {
                let mut set: Account<Zc16> = try_decode1(&info)?;
                clean_set(&mut set, op, use_arg, fobj.as_ref(), recip.as_ref(), &mut ctx)?;
            }
            _ => {
                let mut set: BorshAccount<BData> = try_decode1(&info)?;
                if let Some(v) = newval {
                    let b = <BData as star_frame::borsh::BorshDeserialize>::try_from_slice(&v).expect("validated");
                    set.set_inner(b)?;
                }
                clean_set(&mut set, op, use_arg, fobj.as_ref(), recip.as_ref(), &mut ctx)?;
            }
        }
        Ok("ok".into())
    });
    format!("{} cpis={}", cls(r), log_str())
}

fn run_set_with<S>(infos: &[AccountInfo]) -> star_frame::Result<()>
where
    S: for<'a> AccountSetDecode<'a, ()> + AccountSetValidate<()> + AccountSetCleanup<()>,
{
    let mut ctx = Context::new(&PROGRAM_ID_STATIC);
    let mut sl: &[AccountInfo] = infos;
    let mut set = S::decode_accounts(unsafe { &mut *(&mut sl as *mut &[AccountInfo]) }, (), &mut ctx)?;
    set.validate_accounts((), &mut ctx)?;
    set.cleanup_accounts((), &mut ctx)
}

fn run_set(case: &mut Case, order: &str, op: &str, f: usize, r: usize, t: usize) -> String {
    use crate::progs::sets::*;
    case.freeze();
    exec::install();
    exec::take_log();
    verif_hooks::RENT.set(Some(rent_of(case.rent)));
    let w = case.world.as_ref().unwrap();
    let infos: Vec<AccountInfo> = if order == "fr" { vec![*w.info(f), *w.info(r), *w.info(t)] } else { vec![*w.info(r), *w.info(f), *w.info(t)] };
    let res = hx_common::catch(|| -> star_frame::Result<String> {
        match (order, op) {
            ("fr", "normalize") => run_set_with::<FrNormalize>(&infos)?,
            ("fr", "refund") => run_set_with::<FrRefund>(&infos)?,
            ("fr", "receive") => run_set_with::<FrReceive>(&infos)?,
            ("fr", "close") => run_set_with::<FrClose>(&infos)?,
            ("rf", "normalize") => run_set_with::<RfNormalize>(&infos)?,
            ("rf", "refund") => run_set_with::<RfRefund>(&infos)?,
            ("rf", "receive") => run_set_with::<RfReceive>(&infos)?,
            _ => run_set_with::<RfClose>(&infos)?,
        }
        Ok("ok".into())
    });
    format!("{} cpis={}", cls(res), log_str())
}

// ------------------------------------------------------------------------------------ interpreter

/// The real hash: `create_program_address` of seeds whose concatenation is `flat`.
fn real_hash(flat: &[u8]) -> Option<Option<Pubkey>> {
    if flat.len() > 16 * 32 {
        return None;
    }
    let chunks: Vec<&[u8]> = flat.chunks(32).collect();
    match Pubkey::create_program_address(&chunks, &PROGRAM_ID) {
        Ok(k) => Some(Some(k)),
        Err(_) => Some(None),
    }
}

/// Execute one op line against the real code; returns the answer.
pub fn exec_line(case: &mut Case, l: &str) -> String {
    let t: Vec<&str> = l.split(' ').filter(|x| !x.is_empty()).collect();
    let bad = || "bad-op".to_string();
    match t.as_slice() {
        ["rent", a, b] => {
            let (Some(a), Some(b)) = (parse_u64(a), parse_u64(b)) else { return bad() };
            if !(1..=3).contains(&b) || a >= 1 << 32 {
                return bad();
            }
            case.rent = (a, b);
            "ok".into()
        }
        ["h", flat, key] => {
            let Some(flat) = unhex(flat) else { return bad() };
            let want = if *key == "-" { None } else { let Some(k) = parse_key(key) else { return bad() }; Some(k) };
            match real_hash(&flat) {
                Some(got) if got == want => "ok".into(),
                _ => "bad-hash".into(),
            }
        }
        ["acct", key, lam, owner, data, s, w] => {
            let (Some(key), Some(lam), Some(owner), Some(data), Some(s), Some(w)) = (parse_key(key), parse_u64(lam), parse_key(owner), unhex(data), parse_flag(s), parse_flag(w)) else {
                return bad();
            };
            if case.world.is_some() || case.idx(&key).is_some() || case.specs.len() >= MAX_ACCTS || data.len() > 20_000 {
                return bad();
            }
            case.specs.push(AcctSpec::new(key, owner).lamports(lam).data(data).signer(s).writable(w));
            "ok".into()
        }
        ["funder", key, seeds] | ["funder", key, seeds, "box"] => {
            let boxed = t.len() == 4;
            let (Some(key), Some(seeds)) = (parse_key(key), parse_seeds(seeds)) else { return bad() };
            let Some(i) = case.idx(&key) else { return bad() };
            case.freeze();
            let info = *case.world.as_ref().unwrap().info(i);
            match seeds {
                None => {
                    let f = FunderObj::Plain(decode1::<FPlain>(&info));
                    case.funder = Some((i, if boxed { f.boxed_carrier() } else { f }));
                    "ok".into()
                }
                Some(raw) => {
                    let r = hx_common::catch(|| -> star_frame::Result<FSeeded> {
                        let mut f: FSeeded = try_decode1(&info)?;
                        let mut ctx = Context::new(&PROGRAM_ID_STATIC);
                        f.validate_accounts(Seeds(raw), &mut ctx)?;
                        Ok(f)
                    });
                    match r {
                        Ok(Ok(f)) => {
                            let f = FunderObj::Seeded(f);
                            case.funder = Some((i, if boxed { f.boxed_carrier() } else { f }));
                            "ok".into()
                        }
                        Ok(Err(e)) => err_class(e),
                        Err(_) => "panic".into(),
                    }
                }
            }
        }
        ["cache", which] => {
            if case.funder.is_none() {
                return bad();
            }
            let (i, f) = case.funder.clone().unwrap();
            match *which {
                "funder" => case.funder_sets.push((i, f)),
                "recipient" => case.recipient_sets.push(i),
                _ => return bad(),
            }
            "ok".into()
        }
        ["init", ty, mode, tkey, tseeds, how, val] | ["init", ty, mode, tkey, tseeds, how, val, "box" | "ibox"] => {
            let carrier: u8 = match t.get(7) {
                None => 0,
                Some(&"box") => 1,
                _ => 2,
            };
            if !["zc16", "zclist", "borsh", "bunit"].contains(ty) {
                return bad();
            }
            let if_needed = match *mode {
                "create" => false,
                "ifneeded" => true,
                _ => return bad(),
            };
            let (Some(tkey), Some(tseeds)) = (parse_key(tkey), parse_seeds(tseeds)) else { return bad() };
            let Some(ti) = case.idx(&tkey) else { return bad() };
            let use_arg = match *how {
                "arg" => true,
                "cached" => false,
                _ => return bad(),
            };
            if use_arg && case.funder.is_none() {
                return bad();
            }
            let val = if *val == "default" {
                None
            } else {
                let Some(v) = unhex(val) else { return bad() };
                if !valid_value(ty, &v) {
                    return bad();
                }
                Some(v)
            };
            run_init(case, ty, if_needed, ti, tseeds, use_arg, val, carrier)
        }
        ["reinit", mode, how] | ["reinit", mode, how, "clone"] => {
            let if_needed = match *mode {
                "create" => false,
                "ifneeded" => true,
                _ => return bad(),
            };
            let use_arg = match *how {
                "arg" => true,
                "cached" => false,
                _ => return bad(),
            };
            if case.pending.is_none() || (use_arg && case.funder.is_none()) {
                return bad();
            }
            exec::install();
            exec::take_log();
            verif_hooks::RENT.set(Some(rent_of(case.rent)));
            let funder_obj = case.funder.as_ref().map(|(_, f)| f.clone());
            let mut ctx = case.ctx();
            // the same wrapper again, or a clone of it (which then becomes the pending wrapper)
            let mut w = if t.len() == 4 { case.pending.as_ref().unwrap().boxed_clone() } else { case.pending.take().unwrap() };
            let r = hx_common::catch(|| {
                let funder: Option<&dyn CanFundRent> = if use_arg { Some(funder_obj.as_ref().unwrap().as_dyn()) } else { None };
                w.revalidate(if_needed, funder, &mut ctx).map(|_| format!("ok needed={}", w.needed_flag() as u8))
            });
            let ans = cls(r);
            case.pending = Some(w);
            format!("{ans} cpis={}", log_str())
        }
        ["needed"] => match &case.pending {
            Some(w) => (w.needed_flag() as u8).to_string(),
            None => bad(),
        },
        ["cleanup"] => {
            let Some(p) = case.pending.take() else { return bad() };
            case.pending_desc = None;
            exec::install();
            exec::take_log();
            verif_hooks::RENT.set(Some(rent_of(case.rent)));
            let mut ctx = case.ctx();
            let mut p = p;
            let r = hx_common::catch(|| p.cleanup(&mut ctx).map(|_| "ok".to_string()));
            cls(r)
        }
        ["clean", ty, op, tkey, how, newval] => {
            if !["zc16", "borsh"].contains(ty) || !["normalize", "refund", "receive", "close"].contains(op) {
                return bad();
            }
            let Some(tkey) = parse_key(tkey) else { return bad() };
            let Some(ti) = case.idx(&tkey) else { return bad() };
            let use_arg = match *how {
                "arg" => true,
                "cached" => false,
                _ => return bad(),
            };
            if use_arg && case.funder.is_none() {
                return bad();
            }
            let newval = if *newval == "keep" {
                None
            } else {
                let Some(v) = unhex(newval) else { return bad() };
                if *ty != "borsh" || !valid_value("borsh", &v) {
                    return bad();
                }
                Some(v)
            };
            run_clean(case, ty, op, ti, use_arg, newval)
        }
        ["set", order, op, fkey, rkey, tkey] => {
            if !["fr", "rf"].contains(order) || !["normalize", "refund", "receive", "close"].contains(op) {
                return bad();
            }
            let (Some(fk), Some(rk), Some(tk)) = (parse_key(fkey), parse_key(rkey), parse_key(tkey)) else { return bad() };
            let (Some(f), Some(r), Some(t)) = (case.idx(&fk), case.idx(&rk), case.idx(&tk)) else { return bad() };
            run_set(case, order, op, f, r, t)
        }
        ["world"] => case.dump(),
        _ => bad(),
    }
}

/// The seeds the find paths hand to the runtime (fix 801ca3a): a trailing empty placeholder is dropped.
fn eff_seeds(seeds: &[Vec<u8>]) -> Vec<&[u8]> {
    let mut v: Vec<&[u8]> = seeds.iter().map(|s| s.as_slice()).collect();
    if v.last().is_some_and(|l| l.is_empty()) {
        v.pop();
    }
    v
}

// ------------------------------------------------------------------------- plain-Rust oracles

fn total(s: &[AcctSpec]) -> u128 {
    s.iter().map(|a| a.lamports as u128).sum()
}
fn find<'a>(s: &'a [AcctSpec], k: &Pubkey) -> &'a AcctSpec {
    s.iter().find(|a| a.key == *k).unwrap()
}

/// What the oracle knows about the op it judges (parsed from the op line itself).
struct InitOp {
    ty: String,
    if_needed: bool,
    tgt: Pubkey,
    tseeds: Option<RawSeeds>,
    enc: Vec<u8>,
}

fn parse_init(l: &str) -> Option<InitOp> {
    let t: Vec<&str> = l.split(' ').collect();
    if !(t.len() == 7 || t.len() == 8) || t[0] != "init" {
        return None;
    }
    let enc = if t[6] == "default" { default_value(t[1]) } else { unhex(t[6])? };
    Some(InitOp { ty: t[1].into(), if_needed: t[2] == "ifneeded", tgt: parse_key(t[3])?, tseeds: parse_seeds(t[4])?, enc })
}

/// C12 oracle for one `init` op: `before`/`after` are full snapshots, `ans` the harness answer.
fn oracle_init(rec: &mut Recorder, case_rent: (u64, u64), funder: Option<Pubkey>, funder_seeded: bool, no_funder: bool, l: &str, ans: &str, before: &[AcctSpec], after: &[AcctSpec]) {
    let Some(op) = parse_init(l) else { return };
    let (res, log) = ans.split_once(" cpis=").unwrap_or((ans, "-"));
    let t0 = find(before, &op.tgt);
    let t1 = find(after, &op.tgt);
    let disc = disc_of(&op.ty);
    // conservation holds whatever the outcome
    if total(before) != total(after) {
        rec.fail("init_lamports_not_conserved", &format!("{l} -> {ans}: sum {} -> {}", total(before), total(after)));
    }
    // only funder and target may change
    for (b, a) in before.iter().zip(after) {
        if b != a && b.key != op.tgt && Some(b.key) != funder {
            rec.fail("init_changes_unnamed_account", &format!("{l}: account {} changed", khex(&b.key)));
        }
    }
    if res == "panic" {
        let short = op.if_needed && t0.owner != Pubkey::new_from_array([0; 32]) && t0.data.len() < W;
        rec.fail(if short { "create_if_needed_data_shorter_than_discriminant_panics" } else { "init_panics" }, &format!("{l} -> panic"));
        return;
    }
    // D12b (repaired by d51f9cb): if-needed on a non-System account with data shorter than the
    // discriminant must be rejected with an error (never Ok, never a panic) and change nothing
    if op.if_needed && t0.owner != Pubkey::new_from_array([0; 32]) && t0.data.len() < W && (!res.starts_with("err:") || before != after || log != "-") {
        rec.fail("create_if_needed_short_data_not_rejected", &format!("{l} -> {ans}"));
    }
    let initialized = t0.owner != Pubkey::new_from_array([0; 32]) || !t0.data.is_empty();
    if !op.if_needed && initialized && res.starts_with("ok") {
        rec.fail("create_on_initialized_succeeds", &format!("{l} -> {ans}"));
    }
    let properly = t0.owner == PROGRAM_ID && t0.data.len() >= W && t0.data[..W] == disc;
    if op.if_needed && properly {
        // errors that have nothing to do with the target's state (decided independently here)
        let seeds_mismatch = op.tseeds.as_ref().is_some_and(|raw| {
            let seeds = eff_seeds(&raw.0);
            seeds.len() < 16 && Pubkey::find_program_address(&seeds, &PROGRAM_ID).0 != op.tgt
        });
        let excused = (res == "err:Custom1002" && seeds_mismatch)
            || (res == "err:Custom1004" && no_funder)
            || (res == "err:Custom1001" && op.tseeds.is_none() && !t0.is_signer && !seeds_mismatch && !no_funder);
        if !(res == "ok needed=0" || excused) || before != after || log != "-" {
            rec.fail("create_if_needed_touches_initialized", &format!("{l} -> {ans}"));
        }
    }
    // liveness: a fresh System-owned empty target, writable, able to sign (keypair signer or the PDA
    // of the given seeds), and a distinct, writable, System-owned, data-less funder that can sign
    // (outer signer or seeded) and covers the shortfall => the creation must succeed
    {
        let space = W + op.enc.len();
        let tgt_can_sign = match &op.tseeds {
            None => t0.is_signer,
            Some(raw) => {
                let seeds = eff_seeds(&raw.0);
                seeds.len() < 16 && raw.0.iter().all(|s| s.len() <= 32) && Pubkey::find_program_address(&seeds, &PROGRAM_ID).0 == op.tgt
            }
        };
        let fresh = t0.owner == Pubkey::new_from_array([0; 32]) && t0.data.is_empty() && t0.is_writable && tgt_can_sign;
        if let (true, Some(f), false) = (fresh, funder, no_funder) {
            let f0 = find(before, &f);
            let shortfall = rent_min(case_rent, space).saturating_sub(t0.lamports);
            let funder_ok = f != op.tgt && f0.owner == Pubkey::new_from_array([0; 32]) && f0.data.is_empty() && f0.is_writable && (f0.is_signer || funder_seeded) && f0.lamports >= shortfall;
            if funder_ok && res != "ok needed=1" {
                rec.fail("create_on_fresh_account_fails", &format!("{l} -> {ans}"));
            }
        }
    }
    // `needed_init()` reports THIS validation: "newly initialized" only if this call created the account
    // (it was System-owned and empty before and CPIs were issued), "not newly" only without any CPI
    if res == "ok needed=1" && (log == "-" || initialized) {
        rec.fail("needed_init_reported_without_creation", &format!("{l} -> {ans}"));
    }
    if res == "ok needed=0" && (log != "-" || before != after) {
        rec.fail("creation_not_reported_as_needed_init", &format!("{l} -> {ans}"));
    }
    if res == "ok needed=1" {
        let space = W + op.enc.len();
        let want_data: Vec<u8> = if op.ty == "borsh" || op.ty == "bunit" { [&disc[..], &vec![0u8; op.enc.len()][..]].concat() } else { [&disc[..], &op.enc[..]].concat() };
        // the balance claim needs a funder other than the target itself (a self-"funded" account
        // gains nothing; outside the property's quantifier, still run and diffed against the model)
        let self_funded = funder == Some(op.tgt);
        if t1.owner != PROGRAM_ID || t1.data != want_data || t1.data.len() != space || (!self_funded && t1.lamports < rent_min(case_rent, space)) {
            rec.fail("create_postcondition", &format!("{l} -> {ans}: owner {} data {} lamports {} (rent {})", khex(&t1.owner), hex(&t1.data), t1.lamports, rent_min(case_rent, space)));
        }
        if let Some(f) = funder {
            if f != op.tgt {
                let paid = find(before, &f).lamports as i128 - find(after, &f).lamports as i128;
                let shortfall = rent_min(case_rent, space).saturating_sub(t0.lamports) as i128;
                if paid != shortfall {
                    rec.fail("create_takes_more_than_shortfall", &format!("{l} -> {ans}: funder paid {paid}, shortfall {shortfall}"));
                }
            }
        }
        // seeds given for a seeded account are the ones used to sign the creation
        if let Some(raw) = &op.tseeds {
            let seeds = eff_seeds(&raw.0);
            let (_, bump) = Pubkey::find_program_address(&seeds, &PROGRAM_ID);
            let mut swb = raw.0.clone();
            match swb.last_mut() {
                Some(last) if last.is_empty() => *last = vec![bump],
                _ => swb.push(vec![bump]),
            }
            let want = seeds_str(&swb);
            for entry in log.split(';') {
                let creating = entry.starts_with("create(") || entry.starts_with("allocate(") || entry.starts_with("assign(");
                let sets = entry.rsplit_once('[').map(|x| x.1.trim_end_matches(']')).unwrap_or("");
                if creating && !sets.split('|').any(|s| s == want) {
                    rec.fail("seeded_create_not_signed_by_seeds", &format!("{l} -> {ans}: want {want}"));
                }
            }
        }
    }
}

struct CleanOp {
    op: String,
    tgt: Pubkey,
}
fn parse_clean(l: &str) -> Option<CleanOp> {
    let t: Vec<&str> = l.split(' ').collect();
    if t.len() != 6 || t[0] != "clean" {
        return None;
    }
    Some(CleanOp { op: t[2].into(), tgt: parse_key(t[3])? })
}

/// C13 oracle for one `set` op: the counterpart is the DECLARED funder (normalize / receive) or the
/// DECLARED recipient (refund / close); the other declared account must keep its balance.
fn oracle_set(rec: &mut Recorder, case_rent: (u64, u64), l: &str, ans: &str, before: &[AcctSpec], after: &[AcctSpec]) {
    let t: Vec<&str> = l.split(' ').collect();
    if t.len() != 6 {
        return;
    }
    let (Some(f), Some(r), Some(tgt)) = (parse_key(t[3]), parse_key(t[4]), parse_key(t[5])) else { return };
    let funder_op = t[2] == "normalize" || t[2] == "receive";
    let (declared, bystander) = if funder_op { (f, r) } else { (r, f) };
    // the set declares (and its validation caches) both a funder and a recipient, in either order:
    // the cached cleanup must find them
    {
        let res = ans.split(" cpis=").next().unwrap_or("");
        if res == "err:Custom1004" || res == "err:Custom1005" {
            rec.fail("declared_recipient_not_cached", &format!("{l} -> {ans}: the set declares both a funder and a recipient"));
        }
    }
    if bystander != declared && bystander != tgt && find(before, &bystander).lamports != find(after, &bystander).lamports {
        rec.fail("cleanup_pays_wrong_account", &format!("{l} -> {ans}: {} changed by {} although the declared counterpart is {}", khex(&bystander), find(after, &bystander).lamports as i128 - find(before, &bystander).lamports as i128, khex(&declared)));
    }
    oracle_clean_op(rec, case_rent, CleanOp { op: t[2].into(), tgt }, Some(declared), true, false, l, ans, before, after);
}

/// C13 oracle for one `clean` op.
fn oracle_clean(rec: &mut Recorder, case_rent: (u64, u64), other: Option<Pubkey>, cache_hit: bool, other_seeded: bool, l: &str, ans: &str, before: &[AcctSpec], after: &[AcctSpec]) {
    let Some(op) = parse_clean(l) else { return };
    oracle_clean_op(rec, case_rent, op, other, cache_hit, other_seeded, l, ans, before, after);
}

fn oracle_clean_op(rec: &mut Recorder, case_rent: (u64, u64), op: CleanOp, other: Option<Pubkey>, cache_hit: bool, other_seeded: bool, l: &str, ans: &str, before: &[AcctSpec], after: &[AcctSpec]) {
    let (res, _log) = ans.split_once(" cpis=").unwrap_or((ans, "-"));
    // a cached cleanup whose cache entry was never filled must be reported and move nothing
    if !cache_hit {
        let lam = |s: &[AcctSpec]| s.iter().map(|a| a.lamports).collect::<Vec<_>>();
        if !res.starts_with("err:") || lam(before) != lam(after) {
            rec.fail("cleanup_uses_unfilled_cache", &format!("{l} -> {ans}"));
        }
        return;
    }
    if total(before) >= 1u128 << 64 {
        return; // outside the property's quantifier
    }
    // "an account with zero lamports is left alone": normalize / receive / refund (since 519a31c) on a
    // 0-lamport account must return Ok and change nothing.
    // Only judged when the call reached the operation (set validation errors are not the operation's).
    if op.op != "close" && find(before, &op.tgt).lamports == 0 && other.is_some() {
        let validation_err = ["err:Custom1000", "err:Custom1001", "err:Custom1003", "err:Custom9001", "err:AccountDataTooSmall", "err:InvalidAccountOwner"].contains(&res);
        // a BorshAccount cleanup legitimately re-serializes the value first: only balances are compared there
        let lam = |s: &[AcctSpec]| s.iter().map(|a| a.lamports).collect::<Vec<_>>();
        let changed = if l.contains(" borsh ") { lam(before) != lam(after) } else { before != after };
        if !validation_err && (res != "ok" || changed || _log != "-") {
            rec.fail("zero_lamport_account_not_left_alone", &format!("{l} -> {ans}"));
        }
    }
    if total(before) != total(after) {
        rec.fail("cleanup_lamports_not_conserved", &format!("{l} -> {ans}: sum {} -> {}", total(before), total(after)));
    }
    for (b, a) in before.iter().zip(after) {
        if b != a && b.key != op.tgt && Some(b.key) != other {
            rec.fail("cleanup_changes_unnamed_account", &format!("{l}: account {} changed", khex(&b.key)));
        }
    }
    if res == "panic" {
        rec.fail("cleanup_panics", &format!("{l} -> panic"));
        return;
    }
    // liveness of the direct-write paths: normalize / refund of an account holding MORE than its minimum,
    // and close of any account, need no signature and no funder balance — with a distinct counterpart
    // and a total supply below 2^64 they must succeed, however large the excess (normalize_post /
    // refund_post / close_post then judge the balances)
    if l.contains(" zc16 ") || l.starts_with("set ") {
        if let Some(o) = other {
            let t0 = find(before, &op.tgt);
            let rent0 = rent_min(case_rent, t0.data.len());
            let set_ok = !l.starts_with("set ") || {
                let tk: Vec<&str> = l.split(' ').collect();
                match (parse_key(tk[3]), parse_key(tk[4])) {
                    (Some(fk), Some(rk)) => find(before, &fk).is_signer && find(before, &fk).is_writable && find(before, &rk).is_writable && t0.owner == PROGRAM_ID && t0.data.len() >= W && t0.data[..W] == DISC_ZC16,
                    _ => false,
                }
            };
            let direct = ((op.op == "normalize" || op.op == "refund") && t0.lamports > rent0) || op.op == "close";
            if direct && o != op.tgt && set_ok && res != "ok" {
                rec.fail("excess_or_close_with_valid_counterpart_fails", &format!("{l} -> {ans}: lamports {} rent {rent0}", t0.lamports));
            }
        }
    }
    // liveness of top-ups: a zero-copy account below its minimum (and not at 0), writable, with a
    // distinct, writable, System-owned, data-less funder that can sign (outer signer or seeded,
    // whatever carrier it sits in) and covers the shortfall => normalize / receive must succeed
    if (op.op == "normalize" || op.op == "receive") && l.contains(" zc16 ") || l.starts_with("set ") && (op.op == "normalize" || op.op == "receive") {
        if let Some(o) = other {
            let (t0, f0) = (find(before, &op.tgt), find(before, &o));
            let rent0 = rent_min(case_rent, t0.data.len());
            let needs = t0.lamports > 0 && t0.lamports < rent0 && t0.is_writable;
            let sys0 = Pubkey::new_from_array([0; 32]);
            // a derived set must first pass its own validation: funder signer + writable, recipient
            // writable, target owned by the program with the type's discriminant
            let set_valid = !l.starts_with("set ") || {
                let tk: Vec<&str> = l.split(' ').collect();
                let fields_ok = match (parse_key(tk[3]), parse_key(tk[4])) {
                    (Some(fk), Some(rk)) => find(before, &fk).is_signer && find(before, &fk).is_writable && find(before, &rk).is_writable,
                    _ => false,
                };
                fields_ok && t0.owner == PROGRAM_ID && t0.data.len() >= W && t0.data[..W] == DISC_ZC16
            };
            let funder_ok = o != op.tgt && f0.owner == sys0 && f0.data.is_empty() && f0.is_writable && (f0.is_signer || other_seeded) && f0.lamports >= rent0 - t0.lamports.min(rent0);
            if needs && funder_ok && set_valid && res != "ok" {
                rec.fail("top_up_with_valid_funder_fails", &format!("{l} -> {ans}"));
            }
        }
    }
    if res != "ok" || other == Some(op.tgt) {
        return;
    }
    let t0 = find(before, &op.tgt);
    let t1 = find(after, &op.tgt);
    let rent = rent_min(case_rent, t1.data.len());
    let gained = |k: &Pubkey| find(after, k).lamports as i128 - find(before, k).lamports as i128;
    let moved = t0.lamports as i128 - t1.lamports as i128;
    if let Some(o) = other {
        if gained(&o) != moved {
            rec.fail("cleanup_other_balance", &format!("{l}: target lost {moved}, other gained {}", gained(&o)));
        }
    }
    match op.op.as_str() {
        "normalize" => {
            let want = if t0.lamports == 0 { 0 } else { rent };
            if t1.lamports != want {
                rec.fail("normalize_not_exact", &format!("{l}: {} -> {}, rent {rent}", t0.lamports, t1.lamports));
            }
        }
        "refund" => {
            if t1.lamports < rent && !(t0.lamports == 0 && t1.lamports == 0) {
                // "refunding leaves at least that minimum" (a zero-lamport account is left alone);
                // the first class is D13, repaired by 519a31c — a hard failure if it comes back
                let class = if t0.lamports > 0 && t0.lamports < rent && t1.lamports == t0.lamports { "refund_rent_below_minimum_left_below" } else { "refund_leaves_below_minimum" };
                rec.fail(class, &format!("{l}: {} -> {}, rent {rent}", t0.lamports, t1.lamports));
            }
            if t1.lamports > t0.lamports || (t0.lamports >= rent && t1.lamports != rent) {
                rec.fail("refund_moves_more_than_excess", &format!("{l}: {} -> {}, rent {rent}", t0.lamports, t1.lamports));
            }
        }
        "receive" => {
            let want = if t0.lamports == 0 { 0 } else { t0.lamports.max(rent) };
            if t1.lamports != want {
                rec.fail("receive_not_shortfall", &format!("{l}: {} -> {}, rent {rent}", t0.lamports, t1.lamports));
            }
        }
        _ => {
            if t1.lamports != 0 || t1.data != vec![0xFFu8; W] {
                rec.fail("close_postcondition", &format!("{l}: lamports {} data {}", t1.lamports, hex(&t1.data)));
            }
        }
    }
    if op.op != "close" && t1.data.len() != t0.data.len() && !l.contains(" borsh ") {
        rec.fail("cleanup_changes_data", &format!("{l}"));
    }
}

// ----------------------------------------------------------------------------------- case runner

/// Run the op lines of one case through the real code, recording answers and judging every
/// `init` / `clean` op with the oracles.
pub fn run_case(rec: &mut Recorder, header: &str, lines: &[String]) {
    rec.case(header);
    let mut case = Case::new();
    let mut nontrivial = false;
    // target as it was before the last init op, when that op failed on an initialized account
    let mut failed_init: Option<(Pubkey, AcctSpec)> = None;
    for l in lines {
        if l == "cleanup" {
            if let Some((k, t0)) = failed_init.take() {
                let pre = case.snapshot();
                let ans = exec_line(&mut case, l);
                rec.op(l, &ans);
                let post = case.snapshot();
                let (t1, t2) = (find(&pre, &k), find(&post, &k));
                // cleanup after a failed create is the identity on the account: bytes, length and owner
                // are those before the failed call, and the cleanup itself moves no lamports
                if ans != "bad-op" && (t2.data != t0.data || t2.owner != t0.owner || t2.lamports != t1.lamports || total(&pre) != total(&post)) {
                    rec.fail("failed_create_then_cleanup_clobbers_account", &format!("cleanup after failed init on {}: data {} -> {}, lamports {} -> {}", khex(&k), hex(&t0.data), hex(&t2.data), t1.lamports, t2.lamports));
                }
                continue;
            }
        }
        // a `reinit` line is judged like the `init` line it stands for (same wrapper, default value)
        let reinit_as: Option<String> = if l.starts_with("reinit ") {
            let t: Vec<&str> = l.split(' ').collect();
            match (&case.pending_desc, t.len() >= 3) {
                (Some((ty, tgt, sd)), true) => Some(format!("init {ty} {} {} {sd} {} default", t[1], khex(tgt), t[2])),
                _ => None,
            }
        } else {
            None
        };
        let is_init = l.starts_with("init ") || reinit_as.is_some();
        let is_clean = l.starts_with("clean ");
        let is_set = l.starts_with("set ");
        let before = if is_init || is_clean || is_set { Some(case.snapshot()) } else { None };
        let ans = exec_line(&mut case, l);
        rec.op(l, &ans);
        if let Some(before) = before {
            if ans != "bad-op" {
                let after = case.snapshot();
                // the counterpart: the explicit argument, or for the cached forms the account that was
                // set LAST into the respective cache slot
                let cached = reinit_as.as_deref().unwrap_or(l).contains(" cached ");
                let funder_slot = is_init || l.contains(" normalize ") || l.contains(" receive ");
                let last_set = if funder_slot { case.funder_sets.last().map(|(i, _)| *i) } else { case.recipient_sets.last().copied() };
                let other = if cached { last_set.map(|i| before[i].key) } else { case.funder.as_ref().map(|(i, _)| before[*i].key) };
                let head = ans.split(" cpis=").next().unwrap_or("").to_string();
                rec.bump(&format!("{}:{}", if is_init { "init" } else if is_set { "set" } else { "clean" }, head));
                if is_init {
                    failed_init = None;
                    let l: &str = reinit_as.as_deref().unwrap_or(l);
                    if let (Some(op), true) = (parse_init(l), ans.starts_with("err:")) {
                        let t0 = find(&before, &op.tgt).clone();
                        if t0.owner != SYS || !t0.data.is_empty() {
                            failed_init = Some((op.tgt, t0));
                        }
                    }
                }
                if is_set {
                    oracle_set(rec, case.rent, l, &ans, &before, &after);
                } else if is_init {
                    // cached funder: the payer is the cached one (same declared account)
                    let no_funder = cached && case.funder_sets.is_empty();
                    let funder_seeded = if cached { case.funder_sets.last().is_some_and(|(_, f)| f.is_seeded()) } else { case.funder.as_ref().is_some_and(|(_, f)| f.is_seeded()) };
                    oracle_init(rec, case.rent, other, funder_seeded, no_funder, reinit_as.as_deref().unwrap_or(l), &ans, &before, &after);
                } else {
                    let cache_hit = !cached || last_set.is_some();
                    let other_seeded = if cached { case.funder_sets.last().is_some_and(|(_, f)| f.is_seeded()) } else { case.funder.as_ref().is_some_and(|(_, f)| f.is_seeded()) };
                    oracle_clean(rec, case.rent, other, cache_hit, other_seeded, l, &ans, &before, &after);
                }
                if ans.contains("cpis=") && !ans.ends_with("cpis=-") || ans.starts_with("err") || ans.starts_with("panic") || before != after {
                    nontrivial = true;
                }
            }
        }
    }
    if nontrivial {
        rec.mark_nontrivial();
    }
}

// -------------------------------------------------------------------------------------- generators

pub const SYS: Pubkey = Pubkey::new_from_array([0; 32]);

fn key(n: u64) -> Pubkey {
    hx_native::key_from(0xC12_0000 + n)
}

/// `h` lines for `find_program_address(seeds)`: bumps 255 down to the found one.
pub fn h_lines(seeds: &[Vec<u8>]) -> (Vec<String>, Option<(Pubkey, u8)>) {
    let mut out = vec![];
    if eff_seeds(seeds).len() + 1 > 16 || seeds.iter().any(|s| s.len() > 32) {
        return (out, None);
    }
    let flat: Vec<u8> = seeds.concat();
    for bump in (1..=255u8).rev() {
        let mut f = flat.clone();
        f.push(bump);
        match real_hash(&f) {
            Some(Some(k)) => {
                out.push(format!("h {} {}", hex(&f), khex(&k)));
                return (out, Some((k, bump)));
            }
            _ => out.push(format!("h {} -", hex(&f))),
        }
    }
    (out, None)
}

fn acct_line(k: &Pubkey, lam: u64, owner: &Pubkey, data: &[u8], s: bool, w: bool) -> String {
    format!("acct {} {} {} {} {} {}", khex(k), lam, khex(owner), hex(data), s as u8, w as u8)
}

const RENTS: [(u64, u64); 3] = [(3480, 2), (1, 1), (0, 2)];

fn values(ty: &str, rng: &mut Rng, n: usize) -> Vec<Option<Vec<u8>>> {
    if ty == "bunit" {
        return vec![None, Some(vec![])];
    }
    let mut v = vec![None];
    for i in 0..n {
        v.push(Some(match ty {
            "zc16" => rng.bytes(16),
            "zclist" => {
                let k = if i % 2 == 0 { 3 } else { 17 };
                [(k as u32).to_le_bytes().to_vec(), rng.bytes(k)].concat()
            }
            _ => {
                let k = [0usize, 1, 5, 40][i % 4];
                [rng.bytes(8), (k as u32).to_le_bytes().to_vec(), rng.bytes(k)].concat()
            }
        }));
    }
    v
}

fn body_for(ty: &str, rng: &mut Rng) -> Vec<u8> {
    values(ty, rng, 1).pop().unwrap().unwrap()
}

/// One C12 case. `tstate` 0..=11 picks the target's initial state.
#[allow(clippy::too_many_arguments)]
fn c12_case(id: usize, rng: &mut Rng, rent: (u64, u64), ty: &str, if_needed: bool, tstate: usize, seeded_target: bool, seeded_funder: bool, cached: bool, val: &Option<Vec<u8>>, twist: usize) -> (String, Vec<String>) {
    let mut lines = vec![format!("rent {} {}", rent.0, rent.1)];
    let enc_len = val.as_ref().map(|v| v.len()).unwrap_or(default_value(ty).len());
    let space = W + enc_len;
    let rmin = rent_min(rent, space);
    // funder
    let fseeds: Vec<Vec<u8>> = vec![b"fund".to_vec(), (id as u32).to_le_bytes().to_vec(), vec![]];
    let (fkey, fseed_str) = if seeded_funder {
        let (hl, found) = h_lines(&fseeds);
        lines.extend(hl);
        (found.unwrap().0, seeds_str(&fseeds))
    } else {
        (key(id as u64 * 4), "none".to_string())
    };
    // target
    let tseeds: Vec<Vec<u8>> = if twist == 12 {
        // 15 real seeds + the placeholder: the runtime maximum next to the bump (fix 801ca3a)
        let mut v: Vec<Vec<u8>> = (0..15u8).map(|i| vec![i, (id % 251) as u8]).collect();
        v.push(vec![]);
        v
    } else if twist == 5 { vec![b"tgt".to_vec(), (id as u64).to_le_bytes().to_vec()] } else { vec![b"tgt".to_vec(), (id as u64).to_le_bytes().to_vec(), vec![]] };
    let (tkey, tseed_str) = if seeded_target {
        let (hl, found) = h_lines(&tseeds);
        lines.extend(hl);
        if twist == 6 {
            // seeds that derive a different address
            let alt: Vec<Vec<u8>> = vec![b"alt".to_vec(), (id as u64).to_le_bytes().to_vec(), vec![]];
            lines.extend(h_lines(&alt).0);
            (found.unwrap().0, seeds_str(&alt))
        } else {
            (found.unwrap().0, seeds_str(&tseeds))
        }
    } else {
        (key(id as u64 * 4 + 1), "none".to_string())
    };
    let disc = disc_of(ty);
    let body = body_for(ty, rng);
    let (tlam, towner, tdata): (u64, Pubkey, Vec<u8>) = match tstate {
        0 => (0, SYS, vec![]),
        1 => (rmin / 2, SYS, vec![]),
        2 => (rmin, SYS, vec![]),
        3 => (rmin + 1 + rng.below(1000), SYS, vec![]),
        4 => (rent_min(rent, W + body.len()), PROGRAM_ID, vec![0; W + body.len()]),
        5 => (rent_min(rent, W + body.len()), PROGRAM_ID, [&disc[..], &body[..]].concat()),
        6 => (rent_min(rent, W + body.len()), PROGRAM_ID, [&[9u8; 8][..], &body[..]].concat()),
        7 => (rent_min(rent, 3), THIRD_ID, vec![1, 2, 3]),
        8 => (rent_min(rent, 30), THIRD_ID, rng.bytes(30).iter().map(|b| b | 1).collect()),
        9 => (rent_min(rent, 30), THIRD_ID, vec![0; 30]),
        10 => (rent_min(rent, 80), SYS, rng.bytes(80)),
        11 => (0, PROGRAM_ID, [&disc[..], &body[..]].concat()),
        12 => (rent_min(rent, 5), THIRD_ID, vec![0; 5]),
        _ => (1, SYS, vec![]),
    };
    // twists: 1 target not writable, 2 target not signer (unseeded), 3 funder poor, 4 funder not signer (plain), 5 seeds without the empty slot, 6 funder == wrong seeds
    let twritable = twist != 1;
    let tsigner = !seeded_target && twist != 2;
    let flam = if twist == 3 { rmin.saturating_sub(tlam).saturating_sub(1) } else { 1_000_000_000_000 };
    let fsigner = !seeded_funder && twist != 4;
    // 8 funder owned by a third program, 9 funder carries data, 10 the target funds itself
    let fowner = if twist == 8 { THIRD_ID } else { SYS };
    let fdata: Vec<u8> = if twist == 9 { vec![1, 2, 3, 4] } else { vec![] };
    lines.push(acct_line(&fkey, flam, &fowner, &fdata, fsigner, true));
    lines.push(acct_line(&tkey, tlam, &towner, &tdata, tsigner, twritable));
    lines.push(acct_line(&key(id as u64 * 4 + 2), 777, &THIRD_ID, &[7, 7, 7], false, true));
    // carriers: every other case boxes the funder; the target cycles Init<X> / Box<Init<X>> / Init<Box<X>>
    let fbox = if id % 2 == 1 { " box" } else { "" };
    let tcar = ["", " box", " ibox"][(id / 2) % 3];
    if twist == 10 && !seeded_target {
        lines.push(format!("funder {} none{fbox}", khex(&tkey)));
    } else {
        lines.push(format!("funder {} {}{fbox}", khex(&fkey), fseed_str));
    }
    if cached && twist == 11 {
        // the funder cache was first set to a decoy, then to the real funder (the last one counts)
        let decoy = key(id as u64 * 4 + 3);
        let at = lines.iter().position(|l| l.starts_with("funder ")).unwrap();
        lines.insert(at, acct_line(&decoy, 4242, &SYS, &[], true, true));
        lines.insert(at + 1, format!("funder {} none", khex(&decoy)));
        lines.insert(at + 2, "cache funder".into());
    }
    if cached && twist != 7 {
        lines.push("cache funder".into());
    }
    let vstr = val.as_ref().map(|v| hex(v)).unwrap_or("default".into());
    let init = format!("init {ty} {} {} {} {} {}{tcar}", if if_needed { "ifneeded" } else { "create" }, khex(&tkey), tseed_str, if cached { "cached" } else { "arg" }, vstr);
    let how = if cached { "cached" } else { "arg" };
    lines.push(init.clone());
    // repeated validation of the SAME wrapper and of a clone: after a creation the account is found
    // initialized and `needed_init()` must say so (needed -> not needed; not needed -> not needed)
    lines.push(format!("reinit ifneeded {how}"));
    lines.push("needed".into());
    lines.push(format!("reinit ifneeded {how} clone"));
    lines.push("needed".into());
    lines.push("world".into());
    lines.push("cleanup".into());
    lines.push("world".into());
    // history: a second create must fail, then a retry with if-needed on the same wrapper; a second
    // if-needed must leave it untouched, then a failing create on that wrapper keeps the flag
    lines.push(init.replace(" ifneeded ", " create "));
    lines.push(format!("reinit ifneeded {how}"));
    lines.push("needed".into());
    lines.push(init.replace(" create ", " ifneeded "));
    lines.push(format!("reinit create {how} clone"));
    lines.push("needed".into());
    lines.push("world".into());
    let header = format!("case {id} c12 {ty} {} tstate={tstate} st={} sf={} cached={} twist={twist} rent={}x{}", if if_needed { "ifneeded" } else { "create" }, seeded_target as u8, seeded_funder as u8, cached as u8, rent.0, rent.1);
    (header, lines)
}

const C12_RULE: &str = "grid: target state (0 lamports; pre-funded below/at/above rent; owned by the program with zero / set / wrong discriminant; owned by a third program with data shorter / longer than the discriminant, zero or non-zero; System-owned with data; program-owned with 0 lamports) x funder (plain signer, seeded signer; argument or context cache) x account type (zero-copy pod, zero-copy list, borsh, borsh with an EMPTY encoding) x carrier (funder plain / Box<funder>; target Init<X> / Box<Init<X>> / Init<Box<X>>) x Create / CreateIfNeeded x initial values (default + random) x 3 rent parameter sets x seeded / keypair target, each followed by the set's default cleanup (also after a FAILED init: the account must be left exactly as it was) and a second Create and CreateIfNeeded on the result; repeated validation of the same Init wrapper and of clones of it (needed -> not needed, not needed -> not needed, failed create -> retry, if-needed -> failing create), observing needed_init() after each call; plus twists (read-only target, unsigned target, poor funder, unsigned funder, seeds without the bump slot, seeds of another address, missing funder cache, funder owned by a third program, funder with data, target funding itself, funder cache set twice, 15-seed seeded target) and PRNG-drawn mixes. A case is non-trivial when an init op issued a CPI, returned an error / panicked, or changed the world; distinct by case text hash.";

pub fn run_c12(args: &Args) {
    let mut rec = Recorder::new(C12_RULE);
    if let Some(cases) = args.replay_cases() {
        for c in cases {
            run_case(&mut rec, &c[0], &c[1..]);
        }
        rec.finish(args);
        return;
    }
    run_corpus(&mut rec, "C12");
    let mut rng = Rng::new(args.seed);
    let thorough = args.thorough();
    let mut id = 0usize;
    let nvals = if thorough { 8 } else { 2 };
    for rent in RENTS {
        for ty in ["zc16", "zclist", "borsh", "bunit"] {
            for if_needed in [false, true] {
                for tstate in 0..=13 {
                    for (seeded_target, seeded_funder, cached) in [(false, false, false), (true, false, true), (false, true, false), (true, true, false), (true, true, true)] {
                        for val in values(ty, &mut rng, nvals) {
                            id += 1;
                            let (h, l) = c12_case(id, &mut rng, rent, ty, if_needed, tstate, seeded_target, seeded_funder, cached, &val, 0);
                            run_case(&mut rec, &h, &l);
                            rec.sample_current(3);
                        }
                    }
                }
            }
        }
    }
    // twists and PRNG-drawn mixes
    let n = if thorough { 40000 } else { 900 };
    for i in 0..n {
        id += 1;
        let rent = *rng.pick(&RENTS);
        let ty = *rng.pick(&["zc16", "zclist", "borsh", "bunit"]);
        let vals = values(ty, &mut rng.fork(), 4);
        let val = rng.pick(&vals).clone();
        let twist = if i % 3 == 0 { 0 } else { 1 + (rng.below(12) as usize) };
        let (h, l) = c12_case(id, &mut rng.fork(), rent, ty, rng.chance(1, 2), rng.below(14) as usize, rng.chance(1, 2), rng.chance(1, 2), rng.chance(1, 2), &val, twist);
        run_case(&mut rec, &h, &l);
        rec.sample_current(5);
    }
    rec.finish(args);
}

fn run_corpus(rec: &mut Recorder, prop: &str) {
    let dir = std::path::Path::new(env!("CARGO_MANIFEST_DIR")).join("../../corpus").join(prop);
    let Ok(rd) = std::fs::read_dir(&dir) else { return };
    let mut files: Vec<_> = rd.filter_map(|e| e.ok()).map(|e| e.path()).filter(|p| p.extension().map(|x| x == "replay").unwrap_or(false)).collect();
    files.sort();
    for f in files {
        let a = Args { prop: prop.into(), tier: "quick".into(), seed: 0, out: ".".into(), replay: Some(f) };
        for c in a.replay_cases().unwrap_or_default() {
            if c[0].starts_with("case") {
                run_case(rec, &c[0], &c[1..]);
                rec.bump("corpus_cases");
            }
        }
    }
}

// --- C13

#[allow(clippy::too_many_arguments)]
fn c13_case(id: usize, rng: &mut Rng, rent: (u64, u64), ty: &str, op: &str, bal: usize, size: usize, how: usize, seeded_other: bool, twist: usize) -> (String, Vec<String>) {
    let mut lines = vec![format!("rent {} {}", rent.0, rent.1)];
    let disc = disc_of(ty);
    // target data of the requested size
    let tdata: Vec<u8> = if ty == "borsh" {
        let k = size.saturating_sub(W + 12);
        [&disc[..], &rng.bytes(8)[..], &(k as u32).to_le_bytes()[..], &rng.bytes(k)[..]].concat()
    } else {
        let mut d = disc.to_vec();
        d.extend(rng.bytes(size.saturating_sub(W)));
        d.truncate(size);
        d
    };
    let newval: Option<Vec<u8>> = if ty == "borsh" && twist == 1 {
        let k = rng.below(60) as usize;
        Some([&rng.bytes(8)[..], &(k as u32).to_le_bytes()[..], &rng.bytes(k)[..]].concat())
    } else {
        None
    };
    let final_len = newval.as_ref().map(|v| if tdata.len() > W { W + v.len() } else { tdata.len() }).unwrap_or(tdata.len());
    let rmin = rent_min(rent, if op == "close" { tdata.len() } else { final_len });
    let by_lam = 777u64;
    let mut other_lam: u64 = if twist == 2 { rng.below(3) } else { 5_000_000_000 };
    let half = 1u64 << 63;
    let tlam: u64 = match bal {
        0 => 0,
        1 => 1,
        2 => rmin.saturating_sub(1),
        3 => rmin,
        4 => rmin + 1,
        5 => rmin * 2 + 3,
        6 => u64::MAX - other_lam - by_lam,
        // the excess straddles 2^63 (sign bit of a signed distance)
        7 => rmin + half - 1,
        8 => rmin + half,
        9 => rmin + half + 1,
        // u64::MAX - k with the supply still below 2^64: the counterpart holds almost nothing
        10 => {
            other_lam = rng.below(3);
            u64::MAX - by_lam - other_lam - rng.below(1000)
        }
        // the counterpart is the one near the top: crediting it brings it to (almost) u64::MAX
        11 => {
            let t = rmin * 2 + 3;
            other_lam = u64::MAX - by_lam - t;
            t
        }
        // ... and a funder near the top paying a top-up
        12 => {
            let t = rmin.saturating_sub(1);
            other_lam = u64::MAX - by_lam - t;
            t
        }
        _ => rng.below(rmin * 3 + 10),
    };
    let oseeds: Vec<Vec<u8>> = vec![b"other".to_vec(), (id as u32).to_le_bytes().to_vec(), vec![]];
    let (okey, oseed_str) = if seeded_other {
        let (hl, found) = h_lines(&oseeds);
        lines.extend(hl);
        (found.unwrap().0, seeds_str(&oseeds))
    } else {
        (key(id as u64 * 4), "none".to_string())
    };
    let tkey = key(id as u64 * 4 + 1);
    lines.push(acct_line(&okey, other_lam, &SYS, &[], !seeded_other && twist != 3, true));
    lines.push(acct_line(&tkey, tlam, &PROGRAM_ID, &tdata, false, true));
    lines.push(acct_line(&key(id as u64 * 4 + 2), by_lam, &THIRD_ID, &[7, 7, 7], false, true));
    let funder_op = op == "normalize" || op == "receive";
    let obox = if id % 2 == 1 { " box" } else { "" };
    if how == 4 {
        // the cache slot is set twice: first a decoy, then the real counterpart (the last one counts)
        let decoy = key(id as u64 * 4 + 3);
        lines.push(acct_line(&decoy, 4242, &SYS, &[], true, true));
        lines.push(format!("funder {} none", khex(&decoy)));
        lines.push(format!("cache {}", if funder_op { "funder" } else { "recipient" }));
        lines.push(format!("funder {} {}{obox}", khex(&okey), oseed_str));
        lines.push(format!("cache {}", if funder_op { "funder" } else { "recipient" }));
    } else if how != 2 {
        lines.push(format!("funder {} {}{obox}", khex(&okey), oseed_str));
    }
    if how == 1 {
        lines.push(format!("cache {}", if funder_op { "funder" } else { "recipient" }));
    }
    if how == 3 {
        // the wrong cache is filled
        lines.push(format!("cache {}", if funder_op { "recipient" } else { "funder" }));
    }
    lines.push(format!("clean {ty} {op} {} {} {}", khex(&tkey), if how == 0 { "arg" } else { "cached" }, newval.as_ref().map(|v| hex(v)).unwrap_or("keep".into())));
    lines.push("world".into());
    // history: the same cleanup again (idempotent for normalize / refund / receive; close of a closed account)
    lines.push(format!("clean {ty} {op} {} {} keep", khex(&tkey), if how == 0 { "arg" } else { "cached" }));
    lines.push("world".into());
    let header = format!("case {id} c13 {ty} {op} bal={bal} size={size} how={how} so={} twist={twist} rent={}x{}", seeded_other as u8, rent.0, rent.1);
    (header, lines)
}

/// A derived-set case: funder and recipient both cached by the derive-generated validation.
fn c13_set_case(id: usize, rng: &mut Rng, rent: (u64, u64), op: &str, order: &str, bal: usize, size: usize, twist: usize) -> (String, Vec<String>) {
    let mut lines = vec![format!("rent {} {}", rent.0, rent.1)];
    let mut tdata = if twist == 4 { vec![9u8; 8] } else { DISC_ZC16.to_vec() };
    tdata.extend(rng.bytes(size.saturating_sub(W)));
    let rmin = rent_min(rent, tdata.len());
    let (f_lam, r_lam, by_lam) = (5_000_000_000u64, 1_000u64, 777u64);
    let tlam: u64 = match bal {
        0 => 0,
        1 => 1,
        2 => rmin.saturating_sub(1),
        3 => rmin,
        4 => rmin + 1,
        5 => rmin * 2 + 3,
        6 => u64::MAX - f_lam - r_lam - by_lam,
        7 => rmin + (1u64 << 63) - 1,
        8 => rmin + (1u64 << 63),
        _ => rmin + (1u64 << 63) + 1,
    };
    let fkey = key(id as u64 * 4);
    let rkey = if twist == 1 { fkey } else { key(id as u64 * 4 + 3) };
    let tkey = key(id as u64 * 4 + 1);
    lines.push(acct_line(&fkey, f_lam, &SYS, &[], twist != 2, true));
    if twist != 1 {
        lines.push(acct_line(&rkey, r_lam, &SYS, &[], false, twist != 3));
    }
    lines.push(acct_line(&tkey, tlam, &PROGRAM_ID, &tdata, false, true));
    lines.push(acct_line(&key(id as u64 * 4 + 2), by_lam, &THIRD_ID, &[7, 7, 7], false, true));
    let set = format!("set {order} {op} {} {} {}", khex(&fkey), khex(&rkey), khex(&tkey));
    lines.push(set.clone());
    lines.push("world".into());
    lines.push(set);
    lines.push("world".into());
    (format!("case {id} c13 set {order} {op} bal={bal} size={size} twist={twist} rent={}x{}", rent.0, rent.1), lines)
}

const C13_RULE: &str = "grid: balance (0, 1, min-1, min, min+1, 2*min+3, 2^64-1-others, min+2^63-1, min+2^63, min+2^63+1, u64::MAX-k with a near-empty counterpart, counterpart near u64::MAX credited / paying) x data size (0 = lamport-only account, W, W+1, 100, 10000; borsh: 0, W, W+12.. ) x 3 rent parameter sets x funder/recipient (explicit argument, context cache set once, set twice with different accounts, missing cache, wrong cache filled) x plain / seeded funder, bare or behind Box<T> x cleanup argument (Normalize, Refund, Receive, Close) x Account / BorshAccount (with and without a changed value), each followed by the same cleanup again; derived account sets that cache BOTH a funder and a distinct recipient through the derive-generated validation, in both declaration orders (funder first / recipient first), x the four cached cleanup arguments x balances x sizes (plus funder == recipient, unsigned funder, read-only recipient, wrong discriminant); plus PRNG-drawn mixes with poor / unsigned funders. A case is non-trivial when a clean op issued a CPI, returned an error / panicked, or changed the world; distinct by case text hash.";

pub fn run_c13(args: &Args) {
    let mut rec = Recorder::new(C13_RULE);
    if let Some(cases) = args.replay_cases() {
        for c in cases {
            run_case(&mut rec, &c[0], &c[1..]);
        }
        rec.finish(args);
        return;
    }
    run_corpus(&mut rec, "C13");
    let mut rng = Rng::new(args.seed);
    let thorough = args.thorough();
    let mut id = 0usize;
    for rent in RENTS {
        for ty in ["zc16", "borsh"] {
            for op in ["normalize", "refund", "receive", "close"] {
                for bal in 0..=12 {
                    for size in [0, W, W + 1, 100, 10_000] {
                        for (how, seeded_other) in [(0, false), (1, false), (2, false), (0, true), (1, true), (4, false), (4, true)] {
                            id += 1;
                            let size = if ty == "borsh" && size < W + 12 { if size == W || size == 0 { size } else { W + 12 } } else if ty == "borsh" && size == 10_000 { 900 } else { size };
                            let (h, l) = c13_case(id, &mut rng, rent, ty, op, bal, size, how, seeded_other, 0);
                            run_case(&mut rec, &h, &l);
                            rec.sample_current(3);
                        }
                    }
                }
            }
        }
    }
    for rent in RENTS {
        for op in ["normalize", "refund", "receive", "close"] {
            for order in ["fr", "rf"] {
                for bal in 0..=9 {
                    for size in [W, 24, 100] {
                        id += 1;
                        let (h, l) = c13_set_case(id, &mut rng, rent, op, order, bal, size, 0);
                        run_case(&mut rec, &h, &l);
                        rec.sample_current(4);
                    }
                }
                for twist in 1..=4 {
                    id += 1;
                    let (h, l) = c13_set_case(id, &mut rng, rent, op, order, 1 + twist, 24, twist);
                    run_case(&mut rec, &h, &l);
                }
            }
        }
    }
    let n = if thorough { 60000 } else { 1200 };
    for _ in 0..n {
        id += 1;
        let rent = *rng.pick(&RENTS);
        let ty = *rng.pick(&["zc16", "borsh"]);
        let op = *rng.pick(&["normalize", "refund", "receive", "close"]);
        let size = if ty == "borsh" { W + 12 + rng.below(200) as usize } else if rng.chance(1, 8) { 0 } else { rng.below(300) as usize };
        let (h, l) = if rng.chance(1, 5) {
            c13_set_case(id, &mut rng.fork(), rent, op, if rng.chance(1, 2) { "fr" } else { "rf" }, rng.below(10) as usize, W + rng.below(120) as usize, rng.below(5) as usize)
        } else {
            c13_case(id, &mut rng.fork(), rent, ty, op, rng.below(8) as usize, size, rng.below(4) as usize, rng.chance(1, 3), rng.below(4) as usize)
        };
        run_case(&mut rec, &h, &l);
        rec.sample_current(5);
    }
    rec.finish(args);
}
