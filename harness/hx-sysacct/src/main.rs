//! Correspondence harness for C12 (account initialization) and C13 (rent adjustment / close):
//! native `AccountInfo`s, hook H1 (every CPI is executed by the real System program through
//! mollusk-svm and written back) and hook H2 (rent sysvar injection).
mod exec;
mod ops;
pub mod progs;
pub use progs::StarFrameDeclaredProgram;

fn main() {
    let args = hx_common::Args::parse();
    hx_common::quiet_panics();
    std::env::set_var("RUST_LOG", "off");
    match args.prop.as_str() {
        "C12" => ops::run_c12(&args),
        "C13" => ops::run_c13(&args),
        other => panic!("hx-sysacct: unknown property {other}"),
    }
}
