//! Enumeration of the declaration grammar: the full grid (thorough tier), the stratified sample
//! (quick tier), PRNG-driven declarations outside the grid, and the documented forms.
use crate::decl::{Decl, Kind, Mac, CONCRETE_FTYS, INT_HINTS};
use hx_common::Rng;

fn v(xs: &[&str]) -> Vec<String> {
    xs.iter().map(|s| s.to_string()).collect()
}
fn vv(xs: &[&[&str]]) -> Vec<Vec<String>> {
    xs.iter().map(|a| v(a)).collect()
}

type Reprs = &'static [&'static [&'static str]];

/// repr attribute lists for structs / unions (each entry: list of attributes, each a list of hints)
pub const STRUCT_REPRS: &[Reprs] = &[
    &[],
    &[&["C"]],
    &[&["transparent"]],
    &[&["packed"]],
    &[&["packed1"]],
    &[&["packed2"]],
    &[&["packed4"]],
    &[&["align1"]],
    &[&["align2"]],
    &[&["align8"]],
    &[&["u8"]],
    &[&["u16"]],
    &[&["i8"]],
    &[&["C", "packed"]],
    &[&["C"], &["packed"]],
    &[&["packed"], &["C"]],
    &[&["C", "packed2"]],
    &[&["C", "align4"]],
    &[&["C"], &["align4"]],
    &[&["u8", "align2"]],
    &[&["align2", "align4"]],
    &[&["align1"], &["align1"]],
    &[&["align1"], &["align2"]],
    &[&["align2"], &["align1"]],
    &[&["C", "align1"], &["align1", "align2"]],
    &[&["packed", "packed2"]],
    &[&["packed"], &["packed2"]],
    &[&["packed"], &["packed1"]],
    &[&["align2", "packed"]],
    &[&["packed"], &["align2"]],
    &[&["packed"], &["align1"]],
    &[&["C", "C"]],
    &[&["C"], &["C"]],
    &[&["C", "transparent"]],
    &[&["transparent"], &["C"]],
    &[&["transparent", "packed"]],
    &[&["packed3"]],
    &[&["align3"]],
    &[&["C", "u8"]],
    // spellings rustc accepts but the macro's parser does not (`Rust` keyword, duplicated `C`)
    &[&["Rust"]],
    &[&["Rust", "align2"]],
    &[&["Rust", "align1"]],
    &[&["Rust", "packed"]],
    &[&["Rust", "packed2"]],
    &[&["Rust"], &["align2"]],
    &[&["align2"], &["Rust"]],
    &[&["align1"], &["Rust", "align2"]],
    &[&["C"], &["Rust", "align2"]],
    &[&["packed"], &["Rust"]],
    &[&["Rust", "C"]],
    &[&["C", "C", "align2"]],
    &[&["C", "C", "packed"]],
    &[&["C"], &["C", "C", "align4"]],
];

pub const ENUM_REPRS: &[Reprs] = &[
    &[],
    &[&["u8"]],
    &[&["i8"]],
    &[&["u16"]],
    &[&["C"]],
    &[&["C", "u8"]],
    &[&["u8"], &["C"]],
    &[&["u8", "align1"]],
    &[&["u8", "align2"]],
    &[&["u8"], &["align4"]],
    &[&["u8", "packed"]],
    &[&["transparent"]],
    &[&["u8", "u8"]],
    &[&["u8"], &["u8"]],
    &[&["u8", "align1", "align1"]],
    &[&["u8"], &["align1"]],
    &[&["u8", "align1"], &["align2"]],
    &[&["align2"], &["u8", "align1"]],
    &[&["Rust"]],
    &[&["Rust", "u8"]],
    &[&["u8"], &["Rust"]],
    &[&["u8"], &["Rust", "align2"]],
    &[&["u8"], &["Rust", "align1"]],
    &[&["Rust", "align2"], &["u8"]],
];

const GENERIC_REPRS: &[Reprs] = &[
    &[],
    &[&["C"]],
    &[&["transparent"]],
    &[&["packed"]],
    &[&["packed2"]],
    &[&["align1"]],
    &[&["align2"]],
    &[&["C", "packed"]],
    &[&["C"], &["packed"]],
    &[&["C", "packed2"]],
    &[&["u8"]],
    &[&["packed"], &["align2"]],
    &[&["Rust", "align2"]],
    &[&["C"], &["Rust", "align2"]],
];

const ZC_REPRS: &[Reprs] =
    &[&[], &[&["C"]], &[&["packed"]], &[&["C", "packed"]], &[&["align2"]], &[&["packed2"]], &[&["transparent"]], &[&["u8"]], &[&["Rust"]], &[&["Rust", "align2"]]];

const L3: &[&[&str]] = &[
    &["u8", "u16", "u8"],
    &["u16", "u8", "u8"],
    &["u8", "u8", "u16"],
    &["u8", "unit", "phantom"],
    &["unit", "u64", "u8"],
    &["bool", "pv64", "ne"],
    &["u8", "u64", "u16"],
    &["np", "u8", "bool"],
    &["pubkey", "u8", "u64"],
    &["phantom", "phantom", "unit"],
    &["na2", "u8", "u8"],
    &["u8x3", "u16", "bool"],
    &["i8", "ne", "np"],
    &["u32", "u8", "u8"],
    &["u8", "u32", "u16"],
];

fn field_lists(core: &[&str], l3: usize) -> Vec<Vec<String>> {
    let mut out = vec![vec![]];
    for t in CONCRETE_FTYS {
        out.push(v(&[t]));
    }
    for a in core {
        for b in core {
            out.push(v(&[a, b]));
        }
    }
    for t in L3.iter().take(l3) {
        out.push(v(t));
    }
    out
}

const GENERIC_FIELDS: &[&[&str]] = &[
    &["T"],
    &["T", "T"],
    &["u8", "T"],
    &["T", "u16"],
    &["Tx2"],
    &["phT"],
    &["T", "phT"],
    &["phT", "u8"],
    &["u8"],
    &["T", "na2"],
    &["Tx2", "unit"],
];

const ENUM_VARIANTS: &[&[&[&str]]] = &[
    &[],
    &[&[]],
    &[&[], &[]],
    &[&[], &[], &[]],
    &[&["u8"]],
    &[&[], &["u8"]],
    &[&["u16"]],
    &[&[], &["u16"]],
    &[&["pv64"], &[]],
    &[&["u8", "u16"]],
    &[&["u8", "pv64"], &["bool"]],
    &[&["unit"]],
    &[&["phantom"], &[]],
    &[&["u64"], &["u8"]],
    &[&["na2"]],
    &[&["ne"], &["np", "u8"]],
    &[&["u8"], &["bool"]],
    &[&["bool", "u8"], &["u8", "ne"]],
];

const GENERIC_ENUM_VARIANTS: &[&[&[&str]]] = &[&[&["T"]], &[&[], &["T"]], &[&[], &[]], &[&["phT"]], &[&[], &["phT"]]];

const TAILS: &[&[&str]] = &[
    &["list"],
    &["rem"],
    &["list", "rem"],
    &["rem", "list"],
    &["list", "list"],
    &["nestrem"],
    &["nestrem", "list"],
    &["nestlist", "rem"],
    &["list", "nestrem"],
    &["rem", "rem"],
    &["list", "rem", "list"],
];

fn mk(mac: Mac, kind: Kind, generic: bool, attrs: &[&[&str]], fields: Vec<String>, variants: Vec<Vec<String>>, tail: Vec<String>) -> Decl {
    Decl { mac, kind, generic, attrs: vv(attrs), fields, variants, tail }
}

/// Strata of the full grid, in a fixed order: (stratum name, declarations).
pub fn grid() -> Vec<(&'static str, Vec<Decl>)> {
    let mut out: Vec<(&'static str, Vec<Decl>)> = vec![];
    // ---- derive(Align1) on structs / unions / tuple structs
    let fl = field_lists(&["u8", "unit", "u16", "u64", "pv64", "na2"], L3.len());
    let mut s = vec![];
    for r in STRUCT_REPRS {
        for kind in [Kind::Struct, Kind::Union] {
            for f in &fl {
                s.push(mk(Mac::Align1, kind, false, r, f.clone(), vec![], vec![]));
            }
        }
        for f in fl.iter().take(15).chain(fl.iter().skip(15 + 36).take(3)) {
            s.push(mk(Mac::Align1, Kind::Tuple, false, r, f.clone(), vec![], vec![]));
        }
    }
    out.push(("align1/struct", s));
    let mut s = vec![];
    for r in GENERIC_REPRS {
        for kind in [Kind::Struct, Kind::Tuple, Kind::Union] {
            for f in GENERIC_FIELDS {
                s.push(mk(Mac::Align1, kind, true, r, v(f), vec![], vec![]));
            }
        }
    }
    out.push(("align1/generic", s));
    let mut s = vec![];
    for r in ENUM_REPRS {
        for vs in ENUM_VARIANTS {
            s.push(mk(Mac::Align1, Kind::Enum, false, r, vec![], vv(vs), vec![]));
        }
    }
    for r in [&[&["u8"][..]][..], &[][..]] {
        for vs in GENERIC_ENUM_VARIANTS {
            s.push(mk(Mac::Align1, Kind::Enum, true, r, vec![], vv(vs), vec![]));
        }
    }
    out.push(("align1/enum", s));
    // ---- #[zero_copy]
    let zfl = field_lists(&["u8", "bool", "u16", "unit", "na2"], 8);
    let mut s = vec![];
    for mac in [Mac::Zc, Mac::ZcPod, Mac::ZcSkip] {
        for r in ZC_REPRS {
            for f in &zfl {
                s.push(mk(mac, Kind::Struct, false, r, f.clone(), vec![], vec![]));
            }
        }
        for f in &zfl {
            s.push(mk(mac, Kind::Tuple, false, &[], f.clone(), vec![], vec![]));
        }
    }
    out.push(("zc/struct", s));
    let mut s = vec![];
    for mac in [Mac::Zc, Mac::ZcPod, Mac::ZcSkip] {
        for f in [&["u8"][..], &["u8", "u16"][..]] {
            s.push(mk(mac, Kind::Union, false, &[], v(f), vec![], vec![]));
        }
        for f in [&["T"][..], &["T", "u8"][..], &["phT", "u8"][..]] {
            s.push(mk(mac, Kind::Struct, true, &[], v(f), vec![], vec![]));
        }
        for r in [&[][..], &[&["u8"][..]][..], &[&["u16"][..]][..], &[&["u8", "align2"][..]][..], &[&["C"][..]][..]] {
            for vs in ENUM_VARIANTS.iter().take(6).chain(ENUM_VARIANTS.iter().skip(14)) {
                s.push(mk(mac, Kind::Enum, false, r, vec![], vv(vs), vec![]));
            }
        }
    }
    out.push(("zc/other", s));
    // ---- #[unsized_type]: sized part + zero-sized-type placement
    let ufl = field_lists(&["u8", "bool", "unit", "u16"], 5);
    let mut s = vec![];
    for f in &ufl {
        for t in TAILS {
            s.push(mk(Mac::Unsized, Kind::Struct, false, &[], f.clone(), vec![], v(t)));
        }
    }
    for r in [&[&["C"][..]][..], &[&["packed"][..]][..], &[&["align2"][..]][..], &[&["C", "packed"][..]][..], &[&["Rust", "align2"][..]][..], &[&["Rust"][..]][..]] {
        for f in [&["u8"][..], &["u8", "bool"][..], &[][..]] {
            for t in [&["list"][..], &["rem"][..]] {
                s.push(mk(Mac::Unsized, Kind::Struct, false, r, v(f), vec![], v(t)));
            }
        }
    }
    for f in [&["u8"][..], &[][..]] {
        s.push(mk(Mac::Unsized, Kind::Tuple, false, &[], v(f), vec![], v(&["list"])));
    }
    // generic structs, with and without the `_generics` marker; a type with invalid bit patterns
    // (bool / checked enum) at the first, a middle and the last position of the sized part
    const GENERIC_SIZED: &[&[&str]] = &[
        &["T"],
        &["bool", "T"],
        &["T", "u8"],
        &["T", "bool"],
        &["phT", "u8"],
        &["phT", "bool"],
        &["u8"],
        &["T", "bool", "T"],
        &["bool", "T", "u8"],
        &["ne", "u8", "T"],
        &["u8", "bool", "T"],
        &["T", "u8", "ne"],
        &["bool", "ne", "T"],
        &["T", "T"],
        &["Tx2", "bool"],
        &["bool", "Tx2"],
    ];
    for mac in [Mac::Unsized, Mac::UnsizedNp] {
        for f in GENERIC_SIZED {
            for t in [&["list"][..], &["rem"][..], &["rem", "list"][..]] {
                s.push(mk(mac, Kind::Struct, true, &[], v(f), vec![], v(t)));
            }
        }
    }
    // `skip_phantom_generics` on non-generic structs is accepted and changes nothing
    for f in [&["bool", "u8"][..], &["u8", "bool"][..], &[][..], &["unit"][..], &["u16", "ne"][..]] {
        for t in [&["list"][..], &["rem", "list"][..]] {
            s.push(mk(Mac::UnsizedNp, Kind::Struct, false, &[], v(f), vec![], v(t)));
        }
    }
    s.push(mk(Mac::UnsizedNp, Kind::Struct, true, &[&["C"]], v(&["bool", "T"]), vec![], v(&["list"])));
    s.push(mk(Mac::UnsizedNp, Kind::Tuple, true, &[], v(&["bool", "T"]), vec![], v(&["list"])));
    out.push(("unsized", s));
    out
}

/// Quick-tier sample sizes per stratum.
pub fn quick_quota(stratum: &str) -> usize {
    match stratum {
        "align1/struct" => 1800,
        "align1/generic" => 400,
        "align1/enum" => 300,
        "zc/struct" => 650,
        "zc/other" => 200,
        "unsized" => 330,
        _ => 0,
    }
}

/// Declarations every run looks at: one per repr form with an align-1 and a wider field, the
/// boundary cases of each rule.
pub fn boundary() -> Vec<Decl> {
    let mut out = vec![];
    for r in STRUCT_REPRS {
        for f in [&["u8"][..], &["u16"][..]] {
            out.push(mk(Mac::Align1, Kind::Struct, false, r, v(f), vec![], vec![]));
        }
    }
    for r in ENUM_REPRS {
        out.push(mk(Mac::Align1, Kind::Enum, false, r, vec![], vv(&[&[], &[]]), vec![]));
    }
    out
}

/// (declaration, documented verdict: true = compiles)
pub fn documented() -> Vec<(Decl, bool)> {
    vec![
        // proc lib.rs: `#[zero_copy] struct MyStruct { pub field: u64 }`
        (mk(Mac::Zc, Kind::Struct, false, &[], v(&["u64"]), vec![], vec![]), true),
        // util.rs: `#[derive(Align1, ..)] #[repr(C, packed)] struct SomePackedThing { a: u32, b: u64 }`
        (mk(Mac::Align1, Kind::Struct, false, &[&["C", "packed"]], v(&["u32", "u64"]), vec![], vec![]), true),
        // lib.rs: `#[derive(Align1, Pod, ..)] #[repr(C, packed)] struct CounterAccount { authority: Pubkey }`
        (mk(Mac::Align1, Kind::Struct, false, &[&["C", "packed"]], v(&["pubkey"]), vec![], vec![]), true),
        // `#[derive(Align1)] struct UnCallable;`
        (mk(Mac::Align1, Kind::Struct, false, &[], vec![], vec![], vec![]), true),
        // map.rs: `#[derive(Align1)] #[repr(C)] struct ListItemSized<K, V> { key: K, value: V }`
        (mk(Mac::Align1, Kind::Struct, true, &[&["C"]], v(&["T", "T"]), vec![], vec![]), true),
        // packed_value.rs: `#[derive(Align1)] #[repr(C, packed)] struct PackedValue<T>(pub T);`
        (mk(Mac::Align1, Kind::Tuple, true, &[&["C", "packed"]], v(&["T"]), vec![], vec![]), true),
        // remaining_bytes.rs: `#[derive(Align1)] #[repr(transparent)] struct RemainingBytes([u8]);`
        (mk(Mac::Align1, Kind::Tuple, false, &[&["transparent"]], v(&["u8x3"]), vec![], vec![]), true),
        // `#[zero_copy(pod)]` struct
        (mk(Mac::ZcPod, Kind::Struct, false, &[], v(&["u64", "u8"]), vec![], vec![]), true),
        // `#[zero_copy(skip_packed)]`: "all fields must be Align1 if used"
        (mk(Mac::ZcSkip, Kind::Struct, false, &[], v(&["u8", "bool"]), vec![], vec![]), true),
        // "Works with structs and enums"
        (mk(Mac::Zc, Kind::Enum, false, &[&["u8"]], vec![], vv(&[&[], &[]]), vec![]), true),
        // proc lib.rs: `#[unsized_type] struct MyStruct { sized_field: u64, #[unsized_start] items: List<u8> }`
        (mk(Mac::Unsized, Kind::Struct, false, &[], v(&["u64"]), vec![], v(&["list"])), true),
        // proc lib.rs: `MyAccount { sized_field: u64, another_sized_field: bool, #[unsized_start] bytes: List<u8>, map: Map<..> }`
        (mk(Mac::Unsized, Kind::Struct, false, &[], v(&["u64", "bool"]), vec![], v(&["list", "list"])), true),
        // unsize/tests/struct_test.rs: `#[unsized_type(skip_idl, skip_phantom_generics)] struct WithSizedGenerics<A, B> { sized1: A, sized2: B, sized3: u8, #[unsized_start] .. }`
        (mk(Mac::UnsizedNp, Kind::Struct, true, &[], v(&["T", "T", "u8"]), vec![], v(&["list"])), true),
        // unsize/mod.rs doctests
        (mk(Mac::Unsized, Kind::Struct, false, &[], v(&["u8"]), vec![], v(&["rem"])), true),
        (mk(Mac::Unsized, Kind::Struct, false, &[], v(&["unit"]), vec![], v(&["list"])), false),
        (mk(Mac::Unsized, Kind::Struct, false, &[], v(&["u8"]), vec![], v(&["nestrem", "list"])), false),
    ]
}

fn random_attrs(rng: &mut Rng, kind: Kind) -> Vec<Vec<String>> {
    let pool: Vec<&str> = if kind == Kind::Enum {
        vec!["u8", "u8", "u8", "C", "i8", "u16", "align1", "align2", "packed", "transparent", "u32", "isize", "Rust", "u128", "usize"]
    } else {
        vec!["C", "C", "packed", "packed", "packed1", "packed2", "packed4", "align1", "align2", "align4", "align8", "transparent", "u8", "packed8", "align16", "Rust", "Rust"]
    };
    let nattr = [0, 1, 1, 1, 2, 2, 3][rng.below(7) as usize];
    (0..nattr)
        .map(|_| {
            let nh = [1, 1, 1, 2, 2, 3][rng.below(6) as usize];
            (0..nh).map(|_| rng.pick(&pool).to_string()).collect()
        })
        .collect()
}

fn random_fields(rng: &mut Rng, generic: bool, max: u64) -> Vec<String> {
    let n = rng.below(max + 1);
    (0..n)
        .map(|_| {
            if generic && rng.chance(2, 5) {
                rng.pick(&["T", "T", "Tx2", "phT"]).to_string()
            } else {
                rng.pick(&CONCRETE_FTYS).to_string()
            }
        })
        .collect()
}

/// A PRNG-driven declaration from the whole grammar (not restricted to the grid's lists).
pub fn random_decl(rng: &mut Rng) -> Decl {
    let mac = *rng.pick(&[Mac::Align1, Mac::Align1, Mac::Align1, Mac::Align1, Mac::Zc, Mac::ZcPod, Mac::ZcSkip, Mac::Unsized, Mac::UnsizedNp]);
    let generic = rng.chance(1, 5);
    if mac.is_unsized() {
        let n = rng.range(1, 3);
        let tail = (0..n).map(|_| rng.pick(&crate::decl::UTYS).to_string()).collect();
        let fields = if generic {
            (0..rng.below(4)).map(|_| rng.pick(&["T", "T", "u8", "bool", "ne", "unit", "phT"]).to_string()).collect()
        } else {
            random_fields(rng, false, 3)
        };
        return Decl { mac, kind: Kind::Struct, generic, attrs: vec![], fields, variants: vec![], tail };
    }
    let kind = *rng.pick(&[Kind::Struct, Kind::Struct, Kind::Tuple, Kind::Union, Kind::Enum]);
    let attrs = random_attrs(rng, kind);
    let _ = INT_HINTS;
    if kind == Kind::Enum {
        let nv = rng.below(4);
        let variants = (0..nv).map(|_| if rng.chance(1, 2) { vec![] } else { random_fields(rng, generic, 2) }).collect();
        Decl { mac, kind, generic, attrs, fields: vec![], variants, tail: vec![] }
    } else {
        Decl { mac, kind, generic, attrs, fields: random_fields(rng, generic, 3), variants: vec![], tail: vec![] }
    }
}
