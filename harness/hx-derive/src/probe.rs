//! Generates the scratch probe workspace, asks the real compiler (with the real proc macros of
//! `$VERIF_REPO`) which declarations it accepts, and runs the probe binaries of the accepted ones.
//!
//! One module file per declaration (`src/d/m<id>.rs`) so that every diagnostic can be attributed to
//! a declaration through the file names on its span / macro-expansion chain. Rounds: `cargo check`
//! until no error is left (errors of early compiler phases hide later ones, so rejected modules are
//! dropped and the check repeated), then `cargo build` likewise (post-monomorphisation errors, e.g.
//! the `ZST_STATUS` const panic), then the binaries are run.
use crate::decl::Decl;
use hx_common::{json, Value};
use std::{
    collections::{BTreeMap, BTreeSet},
    fs,
    path::{Path, PathBuf},
    process::Command,
    time::Instant,
};

const SUPPORT: &str = include_str!("../templates/support.rs");
const SUPPORT_UNSIZED: &str = include_str!("../templates/support_unsized.rs");

pub fn repo() -> String {
    std::env::var("VERIF_REPO").unwrap_or_else(|_| "/repo".to_string())
}

fn target_dir() -> PathBuf {
    // bin/check exports CARGO_TARGET_DIR only for an alternative tree (mutation testing); keep the
    // probe's artefacts apart from the shared ones in that case.
    match std::env::var("CARGO_TARGET_DIR") {
        Ok(t) if !t.is_empty() => PathBuf::from(t).join("derive-probe"),
        _ => {
            let verif = std::env::var("VERIF_DIR").unwrap_or_else(|_| "/verif".to_string());
            PathBuf::from(verif).join("harness/target/derive-probe")
        }
    }
}

#[derive(Debug, Default)]
pub struct ProbeResult {
    /// module id -> probe output (text after `m<id> `) for accepted declarations
    pub accepted: BTreeMap<usize, String>,
    /// module id -> (stage, error codes / first message) for rejected declarations
    pub rejected: BTreeMap<usize, (String, Vec<String>)>,
    /// `t:<tok>` -> type line
    pub types: BTreeMap<String, String>,
    pub timings: Vec<Value>,
}

fn module_of(file: &str) -> Option<usize> {
    // .../src/d/m000123.rs
    let name = Path::new(file).file_name()?.to_str()?;
    let id = name.strip_prefix('m')?.strip_suffix(".rs")?;
    if id.len() == 6 && id.bytes().all(|b| b.is_ascii_digit()) {
        id.parse().ok()
    } else {
        None
    }
}

fn span_modules(span: &Value, out: &mut BTreeSet<usize>) {
    if let Some(f) = span["file_name"].as_str() {
        if let Some(m) = module_of(f) {
            out.insert(m);
        }
    }
    let e = &span["expansion"];
    if e.is_object() {
        span_modules(&e["span"], out);
        if e["def_site_span"].is_object() {
            // definition site is macro code, not the declaration: ignore
        }
    }
}

fn diag_modules(d: &Value, out: &mut BTreeSet<usize>) {
    if let Some(spans) = d["spans"].as_array() {
        for s in spans {
            span_modules(s, out);
        }
    }
    if let Some(ch) = d["children"].as_array() {
        for c in ch {
            diag_modules(c, out);
        }
    }
}

struct Shard {
    name: String,
    dir: PathBuf,
    mods: Vec<usize>,
    with_types: bool,
    with_unsized_support: bool,
}

pub struct Probe {
    root: PathBuf,
    shards: Vec<Shard>,
    decls: BTreeMap<usize, Decl>,
}

impl Probe {
    /// `decls`: (module id, declaration). The workspace is created under `out/probe`.
    pub fn new(out: &Path, decls: &[(usize, Decl)], with_types: bool) -> Probe {
        let root = out.join("probe");
        let _ = fs::remove_dir_all(&root);
        fs::create_dir_all(root.join(".cargo")).unwrap();
        fs::write(root.join(".cargo/config.toml"), "[net]\noffline = true\n").unwrap();
        let repo = repo();
        fs::copy(Path::new(&repo).join("Cargo.lock"), root.join("Cargo.lock")).expect("copy Cargo.lock of the repository");
        let cores = std::thread::available_parallelism().map(|n| n.get()).unwrap_or(4);
        let nshards = ((decls.len() + 39) / 40).clamp(1, cores.min(16));
        let mut shards: Vec<Shard> = (0..nshards)
            .map(|i| Shard {
                name: format!("p{i:02}"),
                dir: root.join(format!("p{i:02}")),
                mods: vec![],
                with_types: with_types && i == 0,
                with_unsized_support: false,
            })
            .collect();
        for (k, (id, d)) in decls.iter().enumerate() {
            let sh = &mut shards[k % nshards];
            sh.mods.push(*id);
            if d.mac.is_unsized() {
                sh.with_unsized_support = true;
            }
        }
        let members: Vec<String> = shards.iter().map(|s| format!("\"{}\"", s.name)).collect();
        fs::write(
            root.join("Cargo.toml"),
            format!(
                "[workspace]\nresolver = \"2\"\nmembers = [{}]\n\n[profile.dev]\ndebug = 0\nincremental = false\nopt-level = 0\n",
                members.join(", ")
            ),
        )
        .unwrap();
        let dmap: BTreeMap<usize, Decl> = decls.iter().cloned().collect();
        for sh in &shards {
            fs::create_dir_all(sh.dir.join("src/d")).unwrap();
            fs::write(
                sh.dir.join("Cargo.toml"),
                format!(
                    "[package]\nname = \"c19{}\"\nversion = \"0.1.0\"\nedition = \"2021\"\n\n[dependencies]\nstar_frame = {{ path = \"{}/star_frame\", features = [\"test_helpers\"] }}\nbytemuck = {{ version = \"1\", features = [\"derive\", \"min_const_generics\"] }}\n",
                    sh.name, repo
                ),
            )
            .unwrap();
            fs::write(sh.dir.join("src/support.rs"), SUPPORT).unwrap();
            if sh.with_unsized_support {
                fs::write(sh.dir.join("src/support_unsized.rs"), SUPPORT_UNSIZED).unwrap();
            }
            for id in &sh.mods {
                fs::write(sh.dir.join(format!("src/d/m{id:06}.rs")), dmap[id].render_module(*id)).unwrap();
            }
        }
        Probe { root, shards, decls: dmap }
    }

    fn write_roots(&self, live: &BTreeSet<usize>) {
        for sh in &self.shards {
            let mut main = String::from("#![allow(warnings)]\n#[macro_use]\npub mod support;\n");
            if sh.with_unsized_support {
                main.push_str("pub mod support_unsized;\n");
            }
            main.push_str("pub mod d;\nfn main() {\n    let mut out: Vec<String> = vec![];\n");
            if sh.with_types {
                main.push_str("    support::type_lines(&mut out);\n");
            }
            main.push_str("    d::run(&mut out);\n    for l in out { println!(\"{l}\"); }\n}\n");
            fs::write(sh.dir.join("src/main.rs"), main).unwrap();
            let mut m = String::new();
            let mut run = String::from("pub fn run(out: &mut Vec<String>) {\n");
            for id in sh.mods.iter().filter(|i| live.contains(i)) {
                m.push_str(&format!("pub mod m{id:06};\n"));
                run.push_str(&format!(
                    "    {{ let n = out.len(); if std::panic::catch_unwind(std::panic::AssertUnwindSafe(|| m{id:06}::probe(out))).is_err() {{ out.truncate(n); out.push(\"m{id:06} panic\".to_string()); }} }}\n"
                ));
            }
            run.push_str("}\n");
            fs::write(sh.dir.join("src/d/mod.rs"), format!("{m}\n{run}")).unwrap();
        }
    }

    /// Runs cargo; returns (success, module -> codes/messages, unattributed error texts).
    fn cargo(&self, sub: &str) -> (bool, BTreeMap<usize, Vec<String>>, Vec<String>) {
        let mut cmd = Command::new("cargo");
        cmd.arg(sub)
            .args(["--offline", "--workspace", "--message-format=json", "--keep-going"])
            .current_dir(&self.root)
            .env("CARGO_TARGET_DIR", target_dir())
            .env("RUSTFLAGS", "--cfg star_frame_verif")
            .env("CARGO_NET_OFFLINE", "true")
            .env_remove("CARGO_BUILD_TARGET");
        let out = cmd.output().expect("run cargo");
        let mut by_mod: BTreeMap<usize, Vec<String>> = BTreeMap::new();
        let mut stray = vec![];
        for line in String::from_utf8_lossy(&out.stdout).lines() {
            let Ok(v) = serde_json::from_str::<Value>(line) else { continue };
            if v["reason"] != "compiler-message" {
                continue;
            }
            let d = &v["message"];
            let level = d["level"].as_str().unwrap_or("");
            if !level.starts_with("error") {
                continue;
            }
            let msg = d["message"].as_str().unwrap_or("").to_string();
            if msg.starts_with("aborting due to") {
                continue;
            }
            let code = d["code"]["code"].as_str().map(|s| s.to_string()).unwrap_or_else(|| {
                let m: String = msg.chars().take(60).collect();
                format!("msg:{m}")
            });
            let mut ms = BTreeSet::new();
            diag_modules(d, &mut ms);
            if ms.is_empty() {
                stray.push(d["rendered"].as_str().unwrap_or(&msg).to_string());
            }
            for m in ms {
                by_mod.entry(m).or_default().push(code.clone());
            }
        }
        if !out.status.success() && by_mod.is_empty() && stray.is_empty() {
            stray.push(String::from_utf8_lossy(&out.stderr).chars().rev().take(3000).collect::<String>().chars().rev().collect());
        }
        (out.status.success(), by_mod, stray)
    }

    pub fn run(&self) -> Result<ProbeResult, String> {
        let mut res = ProbeResult::default();
        let mut live: BTreeSet<usize> = self.decls.keys().copied().collect();
        for stage in ["check", "build"] {
            let mut round = 0;
            loop {
                round += 1;
                self.write_roots(&live);
                let t = Instant::now();
                let (mut ok, mut by_mod, mut stray) = self.cargo(stage);
                if by_mod.is_empty() && (!stray.is_empty() || !ok) {
                    // not a verdict about any declaration (killed compiler, lock trouble, ...): once more
                    eprintln!("hx-derive: cargo {stage} failed without attributable diagnostics, retrying:\n{}", stray.join("\n"));
                    res.timings.push(json!({"stage": stage, "round": round, "retry": true}));
                    std::thread::sleep(std::time::Duration::from_secs(2));
                    (ok, by_mod, stray) = self.cargo(stage);
                }
                res.timings.push(json!({"stage": stage, "round": round, "live": live.len(), "rejected": by_mod.len(), "s": (t.elapsed().as_secs_f64() * 100.0).round() / 100.0}));
                if !stray.is_empty() && by_mod.is_empty() {
                    return Err(format!("cargo {stage}: error not attributable to a declaration:\n{}", stray.join("\n")));
                }
                if by_mod.is_empty() {
                    if !ok {
                        return Err(format!("cargo {stage} failed without diagnostics"));
                    }
                    break;
                }
                for (m, codes) in by_mod {
                    if live.remove(&m) {
                        let mut codes = codes;
                        codes.sort();
                        codes.dedup();
                        res.rejected.insert(m, (format!("{stage}{round}"), codes));
                    }
                }
                if round > 12 {
                    return Err(format!("cargo {stage}: no fixpoint after {round} rounds"));
                }
            }
        }
        // run the binaries
        let t = Instant::now();
        for sh in &self.shards {
            let bin = target_dir().join("debug").join(format!("c19{}", sh.name));
            let out = Command::new(&bin).output().map_err(|e| format!("run {}: {e}", bin.display()))?;
            if !out.status.success() {
                return Err(format!("probe binary {} failed: {}", bin.display(), String::from_utf8_lossy(&out.stderr)));
            }
            for l in String::from_utf8_lossy(&out.stdout).lines() {
                let (head, rest) = l.split_once(' ').unwrap_or((l, ""));
                if let Some(tok) = head.strip_prefix("t:") {
                    res.types.insert(tok.to_string(), rest.to_string());
                } else if let Some(id) = head.strip_prefix('m').and_then(|s| s.parse::<usize>().ok()) {
                    res.accepted.insert(id, rest.to_string());
                }
            }
        }
        res.timings.push(json!({"stage": "run", "s": (t.elapsed().as_secs_f64() * 100.0).round() / 100.0}));
        for id in &live {
            if !res.accepted.contains_key(id) {
                return Err(format!("module {id} compiled but printed nothing"));
            }
        }
        Ok(res)
    }
}
