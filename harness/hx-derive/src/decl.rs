//! The declaration grammar of C19: abstract syntax, the op-line (s-expression) codec and the
//! renderer to Rust source.
//!
//! ```text
//! decl  := ( MAC KIND GEN ( reprs attr* ) body )
//! MAC   := align1 | zc | zcpod | zcskip | unsized | unsizednp   (np: `skip_phantom_generics`)
//! KIND  := struct | tuple | union | enum
//! GEN   := plain | generic
//! attr  := ( hint* )                      one `#[repr(...)]` attribute
//! hint  := Rust | C | transparent | packed | packedN | alignN | u8 | i8 | u16 | ... | isize
//! body  := ( fields fty* )                 KIND != enum, MAC != unsized
//!        | ( fields fty* ) ( tail uty+ )   MAC = unsized|unsizednp (KIND struct|tuple)
//!        | ( variants ( fty* )* )          KIND = enum
//! fty   := u8 | i8 | bool | u8x3 | pubkey | unit | phantom | u16 | u32 | u64 | pv64 | np | na2 | ne
//!        | u16x2 | tup16
//!        | T | Tx2 | phT                   (only with GEN = generic)
//! uty   := list | rem | nestrem | nestlist
//! ```

#[derive(Debug, Clone, Copy, PartialEq, Eq, PartialOrd, Ord, Hash)]
pub enum Mac {
    Align1,
    Zc,
    ZcPod,
    ZcSkip,
    Unsized,
    /// `#[unsized_type(skip_phantom_generics)]`: no `_generics` marker in the sized part
    UnsizedNp,
}
impl Mac {
    pub fn tok(self) -> &'static str {
        match self {
            Mac::Align1 => "align1",
            Mac::Zc => "zc",
            Mac::ZcPod => "zcpod",
            Mac::ZcSkip => "zcskip",
            Mac::Unsized => "unsized",
            Mac::UnsizedNp => "unsizednp",
        }
    }
    fn parse(s: &str) -> Option<Mac> {
        Some(match s {
            "align1" => Mac::Align1,
            "zc" => Mac::Zc,
            "zcpod" => Mac::ZcPod,
            "zcskip" => Mac::ZcSkip,
            "unsized" => Mac::Unsized,
            "unsizednp" => Mac::UnsizedNp,
            _ => return None,
        })
    }
    pub fn is_unsized(self) -> bool {
        matches!(self, Mac::Unsized | Mac::UnsizedNp)
    }
    pub fn is_zc(self) -> bool {
        matches!(self, Mac::Zc | Mac::ZcPod | Mac::ZcSkip)
    }
}

#[derive(Debug, Clone, Copy, PartialEq, Eq, PartialOrd, Ord, Hash)]
pub enum Kind {
    Struct,
    Tuple,
    Union,
    Enum,
}
impl Kind {
    pub fn tok(self) -> &'static str {
        match self {
            Kind::Struct => "struct",
            Kind::Tuple => "tuple",
            Kind::Union => "union",
            Kind::Enum => "enum",
        }
    }
    fn parse(s: &str) -> Option<Kind> {
        Some(match s {
            "struct" => Kind::Struct,
            "tuple" => Kind::Tuple,
            "union" => Kind::Union,
            "enum" => Kind::Enum,
            _ => return None,
        })
    }
}

pub const INT_HINTS: [&str; 12] =
    ["u8", "i8", "u16", "i16", "u32", "i32", "u64", "i64", "u128", "i128", "usize", "isize"];
pub const CONCRETE_FTYS: [&str; 16] =
    ["u8", "i8", "bool", "u8x3", "pubkey", "unit", "phantom", "u16", "u32", "u64", "pv64", "np", "na2", "ne", "u16x2", "tup16"];
pub const PARAM_FTYS: [&str; 3] = ["T", "Tx2", "phT"];
pub const UTYS: [&str; 4] = ["list", "rem", "nestrem", "nestlist"];

/// `packedN` / `alignN`: N is 1-4 decimal digits without a leading zero.
fn parse_n(s: &str) -> Option<u32> {
    if s.is_empty() || s.len() > 4 || s.starts_with('0') || !s.bytes().all(|b| b.is_ascii_digit()) {
        return None;
    }
    s.parse().ok()
}

pub fn hint_ok(h: &str) -> bool {
    h == "C"
        || h == "Rust"
        || h == "transparent"
        || h == "packed"
        || INT_HINTS.contains(&h)
        || h.strip_prefix("packed").and_then(parse_n).is_some()
        || h.strip_prefix("align").and_then(parse_n).is_some()
}

/// Rust text of one repr hint.
pub fn hint_rust(h: &str) -> String {
    if h == "packed" {
        return "packed".into();
    }
    if let Some(n) = h.strip_prefix("packed").and_then(parse_n) {
        return format!("packed({n})");
    }
    if let Some(n) = h.strip_prefix("align").and_then(parse_n) {
        return format!("align({n})");
    }
    h.to_string()
}

/// Rust text of a field type; `x` replaces the type parameter (None = keep `T`).
pub fn fty_rust(t: &str, x: Option<&str>) -> String {
    let tp = x.map(|x| fty_rust(x, None)).unwrap_or_else(|| "T".to_string());
    match t {
        "u8" | "i8" | "bool" | "u16" | "u32" | "u64" => t.to_string(),
        "u8x3" => "[u8; 3]".into(),
        "u16x2" => "[u16; 2]".into(),
        "tup16" => "(u16,)".into(),
        "pubkey" => "star_frame::prelude::Pubkey".into(),
        "unit" => "()".into(),
        "phantom" => "core::marker::PhantomData<u64>".into(),
        "pv64" => "star_frame::prelude::PackedValue<u64>".into(),
        "np" => "crate::support::NestPacked".into(),
        "na2" => "crate::support::NestAlign2".into(),
        "ne" => "crate::support::NestEnum".into(),
        "T" => tp,
        "Tx2" => format!("[{tp}; 2]"),
        "phT" => format!("core::marker::PhantomData<{tp}>"),
        _ => unreachable!("fty {t}"),
    }
}

pub fn uty_rust(t: &str) -> &'static str {
    match t {
        "list" => "star_frame::prelude::List<u8>",
        "rem" => "star_frame::prelude::RemainingBytes",
        "nestrem" => "crate::support_unsized::NestRem",
        "nestlist" => "crate::support_unsized::NestList",
        _ => unreachable!(),
    }
}

#[derive(Debug, Clone, PartialEq, Eq, Hash)]
pub struct Decl {
    pub mac: Mac,
    pub kind: Kind,
    pub generic: bool,
    pub attrs: Vec<Vec<String>>,
    /// struct / tuple / union fields
    pub fields: Vec<String>,
    /// enum variants
    pub variants: Vec<Vec<String>>,
    /// unsized tail
    pub tail: Vec<String>,
}

/// Tokens are whitespace separated; parentheses must stand alone (`( a b )`), exactly like the
/// model driver's tokenizer (`Common.Proto.tokens`).
pub fn lex(s: &str) -> Vec<String> {
    s.split_whitespace().map(|t| t.to_string()).collect()
}

struct P<'a> {
    t: &'a [String],
    i: usize,
}
impl<'a> P<'a> {
    fn peek(&self) -> Option<&'a str> {
        self.t.get(self.i).map(|s| s.as_str())
    }
    fn next(&mut self) -> Option<&'a str> {
        let r = self.peek();
        self.i += 1;
        r
    }
    fn eat(&mut self, s: &str) -> Option<()> {
        (self.next()? == s).then_some(())
    }
    /// atoms up to the closing paren (consumed)
    fn atoms(&mut self) -> Option<Vec<String>> {
        let mut v = vec![];
        loop {
            match self.next()? {
                ")" => return Some(v),
                "(" => return None,
                a => v.push(a.to_string()),
            }
        }
    }
}

impl Decl {
    /// Parse the tokens after the `decl` keyword. `None` = `bad-op`.
    pub fn parse(toks: &[String]) -> Option<Decl> {
        let mut p = P { t: toks, i: 0 };
        p.eat("(")?;
        let mac = Mac::parse(p.next()?)?;
        let kind = Kind::parse(p.next()?)?;
        let generic = match p.next()? {
            "plain" => false,
            "generic" => true,
            _ => return None,
        };
        p.eat("(")?;
        p.eat("reprs")?;
        let mut attrs = vec![];
        loop {
            match p.next()? {
                ")" => break,
                "(" => {
                    let hs = p.atoms()?;
                    if !hs.iter().all(|h| hint_ok(h)) {
                        return None;
                    }
                    attrs.push(hs);
                }
                _ => return None,
            }
        }
        let fty_ok = |t: &String| CONCRETE_FTYS.contains(&t.as_str()) || (generic && PARAM_FTYS.contains(&t.as_str()));
        let (mut fields, mut variants, mut tail) = (vec![], vec![], vec![]);
        p.eat("(")?;
        if kind == Kind::Enum {
            if mac.is_unsized() {
                return None;
            }
            p.eat("variants")?;
            loop {
                match p.next()? {
                    ")" => break,
                    "(" => {
                        let fs = p.atoms()?;
                        if !fs.iter().all(fty_ok) {
                            return None;
                        }
                        variants.push(fs);
                    }
                    _ => return None,
                }
            }
        } else {
            p.eat("fields")?;
            fields = p.atoms()?;
            if !fields.iter().all(fty_ok) {
                return None;
            }
            if mac.is_unsized() {
                if !matches!(kind, Kind::Struct | Kind::Tuple) {
                    return None;
                }
                p.eat("(")?;
                p.eat("tail")?;
                tail = p.atoms()?;
                if tail.is_empty() || !tail.iter().all(|t| UTYS.contains(&t.as_str())) {
                    return None;
                }
            }
        }
        p.eat(")")?;
        if p.peek().is_some() {
            return None;
        }
        Some(Decl { mac, kind, generic, attrs, fields, variants, tail })
    }

    pub fn sexpr(&self) -> String {
        let mut s = format!("( {} {} {} ( reprs", self.mac.tok(), self.kind.tok(), if self.generic { "generic" } else { "plain" });
        for a in &self.attrs {
            s.push_str(" (");
            for h in a {
                s.push(' ');
                s.push_str(h);
            }
            s.push_str(" )");
        }
        s.push_str(" )");
        if self.kind == Kind::Enum {
            s.push_str(" ( variants");
            for v in &self.variants {
                s.push_str(" (");
                for f in v {
                    s.push(' ');
                    s.push_str(f);
                }
                s.push_str(" )");
            }
            s.push_str(" )");
        } else {
            s.push_str(" ( fields");
            for f in &self.fields {
                s.push(' ');
                s.push_str(f);
            }
            s.push_str(" )");
            if self.mac.is_unsized() {
                s.push_str(" ( tail");
                for f in &self.tail {
                    s.push(' ');
                    s.push_str(f);
                }
                s.push_str(" )");
            }
        }
        s.push_str(" )");
        s
    }

    pub fn op_line(&self) -> String {
        format!("decl {}", self.sexpr())
    }

    /// Instantiations of the type parameter the probe looks at.
    pub fn insts(&self) -> Vec<Option<&'static str>> {
        if !self.generic {
            vec![None]
        } else if self.mac.is_unsized() {
            vec![Some("u8"), Some("bool")]
        } else {
            vec![Some("u8"), Some("u16")]
        }
    }

    fn repr_lines(&self) -> String {
        let mut s = String::new();
        for a in &self.attrs {
            let hs: Vec<String> = a.iter().map(|h| hint_rust(h)).collect();
            s.push_str(&format!("#[repr({})]\n", hs.join(", ")));
        }
        s
    }

    /// The declaration as a user would write it (type is always called `D`).
    pub fn render_decl(&self) -> String {
        let mut s = String::new();
        match self.mac {
            Mac::Align1 => s.push_str("#[derive(Align1)]\n"),
            Mac::Zc => s.push_str("#[zero_copy]\n"),
            Mac::ZcPod => s.push_str("#[zero_copy(pod)]\n"),
            Mac::ZcSkip => s.push_str("#[zero_copy(skip_packed)]\n"),
            Mac::Unsized | Mac::UnsizedNp => {
                let np = if self.mac == Mac::UnsizedNp { ", skip_phantom_generics" } else { "" };
                if self.attrs.is_empty() {
                    s.push_str(&format!("#[unsized_type(skip_idl{np})]\n"));
                } else {
                    let a: Vec<String> = self
                        .attrs
                        .iter()
                        .map(|a| format!("repr({})", a.iter().map(|h| hint_rust(h)).collect::<Vec<_>>().join(", ")))
                        .collect();
                    s.push_str(&format!("#[unsized_type(skip_idl{np}, sized_attributes = [{}])]\n", a.join(", ")));
                }
            }
        }
        if !self.mac.is_unsized() {
            s.push_str(&self.repr_lines());
        }
        let gen = if !self.generic {
            ""
        } else if self.mac.is_unsized() {
            "<T: star_frame::unsize::impls::UnsizedGenerics>"
        } else if self.kind == Kind::Union {
            "<T: Copy>"
        } else {
            "<T>"
        };
        match self.kind {
            Kind::Struct | Kind::Union => {
                let kw = if self.kind == Kind::Union { "union" } else { "struct" };
                s.push_str(&format!("pub {kw} D{gen} {{\n"));
                for (i, f) in self.fields.iter().enumerate() {
                    s.push_str(&format!("    pub f{i}: {},\n", fty_rust(f, None)));
                }
                for (i, f) in self.tail.iter().enumerate() {
                    if i == 0 {
                        s.push_str("    #[unsized_start]\n");
                    }
                    s.push_str(&format!("    pub t{i}: {},\n", uty_rust(f)));
                }
                s.push_str("}\n");
            }
            Kind::Tuple => {
                let mut fs: Vec<String> = self.fields.iter().map(|f| format!("pub {}", fty_rust(f, None))).collect();
                for (i, f) in self.tail.iter().enumerate() {
                    fs.push(format!("{}pub {}", if i == 0 { "#[unsized_start] " } else { "" }, uty_rust(f)));
                }
                s.push_str(&format!("pub struct D{gen}({});\n", fs.join(", ")));
            }
            Kind::Enum => {
                s.push_str(&format!("pub enum D{gen} {{\n"));
                for (i, v) in self.variants.iter().enumerate() {
                    if v.is_empty() {
                        s.push_str(&format!("    V{i},\n"));
                    } else {
                        let fs: Vec<String> = v.iter().map(|f| fty_rust(f, None)).collect();
                        s.push_str(&format!("    V{i}({}),\n", fs.join(", ")));
                    }
                }
                s.push_str("}\n");
            }
        }
        s
    }

    /// A whole module: declaration + `probe` that pushes one line `m<id> <items>`.
    pub fn render_module(&self, id: usize) -> String {
        let mut s = String::from("#![allow(warnings)]\nuse star_frame::prelude::*;\n\n");
        s.push_str(&self.render_decl());
        s.push_str("\npub fn probe(out: &mut Vec<String>) {\n    let mut items: Vec<String> = vec![];\n");
        let with_bits = self.mac.is_zc() || self.mac.is_unsized();
        for x in self.insts() {
            let label = x.unwrap_or("-");
            let targ = match x {
                Some(x) => format!("<{}>", fty_rust(x, None)),
                None => String::new(),
            };
            if self.mac.is_unsized() {
                // the real use: instantiating the wrapper forces `ZST_STATUS`
                s.push_str(&format!(
                    "    {{ let t = star_frame::unsize::TestByteSet::<D{targ}>::new_default().unwrap(); let _d = t.data_mut().unwrap(); }}\n"
                ));
                if self.fields.is_empty() {
                    s.push_str(&format!("    items.push(\"{label}[nosized]\".to_string());\n"));
                    continue;
                }
            }
            let ty = if self.mac.is_unsized() { format!("DSized{targ}") } else { format!("D{targ}") };
            let sz = |f: &String| format!("core::mem::size_of::<{}>()", fty_rust(f, x));
            let shape = match self.kind {
                Kind::Struct | Kind::Tuple => {
                    format!("crate::support::Shape::Struct(&[{}])", self.fields.iter().map(sz).collect::<Vec<_>>().join(", "))
                }
                Kind::Union => "crate::support::Shape::Union".to_string(),
                Kind::Enum => format!(
                    "crate::support::Shape::Enum(&[{}])",
                    self.variants.iter().map(|v| format!("&[{}]", v.iter().map(sz).collect::<Vec<_>>().join(", "))).collect::<Vec<_>>().join(", ")
                ),
            };
            let check = if with_bits {
                format!("Some(&|b: &[u8]| star_frame::bytemuck::checked::try_from_bytes::<{ty}>(b).is_ok())")
            } else {
                "None".to_string()
            };
            s.push_str(&format!(
                "    items.push(format!(\"{label}[{{}}]\", crate::support::inst::<{ty}>(crate::is_a1!({ty}), {shape}, {check})));\n"
            ));
        }
        s.push_str(&format!("    out.push(format!(\"m{id:06} {{}}\", items.join(\" \")));\n}}\n"));
        s
    }
}
