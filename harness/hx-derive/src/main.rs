//! hx-derive C19: derived safety markers only certify what actually holds.
//!
//! Interpreter of op lines `decl <s-expr>` / `type <tok>`: every declaration becomes one module of a
//! generated probe crate compiled by the real toolchain against the real proc macros; the answer is
//! `reject` or `accept <label>[a1=.. align=.. size=.. pad=..( bits=..)] ...` as observed.
mod decl;
mod gen;
mod probe;

use decl::{Decl, Kind, Mac};
use hx_common::{json, Args, Recorder, Rng};
use std::collections::{BTreeMap, HashSet};

enum Op {
    Decl(Decl, usize),
    Type(String),
    Bad,
}

struct Case {
    header: String,
    lines: Vec<String>,
}

// ---------------------------------------------------------------- the harness's own type table
fn ty_size(t: &str, x: Option<&str>) -> usize {
    match t {
        "u8" | "i8" | "bool" | "ne" => 1,
        "u8x3" | "np" => 3,
        "pubkey" => 32,
        "unit" | "phantom" | "phT" => 0,
        "u16" | "na2" | "tup16" => 2,
        "u32" | "u16x2" => 4,
        "u64" | "pv64" => 8,
        "T" => ty_size(x.unwrap(), None),
        "Tx2" => 2 * ty_size(x.unwrap(), None),
        _ => unreachable!(),
    }
}
fn ty_align(t: &str) -> usize {
    match t {
        "u16" | "na2" | "u16x2" | "tup16" => 2,
        "u32" => 4,
        "u64" => 8,
        _ => 1,
    }
}
fn ty_valid(t: &str, x: Option<&str>, b: &[u8]) -> bool {
    match t {
        "bool" | "ne" => b.iter().all(|&v| v < 2),
        "T" => ty_valid(x.unwrap(), None, b),
        "Tx2" => {
            let n = ty_size(x.unwrap(), None);
            ty_valid(x.unwrap(), None, &b[..n]) && ty_valid(x.unwrap(), None, &b[n..])
        }
        _ => true,
    }
}
/// `ZST_STATUS` (true = not zero sized) of an unsized tail element, from the documentation of the types.
fn uty_nonzst(t: &str) -> bool {
    matches!(t, "list" | "nestlist")
}

/// Same pattern list as the probe crate's `support::patterns`, from the harness's own sizes.
fn patterns(size: usize, d: &Decl, x: Option<&str>) -> Vec<Vec<u8>> {
    let mut ps: Vec<Vec<u8>> = [0x00u8, 0x01, 0x02, 0xff].iter().map(|&b| vec![b; size]).collect();
    match d.kind {
        Kind::Struct | Kind::Tuple => {
            let mut off = 0;
            let mut ranges = vec![];
            for f in &d.fields {
                let l = ty_size(f, x);
                ranges.push((off, l));
                off += l;
            }
            for &(o, l) in &ranges {
                if l > 0 && o + l <= size {
                    let mut p = vec![0u8; size];
                    p[o..o + l].iter_mut().for_each(|v| *v = 2);
                    ps.push(p);
                }
            }
            for &(o, l) in &ranges {
                if l > 0 && o + l <= size {
                    let mut p = vec![0u8; size];
                    p[o + l - 1] = 0xff;
                    ps.push(p);
                }
            }
        }
        Kind::Union => {}
        Kind::Enum => {
            if size >= 1 {
                for k in 0..d.variants.len().min(250) {
                    let mut p = vec![2u8; size];
                    p[0] = k as u8;
                    ps.push(p);
                }
            }
        }
    }
    ps
}

/// Is the byte pattern a valid value of the declared type, field by field?
fn pattern_valid(d: &Decl, x: Option<&str>, p: &[u8]) -> Option<bool> {
    let fields_ok = |fs: &[String], start: usize| -> Option<bool> {
        let mut off = start;
        let mut ok = true;
        for f in fs {
            let l = ty_size(f, x);
            let s = p.get(off..off + l)?;
            ok &= ty_valid(f, x, s);
            off += l;
        }
        Some(ok)
    };
    match d.kind {
        Kind::Struct | Kind::Tuple => fields_ok(&d.fields, 0),
        Kind::Union => None,
        Kind::Enum => {
            let tag = *p.first()? as usize;
            if tag >= d.variants.len() {
                return Some(false);
            }
            fields_ok(&d.variants[tag], 1)
        }
    }
}

fn parse_items(s: &str) -> Vec<(String, BTreeMap<String, String>)> {
    let mut out = vec![];
    let mut rest = s.trim();
    while let Some(i) = rest.find('[') {
        let label = rest[..i].trim().to_string();
        let Some(j) = rest[i..].find(']') else { break };
        let body = &rest[i + 1..i + j];
        let mut kv = BTreeMap::new();
        for t in body.split_whitespace() {
            match t.split_once('=') {
                Some((k, v)) => kv.insert(k.to_string(), v.to_string()),
                None => kv.insert(t.to_string(), String::new()),
            };
        }
        out.push((label, kv));
        rest = &rest[i + j + 1..];
    }
    out
}

fn oracle(rec: &mut Recorder, d: &Decl, accepted: Option<&str>, documented: Option<bool>) {
    // documented forms keep compiling / documented rejections stay rejected
    match (documented, accepted.is_some()) {
        (Some(true), false) => rec.fail("documented_form_rejected", &d.sexpr()),
        (Some(false), true) => rec.fail("documented_rejection_accepted", &d.sexpr()),
        _ => {}
    }
    let Some(out) = accepted else { return };
    if out.trim() == "panic" {
        rec.fail("probe_panicked", &d.sexpr());
        return;
    }
    // zero-sized element anywhere but last in an unsized struct must not compile
    if d.mac.is_unsized() && matches!(d.kind, Kind::Struct) {
        for x in d.insts() {
            let mut elems: Vec<bool> = vec![];
            if !d.fields.is_empty() {
                elems.push(d.fields.iter().map(|f| ty_size(f, x)).sum::<usize>() != 0);
            }
            elems.extend(d.tail.iter().map(|t| uty_nonzst(t)));
            if elems[..elems.len() - 1].iter().any(|nz| !nz) {
                rec.fail("zst_not_last_accepted", &format!("{} -> {}", d.sexpr(), out));
            }
        }
    }
    let items = parse_items(out);
    for ((label, kv), x) in items.iter().zip(d.insts()) {
        if kv.contains_key("nosized") {
            continue;
        }
        let get = |k: &str| kv.get(k).cloned().unwrap_or_default();
        let (a1, align, size) = (get("a1") == "1", get("align").parse::<usize>().unwrap_or(0), get("size").parse::<usize>().unwrap_or(usize::MAX));
        // the marker is only implemented for types whose alignment is 1
        if a1 && align != 1 {
            rec.fail(
                &format!("align1_marker_on_align_{}_{}", align, d.mac.tok()),
                &format!("{} [{}] -> Align1 implemented, align_of = {}", d.sexpr(), label, align),
            );
        }
        if !d.generic && !a1 {
            rec.fail("accepted_without_marker", &format!("{} -> {}", d.sexpr(), out));
        }
        if d.mac.is_zc() || d.mac.is_unsized() {
            // zero-copy types and the sized part: alignment 1, no padding, every field checked
            if !a1 || align != 1 {
                rec.fail(&format!("zero_copy_not_align1_{}", d.mac.tok()), &format!("{} [{}] -> {}", d.sexpr(), label, out));
            }
            let pad = get("pad");
            if pad != "0" && pad != "-" {
                rec.fail(&format!("padding_in_{}", d.mac.tok()), &format!("{} [{}] -> pad={}", d.sexpr(), label, pad));
            }
            if d.kind != Kind::Union {
                // (a Pod type accepts every pattern, so it may only be accepted when every pattern is valid)
                let expect_strict: Option<String> =
                    patterns(size, d, x).iter().map(|p| pattern_valid(d, x, p).map(|b| if b { '1' } else { '0' })).collect();
                if Some(get("bits")) != expect_strict {
                    rec.fail(
                        &format!("bit_pattern_check_{}", d.mac.tok()),
                        &format!("{} [{}] -> bits={} expected {:?}", d.sexpr(), label, get("bits"), expect_strict),
                    );
                }
            }
        }
    }
}

fn main() {
    let args = Args::parse();
    assert_eq!(args.prop, "C19", "hx-derive only implements C19");
    let mut rec = Recorder::new(
        "a declaration counts when the toolchain rejected it (macro abort, unsatisfied generated bound, static assertion, rustc's own repr rules, const panic) or accepted it and the probe measured a type of non-zero size",
    );
    let mut cases: Vec<Case> = vec![];
    let mut documented: BTreeMap<String, bool> = BTreeMap::new();
    for (d, v) in gen::documented() {
        documented.insert(d.sexpr(), v);
    }
    if let Some(rc) = args.replay_cases() {
        for c in rc {
            let (header, lines) = if c[0].starts_with("case") { (c[0].clone(), c[1..].to_vec()) } else { ("case replay".to_string(), c) };
            cases.push(Case { header, lines });
        }
    } else {
        let mut seen: HashSet<String> = HashSet::new();
        let push = |cases: &mut Vec<Case>, kind: &str, d: &Decl, seen: &mut HashSet<String>| {
            let line = d.op_line();
            if seen.insert(line.clone()) {
                cases.push(Case { header: format!("case {} {}", cases.len(), kind), lines: vec![line] });
            }
        };
        cases.push(Case {
            header: "case 0 types".into(),
            lines: decl::CONCRETE_FTYS.iter().map(|t| format!("type {t}")).chain(["type T".to_string()]).collect(),
        });
        // corpus first
        let verif = std::env::var("VERIF_DIR").unwrap_or_else(|_| "/verif".into());
        let mut files: Vec<_> = std::fs::read_dir(format!("{verif}/corpus/C19"))
            .map(|rd| rd.filter_map(|e| e.ok()).map(|e| e.path()).filter(|p| p.extension().map(|e| e == "replay").unwrap_or(false)).collect())
            .unwrap_or_default();
        files.sort();
        for f in files {
            let a = Args { replay: Some(f), ..args.clone() };
            for c in a.replay_cases().unwrap_or_default() {
                let lines: Vec<String> = if c[0].starts_with("case") { c[1..].to_vec() } else { c };
                for l in &lines {
                    seen.insert(l.clone());
                }
                cases.push(Case { header: format!("case {} corpus", cases.len()), lines });
            }
        }
        for (d, _) in gen::documented() {
            push(&mut cases, "documented", &d, &mut seen);
        }
        for d in gen::boundary() {
            push(&mut cases, "boundary", &d, &mut seen);
        }
        let mut rng = Rng::new(args.seed);
        for (name, ds) in gen::grid() {
            if args.thorough() {
                for d in &ds {
                    push(&mut cases, name, d, &mut seen);
                }
            } else {
                // stratified sample: a seeded shuffle of the stratum, first `quota` new ones
                let mut idx: Vec<usize> = (0..ds.len()).collect();
                for i in (1..idx.len()).rev() {
                    idx.swap(i, rng.below(i as u64 + 1) as usize);
                }
                let mut taken = 0;
                for i in idx {
                    if taken >= gen::quick_quota(name) {
                        break;
                    }
                    let before = cases.len();
                    push(&mut cases, name, &ds[i], &mut seen);
                    taken += cases.len() - before;
                }
            }
        }
        let nrand = if args.thorough() { 4000 } else { 250 };
        for _ in 0..nrand {
            let d = gen::random_decl(&mut rng);
            push(&mut cases, "random", &d, &mut seen);
        }
    }

    // parse
    let mut ops: Vec<Vec<Op>> = vec![];
    let mut decls: Vec<(usize, Decl)> = vec![];
    let mut want_types = false;
    for c in &cases {
        let mut v = vec![];
        for l in &c.lines {
            let toks = decl::lex(l);
            let op = match toks.first().map(|s| s.as_str()) {
                Some("decl") => match Decl::parse(&toks[1..]) {
                    Some(d) => {
                        let id = decls.len();
                        decls.push((id, d.clone()));
                        Op::Decl(d, id)
                    }
                    None => Op::Bad,
                },
                Some("type") if toks.len() == 2 && decl::CONCRETE_FTYS.contains(&toks[1].as_str()) => {
                    want_types = true;
                    Op::Type(toks[1].clone())
                }
                _ => Op::Bad,
            };
            v.push(op);
        }
        ops.push(v);
    }

    let t0 = std::time::Instant::now();
    let res = if decls.is_empty() && !want_types {
        probe::ProbeResult::default()
    } else {
        let p = probe::Probe::new(&args.out, &decls, want_types);
        match p.run() {
            Ok(r) => r,
            Err(e) => {
                eprintln!("hx-derive: probe failed: {e}");
                std::process::exit(2);
            }
        }
    };
    let probe_s = t0.elapsed().as_secs_f64();

    for (c, v) in cases.iter().zip(&ops) {
        rec.case(&c.header);
        let kind = c.header.split_whitespace().nth(2).unwrap_or("?").to_string();
        rec.bump(&format!("kind:{kind}"));
        let mut nontrivial = false;
        for (l, op) in c.lines.iter().zip(v) {
            match op {
                Op::Bad => {
                    rec.op(l, "bad-op");
                    rec.bump("answer:bad-op");
                }
                Op::Type(t) => {
                    let a = res.types.get(t).cloned().unwrap_or_else(|| "missing".into());
                    // the harness's own table of the alphabet must agree with the compiler
                    let kv = parse_items(&format!("-[{}]", a.trim_start_matches("ty ")));
                    if let Some((_, kv)) = kv.first() {
                        if kv.get("size").and_then(|s| s.parse().ok()) != Some(ty_size(t, None)) || kv.get("align").and_then(|s| s.parse().ok()) != Some(ty_align(t)) {
                            rec.fail("type_table_mismatch", &format!("{t}: {a}"));
                        }
                        if kv.get("a1").map(|s| s == "1").unwrap_or(false) && kv.get("align").map(|s| s != "1").unwrap_or(true) {
                            rec.fail("align1_marker_on_aligned_builtin", &format!("{t}: {a}"));
                        }
                    }
                    rec.op(l, &a);
                    rec.bump("answer:type");
                    nontrivial = true;
                }
                Op::Decl(d, id) => {
                    let acc = res.accepted.get(id);
                    rec.bump(&format!("mac:{}", d.mac.tok()));
                    rec.bump(&format!("form:{}{}", d.kind.tok(), if d.generic { "<T>" } else { "" }));
                    match acc {
                        Some(o) => {
                            rec.op(l, &format!("accept {o}"));
                            rec.bump("answer:accept");
                            if !o.contains("size=0 ") {
                                nontrivial = true;
                            }
                        }
                        None => {
                            rec.op(l, "reject");
                            rec.bump("answer:reject");
                            if let Some((stage, codes)) = res.rejected.get(id) {
                                rec.bump(&format!("reject_stage:{}", stage.trim_end_matches(|c: char| c.is_ascii_digit())));
                                for c in codes {
                                    rec.bump(&format!("reject_by:{c}"));
                                }
                            }
                            nontrivial = true;
                        }
                    }
                    oracle(&mut rec, d, acc.map(|s| s.as_str()), documented.get(&d.sexpr()).copied());
                }
            }
        }
        if nontrivial {
            rec.mark_nontrivial();
        }
        if matches!(kind.as_str(), "documented" | "random") || rec.samples.len() < 2 {
            rec.sample_current(5);
        }
    }
    rec.exhaustive = Some(false);
    rec.extra.insert("probe_timings".into(), json!(res.timings));
    rec.extra.insert("probe_wall_s".into(), json!((probe_s * 100.0).round() / 100.0));
    rec.extra.insert("declarations".into(), json!(decls.len()));
    rec.extra.insert("repo".into(), json!(probe::repo()));
    rec.finish(&args);
}
