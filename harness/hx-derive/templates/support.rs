//! Fixed support code of the generated probe crate (C19): nested field types, compile-time trait
//! probes, the per-type report line and the bit-pattern probe.
#![allow(warnings)]
use core::marker::PhantomData;
use star_frame::bytemuck::{CheckedBitPattern, NoUninit, Pod, Zeroable};
use star_frame::prelude::Align1;

/// `np`: a nested, previously certified type (size 3, align 1).
#[derive(Copy, Clone, Debug, PartialEq, Eq, Zeroable, NoUninit, CheckedBitPattern)]
#[repr(C, packed)]
pub struct NestPacked {
    pub a: u16,
    pub b: u8,
}
unsafe impl Align1 for NestPacked {}

/// `na2`: a type carrying `repr(align(2))` (size 2, align 2, no marker traits).
#[derive(Copy, Clone, Debug, PartialEq, Eq)]
#[repr(align(2))]
pub struct NestAlign2(pub u8);

/// `ne`: a `repr(u8)` enum with two variants (valid bytes: 0, 1).
#[derive(Copy, Clone, Debug, PartialEq, Eq, Zeroable, NoUninit, CheckedBitPattern)]
#[repr(u8)]
pub enum NestEnum {
    A,
    B,
}
unsafe impl Align1 for NestEnum {}

// ---- does `T: Trait` hold?  inherent associated consts win over trait consts when their bounds hold
pub struct W<T: ?Sized>(PhantomData<T>);
pub trait Fallback {
    const A1: bool = false;
    const ZEROABLE: bool = false;
    const NOUNINIT: bool = false;
    const CHECKED: bool = false;
    const POD: bool = false;
}
impl<T: ?Sized> Fallback for W<T> {}
impl<T: ?Sized + Align1> W<T> {
    pub const A1: bool = true;
}
impl<T: Zeroable> W<T> {
    pub const ZEROABLE: bool = true;
}
impl<T: NoUninit> W<T> {
    pub const NOUNINIT: bool = true;
}
impl<T: CheckedBitPattern> W<T> {
    pub const CHECKED: bool = true;
}
impl<T: Pod> W<T> {
    pub const POD: bool = true;
}
#[macro_export]
macro_rules! is_a1 {
    ($t:ty) => {{
        #[allow(unused_imports)]
        use $crate::support::Fallback as _;
        <$crate::support::W<$t>>::A1
    }};
}
#[macro_export]
macro_rules! type_line {
    ($tok:expr, $t:ty) => {{
        #[allow(unused_imports)]
        use $crate::support::Fallback as _;
        format!(
            "{} ty size={} align={} a1={} zeroable={} nouninit={} checked={} pod={}",
            $tok,
            core::mem::size_of::<$t>(),
            core::mem::align_of::<$t>(),
            <$crate::support::W<$t>>::A1 as u8,
            <$crate::support::W<$t>>::ZEROABLE as u8,
            <$crate::support::W<$t>>::NOUNINIT as u8,
            <$crate::support::W<$t>>::CHECKED as u8,
            <$crate::support::W<$t>>::POD as u8
        )
    }};
}

pub enum Shape<'a> {
    /// sizes of the fields in declaration order
    Struct(&'a [usize]),
    Union,
    /// per variant, sizes of its fields
    Enum(&'a [&'a [usize]]),
}

/// The byte patterns a type of `size` bytes is probed with (boundary bytes per field).
pub fn patterns(size: usize, shape: &Shape) -> Vec<Vec<u8>> {
    let mut ps: Vec<Vec<u8>> = vec![];
    for b in [0x00u8, 0x01, 0x02, 0xff] {
        ps.push(vec![b; size]);
    }
    match shape {
        Shape::Struct(fs) => {
            let mut off = 0usize;
            let mut ranges = vec![];
            for &l in fs.iter() {
                ranges.push((off, l));
                off += l;
            }
            for &(o, l) in &ranges {
                if l > 0 && o + l <= size {
                    let mut p = vec![0u8; size];
                    for x in &mut p[o..o + l] {
                        *x = 0x02;
                    }
                    ps.push(p);
                }
            }
            for &(o, l) in &ranges {
                if l > 0 && o + l <= size {
                    let mut p = vec![0u8; size];
                    p[o + l - 1] = 0xff;
                    ps.push(p);
                }
            }
        }
        Shape::Union => {}
        Shape::Enum(vs) => {
            if size >= 1 {
                for k in 0..vs.len().min(250) {
                    let mut p = vec![0x02u8; size];
                    p[0] = k as u8;
                    ps.push(p);
                }
            }
        }
    }
    ps
}

/// `a1=.. align=.. size=.. pad=..[ bits=..]` for one concrete type.
pub fn inst<X>(a1: bool, shape: Shape, check: Option<&dyn Fn(&[u8]) -> bool>) -> String {
    let size = core::mem::size_of::<X>();
    let align = core::mem::align_of::<X>();
    let pad = match &shape {
        Shape::Struct(fs) => {
            let sum: usize = fs.iter().sum();
            if size >= sum {
                (size - sum).to_string()
            } else {
                format!("neg{}", sum - size)
            }
        }
        _ => "-".to_string(),
    };
    let mut s = format!("a1={} align={} size={} pad={}", a1 as u8, align, size, pad);
    if let Some(c) = check {
        let bits: String = patterns(size, &shape).iter().map(|p| if c(p) { '1' } else { '0' }).collect();
        s.push_str(" bits=");
        s.push_str(&bits);
    }
    s
}

pub fn type_lines(out: &mut Vec<String>) {
    out.push(type_line!("t:u8", u8));
    out.push(type_line!("t:i8", i8));
    out.push(type_line!("t:bool", bool));
    out.push(type_line!("t:u8x3", [u8; 3]));
    out.push(type_line!("t:pubkey", star_frame::prelude::Pubkey));
    out.push(type_line!("t:unit", ()));
    out.push(type_line!("t:phantom", PhantomData<u64>));
    out.push(type_line!("t:u16", u16));
    out.push(type_line!("t:u32", u32));
    out.push(type_line!("t:u64", u64));
    out.push(type_line!("t:pv64", star_frame::prelude::PackedValue<u64>));
    out.push(type_line!("t:np", NestPacked));
    out.push(type_line!("t:na2", NestAlign2));
    out.push(type_line!("t:ne", NestEnum));
    out.push(type_line!("t:u16x2", [u16; 2]));
    out.push(type_line!("t:tup16", (u16,)));
}
