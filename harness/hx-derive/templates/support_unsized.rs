//! Nested unsized types for the zero-sized-type placement cases of C19.
#![allow(warnings)]
use star_frame::prelude::*;

/// `nestrem`: ends with `RemainingBytes`, so its `ZST_STATUS` is `false`.
#[unsized_type(skip_idl)]
pub struct NestRem {
    pub x: u8,
    #[unsized_start]
    pub r: RemainingBytes,
}

/// `nestlist`: ends with a list, `ZST_STATUS` is `true`.
#[unsized_type(skip_idl)]
pub struct NestList {
    pub x: u8,
    #[unsized_start]
    pub l: List<u8>,
}
