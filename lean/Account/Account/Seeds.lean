import Common.Bytes
/-!
# C10 — model of seeded accounts (program derived addresses)

Code modelled (read in /repo at the time of writing):

* `star_frame_proc/src/get_seeds.rs` 143-161: derived `GetSeeds::seeds()` =
  `[seed_const?] ++ fields.map(|f| f.seed()) ++ [&[]]` (declaration order, trailing EMPTY slot);
* `star_frame/src/account_set/modifiers/seeded.rs`
  - `Seed for T: NoUninit` = `bytes_of(self)` (native = little-endian bytes, 32-byte keys, arrays as is),
  - `SeedsWithBump::seeds_with_bump` 83-94: the last slot is REPLACED by `[bump]` when it is empty,
    otherwise `[bump]` is pushed,
  - `without_bump_placeholder` (commit 801ca3a): pops a trailing EMPTY seed,
  - `validate_and_set_seeds`: already set → `Ok`;
    `find_program_address(without_bump_placeholder(seeds()), P)`; compare with the account key;
    record `(seeds, bump)`,
  - `validate_and_set_seeds_with_bump` 257-275: already set → `Ok`;
    `create_program_address(seeds_with_bump(), P)?`; compare; record the argument,
  - `access_seeds` (panics when unset), `signer_seeds` = `seeds_with_bump` of the recorded value;
* `star_frame/src/client.rs`: `find_program_address(without_bump_placeholder(seeds()), ID)`;
  `create_program_address(without_bump_placeholder(seeds()) ++ [[bump]], ID)`;
* `solana-address 1.0.0` `create_program_address` / `try_find_program_address` (native branch):
  more than 16 seeds or a seed longer than 32 bytes → `MaxSeedLengthExceeded`; the hash is taken over
  the CONCATENATION of the seeds, then program id and marker; on-curve → `InvalidSeeds`;
  `find` tries bump 255, 254, … 1 (255 iterations — bump 0 is never tried), continues only on
  `InvalidSeeds`, gives up (`None` → panic in `find_program_address`) on any other error.

SHA-256 and the curve test are NOT modelled: `H` is an arbitrary function of the flattened seed
bytes and the program id (`none` = the hash is on the curve). Every theorem quantifies over `H`.
-/
namespace Account.Seeds
open Common

/-- The hash oracle: flattened seed bytes → program id → address (`none`: on curve). -/
def Hash : Type := List Nat → List Nat → Option (List Nat)

def MAX_SEEDS : Nat := 16
def MAX_SEED_LEN : Nat := 32

inductive CreateErr
  | maxSeedLengthExceeded
  | invalidSeeds
  deriving DecidableEq, Repr

deriving instance DecidableEq for Except

/-- The two runtime limits checked before hashing. -/
def limitsOk (seeds : List (List Nat)) : Bool :=
  !(decide (seeds.length > MAX_SEEDS)) && !(seeds.any fun s => decide (s.length > MAX_SEED_LEN))

/-- `Pubkey::create_program_address`. -/
def create (H : Hash) (seeds : List (List Nat)) (P : List Nat) : Except CreateErr (List Nat) :=
  if seeds.length > MAX_SEEDS then .error .maxSeedLengthExceeded
  else if seeds.any (fun s => decide (s.length > MAX_SEED_LEN)) then .error .maxSeedLengthExceeded
  else match H seeds.flatten P with
    | some k => .ok k
    | none => .error .invalidSeeds

/-- The bump loop of `try_find_program_address` over an explicit list of bumps. -/
def findIn (H : Hash) (seeds : List (List Nat)) (P : List Nat) : List Nat → Option (List Nat × Nat)
  | [] => none
  | b :: bs =>
    match create H (seeds ++ [[b]]) P with
    | .ok k => some (k, b)
    | .error .invalidSeeds => findIn H seeds P bs
    | .error .maxSeedLengthExceeded => none

/-- 255, 254, …, 1 (`for _ in 0..u8::MAX` starting at `u8::MAX`: bump 0 is never tried). -/
def bumps : List Nat := (List.range 255).reverse.map (· + 1)

/-- `Pubkey::try_find_program_address`; `none` makes `find_program_address` panic. -/
def find (H : Hash) (seeds : List (List Nat)) (P : List Nat) : Option (List Nat × Nat) :=
  findIn H seeds P bumps

/-! ## The points at which `create` / `find` consult `H` (used by the driver to decide whether the
oracle table supplied by the harness is complete; soundness: `create_congr`, `findIn_congr`). -/

def createQueries (seeds : List (List Nat)) (P : List Nat) : List (List Nat × List Nat) :=
  if limitsOk seeds then [(seeds.flatten, P)] else []

def findInQueries (H : Hash) (seeds : List (List Nat)) (P : List Nat) :
    List Nat → List (List Nat × List Nat)
  | [] => []
  | b :: bs =>
    if limitsOk (seeds ++ [[b]]) then
      ((seeds ++ [[b]]).flatten, P) ::
        (match H (seeds ++ [[b]]).flatten P with
         | some _ => []
         | none => findInQueries H seeds P bs)
    else []

def findQueries (H : Hash) (seeds : List (List Nat)) (P : List Nat) : List (List Nat × List Nat) :=
  findInQueries H seeds P bumps

/-! ## Seed structs and the derived `seeds()` -/

/-- A field value of a seed struct (the types the harness instantiates: `u8…u128`, `i8…i128`,
`Pubkey`, `[u8; N]`, `bool`). `w` is the width in bytes. -/
inductive FieldVal
  | uint (w : Nat) (v : Nat)
  | sint (w : Nat) (v : Int)
  | key (bs : List Nat)
  | arr (bs : List Nat)
  | bool (b : Bool)
  deriving DecidableEq, Repr

/-- `Seed::seed` = `bytemuck::bytes_of`: little-endian integers (two's complement when signed),
keys and byte arrays verbatim. -/
def bytesOf : FieldVal → List Nat
  | .uint w v => leN w v
  | .sint w v => leN w (v % ((256 ^ w : Nat) : Int)).toNat
  | .key bs => bs
  | .arr bs => bs
  | .bool b => [if b then 1 else 0]

/-- One seed component = one struct field. A plain field is a single primitive value; a field whose
type is itself a padding-free `NoUninit` struct (`#[repr(C)]` / `#[repr(C, packed)]`, also
`PackedValue<T>`) is the concatenation of its members in declaration order (`bytes_of` of the whole
struct). A zero-sized field (`[u8; 0]`, a unit struct) is an EMPTY component. -/
def compBytes (c : List FieldVal) : List Nat := (c.map bytesOf).flatten

/-- A `GetSeeds` value: the optional `seed_const` and the fields in declaration order.
`placeholder = true` is what `#[derive(GetSeeds)]` (and the blanket impl, and a hand-written impl
following the trait documentation) produce: `seeds()` ends with an EMPTY slot reserved for the bump.
`placeholder = false` is a hand-written `GetSeeds` that returns just its real seeds. -/
structure SeedStruct where
  const : Option (List Nat)
  fields : List (List FieldVal)
  placeholder : Bool
  deriving DecidableEq, Repr

/-- The seeds the user means: constant prefix, then every field. -/
def userSeeds (S : SeedStruct) : List (List Nat) :=
  S.const.toList ++ S.fields.map compBytes

/-- `GetSeeds::seeds()`: the user seeds plus (derived impls) the trailing empty slot. -/
def seeds (S : SeedStruct) : List (List Nat) :=
  userSeeds S ++ (if S.placeholder then [[]] else [])

/-- `without_bump_placeholder` (repo commit 801ca3a): pops the last seed iff it is empty. Used by the
`find` validation path and by both client helpers. Note that for a hand-written `GetSeeds` without a
placeholder whose LAST REAL seed is empty this pops a real seed — which does not change the hashed
bytes, only the slot count. -/
def dropTrailingEmpty (ss : List (List Nat)) : List (List Nat) :=
  match ss.getLast? with
  | some [] => ss.dropLast
  | _ => ss

/-- The seed list every path hands to the runtime next to the bump. -/
def effSeeds (S : SeedStruct) : List (List Nat) := dropTrailingEmpty (seeds S)

/-- `SeedsWithBump::seeds_with_bump` on an arbitrary seed vector: replace an empty last slot,
otherwise push. -/
def seedsWithBump (ss : List (List Nat)) (bump : Nat) : List (List Nat) :=
  match ss.getLast? with
  | some [] => ss.dropLast ++ [[bump]]
  | _ => ss ++ [[bump]]

/-! ## `Seeded` -/

/-- `SeedsWithBump<S>` as recorded by a successful validation. -/
structure Recorded where
  seeds : SeedStruct
  bump : Nat
  deriving DecidableEq, Repr

/-- The `Seeded` wrapper: the wrapped account's key and `seeds: Option<SeedsWithBump<S>>`. -/
structure Seeded where
  key : List Nat
  recorded : Option Recorded
  deriving DecidableEq, Repr

inductive VRes
  | ok
  | addressMismatch
  | createErr (e : CreateErr)
  | panic
  deriving DecidableEq, Repr

/-- `validate_and_set_seeds` with seed program id `P`. -/
def validateSeeds (H : Hash) (P : List Nat) (S : SeedStruct) (st : Seeded) : VRes × Seeded :=
  match st.recorded with
  | some _ => (.ok, st)
  | none =>
    match find H (dropTrailingEmpty (seeds S)) P with
    | none => (.panic, st)
    | some (addr, bump) =>
      if addr = st.key then (.ok, { st with recorded := some ⟨S, bump⟩ })
      else (.addressMismatch, st)

/-- `validate_and_set_seeds_with_bump`. -/
def validateWithBump (H : Hash) (P : List Nat) (S : SeedStruct) (bump : Nat) (st : Seeded) :
    VRes × Seeded :=
  match st.recorded with
  | some _ => (.ok, st)
  | none =>
    match create H (seedsWithBump (seeds S) bump) P with
    | .error e => (.createErr e, st)
    | .ok addr =>
      if addr = st.key then (.ok, { st with recorded := some ⟨S, bump⟩ })
      else (.addressMismatch, st)

/-- One validation call on a `Seeded` value (`init_seeds` takes the same two routes). -/
inductive VStep
  | seeds (S : SeedStruct)
  | bump (S : SeedStruct) (b : Nat)
  deriving DecidableEq, Repr

def applyStep (H : Hash) (P : List Nat) : VStep → Seeded → VRes × Seeded
  | .seeds S, st => validateSeeds H P S st
  | .bump S b, st => validateWithBump H P S b st

/-- A history of validation calls on ONE `Seeded` value: the results in order and the final state. -/
def runHistory (H : Hash) (P : List Nat) : List VStep → Seeded → List VRes × Seeded
  | [], st => ([], st)
  | s :: rest, st =>
    let (r, st1) := applyStep H P s st
    let (rs, st2) := runHistory H P rest st1
    (r :: rs, st2)

/-- `access_seeds()` (`none` = the `expect("Seeds not set!")` panic). -/
def accessSeeds (st : Seeded) : Option Recorded := st.recorded

/-- `signer_seeds()` (`none` = panic inside `access_seeds`). -/
def signerSeeds (st : Seeded) : Option (List (List Nat)) :=
  st.recorded.map fun r => seedsWithBump (seeds r.seeds) r.bump

/-- Client `FindProgramAddress::find_program_address` (`none` = panic). -/
def clientFind (H : Hash) (P : List Nat) (S : SeedStruct) : Option (List Nat × Nat) :=
  find H (dropTrailingEmpty (seeds S)) P

/-- Client `FindProgramAddress::create_program_address`: drops the placeholder, pushes the bump. -/
def clientCreate (H : Hash) (P : List Nat) (S : SeedStruct) (bump : Nat) :
    Except CreateErr (List Nat) :=
  create H (dropTrailingEmpty (seeds S) ++ [[bump]]) P

end Account.Seeds
