import Account.Lifecycle
/-!
# C11 — the lifecycle as the generated code runs it: recursive, with early exit

`Lifecycle.lean` describes a run through flattened step lists of the decoded shape. This file is
the code-shaped counterpart, which is what `c11_model` executes:

* `ASet.decodeI` — `decode_accounts` recursing through structs, containers and options, consuming
  the account list and returning the decoded value (an `RSet`) or the first error;
* `RSet.validateI` — `validate_accounts`: a struct runs `before_validation`, then the code blocks
  of its fields in the order fixed at macro-expansion time (`order`), each block calling the nested
  `validate_accounts` followed by `?`, then `extra_validation`;
* `RSet.cleanupI` — `cleanup_accounts`;
* `runI` — `process_from_raw`.

`Account/InterpLemmas.lean` proves `runI = run` (`run_tree_eq_flat`).
-/
namespace Account.C11

/-- A piece of generated code: transforms the trace and the `Context` cache, may fail. -/
abbrev Prog := Trace → Ctx → Trace × Ctx × Option Err

def skipP : Prog := fun tr c => (tr, c, none)

/-- `p?; q` -/
def Prog.andThen (p q : Prog) : Prog := fun tr c =>
  match p tr c with
  | (tr', c', some e) => (tr', c', some e)
  | (tr', c', none) => q tr' c'

def seqP : List Prog → Prog
  | [] => skipP
  | p :: ps => p.andThen (seqP ps)

/-- one instrumented call followed by `?` -/
def call (plan : FaultPlan) (e : Event) (natural : Option Err := none) : Prog := fun tr c =>
  match stepFail plan e natural with
  | some er => (tr ++ [e], c, some er)
  | none => (tr ++ [e], c, none)

def cacheP (effs : List Eff) : Prog := fun tr c => (tr, applyEffs c effs, none)

def optCall (plan : FaultPlan) (b : Bool) (ph : Phase) (tag slot : Nat) : Prog :=
  if b then call plan ⟨ph, tag, slot, [], none, none⟩ else skipP

/-- `address` check, `temp`, `arg` of a leaf field -/
def preP (plan : FaultPlan) (h : FieldHdr) : RSet → Prog
  | .leaf p s _ =>
    (optCall plan h.addr .vaddr p s).andThen
      ((optCall plan h.temp .vtemp p s).andThen (optCall plan h.arg .varg p s))
  | _ => skipP

def cachePOf (h : FieldHdr) : RSet → Prog
  | .leaf _ s _ =>
    cacheP ((if h.funder then [Eff.funder s] else []) ++ (if h.recipient then [Eff.recipient s] else []))
  | _ => skipP

def lookupP (table : List (Nat × Prog)) (n : Nat) : Prog :=
  ((table.find? (fun e => e.1 == n)).map (·.2)).getD skipP

/-- the field blocks, laid out in the order computed by the macro -/
def runOrdered (ns : List Nat) (table : List (Nat × Prog)) : Prog := seqP (ns.map (lookupP table))

mutual
def RSet.validateI (plan : FaultPlan) : RSet → Prog
  | .leaf p s _ => call plan ⟨.validate, p, s, [], none, none⟩
  | .node sid b e _ fs =>
    (optCall plan b .vbefore sid 0).andThen
      ((runOrdered (order (sigs fs)) (validateBlocksI plan fs)).andThen
        (optCall plan e .vextra sid 0))
  | .seq rs => validateIL plan rs
def validateBlocksI (plan : FaultPlan) : List (FieldHdr × RSet) → List (Nat × Prog)
  | [] => []
  | (h, r) :: rest =>
    (h.name, (if h.skip then skipP else (preP plan h r).andThen (r.validateI plan)).andThen (cachePOf h r))
      :: validateBlocksI plan rest
def validateIL (plan : FaultPlan) : List RSet → Prog
  | [] => skipP
  | r :: rest => (r.validateI plan).andThen (validateIL plan rest)
end

mutual
def RSet.cleanupI (plan : FaultPlan) : RSet → Prog
  | .leaf p s _ => call plan ⟨.cleanup, p, s, [], none, none⟩
  | .node sid _ _ x fs => (cleanupIF plan fs).andThen (optCall plan x .cextra sid 0)
  | .seq rs => cleanupIL plan rs
def cleanupIF (plan : FaultPlan) : List (FieldHdr × RSet) → Prog
  | [] => skipP
  | (_, r) :: rest => (r.cleanupI plan).andThen (cleanupIF plan rest)
def cleanupIL (plan : FaultPlan) : List RSet → Prog
  | [] => skipP
  | r :: rest => (r.cleanupI plan).andThen (cleanupIL plan rest)
end

mutual
/-- `decode_accounts`: consumes accounts, returns the decoded set or the first error. -/
def ASet.decodeI (plan : FaultPlan) : ASet → Trace → Accts → Trace × Accts × Except Err RSet
  | .leaf p, tr, a =>
    let e : Event := ⟨.decode, p, a.pos, [], none, none⟩
    match planned plan e with
    | some er => (tr ++ [e], a, .error er)
    | none =>
      match a.rest with
      | [] => (tr ++ [e], a, .error advanceError)     -- `try_advance_array` on an empty slice
      | _ :: _ => (tr ++ [e], a.take1, .ok (.leaf p a.pos true))
  | .node sid b e x fs, tr, a =>
    match decodeIF plan fs tr a with
    | (tr', a', .error er) => (tr', a', .error er)
    | (tr', a', .ok rfs) => (tr', a', .ok (.node sid b e x rfs))
  | .seq ts, tr, a =>
    match decodeIL plan ts tr a with
    | (tr', a', .error er) => (tr', a', .error er)
    | (tr', a', .ok rs) => (tr', a', .ok (.seq rs))
  | .opt k t, tr, a =>
    match a.rest with
    | [] => (tr, a, .ok (.seq []))
    | isProgram :: _ =>
      if k = .option ∧ isProgram = true then (tr, a.take1, .ok (.seq []))
      else
        match t.decodeI plan tr a with
        | (tr', a', .error er) => (tr', a', .error er)
        | (tr', a', .ok r) => (tr', a', .ok (.seq [r]))
def decodeIF (plan : FaultPlan) : List (FieldHdr × ASet) → Trace → Accts →
    Trace × Accts × Except Err (List (FieldHdr × RSet))
  | [], tr, a => (tr, a, .ok [])
  | (h, t) :: rest, tr, a =>
    match t.decodeI plan tr a with
    | (tr', a', .error er) => (tr', a', .error er)
    | (tr', a', .ok r) =>
      match decodeIF plan rest tr' a' with
      | (tr'', a'', .error er) => (tr'', a'', .error er)
      | (tr'', a'', .ok rs) => (tr'', a'', .ok ((h, r) :: rs))
def decodeIL (plan : FaultPlan) : List ASet → Trace → Accts → Trace × Accts × Except Err (List RSet)
  | [], tr, a => (tr, a, .ok [])
  | t :: rest, tr, a =>
    match t.decodeI plan tr a with
    | (tr', a', .error er) => (tr', a', .error er)
    | (tr', a', .ok r) =>
      match decodeIL plan rest tr' a' with
      | (tr'', a'', .error er) => (tr'', a'', .error er)
      | (tr'', a'', .ok rs) => (tr'', a'', .ok (r :: rs))
end

/-- `process_from_raw`, code-shaped. -/
def runI (ix : Ix) (plan : FaultPlan) (data : List Nat) (accts : List Bool) : Trace × Result :=
  let tr : Trace := [argsEvent ix]
  match argsFail ix plan data with
  | some e => (tr, .err (toProgramError e))
  | none =>
  match ix.set.decodeI plan tr ⟨accts, 0⟩ with
  | (tr, _, .error e) => (tr, .err (toProgramError e))
  | (tr, _, .ok r) =>
  match r.validateI plan tr {} with
  | (tr, _, some e) => (tr, .err (toProgramError e))
  | (tr, c, none) =>
  let pe : Event := ⟨.process, ix.id, 0, data.take ix.alen, c.funder, c.recipient⟩
  let tr := tr ++ [pe]
  match planned plan pe with
  | some e => (tr, .err (toProgramError e))
  | none =>
  match r.cleanupI plan tr c with
  | (tr, _, some e) => (tr, .err (toProgramError e))
  | (tr, _, none) => (tr, .ok)

/-- The whole entrypoint: dispatch, then the selected instruction's lifecycle.
`ixs` maps handler ids to instructions. -/
def entry (t : Table) (ixs : List Ix) (off : Nat) (bs : List Nat) (accts : List Bool) (plan : FaultPlan) :
    Trace × Result :=
  match dispatch t off bs with
  | .reject e => ([], .err (toProgramError e))
  | .run h rest =>
    match ixs.find? (fun i => i.id == h) with
    | none => ([], .ok)     -- not reachable for a well-formed driver state
    | some ix => runI ix plan rest accts

end Account.C11
