import Account.Modifiers
/-!
# Model of program-account admission (C08)

`star_frame/src/account_set/mod.rs` (`ProgramAccount::validate_account_info`,
`validate_discriminant`), `account.rs` (`Account::data`, `Account::data_mut`,
`AccountDiscriminant::get_ptr`), `single_set.rs` (`close_account`), `unsize/wrapper.rs`
(`SharedWrapper::new`, `ExclusiveWrapper::new`), `unsize/impls/checked.rs` (`get_ptr` of a `Pod`
body) and, from pinocchio 0.9.2 `account_info.rs`: the borrow byte (`can_borrow_data`,
`can_borrow_mut_data`) and `resize`.

Same branch order and error precedence as the code:
`validate_account_info` = `validate_discriminant` THEN the owner comparison.
-/
namespace Account.Validate
open Common
open Account.Modifiers (fastEq32 Key32)

/-- pinocchio's data borrow state: the exclusive bit and the number of shared borrows taken
(the byte has three counter bits: at most 7 shared borrows). -/
structure Borrow where
  excl : Bool
  shared : Nat
deriving Repr, DecidableEq

def Borrow.free : Borrow := ⟨false, 0⟩
/-- `can_borrow_data`: not exclusively borrowed and fewer than 7 shared borrows. -/
def Borrow.canRead (b : Borrow) : Bool := !b.excl && decide (b.shared < 7)
/-- `can_borrow_mut_data`: not borrowed in any form. -/
def Borrow.canWrite (b : Borrow) : Bool := !b.excl && decide (b.shared = 0)

/-- A runtime account as one instruction sees it. `orig` is the data length the instruction
started with (pinocchio's `resize_delta` is `data.length - orig`). -/
structure Acct where
  owner : List Nat
  data : List Nat
  writable : Bool
  borrow : Borrow
  orig : Nat
deriving Repr, DecidableEq

inductive Err
  | accountDataTooSmall     -- ProgramError::AccountDataTooSmall
  | accountBorrowFailed     -- ProgramError::AccountBorrowFailed
  | discriminantMismatch    -- ErrorCode::DiscriminantMismatch = Custom(1003)
  | invalidAccountOwner     -- ProgramError::InvalidAccountOwner
  | rawSliceAdvance         -- ErrorCode::RawSliceAdvance      = Custom(2002)
  | invalidRealloc          -- ProgramError::InvalidRealloc
  | ioError                 -- ErrorCode::IoError              = Custom(9001) (every borsh error)
  | expectedWritable        -- ErrorCode::ExpectedWritable     = Custom(1000)
  | emptyFunderCache        -- ErrorCode::EmptyFunderCache     = Custom(1004)
  | emptyRecipientCache     -- ErrorCode::EmptyRecipientCache  = Custom(1005)
  | insufficientFunds       -- ProgramError::InsufficientFunds
  -- the remaining classes are only produced by the account-set nestings of C09 (`Account/Nests.lean`)
  | expectedSigner          -- ErrorCode::ExpectedSigner       = Custom(1001)
  | addressMismatch         -- ErrorCode::AddressMismatch      = Custom(1002)
  | illegalOwner            -- ProgramError::IllegalOwner
  | incorrectProgramId      -- ProgramError::IncorrectProgramId
  | notEnoughAccounts       -- ErrorCode::AdvanceError         = Custom(9004) (decode ran out of accounts)
  | createAttempted         -- `Init` reached the account creation (a CPI; outside C09)
  | panicked                -- the code panics (slice index)
  | invalidArgument         -- ProgramError::InvalidArgument (validate-arg list of the wrong length)
deriving Repr, DecidableEq

/-- A program account type: the declaring program's id, the discriminant as bytes
(`bytes_of(&T::DISCRIMINANT)`; its length is the width `W = size_of::<AccountDiscriminant>()`), and
the size of the fixed-size zero-copy body behind it. -/
structure PType where
  progId : List Nat
  disc : List Nat
  body : Nat
deriving Repr, DecidableEq

def PType.W (t : PType) : Nat := t.disc.length

/-- The comparison inside `validate_discriminant`: for `W ∈ {1,2,4,8}` ONE unaligned little-endian
integer read of `W` bytes compared with the discriminant cast to the same integer; otherwise a slice
compare of the first `W` bytes. (Precondition in the code: `W ≤ data.length`.) -/
def discMatches (disc data : List Nat) : Bool :=
  let W := disc.length
  if W = 1 ∨ W = 2 ∨ W = 4 ∨ W = 8 then rdLE (data.take W) == rdLE disc
  else data.take W == disc

/-- `validate_discriminant`. -/
def validateDisc (t : PType) (a : Acct) : Except Err Unit :=
  if t.W = 0 then .ok ()
  else if a.data.length < t.W then .error .accountDataTooSmall
  else if !a.borrow.canRead then .error .accountBorrowFailed
  else if discMatches t.disc a.data then .ok ()
  else .error .discriminantMismatch

/-- `ProgramAccount::validate_account_info`: discriminant first, then `owner.fast_eq(ID)`. -/
def validateAccountInfo (t : PType) (a : Acct) : Except Err Unit :=
  match validateDisc t a with
  | .error e => .error e
  | .ok () => if fastEq32 a.owner t.progId then .ok () else .error .invalidAccountOwner

/-- `AccountDiscriminant<T>::get_ptr` on the borrowed slice: advance past the discriminant, then the
`Pod` body's `get_ptr` advances `body` bytes. Returns the body bytes the view exposes. -/
def getPtr (t : PType) (data : List Nat) : Except Err (List Nat) :=
  if data.length < t.W then .error .rawSliceAdvance
  else if data.length - t.W < t.body then .error .rawSliceAdvance
  else .ok ((data.drop t.W).take t.body)

/-- `SharedWrapper::new::<AccountDiscriminant<T>>`: shared borrow, then `get_ptr`. -/
def sharedView (t : PType) (a : Acct) : Except Err (List Nat) :=
  if !a.borrow.canRead then .error .accountBorrowFailed else getPtr t a.data

/-- `ExclusiveWrapper::new`: exclusive borrow, then `get_ptr`. -/
def exclView (t : PType) (a : Acct) : Except Err (List Nat) :=
  if !a.borrow.canWrite then .error .accountBorrowFailed else getPtr t a.data

/-- `Account::data`: re-validate iff writable, then the shared view. (The returned wrapper is
dropped by the caller, which restores the borrow state; the account is unchanged.) -/
def dataView (t : PType) (a : Acct) : Except Err (List Nat) :=
  if a.writable then
    match validateAccountInfo t a with
    | .error e => .error e
    | .ok () => sharedView t a
  else sharedView t a

/-- `Account::data_mut`: re-validate iff writable, otherwise `AccountBorrowFailed`; then the
exclusive view. -/
def dataMutView (t : PType) (a : Acct) : Except Err (List Nat) :=
  if a.writable then
    match validateAccountInfo t a with
    | .error e => .error e
    | .ok () => exclView t a
  else .error .accountBorrowFailed

def maxIncrease : Nat := 10240

/-- pinocchio `AccountInfo::resize`: refused while borrowed; no-op on equal length; the length may
exceed the instruction's original length by at most `MAX_PERMITTED_DATA_INCREASE`; truncation keeps
the prefix, growth zero-fills. -/
def resize (a : Acct) (n : Nat) : Except Err Acct :=
  if !a.borrow.canWrite then .error .accountBorrowFailed
  else if n = a.data.length then .ok a
  else if n > a.orig + maxIncrease then .error .invalidRealloc
  else .ok { a with data := a.data.take n ++ List.replicate (n - a.data.length) 0 }

/-- `CanCloseAccount::close_account`: resize to the discriminant width and fill with `0xFF`.
(The lamport transfer to the recipient is not part of this property and not modelled.) -/
def closeAccount (t : PType) (a : Acct) : Except Err Acct :=
  match resize a t.W with
  | .error e => .error e
  | .ok a1 => .ok { a1 with data := List.replicate a1.data.length 255 }

/-- `#[cleanup(id = "close_account_cached", arg = CloseAccount<()>)]`: needs the recipient cached in
the `Context`. -/
def cleanupClose (t : PType) (haveRecipient : Bool) (a : Acct) : Except Err Acct :=
  if haveRecipient then closeAccount t a else .error .emptyRecipientCache

/-! ## Declarative side -/

/-- What the property calls "admitted": owned by the declaring program, data begins with exactly the
type's discriminant, and is at least that long. -/
def Admit (t : PType) (a : Acct) : Prop :=
  a.owner = t.progId ∧ a.data.take t.W = t.disc ∧ t.W ≤ a.data.length

instance (t : PType) (a : Acct) : Decidable (Admit t a) := by unfold Admit; infer_instance

def TypeWF (t : PType) : Prop := Key32 t.progId ∧ BytesWF t.disc
def AcctWF (a : Acct) : Prop := Key32 a.owner ∧ BytesWF a.data

end Account.Validate
