import Account.Order
/-!
# C11 — lemmas about the field-ordering loop (`Account/Order.lean`)

* `orderLoop_perm`      every pending field is emitted exactly once (any `requires`, cyclic or not);
* `exists_cycle`        a finite non-empty set in which every node has a predecessor has a cycle;
* `exists_ready`        acyclic `requires` ⇒ some pending field is always ready;
* `orderLoop_respects`  acyclic `requires` ⇒ every field is emitted after every field it requires;
* `orderLoop_noreq`     no `requires` ⇒ declaration order.
-/
namespace Account.C11
open Relation

/-! ## list plumbing -/

theorem split_at {α : Type} : ∀ (l : List α) (i : Nat) (g : α), l[i]? = some g →
    ∃ A B, l = A ++ g :: B ∧ l.eraseIdx i = A ++ B
  | [], i, g, h => by simp at h
  | x :: xs, 0, g, h => by
    simp at h; subst h; exact ⟨[], xs, by simp, by simp⟩
  | x :: xs, i + 1, g, h => by
    simp at h
    obtain ⟨A, B, h1, h2⟩ := split_at xs i g h
    refine ⟨x :: A, B, by simp [h1], ?_⟩
    simp [List.eraseIdx_cons_succ, h2]

theorem nextIndex_spec (pending : List Field) (hne : pending ≠ []) :
    ∃ g, pending[nextIndex pending]? = some g := by
  unfold nextIndex
  cases h : pending.findIdx? (ready pending) with
  | none =>
    cases pending with
    | nil => exact absurd rfl hne
    | cons p ps => exact ⟨p, by simp⟩
  | some i =>
    obtain ⟨hi, _⟩ := List.findIdx?_eq_some_iff_getElem.mp h
    exact ⟨pending[i], by simp [hi]⟩

theorem nextIndex_ready (pending : List Field) (h : ∃ f, f ∈ pending ∧ ready pending f = true) :
    ∃ g, pending[nextIndex pending]? = some g ∧ ready pending g = true := by
  unfold nextIndex
  have h' := List.findIdx?_eq_some_of_exists (p := ready pending) h
  obtain ⟨hi, hp, _⟩ := List.findIdx?_eq_some_iff_getElem.mp h'
  rw [h']
  exact ⟨pending[pending.findIdx (ready pending)], by simp [hi], hp⟩

theorem names_append (A B : List Field) : names (A ++ B) = names A ++ names B := by
  simp [names]

theorem names_cons (g : Field) (B : List Field) : names (g :: B) = g.1 :: names B := by
  simp [names]

theorem mem_names_of_mem {f : Field} {fs : List Field} (h : f ∈ fs) : f.1 ∈ names fs := by
  simp only [names, List.mem_map]; exact ⟨f, h, rfl⟩

/-! ## every field exactly once -/

theorem orderLoop_step (n : Nat) (pending : List Field) (hne : pending ≠ []) :
    ∃ g A B, pending = A ++ g :: B ∧ pending[nextIndex pending]? = some g ∧
      orderLoop (n + 1) pending = g.1 :: orderLoop n (A ++ B) := by
  obtain ⟨g, hg⟩ := nextIndex_spec pending hne
  obtain ⟨A, B, h1, h2⟩ := split_at pending _ g hg
  refine ⟨g, A, B, h1, hg, ?_⟩
  cases pending with
  | nil => exact absurd rfl hne
  | cons p ps =>
    simp only [orderLoop]
    rw [hg]
    simp only [h2]

theorem orderLoop_perm : ∀ (n : Nat) (pending : List Field), pending.length ≤ n →
    (orderLoop n pending).Perm (names pending)
  | 0, pending, h => by
    have : pending = [] := List.eq_nil_of_length_eq_zero (by omega)
    subst this; simp [orderLoop, names]
  | n + 1, pending, h => by
    by_cases hne : pending = []
    · subst hne; simp [orderLoop, names]
    · obtain ⟨g, A, B, h1, _, h3⟩ := orderLoop_step n pending hne
      rw [h3, h1, names_append, names_cons]
      have hlen : (A ++ B).length ≤ n := by
        have : pending.length = (A ++ g :: B).length := by rw [h1]
        simp at this ⊢; omega
      have ih := orderLoop_perm n (A ++ B) hlen
      rw [names_append] at ih
      exact (List.Perm.cons g.1 ih).trans List.perm_middle.symm

/-! ## acyclic ⇒ some pending field is ready -/

theorem TransGen_lift {α : Type} {R R' : α → α → Prop}
    (h : ∀ a b, R' a b → TransGen R a b) {a b : α} (t : TransGen R' a b) : TransGen R a b := by
  induction t with
  | single hab => exact h _ _ hab
  | tail _ hbc ih => exact ih.trans (h _ _ hbc)

/-- In a non-empty finite set in which every element has an `R`-predecessor inside the set,
`R` has a cycle. (Remove one element `a`, short-cutting paths through it.) -/
theorem exists_cycle {α : Type} : ∀ (n : Nat) (S : List α) (R : α → α → Prop),
    S.length = n + 1 → (∀ x ∈ S, ∃ y ∈ S, R y x) → ∃ x, TransGen R x x
  | 0, S, R, hlen, hpred => by
    match S, hlen with
    | [a], _ =>
      obtain ⟨y, hy, hr⟩ := hpred a (by simp)
      simp at hy; subst hy
      exact ⟨y, .single hr⟩
  | n + 1, S, R, hlen, hpred => by
    match S, hlen with
    | a :: T, hlen =>
      by_cases haa : R a a
      · exact ⟨a, .single haa⟩
      · let R' : α → α → Prop := fun y x => R y x ∨ (R y a ∧ R a x)
        have hT : T.length = n + 1 := by simpa using hlen
        have hpred' : ∀ x ∈ T, ∃ y ∈ T, R' y x := by
          intro x hx
          obtain ⟨y, hy, hyx⟩ := hpred x (List.mem_cons_of_mem _ hx)
          rcases List.mem_cons.mp hy with rfl | hyT
          · obtain ⟨z, hz, hzy⟩ := hpred y (List.mem_cons_self)
            rcases List.mem_cons.mp hz with rfl | hzT
            · exact absurd hzy haa
            · exact ⟨z, hzT, Or.inr ⟨hzy, hyx⟩⟩
          · exact ⟨y, hyT, Or.inl hyx⟩
        obtain ⟨x, hx⟩ := exists_cycle n T R' hT hpred'
        refine ⟨x, TransGen_lift ?_ hx⟩
        intro p q hpq
        rcases hpq with h | ⟨h1, h2⟩
        · exact .single h
        · exact .tail (.single h1) h2

theorem ready_eq_false {pending : List Field} {f : Field} (h : ready pending f = false) :
    ∃ r ∈ f.2, ∃ g ∈ pending, g.1 = r := by
  unfold ready at h
  rw [List.all_eq_false] at h
  obtain ⟨r, hr, hx⟩ := h
  simp only [Bool.not_eq_true, Bool.not_eq_false', List.any_eq_true, beq_iff_eq] at hx
  obtain ⟨g, hg, hgr⟩ := hx
  exact ⟨r, hr, g, hg, hgr⟩

theorem ready_eq_true {pending : List Field} {f : Field} (h : ready pending f = true) :
    ∀ r ∈ f.2, r ∉ names pending := by
  intro r hr hmem
  unfold ready at h
  rw [List.all_eq_true] at h
  have := h r hr
  simp only [names, List.mem_map] at hmem
  obtain ⟨g, hg, hgr⟩ := hmem
  simp only [Bool.not_eq_true', List.any_eq_false, beq_iff_eq] at this
  exact this g hg hgr

theorem exists_ready (pending : List Field) (hne : pending ≠ []) (hac : Acyclic pending) :
    ∃ f, f ∈ pending ∧ ready pending f = true := by
  apply Classical.byContradiction
  intro hno
  have hall : ∀ f ∈ pending, ready pending f = false := by
    intro f hf
    cases hr : ready pending f with
    | false => rfl
    | true => exact absurd ⟨f, hf, hr⟩ hno
  have hlen : (names pending).length = (pending.length - 1) + 1 := by
    cases pending with
    | nil => exact absurd rfl hne
    | cons p ps => simp [names]
  have hpred : ∀ x ∈ names pending, ∃ y ∈ names pending, Edge pending y x := by
    intro x hx
    simp only [names, List.mem_map] at hx
    obtain ⟨f, hf, rfl⟩ := hx
    obtain ⟨r, hr, g, hg, hgr⟩ := ready_eq_false (hall f hf)
    exact ⟨r, hgr ▸ mem_names_of_mem hg, f, hf, rfl, hr⟩
  obtain ⟨x, hx⟩ := exists_cycle _ (names pending) (Edge pending) hlen hpred
  exact hac x hx

theorem Acyclic_subset {fs ps : List Field} (hac : Acyclic fs) (hsub : ∀ f ∈ ps, f ∈ fs) :
    Acyclic ps := by
  intro x hx
  refine hac x (TransGen_lift ?_ hx)
  intro a b ⟨fld, hf, h1, h2⟩
  exact .single ⟨fld, hsub fld hf, h1, h2⟩

/-! ## acyclic ⇒ every field after everything it requires -/

theorem Before_cons {l : List Nat} {a b : Nat} (x : Nat) (h : Before l a b) : Before (x :: l) a b := by
  obtain ⟨l₁, l₂, l₃, rfl⟩ := h
  exact ⟨x :: l₁, l₂, l₃, by simp⟩

theorem Before_head {l : List Nat} {a b : Nat} (h : b ∈ l) : Before (a :: l) a b := by
  obtain ⟨s, t, rfl⟩ := List.append_of_mem h
  exact ⟨[], s, t, by simp⟩

theorem orderLoop_respects : ∀ (n : Nat) (pending : List Field), pending.length ≤ n →
    Acyclic pending →
    ∀ f ∈ pending, ∀ r ∈ f.2, r ∈ names pending → Before (orderLoop n pending) r f.1
  | 0, pending, h, _, f, hf, _, _, _ => by
    have : pending = [] := List.eq_nil_of_length_eq_zero (by omega)
    subst this; simp at hf
  | n + 1, pending, h, hac, f, hf, r, hr, hrn => by
    have hne : pending ≠ [] := by intro h0; subst h0; simp at hf
    obtain ⟨g0, hg0, hready0⟩ := nextIndex_ready pending (exists_ready pending hne hac)
    obtain ⟨g, A, B, h1, hg, h3⟩ := orderLoop_step n pending hne
    have hgg : g0 = g := by rw [hg0] at hg; exact Option.some.inj hg
    subst hgg
    have hnot := ready_eq_true hready0
    rw [h3]
    -- `f` is not the field taken now
    have hfP' : f ∈ A ++ B := by
      rw [h1] at hf
      rcases List.mem_append.mp hf with hA | hgB
      · exact List.mem_append.mpr (Or.inl hA)
      · rcases List.mem_cons.mp hgB with rfl | hB
        · exact absurd hrn (hnot r hr)
        · exact List.mem_append.mpr (Or.inr hB)
    have hlen : (A ++ B).length ≤ n := by
      have : pending.length = (A ++ g0 :: B).length := by rw [h1]
      simp at this ⊢; omega
    have hsub : ∀ x ∈ A ++ B, x ∈ pending := by
      intro x hx
      rw [h1]
      rcases List.mem_append.mp hx with hA | hB
      · exact List.mem_append.mpr (Or.inl hA)
      · exact List.mem_append.mpr (Or.inr (List.mem_cons_of_mem _ hB))
    have hrn' : r = g0.1 ∨ r ∈ names (A ++ B) := by
      rw [h1, names_append, names_cons] at hrn
      rw [names_append]
      rcases List.mem_append.mp hrn with hA | hgB
      · exact Or.inr (List.mem_append.mpr (Or.inl hA))
      · rcases List.mem_cons.mp hgB with rfl | hB
        · exact Or.inl rfl
        · exact Or.inr (List.mem_append.mpr (Or.inr hB))
    rcases hrn' with rfl | hrP'
    · have : f.1 ∈ orderLoop n (A ++ B) :=
        (orderLoop_perm n (A ++ B) hlen).mem_iff.mpr (mem_names_of_mem hfP')
      exact Before_head this
    · exact Before_cons _ (orderLoop_respects n (A ++ B) hlen (Acyclic_subset hac hsub) f hfP' r hr hrP')

/-! ## nothing required ⇒ declaration order -/

theorem ready_of_noreq (pending : List Field) (f : Field) (h : f.2 = []) : ready pending f = true := by
  simp [ready, h]

theorem orderLoop_noreq : ∀ (n : Nat) (pending : List Field), pending.length ≤ n →
    (∀ f ∈ pending, f.2 = []) → orderLoop n pending = names pending
  | 0, pending, h, _ => by
    have : pending = [] := List.eq_nil_of_length_eq_zero (by omega)
    subst this; simp [orderLoop, names]
  | n + 1, [], _, _ => by simp [orderLoop, names]
  | n + 1, p :: ps, h, hno => by
    have hp : ready (p :: ps) p = true := ready_of_noreq _ _ (hno p (by simp))
    have hidx : nextIndex (p :: ps) = 0 := by
      simp [nextIndex, List.findIdx?_cons, hp]
    simp only [orderLoop, hidx]
    simp only [List.getElem?_cons_zero, List.eraseIdx_cons_zero, names_cons]
    rw [orderLoop_noreq n ps (by simp at h; omega) (fun f hf => hno f (List.mem_cons_of_mem _ hf))]

/-- More generally: if the declaration order already respects `requires` (every required field
name is declared strictly earlier, or is not a field), the fields are validated in declaration
order. Stated on the loop for a suffix `pending` of the declaration list whose requirements have
all left the pending list. -/
theorem orderLoop_sorted : ∀ (n : Nat) (pending : List Field), pending.length ≤ n →
    (∀ A f B, pending = A ++ f :: B → ∀ r ∈ f.2, r ∉ names (f :: B)) →
    orderLoop n pending = names pending
  | 0, pending, h, _ => by
    have : pending = [] := List.eq_nil_of_length_eq_zero (by omega)
    subst this; simp [orderLoop, names]
  | n + 1, [], _, _ => by simp [orderLoop, names]
  | n + 1, p :: ps, h, hs => by
    have hp : ready (p :: ps) p = true := by
      have h0 := hs [] p ps (by simp)
      unfold ready
      rw [List.all_eq_true]
      intro r hr
      have := h0 r hr
      simp only [names, List.mem_map, not_exists, not_and] at this
      simp only [Bool.not_eq_true', List.any_eq_false, beq_iff_eq]
      intro g hg hgr
      exact this g hg hgr
    have hidx : nextIndex (p :: ps) = 0 := by
      simp [nextIndex, List.findIdx?_cons, hp]
    simp only [orderLoop, hidx]
    simp only [List.getElem?_cons_zero, List.eraseIdx_cons_zero, names_cons]
    rw [orderLoop_sorted n ps (by simp at h; omega)
      (fun A f B hps r hr => hs (p :: A) f B (by simp [hps]) r hr)]

end Account.C11
