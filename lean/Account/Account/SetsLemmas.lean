import Account.Sets
/-!
# Lemmas about the account-set model (C14)

Helper lemmas for `Account/Props/C14.lean`: an induction principle for the nested `SetShape`, the
pointwise relation between accounts and metas, and the three round trips (decode ∘ client,
CPI vs client, instruction data).
-/
namespace Account.Sets
open Common

/-! ## Induction over shapes -/
section Induction
set_option linter.unusedSectionVars false
variable {P : SetShape → Prop}
  (hsingle : ∀ sg wr fk cs, P (.single sg wr fk cs))
  (hopt : ∀ s, P s → P (.opt s))
  (hvec : ∀ s, P s → P (.vec s))
  (harr : ∀ n s, P s → P (.arr n s))
  (hboxed : ∀ s, P s → P (.boxed s))
  (hstruct : ∀ fs, (∀ s ∈ fs, P s) → P (.struct fs))
  (hrest : ∀ s, P s → P (.rest s))
include hsingle hopt hvec harr hboxed hstruct hrest

mutual
theorem SetShape.ind : (s : SetShape) → P s
  | .single sg wr fk cs => hsingle sg wr fk cs
  | .opt s => hopt s (SetShape.ind s)
  | .vec s => hvec s (SetShape.ind s)
  | .arr n s => harr n s (SetShape.ind s)
  | .boxed s => hboxed s (SetShape.ind s)
  | .struct fs => hstruct fs (SetShape.indList fs)
  | .rest s => hrest s (SetShape.ind s)
theorem SetShape.indList : (fs : List SetShape) → ∀ s ∈ fs, P s
  | [] => fun _ h => nomatch h
  | x :: xs => fun s h =>
    (List.mem_cons.mp h).elim (fun e => e ▸ SetShape.ind x) (SetShape.indList xs s)
end
end Induction

/-! ## Accounts standing for metas -/

/-- pointwise relation between two lists of equal length -/
inductive All2 {α β : Type} (R : α → β → Prop) : List α → List β → Prop
  | nil : All2 R [] []
  | cons {a b as bs} : R a b → All2 R as bs → All2 R (a :: as) (b :: bs)

theorem All2.length_eq {α β : Type} {R : α → β → Prop} {as : List α} {bs : List β} (h : All2 R as bs) :
    as.length = bs.length := by
  induction h with
  | nil => rfl
  | cons _ _ ih => simp [ih]

theorem All2.split {α β : Type} {R : α → β → Prop} {as : List α} {b1 b2 : List β}
    (h : All2 R as (b1 ++ b2)) : ∃ a1 a2, as = a1 ++ a2 ∧ All2 R a1 b1 ∧ All2 R a2 b2 := by
  induction b1 generalizing as with
  | nil => exact ⟨[], as, rfl, .nil, h⟩
  | cons b b1 ih =>
    cases h with
    | cons hab hrest =>
      obtain ⟨a1, a2, rfl, h1, h2⟩ := ih hrest
      exact ⟨_ :: a1, a2, rfl, .cons hab h1, h2⟩

theorem All2.cons_inv {α β : Type} {R : α → β → Prop} {as : List α} {b : β} {bs : List β}
    (h : All2 R as (b :: bs)) : ∃ a as', as = a :: as' ∧ R a b ∧ All2 R as' bs := by
  cases h with
  | cons h1 h2 => exact ⟨_, _, rfl, h1, h2⟩

theorem All2.nil_inv {α β : Type} {R : α → β → Prop} {as : List α} (h : All2 R as ([] : List β)) : as = [] := by
  cases h; rfl

theorem All2.append {α β : Type} {R : α → β → Prop} {a1 a2 : List α} {b1 b2 : List β}
    (h1 : All2 R a1 b1) (h2 : All2 R a2 b2) : All2 R (a1 ++ a2) (b1 ++ b2) := by
  induction h1 with
  | nil => exact h2
  | cons h _ ih => exact .cons h ih

theorem All2.mono {α β : Type} {R S : α → β → Prop} (hRS : ∀ a b, R a b → S a b) {as : List α} {bs : List β}
    (h : All2 R as bs) : All2 S as bs := by
  induction h with
  | nil => exact .nil
  | cons h _ ih => exact .cons (hRS _ _ h) ih

/-- the account has the meta's key -/
def KeyEq (a : Acct) (m : Meta) : Prop := a.key = m.key
/-- the account has the meta's key and at least the meta's privileges -/
def Covers (a : Acct) (m : Meta) : Prop := a.key = m.key ∧ (m.signer = true → a.signer = true) ∧ (m.writable = true → a.writable = true)

theorem Covers.keyEq {a : Acct} {m : Meta} (h : Covers a m) : KeyEq a m := h.1

/-! ## decode ∘ client -/

theorem runChecks_ok (a : Acct) : ∀ (cs : List Chk),
    (∀ c ∈ cs, (match c with | .signer => a.signer | .writable => a.writable) = true) →
    runChecks cs a = .ok () := by
  intro cs
  induction cs with
  | nil => intro _; rfl
  | cons c cs ih =>
    intro h
    have hc := h c List.mem_cons_self
    have ih' := ih (fun c' hc' => h c' (List.mem_cons_of_mem _ hc'))
    cases c <;> simp_all [runChecks]

/-- What the round trip says about one shape. -/
def RT (pid : Key) (s : SetShape) : Prop :=
  ∀ arg v accts tail, fits pid s arg v = true → All2 KeyEq accts (clientMetas pid s v) →
    (restFree s = true ∨ tail = []) →
    ∃ sv, decode pid s arg (accts ++ tail) = .ok (sv, tail) ∧ svTyped s sv = true ∧
      toClient s sv = resolve s v ∧
      (metaCovers s = true → addrOk s v = true → All2 Covers accts (clientMetas pid s v) →
        validate s sv = .ok ())

/-- The same for a run of elements of one shape decoded one after the other. -/
def RTList (pid : Key) (s : SetShape) (vs : List ClientVal) (accts : List Acct)
    (svs : List SetVal) : Prop :=
  svs.length = vs.length ∧ svs.all (svTyped s) = true ∧ svs.map (toClient s) = vs.map (resolve s) ∧
    (metaCovers s = true → vs.all (addrOk s) = true → All2 Covers accts (vs.flatMap (clientMetas pid s)) →
      allOk (validate s) svs = .ok ())

theorem iterN_rt {pid : Key} {s : SetShape} (ih : RT pid s) (hrf : restFree s = true) (arg : DecodeArg) :
    ∀ (vs : List ClientVal) (accts tail : List Acct), vs.all (fits pid s arg) = true →
      All2 KeyEq accts (vs.flatMap (clientMetas pid s)) →
      ∃ svs, iterN (decode pid s arg) vs.length (accts ++ tail) = .ok (svs, tail) ∧
        RTList pid s vs accts svs := by
  intro vs
  induction vs with
  | nil =>
    intro accts tail _ h
    cases h
    exact ⟨[], by simp [iterN], by simp [RTList, allOk]⟩
  | cons v vs ihl =>
    intro accts tail hf h
    simp only [List.all_cons, Bool.and_eq_true] at hf
    rw [List.flatMap_cons] at h
    obtain ⟨a1, a2, rfl, h1, h2⟩ := h.split
    obtain ⟨sv, hd, hty, hcl, hval⟩ := ih arg v a1 (a2 ++ tail) hf.1 h1 (Or.inl hrf)
    obtain ⟨svs, hds, hlen, htys, hcls, hvals⟩ := ihl a2 tail hf.2 h2
    refine ⟨sv :: svs, ?_, ?_, ?_, ?_, ?_⟩
    · simp only [List.length_cons, iterN, List.append_assoc, hd, hds]
    · simp [hlen]
    · simp [hty, htys]
    · simp [hcl, hcls]
    · intro hmc ha hc
      simp only [List.all_cons, Bool.and_eq_true] at ha
      rw [List.flatMap_cons] at hc
      obtain ⟨c1, c2, hsplit, hc1, hc2⟩ := hc.split
      have hl1 : c1.length = a1.length := by rw [hc1.length_eq, h1.length_eq]
      have ⟨e1, e2⟩ := List.append_inj hsplit hl1.symm
      subst e1 e2
      simp [allOk, hval hmc ha.1 hc1, hvals hmc ha.2 hc2]

theorem iterRest_rt {pid : Key} {s : SetShape} (ih : RT pid s) (hrf : restFree s = true) (arg : DecodeArg) :
    ∀ (vs : List ClientVal) (accts : List Acct) (fuel : Nat), accts.length ≤ fuel →
      vs.all (fun v => fits pid s arg v && !(clientMetas pid s v).isEmpty) = true →
      All2 KeyEq accts (vs.flatMap (clientMetas pid s)) →
      ∃ svs, iterRest (decode pid s arg) fuel accts = .ok (svs, []) ∧ RTList pid s vs accts svs := by
  intro vs
  induction vs with
  | nil =>
    intro accts fuel _ _ h
    cases h
    exact ⟨[], by cases fuel <;> simp [iterRest], by simp [RTList, allOk]⟩
  | cons v vs ihl =>
    intro accts fuel hfuel hf h
    simp only [List.all_cons, Bool.and_eq_true, Bool.not_eq_true'] at hf
    rw [List.flatMap_cons] at h
    obtain ⟨a1, a2, rfl, h1, h2⟩ := h.split
    obtain ⟨sv, hd, hty, hcl, hval⟩ := ih arg v a1 a2 hf.1.1 h1 (Or.inl hrf)
    have hne : a1 ≠ [] := by
      intro e
      have := h1.length_eq
      rw [e] at this
      have h0 : (clientMetas pid s v) = [] := List.eq_nil_of_length_eq_zero this.symm
      simp [h0] at hf
    obtain ⟨x, r, rfl⟩ := List.exists_cons_of_ne_nil hne
    cases fuel with
    | zero => simp at hfuel
    | succ fuel =>
      have hfuel' : a2.length ≤ fuel := by simp at hfuel; omega
      obtain ⟨svs, hds, hlen, htys, hcls, hvals⟩ := ihl a2 fuel hfuel' hf.2 h2
      refine ⟨sv :: svs, ?_, ?_, ?_, ?_, ?_⟩
      · have hd' : decode pid s arg (x :: (r ++ a2)) = .ok (sv, a2) := by simpa using hd
        simp only [List.cons_append, iterRest, hd', hds]
      · simp [hlen]
      · simp [hty, htys]
      · simp [hcl, hcls]
      · intro hmc ha hc
        simp only [List.all_cons, Bool.and_eq_true] at ha
        rw [List.flatMap_cons] at hc
        obtain ⟨c1, c2, hsplit, hc1, hc2⟩ := hc.split
        have hl1 : c1.length = (x :: r).length := by rw [hc1.length_eq, h1.length_eq]
        have ⟨e1, e2⟩ := List.append_inj hsplit hl1.symm
        subst e1 e2
        simp [allOk, hval hmc ha.1 hc1, hvals hmc ha.2 hc2]

theorem all2_length {f : DecodeArg → ClientVal → Bool} : ∀ (as : List DecodeArg) (vs : List ClientVal),
    all2 f as vs = true → as.length = vs.length := by
  intro as
  induction as with
  | nil => intro vs h; cases vs <;> simp [all2] at h ⊢
  | cons a as ih =>
    intro vs h
    cases vs with
    | nil => simp [all2] at h
    | cons v vs => simp only [all2, Bool.and_eq_true] at h; simp [ih vs h.2]

theorem iterEach_rt {pid : Key} {s : SetShape} (ih : RT pid s) (hrf : restFree s = true) :
    ∀ (as : List DecodeArg) (vs : List ClientVal) (accts tail : List Acct),
      all2 (fits pid s) as vs = true →
      All2 KeyEq accts (vs.flatMap (clientMetas pid s)) →
      ∃ svs, iterEach (decode pid s) as (accts ++ tail) = .ok (svs, tail) ∧
        RTList pid s vs accts svs := by
  intro as
  induction as with
  | nil =>
    intro vs accts tail hf h
    cases vs with
    | nil =>
      cases h
      exact ⟨[], by simp [iterEach], by simp [RTList, allOk]⟩
    | cons v vs => simp [all2] at hf
  | cons a as ihl =>
    intro vs accts tail hf h
    cases vs with
    | nil => simp [all2] at hf
    | cons v vs =>
    simp only [all2, Bool.and_eq_true] at hf
    rw [List.flatMap_cons] at h
    obtain ⟨a1, a2, rfl, h1, h2⟩ := h.split
    obtain ⟨sv, hd, hty, hcl, hval⟩ := ih a v a1 (a2 ++ tail) hf.1 h1 (Or.inl hrf)
    obtain ⟨svs, hds, hlen, htys, hcls, hvals⟩ := ihl vs a2 tail hf.2 h2
    refine ⟨sv :: svs, ?_, ?_, ?_, ?_, ?_⟩
    · simp only [iterEach, List.append_assoc, hd, hds]
    · simp [hlen]
    · simp [hty, htys]
    · simp [hcl, hcls]
    · intro hmc ha hc
      simp only [List.all_cons, Bool.and_eq_true] at ha
      rw [List.flatMap_cons] at hc
      obtain ⟨c1, c2, hsplit, hc1, hc2⟩ := hc.split
      have hl1 : c1.length = a1.length := by rw [hc1.length_eq, h1.length_eq]
      have ⟨e1, e2⟩ := List.append_inj hsplit hl1.symm
      subst e1 e2
      simp [allOk, hval hmc ha.1 hc1, hvals hmc ha.2 hc2]

theorem fits_arr_pass (pid : Key) (n : Nat) (s : SetShape) (arg : DecodeArg) (vs : List ClientVal)
    (hna : ∀ as, arg ≠ .arrEach as) :
    fits pid (.arr n s) arg (.many vs) = (vs.length == n && restFree s && vs.all (fits pid s arg)) := by
  cases arg <;> first | rfl | exact absurd rfl (hna _)

theorem decode_arr_pass (pid : Key) (n : Nat) (s : SetShape) (arg : DecodeArg) (accts : List Acct)
    (hna : ∀ as, arg ≠ .arrEach as) :
    decode pid (.arr n s) arg accts =
      (match iterN (decode pid s arg) n accts with
       | .error e => .error e
       | .ok (vs, r) => .ok (.many vs, r)) := by
  cases arg <;> first | rfl | exact absurd rfl (hna _)

theorem fields_rt {pid : Key} :
    ∀ (fs : List SetShape), (∀ s ∈ fs, RT pid s) →
      ∀ (as : List DecodeArg) (vs : List ClientVal) (accts tail : List Acct),
      fitsFields pid fs as vs = true → All2 KeyEq accts (clientMetasFields pid fs vs) →
      (restFreeFields fs = true ∨ tail = []) →
      ∃ svs, decodeFields pid fs as (accts ++ tail) = .ok (svs, tail) ∧ svTypedFields fs svs = true ∧
        toClientFields fs svs = resolveFields fs vs ∧
        (metaCoversFields fs = true → addrOkFields fs vs = true →
          All2 Covers accts (clientMetasFields pid fs vs) → validateFields fs svs = .ok ()) := by
  intro fs
  induction fs with
  | nil =>
    intro _ as vs accts tail hf h _
    cases as <;> cases vs <;> simp [fitsFields] at hf
    simp only [clientMetasFields] at h
    cases h
    exact ⟨[], by simp [decodeFields], by simp [svTypedFields], by simp [toClientFields, resolveFields],
      by simp [validateFields]⟩
  | cons s fs ihl =>
    intro ih as vs accts tail hf h htail
    cases as with
    | nil => simp [fitsFields] at hf
    | cons a as =>
    cases vs with
    | nil => simp [fitsFields] at hf
    | cons v vs =>
    simp only [fitsFields, Bool.and_eq_true, Bool.or_eq_true] at hf
    obtain ⟨⟨hfit, hpos⟩, hfits⟩ := hf
    simp only [clientMetasFields] at h
    obtain ⟨a1, a2, rfl, h1, h2⟩ := h.split
    have htail1 : restFree s = true ∨ a2 ++ tail = [] := by
      rcases hpos with hemp | hrf
      · -- `s` is the last field: nothing follows it
        have hfs : fs = [] := by simpa using hemp
        subst hfs
        cases as <;> cases vs <;> simp [fitsFields] at hfits
        simp only [clientMetasFields] at h2
        cases h2
        rcases htail with hr | ht
        · left; simp only [restFreeFields, Bool.and_eq_true] at hr; exact hr.1
        · right; simp [ht]
      · exact Or.inl hrf
    have htail2 : restFreeFields fs = true ∨ tail = [] := by
      rcases htail with hr | ht
      · left; simp only [restFreeFields, Bool.and_eq_true] at hr; exact hr.2
      · exact Or.inr ht
    obtain ⟨sv, hd, hty, hcl, hval⟩ := ih s List.mem_cons_self a v a1 (a2 ++ tail) hfit h1 htail1
    obtain ⟨svs, hds, htys, hcls, hvals⟩ :=
      ihl (fun s' hs' => ih s' (List.mem_cons_of_mem _ hs')) as vs a2 tail hfits h2 htail2
    refine ⟨sv :: svs, ?_, ?_, ?_, ?_⟩
    · simp only [decodeFields, List.append_assoc, hd, hds]
    · simp [svTypedFields, hty, htys]
    · simp [toClientFields, resolveFields, hcl, hcls]
    · intro hmc ha hc
      simp only [metaCoversFields, Bool.and_eq_true] at hmc
      simp only [addrOkFields, Bool.and_eq_true] at ha
      simp only [clientMetasFields] at hc
      obtain ⟨c1, c2, hsplit, hc1, hc2⟩ := hc.split
      have hl1 : c1.length = a1.length := by rw [hc1.length_eq, h1.length_eq]
      have ⟨e1, e2⟩ := List.append_inj hsplit hl1.symm
      subst e1 e2
      simp [validateFields, hval hmc.1 ha.1 hc1, hvals hmc.2 ha.2 hc2]

/-- The round trip, for every shape. -/
theorem rt_all (pid : Key) : ∀ s, RT pid s := by
  intro s
  induction s using SetShape.ind with
  | hsingle sg wr fk cs =>
    intro arg v accts tail hf h _
    cases arg <;> cases v <;> simp [fits] at hf
    rename_i k
    simp only [clientMetas] at h
    obtain ⟨a, as', rfl, hk, hnil⟩ := h.cons_inv
    have := hnil.nil_inv
    subst this
    refine ⟨.acct a, by simp [decode], by simp [svTyped], ?_, ?_⟩
    · simp only [toClient, resolve]; rw [hk]
    · intro hmc ha hc
      simp only [metaCovers, List.all_eq_true] at hmc
      simp only [clientMetas] at hc
      obtain ⟨a', _, hcons, hcov, _⟩ := hc.cons_inv
      obtain rfl : a = a' := by cases hcons; rfl
      · obtain ⟨hkey, hs, hw⟩ := hcov
        · simp only [addrOk, Bool.or_eq_true] at ha
          simp only [validate]
          have h1 : ¬ (fk.isSome = true ∧ fk ≠ some a.key) := by
            rintro ⟨hsome, hne⟩
            apply hne
            rw [hkey]
            rcases ha with (hn | hn) | he
            · simp [Option.isNone_iff_eq_none.mp hn] at hsome
            · obtain ⟨f, rfl⟩ := Option.isSome_iff_exists.mp hsome
              simp [Option.isNone_iff_eq_none.mp hn]
            · have : k = fk := by simpa using he
              subst this
              obtain ⟨f, rfl⟩ := Option.isSome_iff_exists.mp hsome
              simp
          have hs' : sg = true → a.signer = true := hs
          have hw' : wr = true → a.writable = true := hw
          rw [if_neg h1]
          apply runChecks_ok
          intro c hc
          have := hmc c hc
          cases c
          · exact hs' this
          · exact hw' this
  | hopt s ih =>
    intro arg v accts tail hf h htail
    cases v with
    | absent =>
      simp only [clientMetas] at h
      obtain ⟨a, as', rfl, hk, hnil⟩ := h.cons_inv
      have := hnil.nil_inv
      subst this
      have : a.key = pid := hk
      exact ⟨.absent, by simp [decode, this], by simp [svTyped], by simp [toClient, resolve],
        by simp [validate]⟩
    | present v =>
      simp only [fits, Bool.and_eq_true] at hf
      simp only [clientMetas] at h
      have htail' : restFree s = true ∨ tail = [] := by simpa [restFree] using htail
      obtain ⟨sv, hd, hty, hcl, hval⟩ := ih arg v accts tail hf.1 h htail'
      -- the first account is not the program id
      cases hm : clientMetas pid s v with
      | nil => simp [headNotPid, hm] at hf
      | cons m ms =>
        rw [hm] at h
        obtain ⟨a, as, rfl, hk, _⟩ := h.cons_inv
        · have hne : a.key ≠ pid := by
            have := hf.2
            simp only [headNotPid, hm, bne_iff_ne, ne_eq] at this
            rw [hk]; exact this
          refine ⟨.present sv, ?_, by simpa [svTyped] using hty, by simp [toClient, resolve, hcl], ?_⟩
          · simp only [List.cons_append] at hd ⊢
            simp [decode, hne, hd]
          · intro hmc ha hc
            simp only [addrOk] at ha
            simp only [metaCovers] at hmc
            simp only [clientMetas] at hc
            simpa [validate] using hval hmc ha (hm ▸ hc)
    | key _ => simp [fits] at hf
    | many _ => simp [fits] at hf
  | hvec s ih =>
    intro arg v accts tail hf h _
    cases arg with
    | len n inner =>
      cases v with
      | many vs =>
        simp only [fits, Bool.and_eq_true, beq_iff_eq] at hf
        obtain ⟨⟨hlen, hrf⟩, hall⟩ := hf
        simp only [clientMetas] at h
        obtain ⟨svs, hd, hl, hty, hcl, hval⟩ := iterN_rt ih hrf inner vs accts tail hall h
        refine ⟨.many svs, ?_, by simpa [svTyped] using hty, by simp [toClient, resolve, hcl], ?_⟩
        · simp [decode, ← hlen, hd]
        · intro hmc ha hc
          simp only [addrOk] at ha
          simp only [metaCovers] at hmc
          simp only [clientMetas] at hc
          simpa [validate] using hval hmc ha hc
      | _ => simp [fits] at hf
    | each as =>
      cases v with
      | many vs =>
        simp only [fits, Bool.and_eq_true] at hf
        obtain ⟨hrf, hall⟩ := hf
        simp only [clientMetas] at h
        obtain ⟨svs, hd, hl, hty, hcl, hval⟩ := iterEach_rt ih hrf as vs accts tail hall h
        refine ⟨.many svs, ?_, by simpa [svTyped] using hty, by simp [toClient, resolve, hcl], ?_⟩
        · simp [decode, hd]
        · intro hmc ha hc
          simp only [addrOk] at ha
          simp only [metaCovers] at hmc
          simp only [clientMetas] at hc
          simpa [validate] using hval hmc ha hc
      | _ => simp [fits] at hf
    | _ => cases v <;> simp [fits] at hf
  | harr n s ih =>
    intro arg v accts tail hf h _
    cases v with
    | many vs =>
      by_cases hna : ∀ as, arg ≠ .arrEach as
      · rw [fits_arr_pass pid n s arg vs hna] at hf
        simp only [Bool.and_eq_true, beq_iff_eq] at hf
        obtain ⟨⟨hlen, hrf⟩, hall⟩ := hf
        simp only [clientMetas] at h
        obtain ⟨svs, hd, hl, hty, hcl, hval⟩ := iterN_rt ih hrf arg vs accts tail hall h
        refine ⟨.many svs, ?_, ?_, by simp [toClient, resolve, hcl], ?_⟩
        · rw [decode_arr_pass pid n s arg _ hna, ← hlen, hd]
        · simp [svTyped, hty, hl, hlen]
        · intro hmc ha hc
          simp only [addrOk] at ha
          simp only [metaCovers] at hmc
          simp only [clientMetas] at hc
          simpa [validate] using hval hmc ha hc
      · have ⟨as, has⟩ : ∃ as, arg = .arrEach as := by
          cases arg <;> first | exact ⟨_, rfl⟩ | (exfalso; apply hna; intro as h'; cases h')
        subst has
        simp only [fits, Bool.and_eq_true, beq_iff_eq] at hf
        obtain ⟨⟨hlen, hrf⟩, hall⟩ := hf
        simp only [clientMetas] at h
        obtain ⟨svs, hd, hl, hty, hcl, hval⟩ := iterEach_rt ih hrf as vs accts tail hall h
        have hasn : as.length = n := by rw [all2_length as vs hall, hlen]
        refine ⟨.many svs, ?_, ?_, by simp [toClient, resolve, hcl], ?_⟩
        · simp [decode, hasn, hd]
        · simp [svTyped, hty, hl, hlen]
        · intro hmc ha hc
          simp only [addrOk] at ha
          simp only [metaCovers] at hmc
          simp only [clientMetas] at hc
          simpa [validate] using hval hmc ha hc
    | _ => cases arg <;> simp [fits] at hf
  | hboxed s ih =>
    intro arg v accts tail hf h htail
    have hf' : fits pid s arg v = true := by simpa [fits] using hf
    have h' : All2 KeyEq accts (clientMetas pid s v) := by simpa [clientMetas] using h
    have htail' : restFree s = true ∨ tail = [] := by simpa [restFree] using htail
    obtain ⟨sv, hd, hty, hcl, hval⟩ := ih arg v accts tail hf' h' htail'
    refine ⟨sv, by simpa [decode] using hd, by simpa [svTyped] using hty, by simpa [toClient, resolve] using hcl, ?_⟩
    intro hmc ha hc
    have hmc' : metaCovers s = true := by simpa [metaCovers] using hmc
    have ha' : addrOk s v = true := by simpa [addrOk] using ha
    have hc' : All2 Covers accts (clientMetas pid s v) := by simpa [clientMetas] using hc
    simpa [validate] using hval hmc' ha' hc'
  | hstruct fs ih =>
    intro arg v accts tail hf h htail
    cases arg with
    | fields as =>
      cases v with
      | many vs =>
        simp only [fits] at hf
        simp only [clientMetas] at h
        have htail' : restFreeFields fs = true ∨ tail = [] := by simpa [restFree] using htail
        obtain ⟨svs, hd, hty, hcl, hval⟩ := fields_rt fs ih as vs accts tail hf h htail'
        refine ⟨.many svs, by simp [decode, hd], by simpa [svTyped] using hty, by simp [toClient, resolve, hcl], ?_⟩
        intro hmc ha hc
        simp only [addrOk] at ha
        simp only [metaCovers] at hmc
        simp only [clientMetas] at hc
        simpa [validate] using hval hmc ha hc
      | _ => simp [fits] at hf
    | _ => cases v <;> simp [fits] at hf
  | hrest s ih =>
    intro arg v accts tail hf h htail
    cases v with
    | many vs =>
      simp only [fits, Bool.and_eq_true] at hf
      obtain ⟨hrf, hall⟩ := hf
      simp only [clientMetas] at h
      have ht : tail = [] := by simpa [restFree] using htail
      subst ht
      obtain ⟨svs, hd, hl, hty, hcl, hval⟩ := iterRest_rt ih hrf arg vs accts accts.length (Nat.le_refl _) hall h
      refine ⟨.many svs, ?_, by simpa [svTyped] using hty, by simp [toClient, resolve, hcl], ?_⟩
      · simp [decode, hd]
      · intro hmc ha hc
        simp only [addrOk] at ha
        simp only [metaCovers] at hmc
        simp only [clientMetas] at hc
        simpa [validate] using hval hmc ha hc
    | _ => cases arg <;> simp [fits] at hf

/-! ## CPI view vs client view -/

theorem flatMap_map_congr {α β γ : Type} (f : α → β) (g : β → List γ) (h : α → List γ) :
    ∀ (l : List α), (∀ x ∈ l, h x = g (f x)) → l.flatMap h = (l.map f).flatMap g := by
  intro l
  induction l with
  | nil => intro _; rfl
  | cons x xs ih =>
    intro hx
    simp only [List.flatMap_cons, List.map_cons]
    rw [hx x List.mem_cons_self, ih (fun y hy => hx y (List.mem_cons_of_mem _ hy))]

/-- CPI metas are the client metas of the client value the decoded set denotes: same keys, same
order, same (static) flags; runtime flags of the accounts play no role. -/
theorem cpiMetas_eq_client (pid : Key) : ∀ s sv, svTyped s sv = true →
    cpiMetas pid s sv = clientMetas pid s (toClient s sv) := by
  intro s
  induction s using SetShape.ind with
  | hsingle sg wr fk cs => intro sv h; cases sv <;> simp [svTyped] at h; simp [cpiMetas, toClient, clientMetas]
  | hopt s ih =>
    intro sv h
    cases sv <;> simp [svTyped] at h
    · simp [cpiMetas, toClient, clientMetas]
    · simpa [cpiMetas, toClient, clientMetas] using ih _ h
  | hvec s ih =>
    intro sv h
    cases sv <;> simp [svTyped] at h
    simp only [cpiMetas, toClient, clientMetas]
    exact flatMap_map_congr _ _ _ _ (fun x hx => ih x (h x hx))
  | harr n s ih =>
    intro sv h
    cases sv <;> simp [svTyped] at h
    simp only [cpiMetas, toClient, clientMetas]
    exact flatMap_map_congr _ _ _ _ (fun x hx => ih x (h.2 x hx))
  | hboxed s ih => intro sv h; simpa [cpiMetas, toClient, clientMetas] using ih sv (by simpa [svTyped] using h)
  | hstruct fs ih =>
    intro sv h
    cases sv <;> simp [svTyped] at h
    rename_i vs
    simp only [cpiMetas, toClient, clientMetas]
    induction fs generalizing vs with
    | nil => cases vs <;> simp [cpiMetasFields, clientMetasFields, toClientFields]
    | cons f fs ihl =>
      cases vs with
      | nil => simp [svTypedFields] at h
      | cons v vs =>
        simp only [svTypedFields, Bool.and_eq_true] at h
        simp only [cpiMetasFields, toClientFields, clientMetasFields]
        rw [ih f List.mem_cons_self v h.1, ihl (fun s hs => ih s (List.mem_cons_of_mem _ hs)) vs h.2]
  | hrest s ih =>
    intro sv h
    cases sv <;> simp [svTyped] at h
    simp only [cpiMetas, toClient, clientMetas]
    exact flatMap_map_congr _ _ _ _ (fun x hx => ih x (h x hx))

/-- Filling in default keys does not change the metas. -/
theorem clientMetas_resolve (pid : Key) : ∀ s v, typed s v = true →
    clientMetas pid s (resolve s v) = clientMetas pid s v := by
  intro s
  induction s using SetShape.ind with
  | hsingle sg wr fk cs => intro v h; cases v <;> simp [typed] at h; simp [resolve, clientMetas]
  | hopt s ih =>
    intro v h
    cases v <;> simp [typed] at h
    · simp [resolve, clientMetas]
    · simpa [resolve, clientMetas] using ih _ h
  | hvec s ih =>
    intro v h
    cases v <;> simp [typed] at h
    simp only [resolve, clientMetas]
    exact (flatMap_map_congr _ _ _ _ (fun x hx => (ih x (h x hx)).symm)).symm
  | harr n s ih =>
    intro v h
    cases v <;> simp [typed] at h
    simp only [resolve, clientMetas]
    exact (flatMap_map_congr _ _ _ _ (fun x hx => (ih x (h.2 x hx)).symm)).symm
  | hboxed s ih => intro v h; simpa [resolve, clientMetas] using ih v (by simpa [typed] using h)
  | hstruct fs ih =>
    intro v h
    cases v <;> simp [typed] at h
    rename_i vs
    simp only [resolve, clientMetas]
    induction fs generalizing vs with
    | nil => cases vs <;> simp [resolveFields, clientMetasFields]
    | cons f fs ihl =>
      cases vs with
      | nil => simp [typedFields] at h
      | cons v vs =>
        simp only [typedFields, Bool.and_eq_true] at h
        simp only [resolveFields, clientMetasFields]
        rw [ih f List.mem_cons_self v h.1, ihl (fun s hs => ih s (List.mem_cons_of_mem _ hs)) vs h.2]
  | hrest s ih =>
    intro v h
    cases v <;> simp [typed] at h
    simp only [resolve, clientMetas]
    exact (flatMap_map_congr _ _ _ _ (fun x hx => (ih x (h x hx)).symm)).symm

theorem all2_forall {f : DecodeArg → ClientVal → Bool} {P : ClientVal → Prop}
    (hP : ∀ a v, f a v = true → P v) : ∀ (as : List DecodeArg) (vs : List ClientVal),
    all2 f as vs = true → ∀ v ∈ vs, P v := by
  intro as
  induction as with
  | nil => intro vs h; cases vs <;> simp [all2] at h ⊢
  | cons a as ih =>
    intro vs h
    cases vs with
    | nil => simp
    | cons v vs =>
      simp only [all2, Bool.and_eq_true] at h
      intro x hx
      rcases List.mem_cons.mp hx with rfl | hx
      · exact hP a _ h.1
      · exact ih vs h.2 x hx

/-- `fits` implies `typed`. -/
theorem fits_typed (pid : Key) : ∀ s arg v, fits pid s arg v = true → typed s v = true := by
  intro s
  induction s using SetShape.ind with
  | hsingle sg wr fk cs => intro arg v h; cases arg <;> cases v <;> simp [fits] at h; simpa [typed] using h
  | hopt s ih =>
    intro arg v h
    cases v <;> simp [fits] at h
    · simp [typed]
    · simpa [typed] using ih _ _ h.1
  | hvec s ih =>
    intro arg v h
    cases arg <;> cases v <;> simp [fits] at h
    · simp only [typed, List.all_eq_true]
      exact fun x hx => ih _ x (h.2 x hx)
    · simp only [typed, List.all_eq_true]
      exact all2_forall (fun a v hv => ih a v hv) _ _ h.2
  | harr n s ih =>
    intro arg v h
    cases v with
    | many vs =>
      by_cases hna : ∀ as, arg ≠ .arrEach as
      · rw [fits_arr_pass pid n s arg vs hna] at h
        simp only [Bool.and_eq_true, beq_iff_eq, List.all_eq_true] at h
        simp only [typed, Bool.and_eq_true, beq_iff_eq, List.all_eq_true]
        exact ⟨h.1.1, fun x hx => ih _ x (h.2 x hx)⟩
      · have ⟨as, has⟩ : ∃ as, arg = .arrEach as := by
          cases arg <;> first | exact ⟨_, rfl⟩ | (exfalso; apply hna; intro as h'; cases h')
        subst has
        simp only [fits, Bool.and_eq_true, beq_iff_eq] at h
        simp only [typed, Bool.and_eq_true, beq_iff_eq, List.all_eq_true]
        exact ⟨h.1.1, all2_forall (fun a v hv => ih a v hv) _ _ h.2⟩
    | _ => cases arg <;> simp [fits] at h
  | hboxed s ih => intro arg v h; simpa [typed] using ih arg v (by simpa [fits] using h)
  | hstruct fs ih =>
    intro arg v h
    cases arg <;> cases v <;> simp [fits] at h
    rename_i as vs
    simp only [typed]
    induction fs generalizing as vs with
    | nil => cases as <;> cases vs <;> simp [fitsFields] at h; simp [typedFields]
    | cons f fs ihl =>
      cases as <;> cases vs <;> simp [fitsFields] at h
      simp only [typedFields, Bool.and_eq_true]
      exact ⟨ih f List.mem_cons_self _ _ h.1.1, ihl (fun s hs => ih s (List.mem_cons_of_mem _ hs)) _ _ h.2⟩
  | hrest s ih =>
    intro arg v h
    cases v <;> simp [fits] at h
    simp only [typed, List.all_eq_true]
    exact fun x hx => ih _ x (h.2 x hx).1

theorem collectE_ok {f : SetVal → Except E (List Acct)} {g : SetVal → List Meta} :
    ∀ (vs : List SetVal), (∀ v ∈ vs, ∃ l, f v = .ok l ∧ l.map (·.key) = (g v).map (·.key)) →
      ∃ l, collectE f vs = .ok l ∧ l.map (·.key) = (vs.flatMap g).map (·.key) := by
  intro vs
  induction vs with
  | nil => intro _; exact ⟨[], rfl, rfl⟩
  | cons v vs ih =>
    intro h
    obtain ⟨l1, h1, k1⟩ := h v List.mem_cons_self
    obtain ⟨l2, h2, k2⟩ := ih (fun x hx => h x (List.mem_cons_of_mem _ hx))
    exact ⟨l1 ++ l2, by simp [collectE, h1, h2], by simp [k1, k2]⟩

/-- With the program account at hand, the infos are written for every decoded set, one per meta,
with the metas' keys (the program's own key standing in for absent optionals). -/
theorem cpiInfos_some (p : Acct) : ∀ s sv, svTyped s sv = true →
    ∃ l, cpiInfos (some p) s sv = .ok l ∧ l.map (·.key) = (cpiMetas p.key s sv).map (·.key) := by
  intro s
  induction s using SetShape.ind with
  | hsingle sg wr fk cs => intro sv h; cases sv <;> simp [svTyped] at h; exact ⟨_, rfl, by simp [cpiMetas]⟩
  | hopt s ih =>
    intro sv h
    cases sv <;> simp [svTyped] at h
    · exact ⟨[p], rfl, by simp [cpiMetas, placeholder]⟩
    · simpa [cpiInfos, cpiMetas] using ih _ h
  | hvec s ih =>
    intro sv h
    cases sv <;> simp [svTyped] at h
    simpa [cpiInfos, cpiMetas] using collectE_ok (g := cpiMetas p.key s) _ (fun x hx => ih x (h x hx))
  | harr n s ih =>
    intro sv h
    cases sv <;> simp [svTyped] at h
    simpa [cpiInfos, cpiMetas] using collectE_ok (g := cpiMetas p.key s) _ (fun x hx => ih x (h.2 x hx))
  | hboxed s ih => intro sv h; simpa [cpiInfos, cpiMetas] using ih sv (by simpa [svTyped] using h)
  | hstruct fs ih =>
    intro sv h
    cases sv <;> simp [svTyped] at h
    rename_i vs
    simp only [cpiInfos, cpiMetas]
    induction fs generalizing vs with
    | nil => cases vs <;> simp [svTypedFields] at h; exact ⟨[], rfl, rfl⟩
    | cons f fs ihl =>
      cases vs with
      | nil => simp [svTypedFields] at h
      | cons v vs =>
        simp only [svTypedFields, Bool.and_eq_true] at h
        obtain ⟨l1, h1, k1⟩ := ih f List.mem_cons_self v h.1
        obtain ⟨l2, h2, k2⟩ := ihl (fun s hs => ih s (List.mem_cons_of_mem _ hs)) vs h.2
        exact ⟨l1 ++ l2, by simp [cpiInfosFields, h1, h2], by simp [cpiMetasFields, k1, k2]⟩
  | hrest s ih =>
    intro sv h
    cases sv <;> simp [svTyped] at h
    simpa [cpiInfos, cpiMetas] using collectE_ok (g := cpiMetas p.key s) _ (fun x hx => ih x (h x hx))

theorem collectE_congr {f g : SetVal → Except E (List Acct)} :
    ∀ (vs : List SetVal), (∀ v ∈ vs, f v = g v) → collectE f vs = collectE g vs := by
  intro vs
  induction vs with
  | nil => intro _; rfl
  | cons v vs ih =>
    intro h
    simp [collectE, h v List.mem_cons_self, ih (fun x hx => h x (List.mem_cons_of_mem _ hx))]

/-- Without an `Option` in the shape the program account is never consulted. -/
theorem cpiInfos_optFree (p : Acct) : ∀ s sv, optFree s = true →
    cpiInfos none s sv = cpiInfos (some p) s sv := by
  intro s
  induction s using SetShape.ind with
  | hsingle sg wr fk cs => intro sv _; cases sv <;> simp [cpiInfos]
  | hopt s ih => intro sv h; simp [optFree] at h
  | hvec s ih =>
    intro sv h
    cases sv <;> simp [cpiInfos]
    exact collectE_congr _ (fun x _ => ih x (by simpa [optFree] using h))
  | harr n s ih =>
    intro sv h
    cases sv <;> simp [cpiInfos]
    exact collectE_congr _ (fun x _ => ih x (by simpa [optFree] using h))
  | hboxed s ih => intro sv h; simpa [cpiInfos] using ih sv (by simpa [optFree] using h)
  | hstruct fs ih =>
    intro sv h
    cases sv <;> simp [cpiInfos]
    rename_i vs
    simp only [optFree] at h
    induction fs generalizing vs with
    | nil => cases vs <;> simp [cpiInfosFields]
    | cons f fs ihl =>
      cases vs with
      | nil => simp [cpiInfosFields]
      | cons v vs =>
        simp only [optFreeFields, Bool.and_eq_true] at h
        simp only [cpiInfosFields]
        rw [ih f List.mem_cons_self v h.1, ihl (fun s hs => ih s (List.mem_cons_of_mem _ hs)) h.2 vs]
  | hrest s ih =>
    intro sv h
    cases sv <;> simp [cpiInfos]
    exact collectE_congr _ (fun x _ => ih x (by simpa [optFree] using h))

/-- `ContainsOption = False` really means "no `Option` inside". -/
theorem optFree_of_containsOption_false : ∀ s, containsOption s = false → optFree s = true := by
  intro s
  induction s using SetShape.ind with
  | hsingle sg wr fk cs => intro _; rfl
  | hopt s ih => intro h; simp [containsOption] at h
  | hvec s ih => intro h2; simpa [optFree] using ih (by simpa [containsOption] using h2)
  | harr n s ih => intro h2; simpa [optFree] using ih (by simpa [containsOption] using h2)
  | hboxed s ih => intro h2; simpa [optFree] using ih (by simpa [containsOption] using h2)
  | hstruct fs ih =>
    intro h2
    simp only [containsOption] at h2
    simp only [optFree]
    induction fs with
    | nil => rfl
    | cons f fs ihl =>
      simp only [containsOptionFields, Bool.or_eq_false_iff] at h2
      simp only [optFreeFields, Bool.and_eq_true]
      exact ⟨ih f List.mem_cons_self h2.1, ihl (fun s hs => ih s (List.mem_cons_of_mem _ hs)) h2.2⟩
  | hrest s ih => intro h2; simpa [optFree] using ih (by simpa [containsOption] using h2)

theorem flatMap_length_const {α β : Type} (f : α → List β) (L : Nat) :
    ∀ (l : List α), (∀ x ∈ l, (f x).length = L) → (l.flatMap f).length = l.length * L := by
  intro l
  induction l with
  | nil => intro _; simp
  | cons x xs ih =>
    intro h
    simp only [List.flatMap_cons, List.length_append, List.length_cons]
    rw [h x List.mem_cons_self, ih (fun y hy => h y (List.mem_cons_of_mem _ hy)), Nat.add_mul]
    omega

/-- A set whose `AccountLen` is not the dynamic sentinel writes exactly `AccountLen` accounts. -/
theorem cpiMetas_length_fixed (pid : Key) : ∀ s sv, svTyped s sv = true → accountLen s < dynLen →
    (cpiMetas pid s sv).length = accountLen s := by
  intro s
  induction s using SetShape.ind with
  | hsingle sg wr fk cs => intro sv h _; cases sv <;> simp [svTyped] at h; simp [cpiMetas, accountLen]
  | hopt s ih =>
    intro sv h hl
    simp only [accountLen, dynLen] at hl
    split at hl
    · rename_i h1
      cases sv <;> simp [svTyped] at h
      · simp [cpiMetas, accountLen, h1]
      · simp only [cpiMetas, accountLen, h1, if_true]
        rw [ih _ h (by simp [h1, dynLen]), h1]
    · omega
  | hvec s ih => intro sv _ hl; simp [accountLen] at hl
  | harr n s ih =>
    intro sv h hl
    cases sv <;> simp [svTyped] at h
    rename_i vs
    simp only [accountLen] at hl ⊢
    simp only [cpiMetas]
    cases n with
    | zero =>
      have : vs = [] := List.eq_nil_of_length_eq_zero h.1
      simp [this]
    | succ n =>
      have hL : accountLen s < dynLen := by
        have : accountLen s ≤ accountLen s * (n + 1) := Nat.le_mul_of_pos_right _ (Nat.succ_pos _)
        omega
      rw [flatMap_length_const _ (accountLen s) vs (fun x hx => ih x (h.2 x hx) hL), h.1, Nat.mul_comm]
  | hboxed s ih =>
    intro sv h hl
    simpa [cpiMetas, accountLen] using ih sv (by simpa [svTyped] using h) (by simpa [accountLen] using hl)
  | hstruct fs ih =>
    intro sv h hl
    cases sv <;> simp [svTyped] at h
    rename_i vs
    simp only [accountLen, dynLen] at hl
    have hsum : accountLenFields fs < dynLen := by simp only [dynLen]; omega
    simp only [cpiMetas, accountLen]
    rw [Nat.min_eq_left (Nat.le_of_lt hsum)]
    clear hl
    induction fs generalizing vs with
    | nil => cases vs <;> simp [svTypedFields] at h; simp [cpiMetasFields, accountLenFields]
    | cons f fs ihl =>
      cases vs with
      | nil => simp [svTypedFields] at h
      | cons v vs =>
        simp only [svTypedFields, Bool.and_eq_true] at h
        simp only [accountLenFields] at hsum ⊢
        simp only [cpiMetasFields, List.length_append]
        rw [ih f List.mem_cons_self v h.1 (by omega),
          ihl (fun s hs => ih s (List.mem_cons_of_mem _ hs)) vs h.2 (by omega)]
  | hrest s ih => intro sv _ hl; simp [accountLen] at hl

/-- Every client meta carries the static flags of one of the shape's single accounts, or is the
readonly non-signer placeholder. -/
theorem clientMetas_flags (pid : Key) : ∀ s v, ∀ m ∈ clientMetas pid s v,
    (m.signer, m.writable) ∈ (false, false) :: staticFlags s := by
  intro s
  induction s using SetShape.ind with
  | hsingle sg wr fk cs =>
    intro v m hm
    cases v <;> simp [clientMetas] at hm
    subst hm
    simp [staticFlags]
  | hopt s ih =>
    intro v m hm
    cases v <;> simp [clientMetas] at hm
    · subst hm; simp [placeholder]
    · simpa [staticFlags] using ih _ m hm
  | hvec s ih =>
    intro v m hm
    cases v <;> simp [clientMetas] at hm
    obtain ⟨x, _, hx⟩ := hm
    simpa [staticFlags] using ih x m hx
  | harr n s ih =>
    intro v m hm
    cases v <;> simp [clientMetas] at hm
    obtain ⟨x, _, hx⟩ := hm
    simpa [staticFlags] using ih x m hx
  | hboxed s ih => intro v m hm; simpa [staticFlags] using ih v m (by simpa [clientMetas] using hm)
  | hstruct fs ih =>
    intro v m hm
    cases v <;> simp [clientMetas] at hm
    rename_i vs
    simp only [staticFlags]
    induction fs generalizing vs with
    | nil => cases vs <;> simp [clientMetasFields] at hm
    | cons f fs ihl =>
      cases vs with
      | nil => simp [clientMetasFields] at hm
      | cons v vs =>
        simp only [clientMetasFields, List.mem_append] at hm
        simp only [staticFlagsFields, List.mem_cons, List.mem_append]
        rcases hm with hm | hm
        · have := ih f List.mem_cons_self v m hm
          simp only [List.mem_cons] at this
          rcases this with h | h
          · exact Or.inl h
          · exact Or.inr (Or.inl h)
        · have := ihl (fun s hs => ih s (List.mem_cons_of_mem _ hs)) vs hm
          simp only [List.mem_cons] at this
          rcases this with h | h
          · exact Or.inl h
          · exact Or.inr (Or.inr h)
  | hrest s ih =>
    intro v m hm
    cases v <;> simp [clientMetas] at hm
    obtain ⟨x, _, hx⟩ := hm
    simpa [staticFlags] using ih x m hx

/-! ## Instruction data -/

theorem take_leN_append (w n : Nat) (r : List Nat) : (leN w n ++ r).take w = leN w n := by
  rw [List.take_append_of_le_length (by simp)]
  exact List.take_of_length_le (by simp)

theorem drop_leN_append (w n : Nat) (r : List Nat) : (leN w n ++ r).drop w = r := by
  rw [List.drop_append_of_le_length (by simp)]
  simp [List.drop_of_length_le]

section ArgTyInduction
set_option linter.unusedSectionVars false
variable {P : ArgTy → Prop}
  (hunit : P .unit) (hlen : ∀ t, P t → P (.len t)) (heach : ∀ n t, P t → P (.each n t))
  (harrEach : ∀ n t, P t → P (.arrEach n t)) (hfields : ∀ ts, (∀ t ∈ ts, P t) → P (.fields ts))
include hunit hlen heach harrEach hfields
mutual
theorem ArgTy.ind : (t : ArgTy) → P t
  | .unit => hunit
  | .len t => hlen t (ArgTy.ind t)
  | .each n t => heach n t (ArgTy.ind t)
  | .arrEach n t => harrEach n t (ArgTy.ind t)
  | .fields ts => hfields ts (ArgTy.indList ts)
theorem ArgTy.indList : (ts : List ArgTy) → ∀ t ∈ ts, P t
  | [] => fun _ h => nomatch h
  | x :: xs => fun t h =>
    (List.mem_cons.mp h).elim (fun e => e ▸ ArgTy.ind x) (ArgTy.indList xs t)
end
end ArgTyInduction

theorem deRep_serArgs (t : ArgTy)
    (ih : ∀ arg r, hasTy t arg = true → argInRange arg = true → deArg t (serArg arg ++ r) = some (arg, r)) :
    ∀ (as : List DecodeArg) (r : List Nat), as.all (hasTy t) = true → argsInRange as = true →
      deRep (deArg t) as.length (serArgs as ++ r) = some (as, r) := by
  intro as
  induction as with
  | nil => intro r _ _; simp [deRep, serArgs]
  | cons a as ihl =>
    intro r h hr
    simp only [List.all_cons, Bool.and_eq_true] at h
    simp only [argsInRange, Bool.and_eq_true] at hr
    simp only [List.length_cons, deRep, serArgs, List.append_assoc]
    rw [ih a _ h.1 hr.1]
    simp only []
    rw [ihl r h.2 hr.2]

theorem deArg_serArg : ∀ t arg r, hasTy t arg = true → argInRange arg = true →
    deArg t (serArg arg ++ r) = some (arg, r) := by
  intro t
  induction t using ArgTy.ind with
  | hunit => intro arg r h _; cases arg <;> simp [hasTy] at h; simp [deArg, serArg]
  | hlen t ih =>
    intro arg r h hr
    cases arg <;> simp [hasTy] at h
    rename_i n inner
    simp only [argInRange, Bool.and_eq_true, decide_eq_true_eq] at hr
    simp only [serArg, deArg, List.append_assoc]
    have hlen : ¬ (leN 8 n ++ (serArg inner ++ r)).length < 8 := by simp
    rw [if_neg hlen, take_leN_append, drop_leN_append, ih inner r h hr.2, rdLE_leN 8 n hr.1]
  | heach n t ih =>
    intro arg r h hr
    cases arg <;> simp [hasTy] at h
    rename_i as
    simp only [argInRange] at hr
    simp only [serArg, deArg]
    have hall : as.all (hasTy t) = true := by simpa [List.all_eq_true] using h.2
    rw [← h.1, deRep_serArgs t ih as r hall hr]
  | harrEach n t ih =>
    intro arg r h hr
    cases arg <;> simp [hasTy] at h
    rename_i as
    simp only [argInRange] at hr
    simp only [serArg, deArg]
    have hall : as.all (hasTy t) = true := by simpa [List.all_eq_true] using h.2
    rw [← h.1, deRep_serArgs t ih as r hall hr]
  | hfields ts ih =>
    intro arg r h hr
    cases arg <;> simp [hasTy] at h
    rename_i as
    simp only [argInRange] at hr
    simp only [serArg, deArg]
    suffices hs : deArgFields ts (serArgs as ++ r) = some (as, r) by rw [hs]
    induction ts generalizing as with
    | nil => cases as <;> simp [hasTyFields] at h; simp [deArgFields, serArgs]
    | cons f fs ihl =>
      cases as with
      | nil => simp [hasTyFields] at h
      | cons a as =>
        simp only [hasTyFields, Bool.and_eq_true] at h
        simp only [argsInRange, Bool.and_eq_true] at hr
        simp only [serArgs, deArgFields, List.append_assoc]
        rw [ih f List.mem_cons_self a _ h.1 hr.1]
        simp only []
        rw [ihl (fun s hs => ih s (List.mem_cons_of_mem _ hs)) as h.2 hr.2]

theorem deRun_serRun (x : RunArgs) (hx : x.WF) (r : List Nat) : deRun (serRun x ++ r) = some (x, r) := by
  obtain ⟨_, hb, hd, _⟩ := hx
  simp only [serRun, List.cons_append, List.append_assoc, deRun]
  have h8 : ¬ (leN 8 x.b ++ ((if x.c = true then 1 else 0) :: (leN 4 x.d.length ++ (x.d ++ r)))).length < 8 := by simp
  rw [if_neg h8, take_leN_append, drop_leN_append]
  have hc : ¬ ((if x.c = true then 1 else 0) ≠ 0 ∧ (if x.c = true then 1 else 0) ≠ 1) := by
    cases x.c <;> simp
  simp only []
  rw [if_neg hc]
  have h4 : ¬ (leN 4 x.d.length ++ (x.d ++ r)).length < 4 := by simp
  rw [if_neg h4, take_leN_append, drop_leN_append, rdLE_leN 8 x.b hb, rdLE_leN 4 _ hd]
  have hn : ¬ (x.d ++ r).length < x.d.length := by simp
  rw [if_neg hn]
  cases x with
  | mk a b c d => cases c <;> simp

theorem findIdx_nodup {α : Type} [BEq α] [LawfulBEq α] : ∀ (l : List α) (i : Nat) (h : i < l.length), l.Nodup →
    l.findIdx (· == l[i]) = i := by
  intro l
  induction l with
  | nil => intro i h; simp at h
  | cons x xs ih =>
    intro i h hnd
    rw [List.nodup_cons] at hnd
    cases i with
    | zero => simp [List.findIdx_cons]
    | succ i =>
      have hi : i < xs.length := by simpa using h
      have hne : x ≠ xs[i] := fun e => hnd.1 (e ▸ List.getElem_mem hi)
      have hb : (x == xs[i]) = false := by simpa using hne
      simp [List.findIdx_cons, hb, ih i hi hnd.2]

/-- `dispatch` on `disc_i ++ payload` selects instruction `i` and hands it the payload. -/
theorem dispatch_ok (table : List (List Nat)) (hnd : table.Nodup) (hlen : ∀ d ∈ table, d.length = 8)
    (i : Nat) (hi : i < table.length) (payload : List Nat) :
    dispatch table (ixData table[i] payload) = some (i, payload) := by
  have h8 : table[i].length = 8 := hlen _ (List.getElem_mem hi)
  have ht : (table[i] ++ payload).take 8 = table[i] := by
    rw [List.take_append_of_le_length (by omega)]
    exact List.take_of_length_le (by omega)
  have hd : (table[i] ++ payload).drop 8 = payload := by
    rw [List.drop_append_of_le_length (by omega)]
    simp [List.drop_of_length_le, h8]
  have hl : ¬ (table[i] ++ payload).length < 8 := by simp [h8]
  have hf := findIdx_nodup table i hi hnd
  simp only [dispatch, ixData, if_neg hl, ht, hd]
  rw [hf, if_pos hi]

/-! ## CPI metas do not depend on the runtime flags of the supplied infos -/

theorem reflag_spec (g : Acct → Bool × Bool) : ∀ s sv, svTyped s sv = true →
    svTyped s (reflag g s sv) = true ∧ toClient s (reflag g s sv) = toClient s sv := by
  intro s
  induction s using SetShape.ind with
  | hsingle sg wr fk cs => intro sv h; cases sv <;> simp [svTyped] at h; simp [reflag, svTyped, toClient]
  | hopt s ih =>
    intro sv h
    cases sv <;> simp [svTyped] at h
    · simp [reflag, svTyped, toClient]
    · have := ih _ h
      simp [reflag, svTyped, toClient, this.1, this.2]
  | hvec s ih =>
    intro sv h
    cases sv <;> simp [svTyped] at h
    rename_i vs
    refine ⟨?_, ?_⟩
    · simp only [reflag, svTyped, List.all_map, List.all_eq_true]
      exact fun x hx => (ih x (h x hx)).1
    · simp only [reflag, toClient, List.map_map]
      congr 1
      exact List.map_congr_left (fun x hx => (ih x (h x hx)).2)
  | harr n s ih =>
    intro sv h
    cases sv <;> simp [svTyped] at h
    rename_i vs
    refine ⟨?_, ?_⟩
    · simp only [reflag, svTyped, List.length_map, List.all_map, Bool.and_eq_true, beq_iff_eq, List.all_eq_true]
      exact ⟨h.1, fun x hx => (ih x (h.2 x hx)).1⟩
    · simp only [reflag, toClient, List.map_map]
      congr 1
      exact List.map_congr_left (fun x hx => (ih x (h.2 x hx)).2)
  | hboxed s ih =>
    intro sv h
    have := ih sv (by simpa [svTyped] using h)
    simpa [reflag, svTyped, toClient] using this
  | hstruct fs ih =>
    intro sv h
    cases sv <;> simp [svTyped] at h
    rename_i vs
    simp only [reflag, svTyped, toClient]
    suffices hs : svTypedFields fs (reflagFields g fs vs) = true ∧
        toClientFields fs (reflagFields g fs vs) = toClientFields fs vs by
      exact ⟨hs.1, by rw [hs.2]⟩
    induction fs generalizing vs with
    | nil => cases vs <;> simp [svTypedFields] at h; simp [reflagFields, svTypedFields, toClientFields]
    | cons f fs ihl =>
      cases vs with
      | nil => simp [svTypedFields] at h
      | cons v vs =>
        simp only [svTypedFields, Bool.and_eq_true] at h
        have h1 := ih f List.mem_cons_self v h.1
        have h2 := ihl (fun s hs => ih s (List.mem_cons_of_mem _ hs)) vs h.2
        simp [reflagFields, svTypedFields, toClientFields, h1.1, h1.2, h2.1, h2.2]
  | hrest s ih =>
    intro sv h
    cases sv <;> simp [svTyped] at h
    rename_i vs
    refine ⟨?_, ?_⟩
    · simp only [reflag, svTyped, List.all_map, List.all_eq_true]
      exact fun x hx => (ih x (h x hx)).1
    · simp only [reflag, toClient, List.map_map]
      congr 1
      exact List.map_congr_left (fun x hx => (ih x (h x hx)).2)

/-! ## `split_to_args` -/

theorem accessors_select (ph : Phase) : ∀ (anns : List (List Phase)) (vals pre : List Nat),
    anns.length = vals.length →
    (accessors ph pre.length anns).filterMap (fun i => (pre ++ vals)[i]?) =
      ((anns.zip vals).filter (fun p => decide (ph ∈ p.1))).map (·.2) := by
  intro anns
  induction anns with
  | nil => intro vals pre _; simp [accessors]
  | cons a as ih =>
    intro vals pre h
    cases vals with
    | nil => simp at h
    | cons x xs =>
      have hlen : as.length = xs.length := by simpa using h
      have ih' := ih xs (pre ++ [x]) hlen
      simp only [List.length_append, List.length_cons, List.length_nil, Nat.zero_add, List.append_assoc,
        List.cons_append, List.nil_append] at ih'
      by_cases hm : ph ∈ a
      · simp only [accessors, hm, if_true, List.filterMap_cons, List.zip_cons_cons, List.filter_cons,
          decide_true, List.map_cons]
        rw [ih']
        simp
      · simp only [accessors, hm, if_false, List.zip_cons_cons, List.filter_cons, decide_false]
        rw [ih']
        simp

theorem splitPhase_eq (ph : Phase) (selfAnn : List Phase) (anns : List (List Phase)) (vals : List Nat)
    (h : anns.length = vals.length) :
    splitPhase ph selfAnn anns vals = (if ph ∈ selfAnn then [vals] else []) ++
      ((anns.zip vals).filter (fun p => decide (ph ∈ p.1))).map (fun p => [p.2]) := by
  have := accessors_select ph anns vals [] h
  simp only [List.length_nil, List.nil_append] at this
  simp only [splitPhase]
  congr 1
  rw [← List.map_filterMap, this, List.map_map]
  rfl

theorem iterN_singles (pid : Key) (sg wr : Bool) (fk : Option Key) (cs : List Chk) (arg : DecodeArg) :
    ∀ (accts tail : List Acct),
      iterN (decode pid (.single sg wr fk cs) arg) accts.length (accts ++ tail) = .ok (accts.map .acct, tail) := by
  intro accts
  induction accts with
  | nil => intro tail; simp [iterN]
  | cons a as ih =>
    intro tail
    have hd : decode pid (.single sg wr fk cs) arg (a :: (as ++ tail)) = .ok (.acct a, as ++ tail) := by
      simp [decode]
    simp only [List.length_cons, List.cons_append, iterN, hd, ih tail, List.map_cons]

theorem decode_spy (pid : Key) (accts : List Acct) :
    decode pid spyShape (.fields [.len accts.length .unit]) accts =
      .ok (.many [.many (accts.map .acct)], []) := by
  have hit := iterN_singles pid false false none [] .unit accts []
  simp only [List.append_nil] at hit
  have h1 : decode pid (.vec (.single false false none [])) (.len accts.length .unit) accts =
      (match iterN (decode pid (.single false false none []) .unit) accts.length accts with
       | .error e => .error e
       | .ok (vs, r) => .ok (.many vs, r)) := rfl
  rw [hit] at h1
  have h2 : decodeFields pid [.vec (.single false false none [])] [.len accts.length .unit] accts =
      (match decode pid (.vec (.single false false none [])) (.len accts.length .unit) accts with
       | .error e => .error e
       | .ok (v, r) =>
         match decodeFields pid [] [] r with
         | .error e => .error e
         | .ok (vs, r') => .ok (v :: vs, r')) := rfl
  rw [h1] at h2
  have h3 : decode pid spyShape (.fields [.len accts.length .unit]) accts =
      (match decodeFields pid [.vec (.single false false none [])] [.len accts.length .unit] accts with
       | .error e => .error e
       | .ok (vs, r) => .ok (.many vs, r)) := rfl
  rw [h3, h2]
  rfl

theorem deVals_append (vals rest : List Nat) : deVals vals.length (vals ++ rest) = some (vals, rest) := by
  simp [deVals]

end Account.Sets
