import Account.Validate
import Account.Borsh
import Account.BorshCodecs
/-!
# Model of nested account sets (C09, extended)

Single-account wrapper chains (`Signer`, `Mut`, `MaybeSigner<false>`, `MaybeMut<false>`, `Box`,
user sets advertising flags, address-checked wrappers, `Seeded`, `Init` with `CreateIfNeeded`) over
the bases `AccountInfo`, `SystemAccount`, `Program<P>`, `Sysvar<T>`, `Account<T>`, `BorshAccount<T>`
(the last two through C08's `validateAccountInfo`), and the carriers `Option`, `Box`, `[T; N]`,
`Vec`, `Rest`, derived structs with several fields and `#[validate(address = …)]` fields.

Code: `account_set/modifiers/{signer,mutable,init,seeded}.rs`, `impls/{boxed,option,array,vec}.rs`,
`rest.rs`, `program.rs`, `sysvar.rs`, `system_account.rs`, `single_set.rs` (`check_signer`,
`check_writable`, `check_key`), `account.rs` / `borsh_account.rs` (`init_account::<true>`), and the
generated `validate_accounts` (`star_frame_proc/.../struct_impl/validate.rs`): `before_validation`,
then per field in declaration order the `address` check followed by the field's validation, then
`extra_validation`.

Each layer's ADVERTISED `SingleSetMeta` (`advertised`) is modelled separately from the CHECK it
performs: the checks are handed the advertised meta of what they wrap (as the code has `T::meta()`
at hand) and never look at it (`Props/C09.lean: accepts_independent_of_meta`).
-/
namespace Account.Nests
open Common Account.Validate Account.Borsh
open Account.Modifiers (fastEq32 Key32 systemId)

/-- One runtime account: key, signer flag, and C08's view of it (owner, data, writable, borrow). -/
structure NAcct where
  key : List Nat
  signer : Bool
  a : Acct
deriving Repr, DecidableEq

/-- `SingleSetMeta`. -/
structure Meta where
  signer : Bool
  writable : Bool
deriving Repr, DecidableEq

/-- Wrapper layers of a single-account chain, listed outer → inner. -/
inductive Layer
  | signer                      -- `MaybeSigner<true, T>`
  | wr                          -- `MaybeMut<true, T>`
  | nsigner                     -- `MaybeSigner<false, T>`
  | nmut                        -- `MaybeMut<false, T>`
  | advw                        -- user set `#[single_account_set(writable)]`: advertises, checks nothing
  | advs                        -- user set `#[single_account_set(signer)]`
  | box                         -- `Box<T>`
  | addr (k : List Nat)         -- `#[single_account_set] #[validate(address = &k)]` (as `Sysvar` does)
  | seeded (k : List Nat)       -- `Seeded<T, S>`: the PDA derived from the seeds (`k`) must be the key
  | init (haveFunder : Bool)    -- `Init<T>` validated with `CreateIfNeeded(())`
deriving Repr, DecidableEq

inductive Base
  | info
  | sysacct
  | program (k : List Nat)
  | sysvar (k : List Nat)
  | account (t : PType)         -- `Account<T>`
  | borsh (t : PType)           -- `BorshAccount<T>` (fixed 3-byte body, `Account.Borsh.fixCodec`)
deriving Repr, DecidableEq

/-! ## Advertised meta (`SingleAccountSet::meta()`) -/

def advertised : List Layer → Base → Meta
  | [], _ => ⟨false, false⟩
  | .signer :: ls, b => { advertised ls b with signer := true }
  | .advs :: ls, b => { advertised ls b with signer := true }
  | .wr :: ls, b => { advertised ls b with writable := true }
  | .advw :: ls, b => { advertised ls b with writable := true }
  | .init _ :: ls, b => { advertised ls b with writable := true }
  | _ :: ls, b => advertised ls b

/-! ## The individual checks -/

inductive Check
  | isSigner
  | isWritable
  | keyIs (k : List Nat) (e : Err)
  | ownerIsSystem
  | progAcct (t : PType)
  | initIfNeeded (t : PType) (haveFunder : Bool)
deriving Repr, DecidableEq

/-- `init_account::<true>` of `Account<T>` / `BorshAccount<T>` reached through `Init` with
`CreateIfNeeded(())`: funder from the `Context` first; "needs init" = System-owned, or the first `W`
data bytes all zero (`data.get(..W)`: `AccountDataTooSmall` on shorter data, since `/repo` d51f9cb); when needed: `check_writable`,
then the creation (a CPI — outside this property: `createAttempted`). -/
def initIfNeeded (t : PType) (haveFunder : Bool) (a : NAcct) : Except Err Unit :=
  if !haveFunder then .error .emptyFunderCache
  else
    let needs : Except Err Bool :=
      if fastEq32 a.a.owner systemId then .ok true
      else if !a.a.borrow.canRead then .error .accountBorrowFailed
      else if a.a.data.length < t.W then .error .accountDataTooSmall
      else .ok ((a.a.data.take t.W).all (· == 0))
    match needs with
    | .error e => .error e
    | .ok false => .ok ()
    | .ok true => if a.a.writable then .error .createAttempted else .error .expectedWritable

def evalCheck (a : NAcct) : Check → Except Err Unit
  | .isSigner => if a.signer then .ok () else .error .expectedSigner
  | .isWritable => if a.a.writable then .ok () else .error .expectedWritable
  | .keyIs k e => if fastEq32 a.key k then .ok () else .error e
  | .ownerIsSystem => if fastEq32 a.a.owner systemId then .ok () else .error .illegalOwner
  | .progAcct t => validateAccountInfo t a.a
  | .initIfNeeded t f => initIfNeeded t f a

/-- The check a base performs (none for `AccountInfo`). -/
def baseChecks : Base → List Check
  | .info => []
  | .sysacct => [.ownerIsSystem]
  | .program k => [.keyIs k .incorrectProgramId]
  | .sysvar k => [.keyIs k .addressMismatch]
  | .account t => [.progAcct t]
  | .borsh t => [.progAcct t]

def Base.ptype? : Base → Option PType
  | .account t => some t
  | .borsh t => some t
  | _ => none

/-- The check a layer performs itself (none for the pass-through / advertising-only layers). -/
def layerChecks (b : Base) : Layer → List Check
  | .signer => [.isSigner]
  | .wr => [.isWritable]
  | .addr k => [.keyIs k .addressMismatch]
  | .seeded k => [.keyIs k .addressMismatch]
  | .init f => match b.ptype? with
    | some t => [.initIfNeeded t f]
    | none => []
  | _ => []

def runChecks (a : NAcct) : List Check → Except Err Unit
  | [] => .ok ()
  | c :: cs =>
    match evalCheck a c with
    | .error e => .error e
    | .ok () => runChecks a cs

/-! ## Validation of a single-account chain, mirroring the generated code

`M` is the meta oracle each wrapper has at hand for what it wraps (`T::meta()`); the real one is
`advertised`. The wrapper checks receive it and ignore it. -/

def checkSigner (_inner : Meta) (a : NAcct) : Except Err Unit := evalCheck a .isSigner
def checkWritable (_inner : Meta) (a : NAcct) : Except Err Unit := evalCheck a .isWritable

def validateWith (M : List Layer → Base → Meta) : List Layer → Base → NAcct → Except Err Unit
  | [], b, a => runChecks a (baseChecks b)
  -- inner first, then the wrapper's `extra_validation`
  | .signer :: ls, b, a =>
    match validateWith M ls b a with
    | .error e => .error e
    | .ok () => checkSigner (M ls b) a
  | .wr :: ls, b, a =>
    match validateWith M ls b a with
    | .error e => .error e
    | .ok () => checkWritable (M ls b) a
  -- the address check runs before the field's validation
  | .addr k :: ls, b, a =>
    match evalCheck a (.keyIs k .addressMismatch) with
    | .error e => .error e
    | .ok () => validateWith M ls b a
  -- `Seeded`: `before_validation = validate_and_set_seeds`
  | .seeded k :: ls, b, a =>
    match evalCheck a (.keyIs k .addressMismatch) with
    | .error e => .error e
    | .ok () => validateWith M ls b a
  -- `Init<Seeded<…>>` with `(CreateIfNeeded(()), Seeds(s))`: `init_seeds` = the seeds check, then
  -- `init_account`; the `Seeded` field then finds its seeds already set
  | .init f :: .seeded k :: ls, b, a =>
    match evalCheck a (.keyIs k .addressMismatch) with
    | .error e => .error e
    | .ok () =>
      match runChecks a (layerChecks b (.init f)) with
      | .error e => .error e
      | .ok () => validateWith M ls b a
  -- `Init<T>`: `before_validation` = `init_seeds` (a no-op for `Signer`) then `init_account::<true>`
  | .init f :: ls, b, a =>
    match runChecks a (layerChecks b (.init f)) with
    | .error e => .error e
    | .ok () => validateWith M ls b a
  -- pure delegation
  | _ :: ls, b, a => validateWith M ls b a

def validateL : List Layer → Base → NAcct → Except Err Unit := validateWith advertised

/-- The checks of a chain in EXECUTION order. -/
def checksL : List Layer → Base → List Check
  | [], b => baseChecks b
  | .signer :: ls, b => checksL ls b ++ [.isSigner]
  | .wr :: ls, b => checksL ls b ++ [.isWritable]
  | .addr k :: ls, b => .keyIs k .addressMismatch :: checksL ls b
  | .seeded k :: ls, b => .keyIs k .addressMismatch :: checksL ls b
  | .init f :: .seeded k :: ls, b => .keyIs k .addressMismatch :: (layerChecks b (.init f) ++ checksL ls b)
  | .init f :: ls, b => layerChecks b (.init f) ++ checksL ls b
  | _ :: ls, b => checksL ls b

/-! ## Carriers -/

/-- The shape of an account set (what the type says). Sequences (struct fields, arrays) are
right-nested `cons` cells ending in `nil`. -/
inductive ASet
  | single (ls : List Layer) (b : Base)
  | opt (s : ASet)                      -- `Option<S>`
  | boxed (s : ASet)                    -- `Box<S>`
  | addr (k : List Nat) (s : ASet)      -- a field `#[validate(address = &k)] f: S` (`S: CheckKey`)
  | arr (n : Nat) (s : ASet)            -- `[S; n]`, and `Vec<S>` decoded with length `n`
  | rest (s : ASet)                     -- `Rest<S>`: as many `S` as accounts remain
  | nil                                 -- a struct without (further) fields
  | cons (s : ASet) (fields : ASet)     -- a struct: field `s`, then the remaining fields
deriving Repr

/-- A decoded account set: the shape with the accounts bound. -/
inductive DSet
  | single (ls : List Layer) (b : Base) (a : NAcct)
  | absent                              -- `None`
  | some (d : DSet)
  | boxed (d : DSet)
  | addr (k : List Nat) (d : DSet)
  | nil
  | cons (d : DSet) (rest : DSet)
deriving Repr

/-- Decode of the base of a chain: `BorshAccount` deserializes its body while decoding. -/
def decodeBase (b : Base) (a : NAcct) : Except Err Unit :=
  match b with
  | .borsh t =>
    match decodeAcct fixCodec t a.a with
    | .error e => .error e
    | .ok _ => .ok ()
  | _ => .ok ()

/-- `AccountSetDecode::decode_accounts`: consumes accounts from the front. `progId` is the executing
program (the `Option` placeholder). `fuel` bounds `Rest` (it stops when no account is left). -/
def decode (progId : List Nat) : Nat → ASet → List NAcct → Except Err (DSet × List NAcct)
  | _, .single ls b, accts =>
    match accts with
    | [] => .error .notEnoughAccounts
    | a :: rest =>
      match decodeBase b a with
      | .error e => .error e
      | .ok () => .ok (.single ls b a, rest)
  | fuel, .opt s, accts =>
    match accts with
    | [] => .ok (.absent, [])
    | a :: rest =>
      if fastEq32 a.key progId then .ok (.absent, rest)
      else match decode progId fuel s accts with
        | .error e => .error e
        | .ok (d, r) => .ok (.some d, r)
  | fuel, .boxed s, accts =>
    match decode progId fuel s accts with
    | .error e => .error e
    | .ok (d, r) => .ok (.boxed d, r)
  | fuel, .addr k s, accts =>
    match decode progId fuel s accts with
    | .error e => .error e
    | .ok (d, r) => .ok (.addr k d, r)
  | _, .arr 0 _, accts => .ok (.nil, accts)
  | fuel, .arr (n + 1) s, accts =>
    match decode progId fuel s accts with
    | .error e => .error e
    | .ok (d, r) =>
      match decode progId fuel (.arr n s) r with
      | .error e => .error e
      | .ok (ds, r') => .ok (.cons d ds, r')
  | 0, .rest _, accts => .ok (.nil, accts)
  | fuel + 1, .rest s, accts =>
    match accts with
    | [] => .ok (.nil, [])
    | _ :: _ =>
      match decode progId fuel s accts with
      | .error e => .error e
      | .ok (d, r) =>
        match decode progId fuel (.rest s) r with
        | .error e => .error e
        | .ok (ds, r') => .ok (.cons d ds, r')
  | _, .nil, accts => .ok (.nil, accts)
  | fuel, .cons s fs, accts =>
    match decode progId fuel s accts with
    | .error e => .error e
    | .ok (d, r) =>
      match decode progId fuel fs r with
      | .error e => .error e
      | .ok (ds, r') => .ok (.cons d ds, r')
termination_by fuel s _ => (fuel, s)

/-- `CheckKey::check_key`: a single account compares its key; `Option` / `Box` delegate (an absent
account passes). Other carriers have no `CheckKey` impl (never generated; modelled as passing). -/
def checkKey (k : List Nat) : DSet → Except Err Unit
  | .single _ _ a => evalCheck a (.keyIs k .addressMismatch)
  | .some d => checkKey k d
  | .boxed d => checkKey k d
  | _ => .ok ()

/-- `validate_accounts` over a decoded set. -/
def validateD : DSet → Except Err Unit
  | .single ls b a => validateL ls b a
  | .absent => .ok ()
  | .some d => validateD d
  | .boxed d => validateD d
  | .addr k d =>
    match checkKey k d with
    | .error e => .error e
    | .ok () => validateD d
  | .nil => .ok ()
  | .cons d rest =>
    match validateD d with
    | .error e => .error e
    | .ok () => validateD rest

/-- Decode, then validate (what `try_from_accounts` does). -/
def decodeValidate (progId : List Nat) (s : ASet) (accts : List NAcct) : Except Err Unit :=
  match decode progId (accts.length + 1) s accts with
  | .error e => .error e
  | .ok (d, _) => validateD d

/-- Every check of a decoded set, each paired with the account it looks at, in EXECUTION order. -/
def keyChecks (k : List Nat) : DSet → List (NAcct × Check)
  | .single _ _ a => [(a, .keyIs k .addressMismatch)]
  | .some d => keyChecks k d
  | .boxed d => keyChecks k d
  | _ => []

def checksD : DSet → List (NAcct × Check)
  | .single ls b a => (checksL ls b).map (fun c => (a, c))
  | .absent => []
  | .some d => checksD d
  | .boxed d => checksD d
  | .addr k d => keyChecks k d ++ checksD d
  | .nil => []
  | .cons d rest => checksD d ++ checksD rest

def runAll : List (NAcct × Check) → Except Err Unit
  | [] => .ok ()
  | (a, c) :: cs =>
    match evalCheck a c with
    | .error e => .error e
    | .ok () => runAll cs

/-! ## Sequence carriers validated with NON-`()` arguments

`impls/vec.rs` / `impls/array.rs`: besides `()`, a `Vec<T>` / `[T; N]` validates with
* `(arg,)` — the argument is cloned for every element;
* `Vec<arg>` (`Vec` only) — `InvalidArgument` when there are FEWER arguments than elements, otherwise
  element `i` is validated with argument `i` (`zip`; surplus arguments are ignored);
* `[arg; M]` — for a `Vec`: `InvalidArgument` unless `M` equals the length, then pairwise; for `[T; N]`
  the type forces `M = N`.
`v a x` is the validation of element `x` under argument `a`. -/

/-- `for (account, input) in self.iter_mut().zip(validate_input) { … ? }`. -/
def validateZip {α β : Type} (v : α → β → Except Err Unit) : List β → List α → Except Err Unit
  | x :: xs, a :: as =>
    match v a x with
    | .error e => .error e
    | .ok () => validateZip v xs as
  | _, _ => .ok ()

inductive ArgForm
  | bcast | vecArgs | arrArgs
deriving Repr, DecidableEq

/-- `Vec<T>::validate_accounts(args)` for the three non-`()` argument forms. -/
def validateVecArgs {α β : Type} (v : α → β → Except Err Unit) (form : ArgForm) (xs : List β)
    (as : List α) : Except Err Unit :=
  match form with
  | .bcast =>
    match as with
    | a :: _ => validateZip v xs (List.replicate xs.length a)
    | [] => .ok ()
  | .vecArgs => if as.length < xs.length then .error .invalidArgument else validateZip v xs as
  | .arrArgs => if as.length ≠ xs.length then .error .invalidArgument else validateZip v xs as

/-- An element chain whose `Seeded` layer takes its seeds — hence the PDA `k` it expects — from the
validate argument: the layers above it, the layers below it, the base. -/
structure ArgChain where
  outer : List Layer
  inner : List Layer
  base : Base
deriving Repr

def ArgChain.fill (c : ArgChain) (k : List Nat) : List Layer := c.outer ++ .seeded k :: c.inner

/-- Validation of one element under its argument. -/
def validateArgElem (c : ArgChain) (k : List Nat) (a : NAcct) : Except Err Unit :=
  validateL (c.fill k) c.base a

/-- Decode of `n` elements of a single-account chain (array: exactly `n`; `Vec`: its decode length). -/
def decodeElems (b : Base) : Nat → List NAcct → Except Err (List NAcct)
  | 0, _ => .ok []
  | _ + 1, [] => .error .notEnoughAccounts
  | n + 1, a :: rest =>
    match decodeBase b a with
    | .error e => .error e
    | .ok () =>
      match decodeElems b n rest with
      | .error e => .error e
      | .ok xs => .ok (a :: xs)

/-- Decode `n` elements, then validate them with the argument list in the given form. -/
def decodeValidateArgs (c : ArgChain) (form : ArgForm) (n : Nat) (args : List (List Nat))
    (accts : List NAcct) : Except Err Unit :=
  match decodeElems c.base n accts with
  | .error e => .error e
  | .ok xs => validateVecArgs (validateArgElem c) form xs args

end Account.Nests
