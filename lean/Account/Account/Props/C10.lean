import Account.SeedsLemmas
/-!
# C10 — Seeded accounts accept exactly the derived address; bump and signer seeds agree

Every theorem quantifies over the hash oracle `H` (SHA-256 + curve test, a function of the
FLATTENED seed bytes and the program id), the program id `P`, the seed struct `S` (optional constant
prefix, any fields, any values) and the account key.

Since repo commit 801ca3a the `find` validation path and both client helpers drop the trailing empty
bump placeholder (`dropTrailingEmpty`), so every path hands the runtime LITERALLY the same list
`effSeeds S ++ [[bump]]` (`four_paths_same_bytes`), where `effSeeds S = dropTrailingEmpty (seeds S)` is
the user seeds for every derived struct (`eff_seeds_spec`). No seed-count side condition is left:
15 user seeds derive on every path (`fifteen_seeds_derive`), 16 are rejected by every path
(`sixteen_seeds_rejected`, the runtime's own limit).
-/
namespace Account.C10
open Common Account.Seeds

/-- The trailing empty slot never changes the hashed bytes. -/
theorem empty_slot_irrelevant (S : List (List Nat)) (b : Nat) :
    (S ++ [[]] ++ [[b]]).flatten = (S ++ [[b]]).flatten :=
  flatten_empty_slot S b

example : ([[1, 2], [3]] ++ [[]] ++ [[255]] : List (List Nat)).flatten = [1, 2, 3, 255] := by decide

/-- All four code paths hand the runtime the SAME seed list, for every `GetSeeds` value (derived or
hand-written, any number of seeds): on-chain `find` and client `find` search bumps over
`effSeeds S`, client `create` passes `effSeeds S ++ [[b]]`, and the explicit-bump validation and
`signer_seeds` pass `seeds_with_bump`, which is the same list. Its bytes are the user seeds followed
by the bump. -/
theorem four_paths_same_bytes (S : SeedStruct) (b : Nat) :
    seedsWithBump (seeds S) b = effSeeds S ++ [[b]]
    ∧ (∀ H P, clientCreate H P S b = create H (effSeeds S ++ [[b]]) P)
    ∧ (∀ H P, clientFind H P S = find H (effSeeds S) P)
    ∧ (∀ H P st, st.recorded = none →
        (validateWithBump H P S b st).1 = .ok ∨ (validateWithBump H P S b st).1 = .addressMismatch →
        ∃ k, create H (effSeeds S ++ [[b]]) P = .ok k)
    ∧ (effSeeds S ++ [[b]]).flatten = (userSeeds S ++ [[b]]).flatten := by
  refine ⟨seedsWithBump_seeds S b, fun _ _ => rfl, fun _ _ => rfl, ?_, ?_⟩
  · intro H P st hfresh hres
    unfold validateWithBump at hres
    rw [hfresh, seedsWithBump_seeds] at hres
    cases hc : create H (effSeeds S ++ [[b]]) P with
    | ok k => exact ⟨k, rfl⟩
    | error e => rw [hc] at hres; simp at hres
  · simp [effSeeds_flatten]

/-- What `effSeeds` is: exactly the user seeds for every derived struct (the placeholder is what
gets dropped); for a hand-written `GetSeeds` without placeholder it is the user seeds unless the last
REAL seed is empty, in which case that seed is dropped — the hashed bytes are the same in every
case and the list never gets longer. -/
theorem eff_seeds_spec (S : SeedStruct) :
    (S.placeholder = true → effSeeds S = userSeeds S)
    ∧ (S.placeholder = false → (userSeeds S).getLast? ≠ some [] → effSeeds S = userSeeds S)
    ∧ (S.placeholder = false → (userSeeds S).getLast? = some [] → effSeeds S = (userSeeds S).dropLast)
    ∧ (effSeeds S).flatten = (userSeeds S).flatten
    ∧ (effSeeds S).length ≤ (userSeeds S).length := by
  refine ⟨effSeeds_placeholder S, ?_, ?_, effSeeds_flatten S, ?_⟩
  · intro hp hl
    unfold effSeeds seeds dropTrailingEmpty
    simp only [hp, Bool.false_eq_true, if_false, List.append_nil]
  · intro hp hl
    unfold effSeeds seeds dropTrailingEmpty
    simp only [hp, Bool.false_eq_true, if_false, List.append_nil, hl]
  · cases hp : S.placeholder
    · have := dropTrailingEmpty_length_le (seeds S)
      unfold effSeeds
      unfold seeds at this ⊢
      simpa [hp] using this
    · rw [effSeeds_placeholder S hp]; exact Nat.le_refl _

example : effSeeds ⟨none, [[.uint 1 7], [.arr []]], true⟩ = [[7], []]
    ∧ effSeeds ⟨none, [[.uint 1 7], [.arr []]], false⟩ = [[7]]
    ∧ effSeeds ⟨none, [[.uint 1 7]], false⟩ = [[7]] := by decide

/-- `seeds_with_bump` pushing instead of replacing (or the client replacing instead of pushing)
would hash the same bytes, for ANY seed vector — only the slot count differs. -/
theorem push_vs_replace_same_bytes (ss : List (List Nat)) (b : Nat) :
    (seedsWithBump ss b).flatten = (ss ++ [[b]]).flatten :=
  seedsWithBump_flatten ss b

example : seedsWithBump [[7], []] 9 = [[7], [9]] ∧ seedsWithBump [[7], [8]] 9 = [[7], [8], [9]] := by
  decide

/-- Validation with `Seeds(S)` on a fresh `Seeded` succeeds iff the account key is the canonical
program derived address of `effSeeds S` (= the user seeds, `eff_seeds_spec`) under `P`; on success
exactly the canonical bump is recorded, on failure nothing is recorded. No side condition. -/
theorem validate_seeds_iff (H : Hash) (P : List Nat) (S : SeedStruct) (st : Seeded)
    (hfresh : st.recorded = none) :
    ((validateSeeds H P S st).1 = .ok ↔ ∃ b, find H (effSeeds S) P = some (st.key, b))
    ∧ (∀ b, find H (effSeeds S) P = some (st.key, b) →
        (validateSeeds H P S st).2 = { st with recorded := some ⟨S, b⟩ })
    ∧ ((validateSeeds H P S st).1 ≠ .ok → (validateSeeds H P S st).2 = st)
    ∧ (S.placeholder = true →
        ((validateSeeds H P S st).1 = .ok ↔ ∃ b, find H (userSeeds S) P = some (st.key, b))) := by
  have key : ((validateSeeds H P S st).1 = .ok ↔ ∃ b, find H (effSeeds S) P = some (st.key, b))
    ∧ (∀ b, find H (effSeeds S) P = some (st.key, b) →
        (validateSeeds H P S st).2 = { st with recorded := some ⟨S, b⟩ })
    ∧ ((validateSeeds H P S st).1 ≠ .ok → (validateSeeds H P S st).2 = st) := by
    unfold validateSeeds effSeeds
    rw [hfresh]
    cases hf : find H (dropTrailingEmpty (seeds S)) P with
    | none => simp
    | some r =>
      obtain ⟨addr, bump⟩ := r
      by_cases hk : addr = st.key
      · subst hk; simp
      · simp only [hk, if_false]
        refine ⟨⟨by simp, ?_⟩, ?_, by simp⟩
        · rintro ⟨b, hb⟩
          simp only [Option.some.injEq, Prod.mk.injEq] at hb
          exact absurd hb.1 hk
        · intro b hb
          simp only [Option.some.injEq, Prod.mk.injEq] at hb
          exact absurd hb.1 hk
  refine ⟨key.1, key.2.1, key.2.2, ?_⟩
  intro hp
  rw [← effSeeds_placeholder S hp]
  exact key.1

/-- Non-vacuity: with an always-off-curve hash the canonical bump is 255 and the account whose key
is that address is accepted, any other key is rejected. -/
example :
    let H : Hash := fun flat _ => some flat
    let S : SeedStruct := ⟨some [84], [[.uint 2 513], [.key [9, 9]]], true⟩
    (validateSeeds H [1] S ⟨[84, 1, 2, 9, 9, 255], none⟩).1 = .ok
    ∧ (validateSeeds H [1] S ⟨[84, 1, 2, 9, 9, 255], none⟩).2.recorded = some ⟨S, 255⟩
    ∧ (validateSeeds H [1] S ⟨[84, 2, 1, 9, 9, 255], none⟩).1 = .addressMismatch := by
  decide

/-- Validation with `SeedsWithBump{S, b}` on a fresh `Seeded` succeeds iff the account key is the
address created from `effSeeds S` (= the user seeds, `eff_seeds_spec`) and `[b]`. -/
theorem validate_bump_iff (H : Hash) (P : List Nat) (S : SeedStruct) (b : Nat) (st : Seeded)
    (hfresh : st.recorded = none) :
    ((validateWithBump H P S b st).1 = .ok ↔ create H (effSeeds S ++ [[b]]) P = .ok st.key)
    ∧ ((validateWithBump H P S b st).1 = .ok →
        (validateWithBump H P S b st).2 = { st with recorded := some ⟨S, b⟩ })
    ∧ ((validateWithBump H P S b st).1 ≠ .ok → (validateWithBump H P S b st).2 = st) := by
  unfold validateWithBump
  rw [hfresh, seedsWithBump_seeds]
  cases hc : create H (effSeeds S ++ [[b]]) P with
  | error e => simp
  | ok addr =>
    by_cases hk : addr = st.key
    · subst hk; simp
    · simp only [hk, if_false]
      refine ⟨⟨by simp, ?_⟩, by simp, by simp⟩
      intro h
      exact absurd (Except.ok.inj h) hk

example :
    let H : Hash := fun flat _ => if flat.getLast? = some 7 then none else some flat
    let S : SeedStruct := ⟨none, [[.sint 1 (-1)]], true⟩
    (validateWithBump H [1] S 3 ⟨[255, 3], none⟩).1 = .ok
    ∧ (validateWithBump H [1] S 7 ⟨[255, 7], none⟩).1 = .createErr .invalidSeeds
    ∧ (validateWithBump H [1] S 4 ⟨[255, 3], none⟩).1 = .addressMismatch := by
  decide

/-- A second validation of an already validated `Seeded` returns `Ok` without looking at anything
(the `if self.seeds.is_some()` early return) and leaves the record alone. -/
theorem validate_sticky (H : Hash) (P : List Nat) (S : SeedStruct) (b : Nat) (st : Seeded)
    (r : Recorded) (h : st.recorded = some r) :
    validateSeeds H P S st = (.ok, st) ∧ validateWithBump H P S b st = (.ok, st) := by
  unfold validateSeeds validateWithBump
  rw [h]
  exact ⟨rfl, rfl⟩

example : validateSeeds (fun _ _ => none) [] ⟨none, [], true⟩ ⟨[1], some ⟨⟨none, [], true⟩, 4⟩⟩
    = (.ok, ⟨[1], some ⟨⟨none, [], true⟩, 4⟩⟩) := by decide

/-- After a successful `Seeds(S)` validation (fresh `Seeded`): the signer seeds recreate the account
key, the recorded bump is a real bump byte, and both client helpers agree (`find` returns exactly
the key and the recorded bump; `create` with the recorded bump returns the key). No side condition. -/
theorem recorded_seeds_recreate (H : Hash) (P : List Nat) (S : SeedStruct) (st : Seeded)
    (hfresh : st.recorded = none) (hok : (validateSeeds H P S st).1 = .ok) :
    ∃ bump,
      accessSeeds (validateSeeds H P S st).2 = some ⟨S, bump⟩
      ∧ 1 ≤ bump ∧ bump ≤ 255
      ∧ signerSeeds (validateSeeds H P S st).2 = some (effSeeds S ++ [[bump]])
      ∧ create H (effSeeds S ++ [[bump]]) P = .ok st.key
      ∧ clientFind H P S = some (st.key, bump)
      ∧ clientCreate H P S bump = .ok st.key := by
  obtain ⟨hiff, hrec, -, -⟩ := validate_seeds_iff H P S st hfresh
  obtain ⟨b, hb⟩ := hiff.1 hok
  have hst := hrec b hb
  obtain ⟨hmem, hcre⟩ := find_some H _ P _ _ hb
  rw [mem_bumps] at hmem
  refine ⟨b, ?_, hmem.1, hmem.2, ?_, hcre, hb, hcre⟩
  · rw [hst]; rfl
  · rw [hst]; simp only [signerSeeds, Option.map_some, seedsWithBump_seeds]

/-- After a successful `SeedsWithBump{S, b}` validation (fresh `Seeded`): the signer seeds recreate
the account key and the client `create` helper with the same bump returns the key. The client
`find` helper returns the key only when `b` is the canonical bump — that is `validate_seeds_iff`. -/
theorem recorded_bump_recreate (H : Hash) (P : List Nat) (S : SeedStruct) (b : Nat) (st : Seeded)
    (hfresh : st.recorded = none) (hok : (validateWithBump H P S b st).1 = .ok) :
    accessSeeds (validateWithBump H P S b st).2 = some ⟨S, b⟩
    ∧ signerSeeds (validateWithBump H P S b st).2 = some (effSeeds S ++ [[b]])
    ∧ create H (effSeeds S ++ [[b]]) P = .ok st.key
    ∧ clientCreate H P S b = .ok st.key := by
  obtain ⟨hiff, hrec, -⟩ := validate_bump_iff H P S b st hfresh
  have hst := hrec hok
  have hcre := hiff.1 hok
  refine ⟨?_, ?_, hcre, hcre⟩
  · rw [hst]; rfl
  · rw [hst]; simp only [signerSeeds, Option.map_some, seedsWithBump_seeds]

example :
    let H : Hash := fun flat _ => some flat
    let S : SeedStruct := ⟨some [84], [[.uint 1 5]], true⟩
    let st' := (validateSeeds H [1] S ⟨[84, 5, 255], none⟩).2
    signerSeeds st' = some [[84], [5], [255]]
    ∧ clientFind H [1] S = some ([84, 5, 255], 255)
    ∧ clientCreate H [1] S 255 = .ok [84, 5, 255] := by
  decide

/-- Seed order, constant prefix and field encodings: `seeds()` lists the constant prefix first (when
declared), then the fields in declaration order, each as its `bytes_of` image — little-endian for
integers of every width (two's complement when signed), verbatim for keys and byte arrays — then the
empty slot. The client helpers and the on-chain validation call this same function, so they cannot
disagree on any of the three. -/
theorem order_and_prefix (S : SeedStruct) :
    (S.placeholder = true → seeds S = S.const.toList ++ S.fields.map compBytes ++ [[]])
    ∧ (S.placeholder = false → seeds S = S.const.toList ++ S.fields.map compBytes)
    ∧ (∀ c, S.const = some c → (seeds S)[0]? = some c
        ∧ ∀ i (h : i < S.fields.length), (seeds S)[i + 1]? = some (compBytes S.fields[i]))
    ∧ (S.const = none → ∀ i (h : i < S.fields.length), (seeds S)[i]? = some (compBytes S.fields[i]))
    ∧ (∀ w v, bytesOf (.uint w v) = leN w v ∧ (v < 256 ^ w → rdLE (bytesOf (.uint w v)) = v))
    ∧ (∀ w (v : Int), 0 ≤ v → v < (256 ^ w : Nat) → bytesOf (.sint w v) = leN w v.toNat)
    ∧ (∀ w (v : Int), v < 0 → -(256 ^ w : Nat) ≤ v →
        bytesOf (.sint w v) = leN w (256 ^ w - (-v).toNat))
    ∧ (∀ bs, bytesOf (.key bs) = bs ∧ bytesOf (.arr bs) = bs)
    ∧ (bytesOf (.bool false) = [0] ∧ bytesOf (.bool true) = [1])
    ∧ (∀ v, compBytes [v] = bytesOf v)
    ∧ (∀ vs ws, compBytes (vs ++ ws) = compBytes vs ++ compBytes ws)
    ∧ (compBytes [] = [] ∧ compBytes [.arr []] = [])
    ∧ (∀ H P, clientFind H P S = find H (dropTrailingEmpty (seeds S)) P)
    ∧ (∀ H P b, clientCreate H P S b = create H (dropTrailingEmpty (seeds S) ++ [[b]]) P) := by
  refine ⟨fun hp => by simp [seeds, userSeeds, hp], fun hp => by simp [seeds, userSeeds, hp],
    ?_, ?_, ?_, ?_, ?_, ?_, ⟨rfl, rfl⟩, compBytes_singleton, ?_, ⟨rfl, rfl⟩,
    fun _ _ => rfl, fun _ _ _ => rfl⟩
  · intro c hc
    unfold seeds userSeeds
    rw [hc]
    refine ⟨by simp, ?_⟩
    intro i h
    simp only [Option.toList_some, List.cons_append]
    rw [List.getElem?_cons_succ, List.getElem?_append_left (by simpa using h)]
    simp [h]
  · intro hc i h
    unfold seeds userSeeds
    rw [hc]
    simp only [Option.toList_none, List.nil_append]
    rw [List.getElem?_append_left (by simpa using h)]
    simp [h]
  · intro w v
    exact ⟨rfl, fun h => by simp only [bytesOf]; exact rdLE_leN w v h⟩
  · intro w v hv hlt
    simp only [bytesOf]
    rw [Int.emod_eq_of_lt hv hlt]
  · intro w v hneg hlo
    simp only [bytesOf]
    have hp : 0 < 256 ^ w := Nat.pow_pos (by decide)
    have hmod : v % ((256 ^ w : Nat) : Int) = v + ((256 ^ w : Nat) : Int) := by
      rw [← Int.add_emod_right v _]
      exact Int.emod_eq_of_lt (by omega) (by omega)
    rw [hmod]
    congr 1
    omega
  · intro bs; exact ⟨rfl, rfl⟩
  · intro vs ws; simp [compBytes]

example : seeds ⟨some [84, 69], [[.uint 2 258], [.sint 2 (-2)], [.key [7, 7]], [.arr [1, 2, 3]],
      [.uint 4 1, .uint 2 2, .bool true], [.arr []], [.bool false]], true⟩
    = [[84, 69], [2, 1], [254, 255], [7, 7], [1, 2, 3], [1, 0, 0, 0, 2, 0, 1], [], [0], []] := by
  decide

/-- The bump goes into the LAST slot and nowhere else: `seeds_with_bump` replaces the last element
iff that element is empty, otherwise appends; it never touches an earlier element, however many of
them are empty (zero-length components — `[u8; 0]` fields, unit structs, an empty `seed_const` — in
front of or between other seeds). For derived seeds every user seed therefore keeps its position
and the bump follows them. -/
theorem bump_slot_is_last (ss : List (List Nat)) (b : Nat) :
    (ss.getLast? = some [] → seedsWithBump ss b = ss.dropLast ++ [[b]])
    ∧ (ss.getLast? ≠ some [] → seedsWithBump ss b = ss ++ [[b]])
    ∧ (∀ i, i + 1 < ss.length → (seedsWithBump ss b)[i]? = ss[i]?)
    ∧ (seedsWithBump ss b).getLast? = some [b]
    ∧ seedsWithBump ss b = dropTrailingEmpty ss ++ [[b]]
    ∧ (∀ S : SeedStruct, S.placeholder = true → seedsWithBump (seeds S) b = userSeeds S ++ [[b]]
        ∧ ∀ i, i < (userSeeds S).length → (seedsWithBump (seeds S) b)[i]? = (userSeeds S)[i]?) := by
  have h1 : ss.getLast? = some [] → seedsWithBump ss b = ss.dropLast ++ [[b]] := by
    intro h; unfold seedsWithBump; rw [h]
  have h2 : ss.getLast? ≠ some [] → seedsWithBump ss b = ss ++ [[b]] := by
    intro h; unfold seedsWithBump
    split
    · rename_i h'; exact absurd h' h
    · rfl
  refine ⟨h1, h2, ?_, ?_, seedsWithBump_eq_drop ss b, ?_⟩
  · intro i hi
    by_cases h : ss.getLast? = some []
    · rw [h1 h, List.getElem?_append_left (by simp; omega)]
      simp only [List.getElem?_dropLast]
      have : i < ss.length - 1 := by omega
      simp [this]
    · rw [h2 h, List.getElem?_append_left (by omega)]
  · by_cases h : ss.getLast? = some []
    · rw [h1 h]; simp
    · rw [h2 h]; simp
  · intro S hp
    have he : seedsWithBump (seeds S) b = userSeeds S ++ [[b]] := by
      rw [seedsWithBump_seeds, effSeeds_placeholder S hp]
    refine ⟨he, ?_⟩
    intro i hi
    rw [he, List.getElem?_append_left hi]

/-- Empty components in the middle stay where they are; only the trailing slot takes the bump
(`[[1], [], [2], []]`: the FIRST empty slice is at index 1, the bump goes to index 3). -/
example : seedsWithBump [[1], [], [2], []] 9 = [[1], [], [2], [9]]
    ∧ seedsWithBump [[], [5], []] 9 = [[], [5], [9]]
    ∧ seedsWithBump [[], [], []] 9 = [[], [], [9]]
    ∧ seedsWithBump (seeds ⟨some [], [[.uint 1 7], [.arr []], [.uint 1 8]], true⟩) 9 = [[], [7], [], [8], [9]] := by
  decide

/-! ## Repeated validation of ONE `Seeded` value

What the property covers: every validation of a value that has not been validated successfully yet
— the first call, and every call after failed ones, because a failed call leaves no trace
(`failed_validation_leaves_no_trace`, so the `…_iff` theorems apply to it verbatim). What is pinned
as behaviour of the code rather than claimed as conformance: after ONE success every later call
returns `Ok` without looking at its argument (`validate_sticky`); the record stays that of the first
success (`history_first_success_wins`), so it still recreates the account key
(`history_recorded_sound`), but the later `Ok` says nothing about the later argument. -/

/-- A failed validation (mismatch, create error or panic) leaves the value exactly as it was, so the
next validation of the same value behaves like the first one. -/
theorem failed_validation_leaves_no_trace (H : Hash) (P : List Nat) (s : VStep) (st : Seeded)
    (hfail : (applyStep H P s st).1 ≠ .ok) : (applyStep H P s st).2 = st := by
  cases s with
  | seeds S =>
    simp only [applyStep] at *
    unfold validateSeeds at *
    cases hr : st.recorded with
    | some r => simp [hr] at hfail
    | none =>
      simp only [hr] at hfail ⊢
      cases hf : find H (dropTrailingEmpty (seeds S)) P with
      | none => rfl
      | some r =>
        obtain ⟨a, b⟩ := r
        simp only [hf] at hfail ⊢
        by_cases hk : a = st.key
        · simp [hk] at hfail
        · simp [hk]
  | bump S b =>
    simp only [applyStep] at *
    unfold validateWithBump at *
    cases hr : st.recorded with
    | some r => simp [hr] at hfail
    | none =>
      simp only [hr] at hfail ⊢
      cases hc : create H (seedsWithBump (seeds S) b) P with
      | error e => rfl
      | ok a =>
        simp only [hc] at hfail ⊢
        by_cases hk : a = st.key
        · simp [hk] at hfail
        · simp [hk]

example :
    let H : Hash := fun flat _ => some flat
    let right : SeedStruct := ⟨none, [[.uint 1 5]], true⟩
    let wrong : SeedStruct := ⟨none, [[.uint 1 6]], true⟩
    -- validate(wrong seeds) → validate(right seeds) → access_seeds
    (runHistory H [] [.seeds wrong, .bump wrong 255, .seeds right] ⟨[5, 255], none⟩)
      = ([.addressMismatch, .addressMismatch, .ok], ⟨[5, 255], some ⟨right, 255⟩⟩)
    -- validate(ok) → validate(other seeds): Ok, record untouched
    ∧ (runHistory H [] [.seeds right, .seeds wrong, .bump wrong 3] ⟨[5, 255], none⟩)
      = ([.ok, .ok, .ok], ⟨[5, 255], some ⟨right, 255⟩⟩) := by
  decide

/-- Any history of validations on a fresh value: either every call failed and nothing is recorded,
or the calls before the first success failed, the first success records exactly what it would have
recorded on the fresh value, and every later call returns `Ok` and changes nothing. -/
theorem history_first_success_wins (H : Hash) (P : List Nat) (hs : List VStep) (st : Seeded)
    (hfresh : st.recorded = none) :
    ((runHistory H P hs st).2 = st ∧ ∀ r ∈ (runHistory H P hs st).1, r ≠ .ok)
    ∨ ∃ pre s post, hs = pre ++ s :: post
        ∧ (∀ r ∈ (runHistory H P pre st).1, r ≠ .ok)
        ∧ (applyStep H P s st).1 = .ok
        ∧ (runHistory H P hs st).2 = (applyStep H P s st).2
        ∧ (runHistory H P hs st).1
            = (runHistory H P pre st).1 ++ .ok :: List.replicate post.length .ok := by
  induction hs with
  | nil => left; simp [runHistory]
  | cons s rest ih =>
    by_cases hok : (applyStep H P s st).1 = .ok
    · right
      refine ⟨[], s, rest, rfl, by simp [runHistory], hok, ?_, ?_⟩
      · -- after the success everything is sticky
        have hrec : ∃ r, (applyStep H P s st).2.recorded = some r := by
          cases s with
          | seeds S =>
            simp only [applyStep] at hok ⊢
            unfold validateSeeds at hok ⊢
            simp only [hfresh] at hok ⊢
            cases hf : find H (dropTrailingEmpty (seeds S)) P with
            | none => simp [hf] at hok
            | some r =>
              obtain ⟨a, b⟩ := r
              simp only [hf] at hok ⊢
              by_cases hk : a = st.key
              · simp [hk]
              · simp [hk] at hok
          | bump S b =>
            simp only [applyStep] at hok ⊢
            unfold validateWithBump at hok ⊢
            simp only [hfresh] at hok ⊢
            cases hc : create H (seedsWithBump (seeds S) b) P with
            | error e => simp [hc] at hok
            | ok a =>
              simp only [hc] at hok ⊢
              by_cases hk : a = st.key
              · simp [hk]
              · simp [hk] at hok
        obtain ⟨r, hr⟩ := hrec
        have hst := sticky_history H P rest (applyStep H P s st).2 r hr
        simp only [runHistory]
        rw [hst.1]
      · obtain ⟨r, hr⟩ : ∃ r, (applyStep H P s st).2.recorded = some r := by
          cases s with
          | seeds S =>
            simp only [applyStep] at hok ⊢
            unfold validateSeeds at hok ⊢
            simp only [hfresh] at hok ⊢
            cases hf : find H (dropTrailingEmpty (seeds S)) P with
            | none => simp [hf] at hok
            | some r =>
              obtain ⟨a, b⟩ := r
              simp only [hf] at hok ⊢
              by_cases hk : a = st.key
              · simp [hk]
              · simp [hk] at hok
          | bump S b =>
            simp only [applyStep] at hok ⊢
            unfold validateWithBump at hok ⊢
            simp only [hfresh] at hok ⊢
            cases hc : create H (seedsWithBump (seeds S) b) P with
            | error e => simp [hc] at hok
            | ok a =>
              simp only [hc] at hok ⊢
              by_cases hk : a = st.key
              · simp [hk]
              · simp [hk] at hok
        have hst := sticky_history H P rest (applyStep H P s st).2 r hr
        simp only [runHistory, List.nil_append]
        rw [hst.2, hok]
    · have hsame := failed_validation_leaves_no_trace H P s st hok
      rcases ih with ⟨h1, h2⟩ | ⟨pre, s', post, hhs, hpre, hs', hfin, hres⟩
      · left
        simp only [runHistory, hsame]
        refine ⟨h1, ?_⟩
        intro r hr
        simp only [List.mem_cons] at hr
        rcases hr with rfl | hr
        · exact hok
        · exact h2 r hr
      · right
        refine ⟨s :: pre, s', post, by simp [hhs], ?_, hs', ?_, ?_⟩
        · intro r hr
          simp only [runHistory, hsame, List.mem_cons] at hr
          rcases hr with rfl | hr
          · exact hok
          · exact hpre r hr
        · simp only [runHistory, hsame]; exact hfin
        · simp only [runHistory, hsame, List.cons_append]; rw [hres]

/-- Whatever the history on a fresh value, a recorded `(seeds, bump)` always recreates the account
key: `create(effSeeds ++ [bump]) = key` — the signer seeds of a `Seeded` are never stale. -/
theorem history_recorded_sound (H : Hash) (P : List Nat) (hs : List VStep) (st : Seeded)
    (hfresh : st.recorded = none) (r : Recorded)
    (hr : (runHistory H P hs st).2.recorded = some r) :
    (runHistory H P hs st).2.key = st.key
    ∧ create H (effSeeds r.seeds ++ [[r.bump]]) P = .ok st.key
    ∧ signerSeeds (runHistory H P hs st).2 = some (effSeeds r.seeds ++ [[r.bump]]) := by
  rcases history_first_success_wins H P hs st hfresh with ⟨h1, -⟩ | ⟨pre, s, post, -, -, hok, hfin, -⟩
  · rw [h1, hfresh] at hr; cases hr
  · rw [hfin] at hr ⊢
    cases s with
    | seeds S =>
      simp only [applyStep] at hok hr ⊢
      obtain ⟨bump, hacc, -, -, hsig, hcre, -, -⟩ := recorded_seeds_recreate H P S st hfresh hok
      have hkey : (validateSeeds H P S st).2.key = st.key := by
        obtain ⟨hiff, hrec, -, -⟩ := validate_seeds_iff H P S st hfresh
        obtain ⟨b, hb⟩ := hiff.1 hok
        rw [hrec b hb]
      unfold accessSeeds at hacc
      rw [hacc] at hr
      cases hr
      exact ⟨hkey, hcre, hsig⟩
    | bump S b =>
      simp only [applyStep] at hok hr ⊢
      obtain ⟨hacc, hsig, hcre, -⟩ := recorded_bump_recreate H P S b st hfresh hok
      have hkey : (validateWithBump H P S b st).2.key = st.key := by
        obtain ⟨-, hrec, -⟩ := validate_bump_iff H P S b st hfresh
        rw [hrec hok]
      unfold accessSeeds at hacc
      rw [hacc] at hr
      cases hr
      exact ⟨hkey, hcre, hsig⟩

example :
    let H : Hash := fun flat _ => if flat.getLast? = some 255 then none else some flat
    let S : SeedStruct := ⟨some [], [[.arr []], [.uint 1 4]], true⟩
    let E : SeedStruct := ⟨none, [], true⟩
    let fin := (runHistory H [] [.bump S 255, .seeds E, .seeds S, .bump E 1] ⟨[4, 254], none⟩)
    fin.1 = [.createErr .invalidSeeds, .addressMismatch, .ok, .ok]
    ∧ signerSeeds fin.2 = some [[], [], [4], [254]] := by
  decide

/-- The former excluded point (DESIGN D10, repaired by repo commit 801ca3a): a struct with 15 one-byte
fields. All four paths now derive and agree: `Seeds(..)` validation accepts the canonical address
and records the canonical bump, the client `find` helper returns the same pair, the client `create`
helper and the explicit-bump validation accept it, the signer seeds recreate it. -/
theorem fifteen_seeds_derive :
    let H : Hash := fun flat _ => some flat
    let S : SeedStruct := ⟨none, (List.range 15).map fun i => [.uint 1 i], true⟩
    let key := (List.range 15) ++ [255]
    (userSeeds S).length = 15
    ∧ find H (userSeeds S) [] = some (key, 255)
    ∧ validateSeeds H [] S ⟨key, none⟩ = (.ok, ⟨key, some ⟨S, 255⟩⟩)
    ∧ clientFind H [] S = some (key, 255)
    ∧ clientCreate H [] S 255 = .ok key
    ∧ (validateWithBump H [] S 255 ⟨key, none⟩).1 = .ok
    ∧ (signerSeeds (validateSeeds H [] S ⟨key, none⟩).2).map (create H · []) = some (.ok key) := by
  decide

/-- The runtime's own limit, hit consistently: with 16 (or more) effective seeds there is no room for
the bump, and EVERY path refuses, whatever the hash: `Seeds(..)` validation and the client `find`
helper find nothing (panic), explicit-bump validation and the client `create` helper return
`MaxSeedLengthExceeded`; nothing is recorded. -/
theorem sixteen_seeds_rejected (H : Hash) (P : List Nat) (S : SeedStruct) (b : Nat) (st : Seeded)
    (hfresh : st.recorded = none) (h16 : 16 ≤ (effSeeds S).length) :
    validateSeeds H P S st = (.panic, st)
    ∧ validateWithBump H P S b st = (.createErr .maxSeedLengthExceeded, st)
    ∧ clientFind H P S = none
    ∧ clientCreate H P S b = .error .maxSeedLengthExceeded
    ∧ find H (effSeeds S) P = none := by
  have hc : ∀ c, create H (effSeeds S ++ [[c]]) P = .error .maxSeedLengthExceeded := by
    intro c
    unfold create
    have : (effSeeds S ++ [[c]]).length > MAX_SEEDS := by
      unfold MAX_SEEDS; simp; omega
    rw [if_pos this]
  have hf : find H (effSeeds S) P = none := by
    unfold find
    cases bumps with
    | nil => rfl
    | cons c cs => unfold findIn; rw [hc c]
  refine ⟨?_, ?_, hf, hc b, hf⟩
  · unfold validateSeeds
    rw [hfresh]
    unfold effSeeds at hf
    rw [hf]
  · unfold validateWithBump
    rw [hfresh, seedsWithBump_seeds, hc b]

example :
    let H : Hash := fun flat _ => some flat
    let S : SeedStruct := ⟨none, (List.range 16).map fun i => [.uint 1 i], true⟩
    (effSeeds S).length = 16
    ∧ (validateSeeds H [] S ⟨[], none⟩).1 = .panic
    ∧ (validateWithBump H [] S 255 ⟨[], none⟩).1 = .createErr .maxSeedLengthExceeded
    ∧ clientFind H [] S = none
    ∧ clientCreate H [] S 255 = .error .maxSeedLengthExceeded := by
  decide

/-- The new degree of freedom: a hand-written `GetSeeds` WITHOUT placeholder whose last real seed is
empty. `without_bump_placeholder` pops that real seed; the hashed bytes are the same
(`empty_slot_irrelevant`), so every path still derives the address of the declared seeds and they
still agree with each other — only the slot count is one lower than the declaration says. -/
theorem trailing_empty_real_seed (H : Hash) (P : List Nat) (S : SeedStruct) (b : Nat)
    (hp : S.placeholder = false) (hl : (userSeeds S).getLast? = some []) :
    effSeeds S = (userSeeds S).dropLast
    ∧ seedsWithBump (seeds S) b = (userSeeds S).dropLast ++ [[b]]
    ∧ (effSeeds S ++ [[b]]).flatten = (userSeeds S ++ [[b]]).flatten
    ∧ ((userSeeds S).length + 1 ≤ 16 →
        clientCreate H P S b = create H (userSeeds S ++ [[b]]) P) := by
  have he := (eff_seeds_spec S).2.2.1 hp hl
  refine ⟨he, by rw [seedsWithBump_seeds, he], by simp [effSeeds_flatten], ?_⟩
  intro hn
  have hne : userSeeds S ≠ [] := by
    intro h0; rw [h0] at hl; simp at hl
  have hlast : (userSeeds S).getLast hne = [] := by
    have := List.getLast?_eq_some_getLast hne
    rw [this] at hl
    exact Option.some.inj hl
  have hd : userSeeds S = (userSeeds S).dropLast ++ [[]] := by
    conv => lhs; rw [← List.dropLast_concat_getLast hne, hlast]
  show create H (effSeeds S ++ [[b]]) P = _
  rw [he]
  conv => rhs; rw [hd]
  symm
  apply create_empty_slot
  have : (userSeeds S).dropLast.length = (userSeeds S).length - 1 := by simp
  have hpos : 0 < (userSeeds S).length := List.length_pos_iff.mpr hne
  omega

example :
    let H : Hash := fun flat _ => some flat
    let S : SeedStruct := ⟨none, [[.uint 1 9], [.arr []]], false⟩
    seeds S = [[9], []] ∧ effSeeds S = [[9]]
    ∧ validateSeeds H [] S ⟨[9, 255], none⟩ = (.ok, ⟨[9, 255], some ⟨S, 255⟩⟩)
    ∧ signerSeeds (validateSeeds H [] S ⟨[9, 255], none⟩).2 = some [[9], [255]]
    ∧ clientFind H [] S = some ([9, 255], 255)
    ∧ clientCreate H [] S 255 = .ok [9, 255] := by
  decide

end Account.C10
