import Account.Lifecycle
import Account.OrderLemmas
import Account.LifecycleLemmas
import Account.TreeLemmas
/-!
# C11 — Exact dispatch; lifecycle phases run in order and short-circuit on error

Only the property theorems (about the definitions of `Account/Lifecycle.lean` and
`Account/Order.lean`, which `c11_model` executes) and their non-vacuity examples.
-/
namespace Account.C11

/-! ## Dispatch -/

/-- **Exact dispatch.** For a non-empty instruction set whose discriminants are pairwise distinct
and suitably aligned data, and for ALL byte strings `bs`: handler `h` runs iff the first `width`
bytes of `bs` are exactly `h`'s discriminant, and it is handed exactly the remaining bytes; in
every other case no handler runs and the data is rejected — with `AdvanceError` when shorter than
the discriminant, with `InvalidInstructionData` when no discriminant matches. -/
theorem dispatch_exact (t : Table) (off : Nat) (bs : List Nat)
    (hne : t.arms ≠ []) (hal : off % t.align = 0) (hnd : (t.arms.map (·.1)).Nodup) :
    (∀ h rest, dispatch t off bs = .run h rest ↔
      (t.width ≤ bs.length ∧ (bs.take t.width, h) ∈ t.arms ∧ rest = bs.drop t.width)) ∧
    (bs.length < t.width → dispatch t off bs = .reject advanceError) ∧
    (t.width ≤ bs.length → (∀ a ∈ t.arms, a.1 ≠ bs.take t.width) →
      dispatch t off bs = .reject (.prog invalidInstructionData)) := by
  have hemp : t.arms.isEmpty = false := by
    cases h : t.arms with
    | nil => exact absurd h hne
    | cons _ _ => rfl
  refine ⟨?_, ?_, ?_⟩
  · intro h rest
    unfold dispatch
    simp only [hemp, Bool.false_eq_true, if_false, hal, ne_eq, not_true_eq_false]
    by_cases hlen : bs.length < t.width
    · simp only [hlen, if_true]
      constructor
      · intro h; cases h
      · rintro ⟨h1, _⟩; omega
    · simp only [hlen, if_false]
      cases hm : matchArm t.arms (bs.take t.width) with
      | none =>
        simp only
        constructor
        · intro h; cases h
        · rintro ⟨_, h2, _⟩
          exact absurd rfl (matchArm_none hm _ h2)
      | some h' =>
        simp only [Dispatch.run.injEq]
        constructor
        · rintro ⟨rfl, rfl⟩
          exact ⟨by omega, matchArm_some hm, rfl⟩
        · rintro ⟨_, h2, h3⟩
          have := matchArm_of_mem hnd h2
          rw [hm] at this
          exact ⟨by simpa using this, h3.symm⟩
  · intro hlen
    unfold dispatch
    simp [hemp, hlen]
  · intro hlen hno
    unfold dispatch
    have : ¬ bs.length < t.width := by omega
    simp only [hemp, Bool.false_eq_true, if_false, this, hal, ne_eq, not_true_eq_false]
    cases hm : matchArm t.arms (bs.take t.width) with
    | none => rfl
    | some h' => exact absurd rfl (hno _ (matchArm_some hm))

/-- Exactly one handler: two runs on the same data select the same handler and remainder, and with
distinct discriminants a discriminant belongs to one handler only. -/
theorem dispatch_unique (t : Table) (hnd : (t.arms.map (·.1)).Nodup) (d : List Nat) (h h' : Nat)
    (h1 : (d, h) ∈ t.arms) (h2 : (d, h') ∈ t.arms) : h = h' := by
  have a := matchArm_of_mem hnd h1
  have b := matchArm_of_mem hnd h2
  rw [a] at b
  exact Option.some.inj b

/-- Trailing bytes never change the selected handler; they are passed on unchanged. -/
theorem dispatch_hit (t : Table) (off : Nat) (d rest : List Nat) (h : Nat)
    (hal : off % t.align = 0) (hnd : (t.arms.map (·.1)).Nodup)
    (hd : (d, h) ∈ t.arms) (hw : d.length = t.width) :
    dispatch t off (d ++ rest) = .run h rest := by
  have hne : t.arms ≠ [] := by intro h0; rw [h0] at hd; simp at hd
  refine ((dispatch_exact t off (d ++ rest) hne hal hnd).1 h rest).mpr ⟨by simp; omega, ?_, ?_⟩
  · rw [← hw]; simpa using hd
  · rw [← hw]; simp

/-- The empty instruction set rejects everything; misaligned data of a multi-byte integer
discriminant is rejected before any comparison. In neither case does a handler run. -/
theorem dispatch_degenerate (t : Table) (off : Nat) (bs : List Nat) :
    (t.arms = [] → dispatch t off bs = .reject (.prog invalidInstructionData)) ∧
    (t.arms ≠ [] → t.width ≤ bs.length → off % t.align ≠ 0 →
      dispatch t off bs = .reject podCastError) := by
  constructor
  · intro h; simp [dispatch, h]
  · intro hne hlen hal
    have hemp : t.arms.isEmpty = false := by
      cases h : t.arms with
      | nil => exact absurd h hne
      | cons _ _ => rfl
    have : ¬ bs.length < t.width := by omega
    simp [dispatch, hemp, this, hal]

/-- non-vacuity: two sighash-style discriminants sharing a 7-byte prefix, a hit with trailing
bytes, a one-byte deviation, a truncation. -/
example :
    let t : Table := ⟨8, 1, [([1,2,3,4,5,6,7,8], 0), ([1,2,3,4,5,6,7,9], 1)]⟩
    dispatch t 0 [1,2,3,4,5,6,7,9,42,43] = .run 1 [42,43] ∧
    dispatch t 0 [1,2,3,4,5,6,7,10,42] = .reject (.prog invalidInstructionData) ∧
    dispatch t 0 [1,2,3,4,5,6,7] = .reject advanceError ∧
    dispatch ⟨2, 2, [([5,0], 0)]⟩ 1 [5,0] = .reject podCastError := by decide

/-! ## Lifecycle -/

/-- The expected steps with every struct's fields validated in DECLARATION order; by
`validate_each_block_once` a permutation of `expected`. Only used to state "ids are distinct". -/
def expectedDecl (ix : Ix) (data : List Nat) : Trace :=
  [⟨.args, ix.id, [], none, none⟩]
  ++ events ix.set.decodeSteps
  ++ events ix.set.validateStepsDecl
  ++ [processEvent ix data]
  ++ events ix.set.cleanupSteps

/-- **Phases run in order, each step at most once, and nothing runs after the first failure** —
for every instruction (any nesting of account sets, hooks, skipped fields), every fault plan,
every argument data and every number of accounts:
* the trace is a prefix of `expected` = `[args] ++ decode (declaration order, depth first) ++
  validate (per struct: before_validation, the fields' blocks in `order`, extra_validation) ++
  [process] ++ cleanup (declaration order, each struct followed by its extra_cleanup)`;
* if the steps are pairwise distinct (distinct probe / struct ids; field names distinct per
  struct) no step occurs twice in it;
* a successful run performed every step and no step was due to fail;
* a failed run stopped exactly at the first step that was due to fail (all earlier steps were not)
  and returned that step's error, converted by `toProgramError`. -/
theorem phases_ordered (ix : Ix) (plan : FaultPlan) (data : List Nat) (naccts : Nat) :
    (run ix plan data naccts).1 <+: expected ix data ∧
    (ix.set.namesOK = true → (expectedDecl ix data).Nodup → (run ix plan data naccts).1.Nodup) ∧
    ((run ix plan data naccts).2 = .ok →
      (run ix plan data naccts).1 = expected ix data ∧
      ∀ o ∈ failures ix plan data naccts, o = none) ∧
    (∀ c, (run ix plan data naccts).2 = .err c → ∃ i er,
      (failures ix plan data naccts)[i]? = some (some er) ∧
      (∀ j, j < i → (failures ix plan data naccts)[j]? = some none) ∧
      (run ix plan data naccts).1 = (expected ix data).take (i + 1) ∧
      c = toProgramError er) := by
  have h := walk_spec (steps ix plan data naccts)
  rw [← run_eq_walk, steps_events, steps_failures] at h
  refine ⟨h.1, ?_, h.2.1, h.2.2⟩
  intro hok hnd
  have hperm : (expected ix data).Perm (expectedDecl ix data) := by
    unfold expected expectedDecl events
    have := (validateSteps_perm_decl ix.set hok).filterMap (·.ev)
    exact ((this.append_left _).append_right _).append_right _
  exact (h.1.sublist).nodup (hperm.nodup_iff.mpr hnd)

/-- **The error handed back is the one raised.** If step number `i` of the expected sequence is
the first one due to fail, with error `er`, then the run's trace is exactly the first `i + 1`
steps and the runtime receives `toProgramError er`: the same `ProgramError` for program errors,
`Custom((offset << 16) + n)` for variant `n` of a `#[star_frame_error(offset = …)]` enum. -/
theorem error_code_preserved (ix : Ix) (plan : FaultPlan) (data : List Nat) (naccts : Nat)
    (i : Nat) (er : Err)
    (hi : (failures ix plan data naccts)[i]? = some (some er))
    (hpre : ∀ j, j < i → (failures ix plan data naccts)[j]? = some none) :
    run ix plan data naccts = ((expected ix data).take (i + 1), .err (toProgramError er)) ∧
    (∀ e, toProgramError (.prog e) = e) ∧
    (∀ o n, toProgramError (.star o n) = .custom ((o <<< 16) + n)) := by
  refine ⟨?_, fun _ => rfl, ?_⟩
  · have := walk_first (steps ix plan data naccts) i er
      (by rw [steps_failures]; exact hi) (by rw [steps_failures]; exact hpre)
    rw [← run_eq_walk, steps_events] at this
    exact this
  · intro o n
    simp [toProgramError, starCode, Nat.shiftLeft_eq]

/-- Nothing is due to fail ⇒ the run succeeds after performing every step. -/
theorem run_ok (ix : Ix) (plan : FaultPlan) (data : List Nat) (naccts : Nat)
    (h : ∀ o ∈ failures ix plan data naccts, o = none) :
    run ix plan data naccts = (expected ix data, .ok) := by
  rw [run_eq_walk, walk_all_none, steps_events]
  · simp
  · intro s hs
    apply h
    rw [← steps_failures]
    exact List.mem_map.mpr ⟨s, hs, rfl⟩

/-- A failed `process` is never followed by any cleanup: if the handler is due to fail, the trace
contains no `cleanup` / `extra_cleanup` step. -/
theorem no_cleanup_after_failed_process (ix : Ix) (plan : FaultPlan) (data : List Nat)
    (naccts : Nat) (hp : planned plan .process ix.id ≠ none) :
    ∀ e ∈ (run ix plan data naccts).1, e.phase ≠ .cleanup ∧ e.phase ≠ .cextra := by
  cases hpp : planned plan .process ix.id with
  | none => exact absurd hpp hp
  | some er =>
    intro e he
    rw [run_eq_walk] at he
    have hsplit : steps ix plan data naccts =
        ((⟨.args, ix.id, [], none, none⟩, argsFail ix plan data)
          :: (pairsOf (decodeFail plan naccts) 0 ix.set.decodeSteps
              ++ pairsOf (plainFail plan) 0 ix.set.validateSteps))
        ++ (processEvent ix data, some er)
          :: (pairsOf (plainFail plan) 0 ix.set.cleanupSteps ++ []) := by
      simp [steps, hpp]
    rw [hsplit] at he
    have hmem := (walk_prefix_of_failing _ _ _ _).subset he
    simp only [List.map_cons, List.map_append, pairsOf_events, List.mem_append, List.mem_cons,
      List.mem_singleton, List.not_mem_nil, or_false] at hmem
    rcases hmem with (rfl | hd | hv) | rfl
    · simp
    · simp [events_decode_phase _ e hd]
    · have := events_validate_phase _ e hv
      simp only [validatePhases, List.mem_cons, List.not_mem_nil, or_false] at this
      rcases this with h | h | h <;> simp [h]
    · simp [processEvent]

/-- A failed validation step (a field's validation or a struct's before / extra hook) is never
followed by the handler: if any validation step is due to fail, the trace contains no `process`,
`cleanup` or `extra_cleanup` step. -/
theorem no_process_after_failed_validation (ix : Ix) (plan : FaultPlan) (data : List Nat)
    (naccts : Nat)
    (hv : ∃ o ∈ failsOf (plainFail plan) 0 ix.set.validateSteps, o ≠ none) :
    ∀ e ∈ (run ix plan data naccts).1,
      e.phase ≠ .process ∧ e.phase ≠ .cleanup ∧ e.phase ≠ .cextra := by
  obtain ⟨o, ho, hne⟩ := hv
  rw [← pairsOf_failures] at ho
  obtain ⟨pr, hpr, rfl⟩ := List.mem_map.mp ho
  obtain ⟨ev, oe⟩ := pr
  cases oe with
  | none => exact absurd rfl hne
  | some er =>
    obtain ⟨V1, V2, hV⟩ := List.append_of_mem hpr
    intro e he
    rw [run_eq_walk] at he
    have hsplit : steps ix plan data naccts =
        ((⟨.args, ix.id, [], none, none⟩, argsFail ix plan data)
          :: (pairsOf (decodeFail plan naccts) 0 ix.set.decodeSteps ++ V1))
        ++ (ev, some er)
          :: (V2 ++ ((processEvent ix data, planned plan .process ix.id)
              :: (pairsOf (plainFail plan) 0 ix.set.cleanupSteps ++ []))) := by
      simp [steps, hV]
    rw [hsplit] at he
    have hmem := (walk_prefix_of_failing _ _ _ _).subset he
    have hVev : ∀ x ∈ V1.map (·.1) ++ [ev], x ∈ events ix.set.validateSteps := by
      intro x hx
      rw [← pairsOf_events (plainFail plan) ix.set.validateSteps 0, hV]
      simp only [List.map_append, List.map_cons, List.mem_append, List.mem_cons,
        List.mem_singleton, List.not_mem_nil, or_false] at hx ⊢
      rcases hx with hx | hx
      · exact Or.inl hx
      · exact Or.inr (Or.inl hx)
    simp only [List.map_cons, List.map_append, pairsOf_events, List.mem_append, List.mem_cons,
      List.mem_singleton, List.not_mem_nil, or_false] at hmem
    have hval : e ∈ events ix.set.validateSteps → _ := fun h => events_validate_phase _ e h
    rcases hmem with (rfl | hd | h1) | rfl
    · simp
    · simp [events_decode_phase _ e hd]
    · have := hval (hVev e (by simp [h1]))
      simp only [validatePhases, List.mem_cons, List.not_mem_nil, or_false] at this
      rcases this with h | h | h <;> simp [h]
    · have := hval (hVev e (by simp))
      simp only [validatePhases, List.mem_cons, List.not_mem_nil, or_false] at this
      rcases this with h | h | h <;> simp [h]

/-! ## Struct hooks, nesting, skipped fields, the funder / recipient cache -/

/-- **Where the struct-level hooks sit.** The validation of a struct is: its `before_validation`
hook (if any), then the code blocks of its fields in the order computed by the `pending` loop,
then its `extra_validation` hook (if any). -/
theorem validate_hooks_placed (sid : Nat) (b e x : Bool) (fs : List (FieldHdr × ASet)) :
    (ASet.node sid b e x fs).validateSteps =
      (if b then [evStep .vbefore sid] else [])
      ++ arrange (order (sigs fs)) (validateBlocks fs)
      ++ (if e then [evStep .vextra sid] else []) :=
  validateSteps_node sid b e x fs

/-- The code block of a field: its own complete validation (recursively, for a nested set;
nothing for `#[validate(skip)]`) followed by the funder / recipient caching. -/
def fieldBlock (h : FieldHdr) (s : ASet) : List Step :=
  (if h.skip then [] else s.validateSteps) ++ cacheEffs h s

/-- **`requires` is respected through nesting.** In a struct with distinct field names and acyclic
`requires`, if field `f` requires field `r` then the WHOLE block of `r` (all steps of a nested
set included) runs before the whole block of `f` — at any depth, since this holds for every
`node` of the tree. -/
theorem nested_respects_requires (sid : Nat) (b e x : Bool) (fs : List (FieldHdr × ASet))
    (hnd : (names (sigs fs)).Nodup) (hac : Acyclic (sigs fs))
    (hf : FieldHdr) (sf : ASet) (hr : FieldHdr) (sr : ASet)
    (hmf : (hf, sf) ∈ fs) (hmr : (hr, sr) ∈ fs) (hreq : hr.name ∈ hf.requires) :
    ∃ l₁ l₂ l₃, (ASet.node sid b e x fs).validateSteps =
      l₁ ++ fieldBlock hr sr ++ l₂ ++ fieldBlock hf sf ++ l₃ := by
  have hmem : (hf.name, hf.requires) ∈ sigs fs := List.mem_map.mpr ⟨(hf, sf), hmf, rfl⟩
  have hrn : hr.name ∈ names (sigs fs) :=
    mem_names_of_mem (f := (hr.name, hr.requires)) (List.mem_map.mpr ⟨(hr, sr), hmr, rfl⟩)
  have hb : Before (order (sigs fs)) hr.name hf.name :=
    orderLoop_respects _ (sigs fs) (Nat.le_refl _) hac _ hmem hr.name hreq hrn
  obtain ⟨l₁, l₂, l₃, harr⟩ := arrange_before (validateBlocks fs) hb
  rw [validateSteps_node]
  change ∃ l₁ l₂ l₃, _ ++ arrange (order (sigs fs)) (validateBlocks fs) ++ _ = _
  rw [harr, blockOf_field hnd hmr, blockOf_field hnd hmf]
  exact ⟨(if b then [evStep .vbefore sid] else []) ++ l₁, l₂,
    l₃ ++ (if e then [evStep .vextra sid] else []), by simp [fieldBlock]⟩

/-- **Every field's block runs exactly once, at every level of nesting**: with distinct field
names in every struct, the validation steps are a permutation of the steps listed in declaration
order (skipped fields contribute no validation, only their caching). -/
theorem validate_each_block_once (t : ASet) (h : t.namesOK = true) :
    t.validateSteps.Perm t.validateStepsDecl :=
  validateSteps_perm_decl t h

/-- **The cache the handler sees** is filled by the first funder-marked / recipient-marked field
in validation order (the generated code only sets an empty cache). -/
theorem cache_is_first_marked (t : ASet) :
    t.cache.funder = firstFunder (t.validateSteps.flatMap (·.effs)) ∧
    t.cache.recipient = firstRecipient (t.validateSteps.flatMap (·.effs)) := by
  constructor
  · simp [ASet.cache, applyEffs_funder]
  · simp [ASet.cache, applyEffs_recipient]

/-- **The flat case**: a struct of leaves without hooks decodes and cleans up in declaration
order and validates exactly `order fs` — so the theorems of the next section speak about traces. -/
theorem flat_lifecycle (sid : Nat) (fs : List Field) :
    events (flat sid fs).decodeSteps = (names fs).map (fun f => ⟨.decode, f, [], none, none⟩) ∧
    events (flat sid fs).validateSteps = (order fs).map (fun f => ⟨.validate, f, [], none, none⟩) ∧
    events (flat sid fs).cleanupSteps = (names fs).map (fun f => ⟨.cleanup, f, [], none, none⟩) := by
  refine ⟨?_, ?_, ?_⟩
  · rw [ASet.decodeSteps, flat_decodeOrder, events_map_evStep]
  · rw [flat_validateSteps, events_map_evStep]
  · rw [flat_cleanupSteps, events_map_evStep]

/-- non-vacuity: fields `a(requires c), b(requires a), c`; a fault in the validation of `a`
(second in `order = [c, a, b]`) with a custom error of offset 7, variant 3. -/
example :
    let ix : Ix := ⟨5, 1, flat 0 [(0, [2]), (1, [0]), (2, [])]⟩
    run ix [⟨.validate, 0, .star 7 3⟩] [9] 3 =
      ([⟨.args, 5, [], none, none⟩, ⟨.decode, 0, [], none, none⟩, ⟨.decode, 1, [], none, none⟩,
        ⟨.decode, 2, [], none, none⟩, ⟨.validate, 2, [], none, none⟩,
        ⟨.validate, 0, [], none, none⟩], .err (.custom 458755)) ∧
    run ix [] [9, 1] 4 = (expected ix [9, 1], .ok) ∧
    (run ix [] [9] 2).2 = .err (.custom 9004) ∧
    (run ix [⟨.process, 5, .prog (.builtin 2)⟩] [9] 3).2 = .err (.builtin 2) ∧
    (run ix [⟨.process, 5, .prog (.builtin 2)⟩] [9] 3).1.length = 8 := by decide

/-- non-vacuity for hooks, nesting, skip and the cache: outer struct 1 (before + extra hooks) with
fields `a` = leaf 0 (requires `b`, funder), `b` = inner struct 2 (extra hook, extra_cleanup;
fields `x` = leaf 1 requiring `y`, `y` = leaf 2 marked funder), `c` = leaf 3 (skipped, recipient).
Validation: before(1); block b = [validate 2 (+cache funder 2), validate 1, extra(2)];
validate 0 (funder already set); c skipped but cached as recipient; extra(1). -/
example :
    let inner : ASet := .node 2 false true true
      [(⟨0, [1], false, false, false⟩, .leaf 1), (⟨1, [], false, true, false⟩, .leaf 2)]
    let outer : ASet := .node 1 true true false
      [(⟨0, [1], false, true, false⟩, .leaf 0), (⟨1, [], false, false, false⟩, inner),
       (⟨2, [], true, false, true⟩, .leaf 3)]
    let ix : Ix := ⟨7, 0, outer⟩
    (events outer.validateSteps).map (fun e => (e.phase, e.tag)) =
      [(.vbefore, 1), (.validate, 2), (.validate, 1), (.vextra, 2), (.validate, 0), (.vextra, 1)] ∧
    outer.cache = ⟨some 2, some 3⟩ ∧
    (events outer.cleanupSteps).map (fun e => (e.phase, e.tag)) =
      [(.cleanup, 0), (.cleanup, 1), (.cleanup, 2), (.cextra, 2), (.cleanup, 3)] ∧
    (run ix [⟨.vextra, 2, .star 7 4⟩] [] 4).2 = .err (.custom 458756) ∧
    ((run ix [⟨.vextra, 2, .star 7 4⟩] [] 4).1.map (fun e => (e.phase, e.tag))).getLast? =
      some (.vextra, 2) ∧
    outer.namesOK = true ∧ (expectedDecl ix []).Nodup := by decide

/-! ## Order of field validation -/

/-- **Every field is validated exactly once**, whatever the `requires` lists are (even cyclic or
naming unknown fields): `order fs` is a permutation of the declared names. -/
theorem order_perm (fs : List Field) : (order fs).Perm (names fs) :=
  orderLoop_perm fs.length fs (Nat.le_refl _)

/-- **No `requires` anywhere ⇒ declaration order.** -/
theorem order_identity (fs : List Field) (h : ∀ f ∈ fs, f.2 = []) : order fs = names fs :=
  orderLoop_noreq fs.length fs (Nat.le_refl _) h

/-- More generally, whenever the declaration order already respects all `requires` (nothing a
field requires is declared at or after it), the fields are validated in declaration order. -/
theorem order_declaration_stable (fs : List Field)
    (h : ∀ A f B, fs = A ++ f :: B → ∀ r ∈ f.2, r ∉ names (f :: B)) : order fs = names fs :=
  orderLoop_sorted fs.length fs (Nat.le_refl _) h

/-- **Acyclic `requires` ⇒ every field is validated after every field it requires** — for all
field lists of any length. (With `order_perm` and distinct field names, each of the two names
occurs exactly once in `order fs`, so "`r` occurs before `f`" is unambiguous.) -/
theorem order_respects_requires (fs : List Field) (hac : Acyclic fs) :
    ∀ f ∈ fs, ∀ r ∈ f.2, r ∈ names fs → Before (order fs) r f.1 :=
  orderLoop_respects fs.length fs (Nat.le_refl _) hac

/-- The executable check `respects` used in the examples agrees with the theorem on an instance
that the previous algorithm got wrong: `a (requires c), b (requires a), c`. -/
example : order [(0, [2]), (1, [0]), (2, [])] = [2, 0, 1] ∧
    respects [(0, [2]), (1, [0]), (2, [])] (order [(0, [2]), (1, [0]), (2, [])]) = true := by decide

/-- non-vacuity of the hypotheses of `order_respects_requires`: this graph is acyclic
(`rank` strictly decreases along every edge) and has edges between fields. -/
example : Acyclic [(0, [2]), (1, [0]), (2, [])] := by
  intro x hx
  -- rank: 2 ↦ 0, 0 ↦ 1, 1 ↦ 2; every edge r → f has rank r < rank f
  let rank : Nat → Nat := fun n => if n = 2 then 0 else if n = 0 then 1 else 2
  have hedge : ∀ a b, Edge [(0, [2]), (1, [0]), (2, [])] a b → rank a < rank b := by
    intro a b ⟨fld, hf, h1, h2⟩
    simp at hf
    rcases hf with rfl | rfl | rfl <;> simp at h1 h2 <;> subst h1 <;> (try subst h2) <;> simp [rank]
  have hlt : ∀ a b, Relation.TransGen (Edge [(0, [2]), (1, [0]), (2, [])]) a b → rank a < rank b := by
    intro a b t
    induction t with
    | single h => exact hedge _ _ h
    | tail _ h ih => exact Nat.lt_trans ih (hedge _ _ h)
  exact Nat.lt_irrefl _ (hlt x x hx)

/-- a field whose required name is not a field at all is simply ready -/
example : order [(0, [7]), (1, [])] = [0, 1] := by decide

/-- cyclic `requires` (rejected by the macro at compile time) fall back to the first pending
field; every field is still emitted exactly once -/
example : order [(0, [1]), (1, [0]), (2, [])] = [2, 0, 1] := by decide

/-- **Why the previous loop was wrong** (reverse walk, insert after the last placed requirement):
for `a (requires c), b (requires a), c` it produced `[b, c, a]`, validating `b` before the field
`a` it requires, although the graph is acyclic. -/
theorem order_old_counterexample :
    orderOld [(0, [2]), (1, [0]), (2, [])] = [1, 2, 0] ∧
    respects [(0, [2]), (1, [0]), (2, [])] (orderOld [(0, [2]), (1, [0]), (2, [])]) = false ∧
    respects [(0, [2]), (1, [0]), (2, [])] (order [(0, [2]), (1, [0]), (2, [])]) = true := by decide

end Account.C11
