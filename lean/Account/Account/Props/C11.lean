import Account.Lifecycle
import Account.OrderLemmas
import Account.LifecycleLemmas
/-!
# C11 — Exact dispatch; lifecycle phases run in order and short-circuit on error

Only the property theorems (about the definitions of `Account/Lifecycle.lean` and
`Account/Order.lean`, which `c11_model` executes) and their non-vacuity examples.
-/
namespace Account.C11

/-! ## Dispatch -/

/-- **Exact dispatch.** For a non-empty instruction set whose discriminants are pairwise distinct
and suitably aligned data, and for ALL byte strings `bs`: handler `h` runs iff the first `width`
bytes of `bs` are exactly `h`'s discriminant, and it is handed exactly the remaining bytes; in
every other case no handler runs and the data is rejected — with `AdvanceError` when shorter than
the discriminant, with `InvalidInstructionData` when no discriminant matches. -/
theorem dispatch_exact (t : Table) (off : Nat) (bs : List Nat)
    (hne : t.arms ≠ []) (hal : off % t.align = 0) (hnd : (t.arms.map (·.1)).Nodup) :
    (∀ h rest, dispatch t off bs = .run h rest ↔
      (t.width ≤ bs.length ∧ (bs.take t.width, h) ∈ t.arms ∧ rest = bs.drop t.width)) ∧
    (bs.length < t.width → dispatch t off bs = .reject advanceError) ∧
    (t.width ≤ bs.length → (∀ a ∈ t.arms, a.1 ≠ bs.take t.width) →
      dispatch t off bs = .reject (.prog invalidInstructionData)) := by
  have hemp : t.arms.isEmpty = false := by
    cases h : t.arms with
    | nil => exact absurd h hne
    | cons _ _ => rfl
  refine ⟨?_, ?_, ?_⟩
  · intro h rest
    unfold dispatch
    simp only [hemp, Bool.false_eq_true, if_false, hal, ne_eq, not_true_eq_false]
    by_cases hlen : bs.length < t.width
    · simp only [hlen, if_true]
      constructor
      · intro h; cases h
      · rintro ⟨h1, _⟩; omega
    · simp only [hlen, if_false]
      cases hm : matchArm t.arms (bs.take t.width) with
      | none =>
        simp only
        constructor
        · intro h; cases h
        · rintro ⟨_, h2, _⟩
          exact absurd rfl (matchArm_none hm _ h2)
      | some h' =>
        simp only [Dispatch.run.injEq]
        constructor
        · rintro ⟨rfl, rfl⟩
          exact ⟨by omega, matchArm_some hm, rfl⟩
        · rintro ⟨_, h2, h3⟩
          have := matchArm_of_mem hnd h2
          rw [hm] at this
          exact ⟨by simpa using this, h3.symm⟩
  · intro hlen
    unfold dispatch
    simp [hemp, hlen]
  · intro hlen hno
    unfold dispatch
    have : ¬ bs.length < t.width := by omega
    simp only [hemp, Bool.false_eq_true, if_false, this, hal, ne_eq, not_true_eq_false]
    cases hm : matchArm t.arms (bs.take t.width) with
    | none => rfl
    | some h' => exact absurd rfl (hno _ (matchArm_some hm))

/-- Exactly one handler: two runs on the same data select the same handler and remainder, and with
distinct discriminants a discriminant belongs to one handler only. -/
theorem dispatch_unique (t : Table) (hnd : (t.arms.map (·.1)).Nodup) (d : List Nat) (h h' : Nat)
    (h1 : (d, h) ∈ t.arms) (h2 : (d, h') ∈ t.arms) : h = h' := by
  have a := matchArm_of_mem hnd h1
  have b := matchArm_of_mem hnd h2
  rw [a] at b
  exact Option.some.inj b

/-- Trailing bytes never change the selected handler; they are passed on unchanged. -/
theorem dispatch_hit (t : Table) (off : Nat) (d rest : List Nat) (h : Nat)
    (hal : off % t.align = 0) (hnd : (t.arms.map (·.1)).Nodup)
    (hd : (d, h) ∈ t.arms) (hw : d.length = t.width) :
    dispatch t off (d ++ rest) = .run h rest := by
  have hne : t.arms ≠ [] := by intro h0; rw [h0] at hd; simp at hd
  refine ((dispatch_exact t off (d ++ rest) hne hal hnd).1 h rest).mpr ⟨by simp; omega, ?_, ?_⟩
  · rw [← hw]; simpa using hd
  · rw [← hw]; simp

/-- The empty instruction set rejects everything; misaligned data of a multi-byte integer
discriminant is rejected before any comparison. In neither case does a handler run. -/
theorem dispatch_degenerate (t : Table) (off : Nat) (bs : List Nat) :
    (t.arms = [] → dispatch t off bs = .reject (.prog invalidInstructionData)) ∧
    (t.arms ≠ [] → t.width ≤ bs.length → off % t.align ≠ 0 →
      dispatch t off bs = .reject podCastError) := by
  constructor
  · intro h; simp [dispatch, h]
  · intro hne hlen hal
    have hemp : t.arms.isEmpty = false := by
      cases h : t.arms with
      | nil => exact absurd h hne
      | cons _ _ => rfl
    have : ¬ bs.length < t.width := by omega
    simp [dispatch, hemp, this, hal]

/-- non-vacuity: two sighash-style discriminants sharing a 7-byte prefix, a hit with trailing
bytes, a one-byte deviation, a truncation. -/
example :
    let t : Table := ⟨8, 1, [([1,2,3,4,5,6,7,8], 0), ([1,2,3,4,5,6,7,9], 1)]⟩
    dispatch t 0 [1,2,3,4,5,6,7,9,42,43] = .run 1 [42,43] ∧
    dispatch t 0 [1,2,3,4,5,6,7,10,42] = .reject (.prog invalidInstructionData) ∧
    dispatch t 0 [1,2,3,4,5,6,7] = .reject advanceError ∧
    dispatch ⟨2, 2, [([5,0], 0)]⟩ 1 [5,0] = .reject podCastError := by decide

/-! ## Lifecycle -/

/-- **Phases run in order, each step at most once, and nothing runs after the first failure** —
for every instruction, every fault plan, every argument data and every number of accounts:
* the trace is a prefix of `[args, decode f₁…fₙ, validate (order fs), process, cleanup f₁…fₙ]`;
* with distinct field names no step occurs twice in it;
* a successful run performed every step and no step was due to fail;
* a failed run stopped exactly at the first step that was due to fail (all earlier steps were not)
  and returned that step's error, converted by `toProgramError`. -/
theorem phases_ordered (ix : Ix) (plan : FaultPlan) (data : List Nat) (naccts : Nat) :
    (run ix plan data naccts).1 <+: expected ix data ∧
    ((names ix.fields).Nodup → (run ix plan data naccts).1.Nodup) ∧
    ((run ix plan data naccts).2 = .ok →
      (run ix plan data naccts).1 = expected ix data ∧
      ∀ o ∈ failures ix plan data naccts, o = none) ∧
    (∀ c, (run ix plan data naccts).2 = .err c → ∃ i er,
      (failures ix plan data naccts)[i]? = some (some er) ∧
      (∀ j, j < i → (failures ix plan data naccts)[j]? = some none) ∧
      (run ix plan data naccts).1 = (expected ix data).take (i + 1) ∧
      c = toProgramError er) := by
  have h := walk_spec (steps ix plan data naccts)
  rw [← run_eq_walk, steps_events, steps_failures] at h
  refine ⟨h.1, ?_, h.2.1, h.2.2⟩
  intro hnd
  exact (h.1.sublist).nodup (expected_nodup ix data hnd)

/-- **The error handed back is the one raised.** If step number `i` of the expected sequence is
the first one due to fail, with error `er`, then the run's trace is exactly the first `i + 1`
steps and the runtime receives `toProgramError er`: the same `ProgramError` for program errors,
`Custom((offset << 16) + n)` for variant `n` of a `#[star_frame_error(offset = …)]` enum. -/
theorem error_code_preserved (ix : Ix) (plan : FaultPlan) (data : List Nat) (naccts : Nat)
    (i : Nat) (er : Err)
    (hi : (failures ix plan data naccts)[i]? = some (some er))
    (hpre : ∀ j, j < i → (failures ix plan data naccts)[j]? = some none) :
    run ix plan data naccts = ((expected ix data).take (i + 1), .err (toProgramError er)) ∧
    (∀ e, toProgramError (.prog e) = e) ∧
    (∀ o n, toProgramError (.star o n) = .custom ((o <<< 16) + n)) := by
  refine ⟨?_, fun _ => rfl, ?_⟩
  · have := walk_first (steps ix plan data naccts) i er
      (by rw [steps_failures]; exact hi) (by rw [steps_failures]; exact hpre)
    rw [← run_eq_walk, steps_events] at this
    exact this
  · intro o n
    simp [toProgramError, starCode, Nat.shiftLeft_eq]

/-- Nothing is due to fail ⇒ the run succeeds after performing every step. -/
theorem run_ok (ix : Ix) (plan : FaultPlan) (data : List Nat) (naccts : Nat)
    (h : ∀ o ∈ failures ix plan data naccts, o = none) :
    run ix plan data naccts = (expected ix data, .ok) := by
  rw [run_eq_walk, walk_all_none, steps_events]
  · simp
  · intro s hs
    apply h
    rw [← steps_failures]
    exact List.mem_map.mpr ⟨s, hs, rfl⟩

/-- A failed `process` is never followed by cleanup, and a failed validation is never followed by
`process`. -/
theorem no_step_after_failure (ix : Ix) (plan : FaultPlan) (data : List Nat) (naccts : Nat) :
    (planned plan .process ix.id ≠ none →
      ∀ e ∈ (run ix plan data naccts).1, e.phase ≠ .cleanup) ∧
    ((∃ f ∈ order ix.fields, planned plan .validate f ≠ none) →
      ∀ e ∈ (run ix plan data naccts).1, e.phase ≠ .process ∧ e.phase ≠ .cleanup) := by
  have hargs : ∀ e ∈ ([⟨.args, ix.id, []⟩] : Trace), e.phase = .args := by simp
  constructor
  · intro hp e he
    unfold run at he
    cases ha : argsFail ix plan data with
    | some er => simp [ha] at he; subst he; simp
    | none =>
      simp only [ha] at he
      cases hd : fieldLoop .decode (decodeFail plan naccts) 0 (names ix.fields)
          [⟨.args, ix.id, []⟩] with
      | mk tr1 r1 =>
        have h1 : ∀ e ∈ tr1, e.phase = .args ∨ e.phase = .decode := by
          intro e he
          have := fieldLoop_phase .decode (decodeFail plan naccts) (names ix.fields) 0 _ e
            (by rw [hd]; exact he)
          rcases this with h | h
          · exact Or.inl (hargs e h)
          · exact Or.inr h
        rw [hd] at he
        cases r1 with
        | some er => simp only at he; rcases h1 e he with h | h <;> simp [h]
        | none =>
          simp only at he
          cases hv : fieldLoop .validate (fun _ f => planned plan .validate f) 0
              (order ix.fields) tr1 with
          | mk tr2 r2 =>
            have h2 : ∀ e ∈ tr2, e.phase = .args ∨ e.phase = .decode ∨ e.phase = .validate := by
              intro e he
              have := fieldLoop_phase .validate (fun _ f => planned plan .validate f)
                (order ix.fields) 0 _ e (by rw [hv]; exact he)
              rcases this with h | h
              · rcases h1 e h with h | h
                · exact Or.inl h
                · exact Or.inr (Or.inl h)
              · exact Or.inr (Or.inr h)
            rw [hv] at he
            cases r2 with
            | some er => simp only at he; rcases h2 e he with h | h | h <;> simp [h]
            | none =>
              simp only at he
              cases hpp : planned plan .process ix.id with
              | none => exact absurd hpp hp
              | some er =>
                simp only [hpp] at he
                rcases List.mem_append.mp he with he | he
                · rcases h2 e he with h | h | h <;> simp [h]
                · simp at he; subst he; simp
  · rintro ⟨f, hf, hpf⟩ e he
    -- the validation loop fails, so the run ends inside or before it
    have key : ∀ (fs : List Nat) (k : Nat) (tr : Trace), f ∈ fs →
        ∃ er, (fieldLoop .validate (fun _ f => planned plan .validate f) k fs tr).2 = some er := by
      intro fs
      induction fs with
      | nil => intro _ _ h; simp at h
      | cons g gs ih =>
        intro k tr hmem
        simp only [fieldLoop]
        cases hg : planned plan .validate g with
        | some er => exact ⟨er, rfl⟩
        | none =>
          simp only
          rcases List.mem_cons.mp hmem with rfl | hm
          · exact absurd hg hpf
          · exact ih (k + 1) _ hm
    unfold run at he
    cases ha : argsFail ix plan data with
    | some er => simp [ha] at he; subst he; simp
    | none =>
      simp only [ha] at he
      cases hd : fieldLoop .decode (decodeFail plan naccts) 0 (names ix.fields)
          [⟨.args, ix.id, []⟩] with
      | mk tr1 r1 =>
        have h1 : ∀ e ∈ tr1, e.phase = .args ∨ e.phase = .decode := by
          intro e he
          have := fieldLoop_phase .decode (decodeFail plan naccts) (names ix.fields) 0 _ e
            (by rw [hd]; exact he)
          rcases this with h | h
          · exact Or.inl (hargs e h)
          · exact Or.inr h
        rw [hd] at he
        cases r1 with
        | some er => simp only at he; rcases h1 e he with h | h <;> simp [h]
        | none =>
          simp only at he
          obtain ⟨er, hker⟩ := key (order ix.fields) 0 tr1 hf
          cases hv : fieldLoop .validate (fun _ f => planned plan .validate f) 0
              (order ix.fields) tr1 with
          | mk tr2 r2 =>
            have h2 : ∀ e ∈ tr2, e.phase = .args ∨ e.phase = .decode ∨ e.phase = .validate := by
              intro e he
              have := fieldLoop_phase .validate (fun _ f => planned plan .validate f)
                (order ix.fields) 0 _ e (by rw [hv]; exact he)
              rcases this with h | h
              · rcases h1 e h with h | h
                · exact Or.inl h
                · exact Or.inr (Or.inl h)
              · exact Or.inr (Or.inr h)
            rw [hv] at hker he
            simp only at hker
            subst hker
            simp only at he
            rcases h2 e he with h | h | h <;> simp [h]

/-- non-vacuity: fields `a(requires c), b(requires a), c`; a fault in the validation of `a`
(second in `order = [c, a, b]`) with a custom error of offset 7, variant 3. -/
example :
    let ix : Ix := ⟨5, 1, [(0, [2]), (1, [0]), (2, [])]⟩
    run ix [⟨.validate, 0, .star 7 3⟩] [9] 3 =
      ([⟨.args, 5, []⟩, ⟨.decode, 0, []⟩, ⟨.decode, 1, []⟩, ⟨.decode, 2, []⟩,
        ⟨.validate, 2, []⟩, ⟨.validate, 0, []⟩], .err (.custom 458755)) ∧
    run ix [] [9, 1] 4 = (expected ix [9, 1], .ok) ∧
    (run ix [] [9] 2).2 = .err (.custom 9004) ∧
    (run ix [⟨.process, 5, .prog (.builtin 2)⟩] [9] 3).2 = .err (.builtin 2) ∧
    (run ix [⟨.process, 5, .prog (.builtin 2)⟩] [9] 3).1.length = 8 := by decide

/-! ## Order of field validation -/

/-- **Every field is validated exactly once**, whatever the `requires` lists are (even cyclic or
naming unknown fields): `order fs` is a permutation of the declared names. -/
theorem order_perm (fs : List Field) : (order fs).Perm (names fs) :=
  orderLoop_perm fs.length fs (Nat.le_refl _)

/-- **No `requires` anywhere ⇒ declaration order.** -/
theorem order_identity (fs : List Field) (h : ∀ f ∈ fs, f.2 = []) : order fs = names fs :=
  orderLoop_noreq fs.length fs (Nat.le_refl _) h

/-- More generally, whenever the declaration order already respects all `requires` (nothing a
field requires is declared at or after it), the fields are validated in declaration order. -/
theorem order_declaration_stable (fs : List Field)
    (h : ∀ A f B, fs = A ++ f :: B → ∀ r ∈ f.2, r ∉ names (f :: B)) : order fs = names fs :=
  orderLoop_sorted fs.length fs (Nat.le_refl _) h

/-- **Acyclic `requires` ⇒ every field is validated after every field it requires** — for all
field lists of any length. (With `order_perm` and distinct field names, each of the two names
occurs exactly once in `order fs`, so "`r` occurs before `f`" is unambiguous.) -/
theorem order_respects_requires (fs : List Field) (hac : Acyclic fs) :
    ∀ f ∈ fs, ∀ r ∈ f.2, r ∈ names fs → Before (order fs) r f.1 :=
  orderLoop_respects fs.length fs (Nat.le_refl _) hac

/-- The executable check `respects` used in the examples agrees with the theorem on an instance
that the previous algorithm got wrong: `a (requires c), b (requires a), c`. -/
example : order [(0, [2]), (1, [0]), (2, [])] = [2, 0, 1] ∧
    respects [(0, [2]), (1, [0]), (2, [])] (order [(0, [2]), (1, [0]), (2, [])]) = true := by decide

/-- non-vacuity of the hypotheses of `order_respects_requires`: this graph is acyclic
(`rank` strictly decreases along every edge) and has edges between fields. -/
example : Acyclic [(0, [2]), (1, [0]), (2, [])] := by
  intro x hx
  -- rank: 2 ↦ 0, 0 ↦ 1, 1 ↦ 2; every edge r → f has rank r < rank f
  let rank : Nat → Nat := fun n => if n = 2 then 0 else if n = 0 then 1 else 2
  have hedge : ∀ a b, Edge [(0, [2]), (1, [0]), (2, [])] a b → rank a < rank b := by
    intro a b ⟨fld, hf, h1, h2⟩
    simp at hf
    rcases hf with rfl | rfl | rfl <;> simp at h1 h2 <;> subst h1 <;> (try subst h2) <;> simp [rank]
  have hlt : ∀ a b, Relation.TransGen (Edge [(0, [2]), (1, [0]), (2, [])]) a b → rank a < rank b := by
    intro a b t
    induction t with
    | single h => exact hedge _ _ h
    | tail _ h ih => exact Nat.lt_trans ih (hedge _ _ h)
  exact Nat.lt_irrefl _ (hlt x x hx)

/-- a field whose required name is not a field at all is simply ready -/
example : order [(0, [7]), (1, [])] = [0, 1] := by decide

/-- cyclic `requires` (rejected by the macro at compile time) fall back to the first pending
field; every field is still emitted exactly once -/
example : order [(0, [1]), (1, [0]), (2, [])] = [2, 0, 1] := by decide

/-- **Why the previous loop was wrong** (reverse walk, insert after the last placed requirement):
for `a (requires c), b (requires a), c` it produced `[b, c, a]`, validating `b` before the field
`a` it requires, although the graph is acyclic. -/
theorem order_old_counterexample :
    orderOld [(0, [2]), (1, [0]), (2, [])] = [1, 2, 0] ∧
    respects [(0, [2]), (1, [0]), (2, [])] (orderOld [(0, [2]), (1, [0]), (2, [])]) = false ∧
    respects [(0, [2]), (1, [0]), (2, [])] (order [(0, [2]), (1, [0]), (2, [])]) = true := by decide

end Account.C11
