import Account.Lifecycle
import Account.OrderLemmas
import Account.LifecycleLemmas
import Account.TreeLemmas
import Account.InterpLemmas
import Account.ContainerLemmas
/-!
# C11 — Exact dispatch; lifecycle phases run in order and short-circuit on error

Only the property theorems (about the definitions of `Account/Lifecycle.lean` and
`Account/Order.lean`, which `c11_model` executes) and their non-vacuity examples.
-/
namespace Account.C11

/-! ## Dispatch -/

/-- **Exact dispatch.** For a non-empty instruction set whose discriminants are pairwise distinct
and suitably aligned data, and for ALL byte strings `bs`: handler `h` runs iff the first `width`
bytes of `bs` are exactly `h`'s discriminant, and it is handed exactly the remaining bytes; in
every other case no handler runs and the data is rejected — with `AdvanceError` when shorter than
the discriminant, with `InvalidInstructionData` when no discriminant matches. -/
theorem dispatch_exact (t : Table) (off : Nat) (bs : List Nat)
    (hne : t.arms ≠ []) (hal : off % t.align = 0) (hnd : (t.arms.map (·.1)).Nodup) :
    (∀ h rest, dispatch t off bs = .run h rest ↔
      (t.width ≤ bs.length ∧ (bs.take t.width, h) ∈ t.arms ∧ rest = bs.drop t.width)) ∧
    (bs.length < t.width → dispatch t off bs = .reject advanceError) ∧
    (t.width ≤ bs.length → (∀ a ∈ t.arms, a.1 ≠ bs.take t.width) →
      dispatch t off bs = .reject (.prog invalidInstructionData)) := by
  have hemp : t.arms.isEmpty = false := by
    cases h : t.arms with
    | nil => exact absurd h hne
    | cons _ _ => rfl
  refine ⟨?_, ?_, ?_⟩
  · intro h rest
    unfold dispatch
    simp only [hemp, Bool.false_eq_true, if_false, hal, ne_eq, not_true_eq_false]
    by_cases hlen : bs.length < t.width
    · simp only [hlen, if_true]
      constructor
      · intro h; cases h
      · rintro ⟨h1, _⟩; omega
    · simp only [hlen, if_false]
      cases hm : matchArm t.arms (bs.take t.width) with
      | none =>
        simp only
        constructor
        · intro h; cases h
        · rintro ⟨_, h2, _⟩
          exact absurd rfl (matchArm_none hm _ h2)
      | some h' =>
        simp only [Dispatch.run.injEq]
        constructor
        · rintro ⟨rfl, rfl⟩
          exact ⟨by omega, matchArm_some hm, rfl⟩
        · rintro ⟨_, h2, h3⟩
          have := matchArm_of_mem hnd h2
          rw [hm] at this
          exact ⟨by simpa using this, h3.symm⟩
  · intro hlen
    unfold dispatch
    simp [hemp, hlen]
  · intro hlen hno
    unfold dispatch
    have : ¬ bs.length < t.width := by omega
    simp only [hemp, Bool.false_eq_true, if_false, this, hal, ne_eq, not_true_eq_false]
    cases hm : matchArm t.arms (bs.take t.width) with
    | none => rfl
    | some h' => exact absurd rfl (hno _ (matchArm_some hm))

/-- Exactly one handler: two runs on the same data select the same handler and remainder, and with
distinct discriminants a discriminant belongs to one handler only. -/
theorem dispatch_unique (t : Table) (hnd : (t.arms.map (·.1)).Nodup) (d : List Nat) (h h' : Nat)
    (h1 : (d, h) ∈ t.arms) (h2 : (d, h') ∈ t.arms) : h = h' := by
  have a := matchArm_of_mem hnd h1
  have b := matchArm_of_mem hnd h2
  rw [a] at b
  exact Option.some.inj b

/-- Trailing bytes never change the selected handler; they are passed on unchanged. -/
theorem dispatch_hit (t : Table) (off : Nat) (d rest : List Nat) (h : Nat)
    (hal : off % t.align = 0) (hnd : (t.arms.map (·.1)).Nodup)
    (hd : (d, h) ∈ t.arms) (hw : d.length = t.width) :
    dispatch t off (d ++ rest) = .run h rest := by
  have hne : t.arms ≠ [] := by intro h0; rw [h0] at hd; simp at hd
  refine ((dispatch_exact t off (d ++ rest) hne hal hnd).1 h rest).mpr ⟨by simp; omega, ?_, ?_⟩
  · rw [← hw]; simpa using hd
  · rw [← hw]; simp

/-- The empty instruction set rejects everything; misaligned data of a multi-byte integer
discriminant is rejected before any comparison. In neither case does a handler run. -/
theorem dispatch_degenerate (t : Table) (off : Nat) (bs : List Nat) :
    (t.arms = [] → dispatch t off bs = .reject (.prog invalidInstructionData)) ∧
    (t.arms ≠ [] → t.width ≤ bs.length → off % t.align ≠ 0 →
      dispatch t off bs = .reject podCastError) := by
  constructor
  · intro h; simp [dispatch, h]
  · intro hne hlen hal
    have hemp : t.arms.isEmpty = false := by
      cases h : t.arms with
      | nil => exact absurd h hne
      | cons _ _ => rfl
    have : ¬ bs.length < t.width := by omega
    simp [dispatch, hemp, this, hal]

/-- non-vacuity: two sighash-style discriminants sharing a 7-byte prefix, a hit with trailing
bytes, a one-byte deviation, a truncation. -/
example :
    let t : Table := ⟨8, 1, [([1,2,3,4,5,6,7,8], 0), ([1,2,3,4,5,6,7,9], 1)]⟩
    dispatch t 0 [1,2,3,4,5,6,7,9,42,43] = .run 1 [42,43] ∧
    dispatch t 0 [1,2,3,4,5,6,7,10,42] = .reject (.prog invalidInstructionData) ∧
    dispatch t 0 [1,2,3,4,5,6,7] = .reject advanceError ∧
    dispatch ⟨2, 2, [([5,0], 0)]⟩ 1 [5,0] = .reject podCastError := by decide

/-! ## Lifecycle -/

/-- **The recursive early-exit interpreter equals the flattened sequence** (`run_tree_eq_flat`).
`runI` runs `decode_accounts` / `validate_accounts` / `cleanup_accounts` the way the generated
code does — recursing through structs, containers and options, every nested call followed by `?`,
a struct's field blocks laid out in the macro's order — and is what `c11_model` executes; `run`
executes the flattened step lists of the decoded shape. They agree on every input. -/
theorem run_tree_eq_flat (ix : Ix) (plan : FaultPlan) (data : List Nat) (accts : List Bool) :
    runI ix plan data accts = run ix plan data accts :=
  runI_eq_run ix plan data accts

/-- The expected steps with every struct's fields validated in DECLARATION order; by
`validate_each_block_once` a permutation of `expected`. Only used to state "ids are distinct". -/
def expectedDecl (ix : Ix) (data : List Nat) (accts : List Bool) : Trace :=
  [argsEvent ix]
  ++ events (ix.shape accts).decodeSteps
  ++ events (ix.shape accts).validateStepsDecl
  ++ [processEvent ix data (ix.shape accts)]
  ++ events (ix.shape accts).cleanupSteps

/-- **Phases run in order, each step at most once, and nothing runs after the first failure** —
for every instruction (any nesting of structs, containers, options, hooks, skipped fields), every
fault plan, every argument data and every account list:
* the trace is a prefix of `expected` = `[args] ++ decode (declaration order, depth first) ++
  validate (per struct: before_validation, the fields' blocks in `order`, extra_validation; per
  container its present elements in order) ++ [process] ++ cleanup (declaration order, each struct
  followed by its extra_cleanup)`;
* if the steps are pairwise distinct (distinct ids; field names distinct per struct) no step occurs
  twice in it;
* a successful run performed every step and no step was due to fail;
* a failed run stopped exactly at the first step that was due to fail (all earlier steps were not)
  and returned that step's error, converted by `toProgramError`. -/
theorem phases_ordered (ix : Ix) (plan : FaultPlan) (data : List Nat) (accts : List Bool) :
    (runI ix plan data accts).1 <+: expected ix data accts ∧
    ((ix.shape accts).namesOK = true → (expectedDecl ix data accts).Nodup →
      (runI ix plan data accts).1.Nodup) ∧
    ((runI ix plan data accts).2 = .ok →
      (runI ix plan data accts).1 = expected ix data accts ∧
      ∀ o ∈ failures ix plan data accts, o = none) ∧
    (∀ c, (runI ix plan data accts).2 = .err c → ∃ i er,
      (failures ix plan data accts)[i]? = some (some er) ∧
      (∀ j, j < i → (failures ix plan data accts)[j]? = some none) ∧
      (runI ix plan data accts).1 = (expected ix data accts).take (i + 1) ∧
      c = toProgramError er) := by
  rw [runI_eq_run]
  have h := walk_spec (steps ix plan data accts)
  rw [← run_eq_walk, steps_events, steps_failures] at h
  refine ⟨h.1, ?_, h.2.1, h.2.2⟩
  intro hok hnd
  have hperm : (expected ix data accts).Perm (expectedDecl ix data accts) := by
    unfold expected expectedDecl events
    have := (validateSteps_perm_decl (ix.shape accts) hok).filterMap (·.ev)
    exact ((this.append_left _).append_right _).append_right _
  exact (h.1.sublist).nodup (hperm.nodup_iff.mpr hnd)

/-- **The error handed back is the one raised.** If step number `i` of the expected sequence is
the first one due to fail, with error `er`, then the run's trace is exactly the first `i + 1`
steps and the runtime receives `toProgramError er`: the same `ProgramError` for program errors,
`Custom((offset << 16) + n)` for variant `n` of a `#[star_frame_error(offset = …)]` enum. -/
theorem error_code_preserved (ix : Ix) (plan : FaultPlan) (data : List Nat) (accts : List Bool)
    (i : Nat) (er : Err)
    (hi : (failures ix plan data accts)[i]? = some (some er))
    (hpre : ∀ j, j < i → (failures ix plan data accts)[j]? = some none) :
    runI ix plan data accts = ((expected ix data accts).take (i + 1), .err (toProgramError er)) ∧
    (∀ e, toProgramError (.prog e) = e) ∧
    (∀ o n, toProgramError (.star o n) = .custom ((o <<< 16) + n)) := by
  refine ⟨?_, fun _ => rfl, ?_⟩
  · have := walk_first (steps ix plan data accts) i er
      (by rw [steps_failures]; exact hi) (by rw [steps_failures]; exact hpre)
    rw [← run_eq_walk, steps_events] at this
    rw [runI_eq_run]
    exact this
  · intro o n
    simp [toProgramError, starCode, Nat.shiftLeft_eq]

/-- Nothing is due to fail ⇒ the run succeeds after performing every step. -/
theorem run_ok (ix : Ix) (plan : FaultPlan) (data : List Nat) (accts : List Bool)
    (h : ∀ o ∈ failures ix plan data accts, o = none) :
    runI ix plan data accts = (expected ix data accts, .ok) := by
  rw [runI_eq_run, run_eq_walk, walk_all_none, steps_events]
  · simp
  · intro s hs
    apply h
    rw [← steps_failures]
    exact List.mem_map.mpr ⟨s, hs, rfl⟩

/-- A failed `process` is never followed by any cleanup: if the handler is due to fail, the trace
contains no `cleanup` / `extra_cleanup` step. -/
theorem no_cleanup_after_failed_process (ix : Ix) (plan : FaultPlan) (data : List Nat)
    (accts : List Bool)
    (hp : planned plan (processEvent ix data (ix.shape accts)) ≠ none) :
    ∀ e ∈ (runI ix plan data accts).1, e.phase ≠ .cleanup ∧ e.phase ≠ .cextra := by
  cases hpp : planned plan (processEvent ix data (ix.shape accts)) with
  | none => exact absurd hpp hp
  | some er =>
    intro e he
    rw [runI_eq_run, run_eq_walk] at he
    have hsplit : steps ix plan data accts =
        ((argsEvent ix, argsFail ix plan data)
          :: (pairsOf plan (ix.shape accts).decodeSteps
              ++ pairsOf plan (ix.shape accts).validateSteps))
        ++ (processEvent ix data (ix.shape accts), some er)
          :: (pairsOf plan (ix.shape accts).cleanupSteps ++ []) := by
      simp [steps, hpp]
    rw [hsplit] at he
    have hmem := (walk_prefix_of_failing _ _ _ _).subset he
    simp only [List.map_cons, List.map_append, pairsOf_events, List.mem_append, List.mem_cons,
      List.not_mem_nil, or_false] at hmem
    rcases hmem with (rfl | hd | hv) | rfl
    · simp [argsEvent]
    · simp [events_decode_phase _ e hd]
    · have := events_validate_phase _ e hv
      simp only [validatePhases, List.mem_cons, List.not_mem_nil, or_false] at this
      rcases this with h | h | h | h | h | h <;> simp [h]
    · simp [processEvent]

/-- A failed validation step (a field's validation, its address check, a struct's before / extra
hook — at any depth) is never followed by the handler: if any validation step is due to fail, the
trace contains no `process`, `cleanup` or `extra_cleanup` step. -/
theorem no_process_after_failed_validation (ix : Ix) (plan : FaultPlan) (data : List Nat)
    (accts : List Bool)
    (hv : ∃ o ∈ failsOf plan (ix.shape accts).validateSteps, o ≠ none) :
    ∀ e ∈ (runI ix plan data accts).1,
      e.phase ≠ .process ∧ e.phase ≠ .cleanup ∧ e.phase ≠ .cextra := by
  obtain ⟨o, ho, hne⟩ := hv
  rw [← pairsOf_failures] at ho
  obtain ⟨pr, hpr, rfl⟩ := List.mem_map.mp ho
  obtain ⟨ev, oe⟩ := pr
  cases oe with
  | none => exact absurd rfl hne
  | some er =>
    obtain ⟨V1, V2, hV⟩ := List.append_of_mem hpr
    intro e he
    rw [runI_eq_run, run_eq_walk] at he
    have hsplit : steps ix plan data accts =
        ((argsEvent ix, argsFail ix plan data)
          :: (pairsOf plan (ix.shape accts).decodeSteps ++ V1))
        ++ (ev, some er)
          :: (V2 ++ ((processEvent ix data (ix.shape accts),
                planned plan (processEvent ix data (ix.shape accts)))
              :: (pairsOf plan (ix.shape accts).cleanupSteps ++ []))) := by
      simp [steps, hV]
    rw [hsplit] at he
    have hmem := (walk_prefix_of_failing _ _ _ _).subset he
    have hVev : ∀ x ∈ V1.map (·.1) ++ [ev], x ∈ events (ix.shape accts).validateSteps := by
      intro x hx
      rw [← pairsOf_events plan (ix.shape accts).validateSteps, hV]
      simp only [List.map_append, List.map_cons, List.mem_append, List.mem_cons,
        List.not_mem_nil, or_false] at hx ⊢
      rcases hx with hx | hx
      · exact Or.inl hx
      · exact Or.inr (Or.inl hx)
    simp only [List.map_cons, List.map_append, pairsOf_events, List.mem_append, List.mem_cons,
      List.not_mem_nil, or_false] at hmem
    have hval : e ∈ events (ix.shape accts).validateSteps → _ := fun h => events_validate_phase _ e h
    rcases hmem with (rfl | hd | h1) | rfl
    · simp [argsEvent]
    · simp [events_decode_phase _ e hd]
    · have := hval (hVev e (by simp [h1]))
      simp only [validatePhases, List.mem_cons, List.not_mem_nil, or_false] at this
      rcases this with h | h | h | h | h | h <;> simp [h]
    · have := hval (hVev e (by simp))
      simp only [validatePhases, List.mem_cons, List.not_mem_nil, or_false] at this
      rcases this with h | h | h | h | h | h <;> simp [h]

/-! ## Struct hooks, field attributes, nesting, skipped fields, the funder / recipient cache -/

/-- **Where the struct-level hooks sit.** The validation of a struct is: its `before_validation`
hook (if any), then the code blocks of its fields in the order computed by the `pending` loop,
then its `extra_validation` hook (if any). -/
theorem validate_hooks_placed (sid : Nat) (b e x : Bool) (fs : List (FieldHdr × RSet)) :
    (RSet.node sid b e x fs).validateSteps =
      (if b then [evStep .vbefore sid] else [])
      ++ arrange (order (sigs fs)) (validateBlocks fs)
      ++ (if e then [evStep .vextra sid] else []) :=
  validateSteps_node sid b e x fs

/-- The code block of a field: unless `#[validate(skip)]`, the `address` check, then `temp`, then
`arg` (leaf fields), then its own complete validation (recursively, for a nested set or a
container); in every case followed by the funder / recipient caching. -/
def fieldBlock (h : FieldHdr) (s : RSet) : List Step :=
  (if h.skip then [] else preSteps h s ++ s.validateSteps) ++ cacheEffs h s

/-- **Field attributes**: with distinct field names, the block arranged under a leaf field's name
is, in this order: the `address` check, `temp`, `arg`, the field's validation, the caching. -/
theorem field_block_shape (fs : List (FieldHdr × RSet)) (h : FieldHdr) (p s : Nat) (pr : Bool)
    (hnd : (names (sigs fs)).Nodup) (hm : (h, RSet.leaf p s pr) ∈ fs) (hs : h.skip = false) :
    blockOf (validateBlocks fs) h.name =
      (if h.addr then [evStep .vaddr p s] else [])
      ++ (if h.temp then [evStep .vtemp p s] else [])
      ++ (if h.arg then [evStep .varg p s] else [])
      ++ [evStep .validate p s]
      ++ cacheEffs h (.leaf p s pr) := by
  rw [blockOf_field hnd hm]
  simp [hs, preSteps, RSet.validateSteps]

/-- **`requires` is respected through nesting.** In a struct with distinct field names and acyclic
`requires`, if field `f` requires field `r` then the WHOLE block of `r` (all steps of a nested
set or container included) runs before the whole block of `f` — at any depth, since this holds
for every `node` of the tree. -/
theorem nested_respects_requires (sid : Nat) (b e x : Bool) (fs : List (FieldHdr × RSet))
    (hnd : (names (sigs fs)).Nodup) (hac : Acyclic (sigs fs))
    (hf : FieldHdr) (sf : RSet) (hr : FieldHdr) (sr : RSet)
    (hmf : (hf, sf) ∈ fs) (hmr : (hr, sr) ∈ fs) (hreq : hr.name ∈ hf.requires) :
    ∃ l₁ l₂ l₃, (RSet.node sid b e x fs).validateSteps =
      l₁ ++ fieldBlock hr sr ++ l₂ ++ fieldBlock hf sf ++ l₃ := by
  have hmem : (hf.name, hf.requires) ∈ sigs fs := List.mem_map.mpr ⟨(hf, sf), hmf, rfl⟩
  have hrn : hr.name ∈ names (sigs fs) :=
    mem_names_of_mem (f := (hr.name, hr.requires)) (List.mem_map.mpr ⟨(hr, sr), hmr, rfl⟩)
  have hb : Before (order (sigs fs)) hr.name hf.name :=
    orderLoop_respects _ (sigs fs) (Nat.le_refl _) hac _ hmem hr.name hreq hrn
  obtain ⟨l₁, l₂, l₃, harr⟩ := arrange_before (validateBlocks fs) hb
  rw [validateSteps_node]
  change ∃ l₁ l₂ l₃, _ ++ arrange (order (sigs fs)) (validateBlocks fs) ++ _ = _
  rw [harr, blockOf_field hnd hmr, blockOf_field hnd hmf]
  exact ⟨(if b then [evStep .vbefore sid] else []) ++ l₁, l₂,
    l₃ ++ (if e then [evStep .vextra sid] else []), by simp [fieldBlock]⟩

/-- **Every field's block runs exactly once, at every level of nesting**: with distinct field
names in every struct, the validation steps are a permutation of the steps listed in declaration
order (skipped fields contribute no validation, only their caching). -/
theorem validate_each_block_once (t : RSet) (h : t.namesOK = true) :
    t.validateSteps.Perm t.validateStepsDecl :=
  validateSteps_perm_decl t h

/-- **The cache the handler sees** is filled by the first funder-marked / recipient-marked field
in validation order (the generated code only sets an empty cache). -/
theorem cache_is_first_marked (t : RSet) :
    t.cache.funder = firstFunder (t.validateSteps.flatMap (·.effs)) ∧
    t.cache.recipient = firstRecipient (t.validateSteps.flatMap (·.effs)) := by
  constructor
  · simp [RSet.cache, applyEffs_funder]
  · simp [RSet.cache, applyEffs_recipient]

/-- **The flat case**: a struct of leaves without hooks decodes and cleans up in declaration
order and validates exactly `order fs` — so the theorems of the last section speak about traces. -/
theorem flat_lifecycle (sid : Nat) (fs : List Field) :
    events (flat sid fs).decodeSteps = (names fs).map (fun f => ⟨.decode, f, f, [], none, none⟩) ∧
    events (flat sid fs).validateSteps = (order fs).map (fun f => ⟨.validate, f, f, [], none, none⟩) ∧
    events (flat sid fs).cleanupSteps = (names fs).map (fun f => ⟨.cleanup, f, f, [], none, none⟩) := by
  refine ⟨?_, ?_, ?_⟩
  · rw [flat_eq]; simp only [RSet.decodeSteps]; exact decodeStepsF_flat fs
  · rw [flat_validateSteps, events_map_evStep]
  · rw [flat_eq]; simp only [RSet.cleanupSteps, Bool.false_eq_true, if_false, List.append_nil]
    exact cleanupStepsF_flat fs

/-! ## Containers: `Option`, `Vec` / arrays, `Rest` -/

/-- **An absent option runs nothing.** `Option<T>` decodes to nothing when no account is left, or
when the next account is the program id (which it consumes); an iteration of `Rest<T>` only when no
account is left. The decoded value then contributes no decode, validate or cleanup step. -/
theorem option_absent (k : OptKind) (t : ASet) (a : Accts)
    (h : a.rest = [] ∨ (k = .option ∧ a.rest.head? = some true)) :
    ((ASet.opt k t).resolve a).1 = .seq [] ∧
    ((ASet.opt k t).resolve a).2 = (if a.rest = [] then a else a.take1) ∧
    (RSet.seq []).decodeSteps = [] ∧ (RSet.seq []).validateSteps = [] ∧
    (RSet.seq []).cleanupSteps = [] := by
  refine ⟨?_, ?_, by simp [RSet.decodeSteps, decodeStepsL],
    by simp [RSet.validateSteps, validateStepsL], by simp [RSet.cleanupSteps, cleanupStepsL]⟩
  · cases hr : a.rest with
    | nil => simp [ASet.resolve, hr]
    | cons x xs =>
      rcases h with h | ⟨hk, hx⟩
      · rw [hr] at h; cases h
      · rw [hr] at hx; simp at hx; subst hx; subst hk
        simp [ASet.resolve, hr]
  · cases hr : a.rest with
    | nil => simp [ASet.resolve, hr]
    | cons x xs =>
      rcases h with h | ⟨hk, hx⟩
      · rw [hr] at h; cases h
      · rw [hr] at hx; simp at hx; subst hx; subst hk
        simp [ASet.resolve, hr]

/-- **A present option is its inner set**: decoded from the same accounts, and its steps in every
phase are exactly the inner set's steps. -/
theorem option_present (k : OptKind) (t : ASet) (a : Accts) (x : Bool) (xs : List Bool)
    (hr : a.rest = x :: xs) (h : ¬ (k = .option ∧ x = true)) :
    ((ASet.opt k t).resolve a) = (.seq [(t.resolve a).1], (t.resolve a).2) ∧
    (RSet.seq [(t.resolve a).1]).decodeSteps = (t.resolve a).1.decodeSteps ∧
    (RSet.seq [(t.resolve a).1]).validateSteps = (t.resolve a).1.validateSteps ∧
    (RSet.seq [(t.resolve a).1]).cleanupSteps = (t.resolve a).1.cleanupSteps := by
  refine ⟨by simp [ASet.resolve, hr, h], by simp [RSet.decodeSteps, decodeStepsL],
    by simp [RSet.validateSteps, validateStepsL], by simp [RSet.cleanupSteps, cleanupStepsL]⟩

/-- **A container runs its elements in order in every phase** (`Vec<T>`, `[T; N]`, `Rest<T>`):
first element completely, then the second, … -/
theorem container_in_order (rs : List RSet) :
    (RSet.seq rs).decodeSteps = rs.flatMap (·.decodeSteps) ∧
    (RSet.seq rs).validateSteps = rs.flatMap (·.validateSteps) ∧
    (RSet.seq rs).cleanupSteps = rs.flatMap (·.cleanupSteps) := by
  refine ⟨?_, ?_, ?_⟩
  · simp only [RSet.decodeSteps]; exact decodeStepsL_flatMap rs
  · simp only [RSet.validateSteps]; exact validateStepsL_flatMap rs
  · simp only [RSet.cleanupSteps]; exact cleanupStepsL_flatMap rs

/-- **One account per leaf, in account order** — across structs, containers and options: the
slots `decode_accounts` hands to the present leaves are strictly increasing (so no account is
decoded, validated or cleaned up as two different leaves), start at the first unconsumed account
and stay below the position reached. -/
theorem one_account_per_leaf (t : ASet) (a : Accts) :
    a.pos ≤ (t.resolve a).2.pos ∧
    (∀ s ∈ (t.resolve a).1.slots, a.pos ≤ s ∧ s < (t.resolve a).2.pos) ∧
    (t.resolve a).1.slots.Pairwise (· < ·) :=
  resolve_slots t a

/-- non-vacuity: fields `a(requires c), b(requires a), c`; a fault in the validation of `a`
(second in `order = [c, a, b]`) with a custom error of offset 7, variant 3. -/
example :
    let set : ASet := .node 0 false false false
      [(⟨0, [2], false, false, false, false, false, false⟩, .leaf 0),
       (⟨1, [0], false, false, false, false, false, false⟩, .leaf 1),
       (⟨2, [], false, false, false, false, false, false⟩, .leaf 2)]
    let ix : Ix := ⟨5, 1, set⟩
    let a3 := [false, false, false]
    ((runI ix [⟨.validate, 0, none, .star 7 3⟩] [9] a3).1.map (fun e => (e.phase, e.tag)),
      (runI ix [⟨.validate, 0, none, .star 7 3⟩] [9] a3).2) =
      ([(.args, 5), (.decode, 0), (.decode, 1), (.decode, 2), (.validate, 2), (.validate, 0)],
        .err (.custom 458755)) ∧
    runI ix [] [9, 1] (a3 ++ [false]) = (expected ix [9, 1] (a3 ++ [false]), .ok) ∧
    (runI ix [] [9] [false, false]).2 = .err (.custom 9004) ∧
    (runI ix [⟨.process, 5, none, .prog (.builtin 2)⟩] [9] a3).2 = .err (.builtin 2) ∧
    (runI ix [⟨.process, 5, none, .prog (.builtin 2)⟩] [9] a3).1.length = 8 := by decide

/-- non-vacuity for hooks, nesting, skip, field attributes, containers and the cache. Outer struct
1 (before + extra hooks): `a` = leaf 0 (requires `b`, funder, address + temp + arg),
`b` = inner struct 2 (extra hook, extra_cleanup; `x` = leaf 1 requiring `y`, `y` = leaf 2 funder),
`c` = leaf 3 (skipped, recipient), `o` = `Option<leaf 4>`, `v` = two elements of leaf 5.
With accounts `[n, n, n, n, P, n, n]` the option is absent (slot 4 is the program id). -/
example :
    let inner : ASet := .node 2 false true true
      [(⟨0, [1], false, false, false, false, false, false⟩, .leaf 1),
       (⟨1, [], false, true, false, false, false, false⟩, .leaf 2)]
    let outer : ASet := .node 1 true true false
      [(⟨0, [1], false, true, false, true, true, true⟩, .leaf 0),
       (⟨1, [], false, false, false, false, false, false⟩, inner),
       (⟨2, [], true, false, true, false, false, false⟩, .leaf 3),
       (⟨3, [], false, false, false, false, false, false⟩, .opt .option (.leaf 4)),
       (⟨4, [], false, false, false, false, false, false⟩, .seq [.leaf 5, .leaf 5])]
    let ix : Ix := ⟨7, 0, outer⟩
    let accts := [false, false, false, false, true, false, false]
    let r := ix.shape accts
    (events r.decodeSteps).map (fun e => (e.tag, e.slot)) = [(0, 0), (1, 1), (2, 2), (3, 3), (5, 5), (5, 6)] ∧
    (events r.validateSteps).map (fun e => (e.phase, e.tag, e.slot)) =
      [(.vbefore, 1, 0), (.validate, 2, 2), (.validate, 1, 1), (.vextra, 2, 0),
       (.vaddr, 0, 0), (.vtemp, 0, 0), (.varg, 0, 0), (.validate, 0, 0),
       (.validate, 5, 5), (.validate, 5, 6), (.vextra, 1, 0)] ∧
    r.cache = ⟨some 2, some 3⟩ ∧
    (events r.cleanupSteps).map (fun e => (e.phase, e.tag, e.slot)) =
      [(.cleanup, 0, 0), (.cleanup, 1, 1), (.cleanup, 2, 2), (.cextra, 2, 0), (.cleanup, 3, 3),
       (.cleanup, 5, 5), (.cleanup, 5, 6)] ∧
    (runI ix [⟨.vextra, 2, none, .star 7 4⟩] [] accts).2 = .err (.custom 458756) ∧
    (runI ix [⟨.validate, 5, some 6, .prog (.builtin 4)⟩] [] accts).2 = .err (.builtin 4) ∧
    (runI ix [⟨.vaddr, 0, none, .prog (.builtin 4)⟩] [] accts).2 = .err (.custom 1002) ∧
    r.namesOK = true ∧ (expectedDecl ix [] accts).Nodup := by decide

/-! ## Order of field validation -/

/-- **Every field is validated exactly once**, whatever the `requires` lists are (even cyclic or
naming unknown fields): `order fs` is a permutation of the declared names. -/
theorem order_perm (fs : List Field) : (order fs).Perm (names fs) :=
  orderLoop_perm fs.length fs (Nat.le_refl _)

/-- **No `requires` anywhere ⇒ declaration order.** -/
theorem order_identity (fs : List Field) (h : ∀ f ∈ fs, f.2 = []) : order fs = names fs :=
  orderLoop_noreq fs.length fs (Nat.le_refl _) h

/-- More generally, whenever the declaration order already respects all `requires` (nothing a
field requires is declared at or after it), the fields are validated in declaration order. -/
theorem order_declaration_stable (fs : List Field)
    (h : ∀ A f B, fs = A ++ f :: B → ∀ r ∈ f.2, r ∉ names (f :: B)) : order fs = names fs :=
  orderLoop_sorted fs.length fs (Nat.le_refl _) h

/-- **Acyclic `requires` ⇒ every field is validated after every field it requires** — for all
field lists of any length. (With `order_perm` and distinct field names, each of the two names
occurs exactly once in `order fs`, so "`r` occurs before `f`" is unambiguous.) -/
theorem order_respects_requires (fs : List Field) (hac : Acyclic fs) :
    ∀ f ∈ fs, ∀ r ∈ f.2, r ∈ names fs → Before (order fs) r f.1 :=
  orderLoop_respects fs.length fs (Nat.le_refl _) hac

/-- The executable check `respects` used in the examples agrees with the theorem on an instance
that the previous algorithm got wrong: `a (requires c), b (requires a), c`. -/
example : order [(0, [2]), (1, [0]), (2, [])] = [2, 0, 1] ∧
    respects [(0, [2]), (1, [0]), (2, [])] (order [(0, [2]), (1, [0]), (2, [])]) = true := by decide

/-- non-vacuity of the hypotheses of `order_respects_requires`: this graph is acyclic
(`rank` strictly decreases along every edge) and has edges between fields. -/
example : Acyclic [(0, [2]), (1, [0]), (2, [])] := by
  intro x hx
  -- rank: 2 ↦ 0, 0 ↦ 1, 1 ↦ 2; every edge r → f has rank r < rank f
  let rank : Nat → Nat := fun n => if n = 2 then 0 else if n = 0 then 1 else 2
  have hedge : ∀ a b, Edge [(0, [2]), (1, [0]), (2, [])] a b → rank a < rank b := by
    intro a b ⟨fld, hf, h1, h2⟩
    simp at hf
    rcases hf with rfl | rfl | rfl <;> simp at h1 h2 <;> subst h1 <;> (try subst h2) <;> simp [rank]
  have hlt : ∀ a b, Relation.TransGen (Edge [(0, [2]), (1, [0]), (2, [])]) a b → rank a < rank b := by
    intro a b t
    induction t with
    | single h => exact hedge _ _ h
    | tail _ h ih => exact Nat.lt_trans ih (hedge _ _ h)
  exact Nat.lt_irrefl _ (hlt x x hx)

/-- a field whose required name is not a field at all is simply ready -/
example : order [(0, [7]), (1, [])] = [0, 1] := by decide

/-- cyclic `requires` (rejected by the macro at compile time) fall back to the first pending
field; every field is still emitted exactly once -/
example : order [(0, [1]), (1, [0]), (2, [])] = [2, 0, 1] := by decide

/-- **Why the previous loop was wrong** (reverse walk, insert after the last placed requirement):
for `a (requires c), b (requires a), c` it produced `[b, c, a]`, validating `b` before the field
`a` it requires, although the graph is acyclic. -/
theorem order_old_counterexample :
    orderOld [(0, [2]), (1, [0]), (2, [])] = [1, 2, 0] ∧
    respects [(0, [2]), (1, [0]), (2, [])] (orderOld [(0, [2]), (1, [0]), (2, [])]) = false ∧
    respects [(0, [2]), (1, [0]), (2, [])] (order [(0, [2]), (1, [0]), (2, [])]) = true := by decide

end Account.C11
