import Account.BorshLemmas
import Account.BorshCodecsLemmas
/-!
# C15 — Borsh-backed accounts persist and reload faithfully across instructions

Property theorems only (model: `Account/Borsh.lean`; helpers: `Account/BorshLemmas.lean`; the
driver's concrete codecs and their `CodecOK` proofs: `Account/BorshCodecs*.lean`).

The borsh encoders of the user's account type are a parameter `c : Codec α` with the hypotheses
`CodecOK c` : `de (ser x) = some x` and `|ser x| = objLen x` for every value in the type's range.
`/repo` at the time of writing serializes the INNER value (the `Option<T>` wrapper defect D15 has
been repaired), which is what the model does; the theorems below would be false of the old code
(one tag byte too many: `length_exact` fails).
-/
namespace Account.C15
open Common Account.Validate Account.Borsh

variable {α : Type}

/-- For EVERY history of instructions, each making any number of value changes (of arbitrary,
size-changing serialized lengths within the runtime's per-instruction growth allowance) and ending
with ANY cleanup variant whose cache / lamports side succeeds (`()`, `NormalizeRent`, `ReceiveRent`,
`RefundRent`, with an explicit or a cached funder / recipient): the run
succeeds, and what the last instruction left in the wrapper is exactly what the next instruction
decodes, what the client-side deserializer reads, and the account length is discriminant size plus
serialized size; the account also still validates as its type. (By induction on the history; since
it holds for every history it holds after every prefix.) -/
theorem persist_reload {c : Codec α} (hc : CodecOK c) (t : PType) :
    ∀ (wss : List (List α × Cleanup)) (a : Acct) (v0 : α), Live c t a v0 →
      ChainOK c t a.orig v0 wss →
      ∃ a', run c t a wss = .ok a' ∧
        decodeAcct c t a' = .ok { acct := a', val := some (leavesAll v0 wss) } ∧
        clientDeserialize c t a'.data = .ok (leavesAll v0 wss) ∧
        a'.data.length = t.W + c.objLen (leavesAll v0 wss) ∧
        a'.data = t.disc ++ c.ser (leavesAll v0 wss) ∧
        validateAccountInfo t a' = .ok () := by
  intro wss
  induction wss with
  | nil =>
    intro a v0 hl _
    refine ⟨a, rfl, decode_live hc hl, client_live hc hl, live_length hc hl, hl.data, ?_⟩
    exact validate_ok_of_admit (live_admit hc hl) (Or.inl (by rw [hl.free]; rfl))
  | cons wsk rest ih =>
    obtain ⟨ws, k⟩ := wsk
    intro a v0 hl hch
    obtain ⟨hk, hs, hrest⟩ := hch
    obtain ⟨a1, hi, hl1⟩ := instr_live hc hl ws k hk hs
    have horig : a1.orig = t.W + c.objLen (leaves v0 ws) := by
      rw [hl1.orig]; exact live_length hc hl1
    obtain ⟨a', hr, h⟩ := ih a1 (leaves v0 ws) hl1 (by rw [horig]; exact hrest)
    exact ⟨a', by simp only [run, hi, hr], h⟩

/-- The write-back is part of EVERY cleanup variant other than close: whenever such a cleanup
succeeds it has performed exactly `serialize()`; when the cache / lamports side succeeds the cleanup
IS the write-back; and even when it fails, the state it leaves is either untouched or exactly the
write-back's result (never anything else). -/
theorem every_cleanup_writes_back {c : Codec α} {t : PType} (k : Cleanup) (hk : ∀ r, k ≠ .close r)
    (b : BAcct α) :
    (∀ b', cleanup c t k b = .ok b' → serializeBack c t b = .ok b') ∧
    (CleanOK k → cleanup c t k b = serializeBack c t b) ∧
    ((cleanupFull c t k b).1 = b ∨ serializeBack c t b = .ok (cleanupFull c t k b).1) :=
  ⟨fun _ h => cleanup_ok_writeback hk h, fun h => cleanup_of_ok h b, cleanupFull_state hk b⟩

/-- Read-only accounts, accounts no longer owned by the program, and closed accounts (no more than
the discriminant left) are never written: the write-back — alone, or as part of ANY cleanup variant
other than close, whether that cleanup succeeds or fails — leaves the whole account and the wrapper
untouched. -/
theorem never_written {c : Codec α} {t : PType} {b : BAcct α}
    (hg : b.acct.writable = false ∨ b.acct.owner ≠ t.progId ∨ b.acct.data.length ≤ t.W) :
    serializeBack c t b = .ok b ∧
    cleanup c t .dflt b = .ok b ∧
    (∀ k, (∀ r, k ≠ .close r) → (cleanupFull c t k b).1 = b) := by
  have h1 : serializeBack c t b = .ok b := by
    cases h : serializeBack c t b with
    | ok b' => rw [serializeBack_skips h hg]
    | error e =>
      exfalso
      unfold serializeBack at h
      cases hv : b.val with
      | none => simp [hv] at h
      | some v =>
        have hcond : (b.acct.writable && decide (b.acct.data.length > t.W) &&
            decide (b.acct.owner = t.progId)) = false := by
          rcases hg with h1 | h1 | h1
          · simp [h1]
          · simp [h1]
          · have : ¬ b.acct.data.length > t.W := by omega
            simp [this]
        simp [hv, hcond] at h
  refine ⟨h1, ?_, ?_⟩
  · rw [cleanup_of_ok (by simp [CleanOK]) b, h1]
  · intro k hk
    rcases cleanupFull_state (c := c) (t := t) hk b with h | h
    · exact h
    · rw [h1] at h; injection h with h; exact h.symm

/-- An account closed by the framework is not written by any later write-back in the same
instruction, whatever value the wrapper still holds. -/
theorem closed_never_written {c : Codec α} {t : PType} {a a' : Acct} (val : Option α)
    (hcl : closeAccount t a = .ok a') :
    serializeBack c t { acct := a', val := val } = .ok { acct := a', val := val } := by
  have hlen : a'.data.length = t.W := by
    unfold closeAccount at hcl
    cases hr : resize a t.W with
    | error e => rw [hr] at hcl; cases hcl
    | ok a1 =>
      rw [hr] at hcl; cases hcl
      simp [resize_length hr]
  exact (never_written (b := { acct := a', val := val }) (Or.inr (Or.inr (by simp [hlen])))).1

/-- Whenever the write-back does write (guards true, value present), the account becomes exactly
`discriminant-prefix ++ ser v`, of length `W + objLen v`; owner, flags and borrow state unchanged. -/
theorem length_exact {c : Codec α} (hc : CodecOK c) {t : PType} {b b' : BAcct α} {v : α}
    (hval : b.val = some v) (hv : c.valid v)
    (hw : b.acct.writable = true) (ho : b.acct.owner = t.progId) (hlen : b.acct.data.length > t.W)
    (h : serializeBack c t b = .ok b') :
    b'.acct.data = b.acct.data.take t.W ++ c.ser v ∧
    b'.acct.data.length = t.W + c.objLen v ∧
    b'.acct.owner = b.acct.owner ∧ b'.acct.writable = b.acct.writable ∧ b'.val = b.val := by
  have hsl := hc.len v hv
  unfold serializeBack at h
  simp only [hval, hw, hlen, ho, decide_true, Bool.and_self, if_true] at h
  cases hr : resize b.acct (t.W + c.objLen v) with
  | error e => rw [hr] at h; cases h
  | ok a1 =>
    rw [hr] at h
    have hl1 := resize_length hr
    have hfr := resize_frame hr
    have htk := resize_take (k := t.W) hr (by omega) (by omega)
    have hfit2 : (c.ser v).length ≤ a1.data.length - t.W := by omega
    have hdrop : a1.data.drop (t.W + (c.ser v).length) = [] := by
      apply List.drop_of_length_le; omega
    simp only [writeBody, hfit2, if_true, hdrop, List.append_nil, htk] at h
    cases h
    refine ⟨rfl, ?_, hfr.1, hfr.2.1, hval.symm⟩
    simp [List.length_take, hsl]; omega

/-- Closing does not write the value back: whatever the wrapper holds, the account ends as `W`
bytes of `0xFF` and the wrapper's value is untouched. -/
theorem close_skips_writeback {c : Codec α} {t : PType} {b b' : BAcct α} {r : Bool}
    (h : cleanup c t (.close r) b = .ok b') :
    r = true ∧ b'.val = b.val ∧ b'.acct.data = List.replicate t.W 255 := by
  cases r with
  | false => simp [cleanup, cleanupFull, cleanupClose] at h
  | true =>
    cases hcl : closeAccount t b.acct with
    | error e => simp [cleanup, cleanupFull, cleanupClose, hcl] at h
    | ok a' =>
      simp only [cleanup, cleanupFull, cleanupClose, if_true, hcl] at h
      cases h
      refine ⟨rfl, rfl, ?_⟩
      unfold closeAccount at hcl
      cases hr : resize b.acct t.W with
      | error e => rw [hr] at hcl; cases hcl
      | ok a1 => rw [hr] at hcl; cases hcl; simp [resize_length hr]

/-- On arbitrary account bytes, the client-side deserializer and the on-chain decode agree: whatever
the program decodes from an account that carries its discriminant is what the client reads. -/
theorem client_agrees_with_decode {c : Codec α} {t : PType} {a : Acct} {v : α}
    (hd : a.data.take t.W = t.disc)
    (h : decodeAcct c t a = .ok { acct := a, val := some v }) :
    clientDeserialize c t a.data = .ok v := by
  unfold decodeAcct at h
  split at h
  · rename_i hlen
    split at h
    · cases h
    · cases hde : c.de (a.data.drop t.W) with
      | none => rw [hde] at h; cases h
      | some v' =>
        rw [hde] at h
        have : v' = v := by
          injection h with h; injection h with _ h; injection h
        subst this
        have : ¬ a.data.length < t.W := by omega
        simp [clientDeserialize, this, hd, hde]
  · cases h

/-! ## Non-vacuity: both concrete codecs satisfy `CodecOK`; a concrete size-changing history -/

def exId : List Nat := (List.range 32).map (· + 1)
def exT : PType := { progId := exId, disc := [1, 2, 3, 4, 5, 6, 7, 8], body := 0 }
def exV0 : Val := .var 1 [] [104, 105]
def exV1 : Val := .var 2 [9, 9, 9, 9, 9] []
def exV2 : Val := .var 3 [] []
def exA : Acct :=
  { owner := exId, data := exT.disc ++ serVal exV0, writable := true, borrow := Borrow.free,
    orig := 19 }

example : CodecOK fixCodec ∧ CodecOK varCodec := ⟨fixCodec_ok, varCodec_ok⟩

example : Live varCodec exT exA exV0 :=
  { writable := rfl, owner := rfl, free := rfl, data := rfl, orig := rfl,
    valid := by simp [varCodec, exV0, utf8Valid], nonempty := by decide }

example : ChainOK varCodec exT exA.orig exV0
    [([exV1], .dflt), ([], .rent .normalize .cached false), ([exV0, exV2], .rent .refund .arg false)] := by
  simp [ChainOK, StepOK, CleanOK, leaves, varCodec, exV0, exV1, exV2, exT, exA, PType.W, serVal,
    utf8Valid, maxIncrease]

-- grows by 3, stays, shrinks by 5: the account always ends as disc ++ ser (last value)
example : (run varCodec exT exA
    [([exV1], .dflt), ([], .rent .normalize .cached false), ([exV0, exV2], .rent .refund .arg false)]).toOption.map (·.data)
    = some (exT.disc ++ serVal exV2) := by rfl

end Account.C15
