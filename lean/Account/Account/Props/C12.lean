import Account.InitLemmas
/-!
# C12 — Account initialization creates exactly what was asked and conserves lamports

Model: `Account/World.lean` (System program), `Account/Init.lean` (CPI entry, `system_create_account`,
`init_account`, `Init` validation). Every theorem quantifies over the environment (`rentMin`, hash
oracle, signer / writable flags), the world, the target kind (keypair / seeded), the funder (plain /
seeded, argument / cache), the account type (discriminant, zero-copy / borsh) and the initial value.
-/
namespace Account.C12
open Common Account.World Account.Init

variable (env : Env) (ty : AcctType) (ifn : Bool) (tgt : Target) (fa : FunderArg) (enc : List Nat) (s : St)

/-- `create_post`: on success with `needed_init`, the account is owned by the program, holds the
discriminant followed by the initial value (zero-copy) / by that many zero bytes until `serialize`
writes the value at cleanup (borsh), is sized exactly `W + |value|`, and holds at least the
rent-exempt minimum for that size. -/
theorem create_post (f : Funder) (hf : fa.resolve = some f) (hne : f.key ≠ tgt.key)
    (h : (initValidate env ty ifn tgt fa enc s).1 = .ok true) :
    let a' := (initValidate env ty ifn tgt fa enc s).2.w tgt.key
    a'.owner = env.program ∧ a'.data = createdData ty enc ∧
    a'.data.length = ty.W + enc.length ∧ a'.lamports ≥ env.rentMin a'.data.length ∧
    (serializeBorsh env ty tgt.key (some enc) (initValidate env ty ifn tgt fa enc s).2.w tgt.key).data
      = ty.disc ++ enc := by
  rcases initValidate_shape env ty ifn tgt fa enc s with ⟨_, hno⟩ | ⟨a, f', -, hf', hst, hok⟩
  · exact absurd h (hno true)
  · have hff : f' = f := by rw [hf] at hf'; injection hf' with e; exact e.symm
    subst hff
    obtain ⟨hia, -, -⟩ := hok true h
    have hgo := initAccount_ok_true hia
    rw [hgo] at hia
    obtain ⟨-, hw, -, -, hpost⟩ := initGo_ok hia
    obtain ⟨p1, -⟩ := hpost hne
    simp only []
    have hlen := createdData_length ty enc
    have hdata : ((initValidate env ty ifn tgt fa enc s).2.w tgt.key).data = createdData ty enc := by
      rw [hst, hgo, p1]; rfl
    have howner : ((initValidate env ty ifn tgt fa enc s).2.w tgt.key).owner = env.program := by
      rw [hst, hgo, p1]
    refine ⟨howner, hdata, by rw [hdata, hlen], ?_, serialize_created env ty tgt.key enc _ hw howner hdata⟩
    rw [hdata, hlen, hst, hgo, p1]
    simp only []; omega

/-- `create_conserves`: whatever the outcome (success, error, panic), the sum of lamports over any
duplicate-free list of accounts containing the funder and the target is unchanged, and every other
account is untouched byte for byte. -/
theorem create_conserves :
    (∀ ks : List Key, ks.Nodup → (∀ f, fa.resolve = some f → f.key ∈ ks) → tgt.key ∈ ks →
      total ks (initValidate env ty ifn tgt fa enc s).2.w = total ks s.w) ∧
    (∀ k, (∀ f, fa.resolve = some f → k ≠ f.key) → k ≠ tgt.key →
      (initValidate env ty ifn tgt fa enc s).2.w k = s.w k) := by
  rcases initValidate_shape env ty ifn tgt fa enc s with ⟨hs, _⟩ | ⟨a, f, -, hf, hst, -⟩
  · rw [hs]; exact ⟨fun _ _ _ _ => rfl, fun _ _ _ => rfl⟩
  · have inv := initAccount_inv env ty ifn tgt.key f a enc s
    rw [hst]
    exact ⟨fun ks hnd hfk ht => inv.total ks hnd (hfk f hf) ht, fun k hkf hkt => inv.frame k (hkf f hf) hkt⟩

/-- `create_takes_only_shortfall`: on success the funder pays exactly
`rentMin (W + |value|) ∸ target.lamports₀` — the shortfall and nothing more (full strength: also
for targets pre-funded at or above the minimum, where nothing is taken). -/
theorem create_takes_only_shortfall (f : Funder) (hf : fa.resolve = some f) (hne : f.key ≠ tgt.key)
    (h : (initValidate env ty ifn tgt fa enc s).1 = .ok true) :
    ((initValidate env ty ifn tgt fa enc s).2.w f.key).lamports
        + (env.rentMin (ty.W + enc.length) - (s.w tgt.key).lamports) = (s.w f.key).lamports ∧
    ((initValidate env ty ifn tgt fa enc s).2.w tgt.key).lamports
        = (s.w tgt.key).lamports + (env.rentMin (ty.W + enc.length) - (s.w tgt.key).lamports) := by
  rcases initValidate_shape env ty ifn tgt fa enc s with ⟨_, hno⟩ | ⟨a, f', -, hf', hst, hok⟩
  · exact absurd h (hno true)
  · have hff : f' = f := by rw [hf] at hf'; injection hf' with e; exact e.symm
    subst hff
    obtain ⟨hia, -, -⟩ := hok true h
    have hgo := initAccount_ok_true hia
    rw [hgo] at hia
    obtain ⟨-, -, -, -, hpost⟩ := initGo_ok hia
    obtain ⟨p1, p2⟩ := hpost hne
    rw [hst, hgo]
    exact ⟨p2, by rw [p1]⟩

/-- `create_on_initialized_errs`: `Create` on an account that is already initialized — owned by
anything but the System program (the program itself with any discriminant, a third program) or
carrying data — never succeeds. (Only the returned `Result` is claimed: a shortfall may already
have been transferred when `Allocate` fails; the runtime rolls the transaction back, `rollback`.) -/
theorem create_on_initialized_errs
    (hinit : (s.w tgt.key).owner ≠ systemId ∨ (s.w tgt.key).data ≠ []) (b : Bool) :
    (initValidate env ty false tgt fa enc s).1 ≠ .ok b := by
  intro h
  rcases initValidate_shape env ty false tgt fa enc s with ⟨_, hno⟩ | ⟨a, f, -, -, -, hok⟩
  · exact hno b h
  · obtain ⟨hia, -, -⟩ := hok b h
    have hgo : initAccount env ty false tgt.key f a enc s = initGo env ty tgt.key f a enc s := by
      simp [initAccount]
    rw [hgo] at hia
    obtain ⟨-, -, ho, hd, -⟩ := initGo_ok hia
    rcases hinit with h1 | h1
    · exact h1 ho
    · exact h1 hd

/-- …and at transaction level nothing is left behind by the failed `Create`. -/
theorem create_on_initialized_rolled_back
    (hinit : (s.w tgt.key).owner ≠ systemId ∨ (s.w tgt.key).data ≠ []) :
    rollback s (initValidate env ty false tgt fa enc s) = s.w := by
  unfold rollback
  split
  · rename_i b hb
    exact absurd hb (create_on_initialized_errs env ty tgt fa enc s hinit b)
  · rfl

/-- `failed_create_leaves_wrapper`: `Create` on an initialized account leaves the in-memory wrapper
value exactly as decode produced it (the initial value is stored only by a successful
`init_account`), leaves the target's owner and bytes alone, and therefore running the set's cleanup
(`BorshAccount::serialize`) after the failed call writes the account's own bytes back: the cleanup
is the identity on the world. -/
theorem failed_create_leaves_wrapper
    (hinit : (s.w tgt.key).owner ≠ systemId ∨ (s.w tgt.key).data ≠ [])
    (decoded : Option (List Nat)) (hdec : decodeBorsh ty (s.w tgt.key) = .ok decoded) :
    wrapperAfterInit env ty false tgt fa enc s decoded = decoded ∧
    ((initValidate env ty false tgt fa enc s).2.w tgt.key).data = (s.w tgt.key).data ∧
    ((initValidate env ty false tgt fa enc s).2.w tgt.key).owner = (s.w tgt.key).owner ∧
    serializeBorsh env ty tgt.key (wrapperAfterInit env ty false tgt fa enc s decoded)
      (initValidate env ty false tgt fa enc s).2.w = (initValidate env ty false tgt fa enc s).2.w := by
  have hw : wrapperAfterInit env ty false tgt fa enc s decoded = decoded := by
    unfold wrapperAfterInit
    split
    · rename_i a f _ _
      split
      · rename_i hok
        have hgo : initAccount env ty false tgt.key f a enc s = initGo env ty tgt.key f a enc s := by
          simp [initAccount]
        rw [hgo] at hok
        obtain ⟨-, -, ho, hd, -⟩ := initGo_ok hok
        rcases hinit with h | h
        · exact absurd ho h
        · exact absurd hd h
      · rfl
    · rfl
  obtain ⟨hko, hkd⟩ := initValidate_initialized_keeps env ty tgt fa enc s hinit
  refine ⟨hw, hkd, hko, ?_⟩
  rw [hw]
  unfold decodeBorsh at hdec
  split at hdec
  · split at hdec
    · injection hdec with e
      rw [← e, ← hkd]
      exact serialize_decoded_identity env ty tgt.key _
    · cases hdec
  · injection hdec with e
    rw [← e]; rfl

/-- `create_if_needed_untouched`: with `CreateIfNeeded`, an initialized account of this type (owned
by the program, carrying the type's discriminant, which is not all zero) is reported as not newly
initialized, and the world and the CPI log are exactly what they were. -/
theorem create_if_needed_untouched (a : Option (List (List Nat))) (f : Funder)
    (hseeds : initSeeds env tgt = .ok a) (hf : fa.resolve = some f)
    (hsigner : ∀ k, tgt = .signer k → env.isSigner k = true)
    (hprog : env.program ≠ systemId) (hdisc : allZero ty.disc = false)
    (howner : (s.w tgt.key).owner = env.program) (hlen : ty.W ≤ (s.w tgt.key).data.length)
    (hd : (s.w tgt.key).data.take ty.W = ty.disc) :
    initValidate env ty true tgt fa enc s = (.ok false, s) := by
  have hia : initAccount env ty true tgt.key f a enc s = (.ok false, s) := by
    unfold initAccount
    rw [if_pos rfl, if_neg (by rw [howner]; exact hprog), if_neg (by omega), hd, hdisc]
    simp
  have hv : validateAccountInfo env ty (s.w tgt.key) = .ok () := by
    unfold validateAccountInfo
    rw [if_neg (by omega), if_neg (by simp [hd]), if_neg (by simp [howner])]
  unfold initValidate
  rw [hseeds]; simp only []
  rw [hf]; simp only []
  rw [hia]; simp only []
  rw [hv]; simp only []
  cases tgt with
  | signer k => simp [hsigner k rfl]
  | seeded k ss => rfl

/-- `create_if_needed_short_data_errs` (D12b, repaired by d51f9cb): `CreateIfNeeded` on an account that
is not System-owned and whose data is shorter than the discriminant returns `AccountDataTooSmall`
— no panic — and the world and the CPI log are exactly what they were. -/
theorem create_if_needed_short_data_errs (a : Option (List (List Nat))) (f : Funder)
    (hseeds : initSeeds env tgt = .ok a) (hf : fa.resolve = some f)
    (howner : (s.w tgt.key).owner ≠ systemId) (hlen : (s.w tgt.key).data.length < ty.W) :
    initValidate env ty true tgt fa enc s = (.err .accountDataTooSmall, s) := by
  have hia : initAccount env ty true tgt.key f a enc s = (.err .accountDataTooSmall, s) := by
    unfold initAccount
    rw [if_pos rfl, if_neg howner, if_pos hlen]
  unfold initValidate
  rw [hseeds]; simp only []
  rw [hf]; simp only []
  rw [hia]

/-- …and, whatever the seeds / funder resolution, it never panics and never succeeds there. -/
theorem create_if_needed_short_data_no_panic
    (hfind : ∀ k ss, tgt = .seeded k ss →
      (Account.Seeds.find env.H (Account.Seeds.dropTrailingEmpty ss) env.program).isSome)
    (howner : (s.w tgt.key).owner ≠ systemId) (hlen : (s.w tgt.key).data.length < ty.W) :
    ∃ e, (initValidate env ty true tgt fa enc s) = (.err e, s) := by
  unfold initValidate
  cases hs : initSeeds env tgt with
  | panic =>
    exfalso
    cases tgt with
    | signer k => simp [initSeeds] at hs
    | seeded k ss =>
      have hsome := hfind k ss rfl
      simp only [initSeeds] at hs
      cases hfd : Account.Seeds.find env.H (Account.Seeds.dropTrailingEmpty ss) env.program with
      | none => rw [hfd] at hsome; cases hsome
      | some p =>
        obtain ⟨addr, bump⟩ := p
        rw [hfd] at hs
        simp only [] at hs
        by_cases he : addr = k
        · rw [if_pos he] at hs; cases hs
        · rw [if_neg he] at hs; cases hs
  | err e => exact ⟨e, rfl⟩
  | ok a =>
    simp only []
    cases hf : fa.resolve with
    | none => exact ⟨_, rfl⟩
    | some f =>
      simp only []
      have hia : initAccount env ty true tgt.key f a enc s = (.err .accountDataTooSmall, s) := by
        unfold initAccount
        rw [if_pos rfl, if_neg howner, if_pos hlen]
      rw [hia]
      exact ⟨_, rfl⟩

/-- `needed_init_reflects_last_validation`: after ANY history of validations of one wrapper (or of
clones of it), `needed_init()` is the answer of the LAST validation when that one succeeded —
whatever earlier validations answered — and a failed validation leaves the flag where it was.
In particular: created by the first `CreateIfNeeded`, validated again ⇒ `needed_init() = false`. -/
theorem needed_init_reflects_last_validation (h : Hist) (qs : List Request) (q : Request) :
    let before := validateMany env ty tgt h qs
    let after := validateMany env ty tgt h (qs ++ [q])
    let r := (initValidate env ty q.ifNeeded tgt q.fa q.enc before.st).1
    after.answers = before.answers ++ [r] ∧
    (∀ b, r = .ok b → after.flag = b) ∧
    ((∀ b, r ≠ .ok b) → after.flag = before.flag) := by
  simp only [validateMany, List.foldl_append, List.foldl_cons, List.foldl_nil, validateOnce]
  refine ⟨trivial, ?_, ?_⟩
  · intro b hb; simp only [hb, flagAfter]
  · intro hn
    generalize (initValidate env ty q.ifNeeded tgt q.fa q.enc
      (List.foldl (validateOnce env ty tgt) h qs).st).1 = r at hn
    cases r with
    | ok b => exact absurd rfl (hn b)
    | err e => rfl
    | panic => rfl

/-- Validating an initialized account of this type again with `CreateIfNeeded` — e.g. right after the
validation that created it — reports "not newly initialized", whatever the flag was before. -/
theorem revalidation_reports_not_needed (h : Hist) (a : Option (List (List Nat))) (f : Funder)
    (q : Request) (hq : q.ifNeeded = true)
    (hseeds : initSeeds env tgt = .ok a) (hf : q.fa.resolve = some f)
    (hsigner : ∀ k, tgt = .signer k → env.isSigner k = true)
    (hprog : env.program ≠ systemId) (hdisc : allZero ty.disc = false)
    (howner : (h.st.w tgt.key).owner = env.program) (hlen : ty.W ≤ (h.st.w tgt.key).data.length)
    (hd : (h.st.w tgt.key).data.take ty.W = ty.disc) :
    (validateOnce env ty tgt h q).flag = false ∧ (validateOnce env ty tgt h q).st = h.st := by
  have := create_if_needed_untouched env ty tgt q.fa q.enc h.st a f hseeds hf hsigner hprog hdisc howner hlen hd
  simp [validateOnce, hq, this, flagAfter]

/-- `seeded_create_signed_by_seeds`: for a seeded target whose seeds derive `(key, bump)`, every
CPI issued by the validation carries exactly the recorded `seeds_with_bump` as the account's signer
seeds — `CreateAccount`: funder seeds (if any) then the account seeds; `Transfer`: the funder seeds
only; `Allocate` / `Assign`: the account seeds only — touches only the funder and the target, and
a successful creation issued at least one of them. -/
theorem seeded_create_signed_by_seeds (k : Key) (ss : List (List Nat)) (bump : Nat) (f : Funder)
    (hfind : Account.Seeds.find env.H (Account.Seeds.dropTrailingEmpty ss) env.program = some (k, bump)) (hf : fa.resolve = some f) :
    ∃ l, (initValidate env ty ifn (.seeded k ss) fa enc s).2.log = s.log ++ l ∧
      (∀ c ∈ l, wellSigned f (some (Account.Seeds.seedsWithBump ss bump)) c ∧ touches f k c) ∧
      ((initValidate env ty ifn (.seeded k ss) fa enc s).1 = .ok true → l ≠ []) := by
  have hseeds : initSeeds env (.seeded k ss) = .ok (some (Account.Seeds.seedsWithBump ss bump)) := by
    simp [initSeeds, hfind]
  rcases initValidate_shape env ty ifn (.seeded k ss) fa enc s with ⟨hs, hno⟩ | ⟨a, f', ha, hf', hst, hok⟩
  · exact ⟨[], by rw [hs]; simp, by simp, fun h => absurd h (hno true)⟩
  · have hff : f' = f := by rw [hf] at hf'; injection hf' with e; exact e.symm
    subst hff
    have haa : a = some (Account.Seeds.seedsWithBump ss bump) := by
      rw [hseeds] at ha; injection ha with e; exact e.symm
    subst haa
    have inv := initAccount_inv env ty ifn k f' (some (Account.Seeds.seedsWithBump ss bump)) enc s
    obtain ⟨l, hl, hall⟩ := inv.log
    refine ⟨l, by rw [hst]; exact hl, hall, fun h hnil => ?_⟩
    -- a successful creation issued at least one CPI
    obtain ⟨hia, -, -⟩ := hok true h
    have hgo := initAccount_ok_true hia
    subst hnil
    simp only [Target.key] at hia hgo hl
    rw [hgo] at hia hl
    have := initGo_ok_len hia
    rw [hl] at this
    simp at this

/-! ## Non-vacuity -/

section Examples

def exEnv : Env :=
  { program := [7], H := fun flat _ => if flat = [1, 2, 255] then some [9] else none,
    rentMin := fun n => 10 * n, isSigner := fun k => k == [1] || k == [2],
    isWritable := fun _ => true }
def exTy : AcctType := { disc := [0xA1, 0], kind := .zc, valid := fun _ => true }
def exW : World := fun k => if k = [1] then { lamports := 1000, owner := systemId, data := [] }
  else { lamports := 0, owner := systemId, data := [] }
def exS : St := { w := exW, log := [] }
def exF : Funder := { key := [1], seeds := none }

/-- A fresh keypair target: one `CreateAccount`, `ok true`, 50 lamports (5 bytes × 10) taken. -/
example : (initValidate exEnv exTy false (.signer [2]) (.arg exF) [5, 6, 7] exS).1 = .ok true := by decide
example : ((initValidate exEnv exTy false (.signer [2]) (.arg exF) [5, 6, 7] exS).2.w [2]).data = [0xA1, 0, 5, 6, 7] := by
  decide
example : ((initValidate exEnv exTy false (.signer [2]) (.arg exF) [5, 6, 7] exS).2.w [1]).lamports = 950 := by decide
/-- A seeded target: the `CreateAccount` carries `[[1], [2], [255]]`. -/
example : (initValidate exEnv exTy false (.seeded [9] [[1], [2], []]) (.arg exF) [5] exS).2.log =
    [{ ix := .createAccount [1] [9] 30 3 [7], seeds := [[[1], [2], [255]]] }] := by decide
/-- `Create` on the created account fails with the System program's "already in use". -/
example : (initValidate exEnv exTy false (.signer [2]) (.arg exF) [5, 6, 7]
    (initValidate exEnv exTy false (.signer [2]) (.arg exF) [5, 6, 7] exS).2).1 = .err (.sys .accountAlreadyInUse) := by
  decide
/-- `CreateIfNeeded` on it: `ok false`. -/
example : (initValidate exEnv exTy true (.signer [2]) (.arg exF) [5, 6, 7]
    (initValidate exEnv exTy false (.signer [2]) (.arg exF) [5, 6, 7] exS).2).1 = .ok false := by decide

end Examples

end Account.C12
