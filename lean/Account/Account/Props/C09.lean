import Account.ModifiersLemmas
/-!
# C09 — Signer, writable, address, program, sysvar and owner checks are exact

Property theorems only (helpers: `Account/ModifiersLemmas.lean`; model: `Account/Modifiers.lean`).
-/
namespace Account.C09
open Common Account.Modifiers

/-- The framework's fast 32-byte key comparison is plain byte equality — for ALL pairs of 32-byte
keys (so in particular pairs differing in one bit or one byte anywhere). -/
theorem fastEq32_iff_eq {a b : List Nat} (ha : Key32 a) (hb : Key32 b) :
    fastEq32 a b = true ↔ a = b := Account.Modifiers.fastEq32_iff ha hb

/-- Each base check accepts exactly the accounts it describes. -/
theorem base_exact {b : Base} {a : Acct} (hb : baseWF b) (ha : acctWF a) :
    validateBase b a = .ok () ↔ baseOk b a := validateBase_ok_iff hb ha

/-- Arbitrary nestings (any depth) accept iff every layer and the base accept. -/
theorem nest_accepts_iff_all (ls : List Layer) (b : Base) (a : Acct)
    (hls : ∀ l ∈ ls, layerWF l) (hb : baseWF b) (ha : acctWF a) :
    validateL ls b a = .ok () ↔ (∀ l ∈ ls, layerOk l a) ∧ baseOk b a := by
  induction ls with
  | nil => simp [validateL, validateBase_ok_iff hb ha]
  | cons l ls ih =>
    have ih := ih (fun l hl => hls l (List.mem_cons_of_mem _ hl))
    have hl := hls l (List.mem_cons_self)
    cases l with
    | signer =>
      simp only [validateL, List.forall_mem_cons, and_assoc]
      rw [← ih]
      simp only [layerOk]
      generalize validateL ls b a = r
      rcases r with e | ⟨⟩ <;> cases hs : a.signer <;> simp
    | wr =>
      simp only [validateL, List.forall_mem_cons, and_assoc]
      rw [← ih]
      simp only [layerOk]
      generalize validateL ls b a = r
      rcases r with e | ⟨⟩ <;> cases hs : a.writable <;> simp
    | nsigner => simp [validateL, layerOk, ih]
    | nmut => simp [validateL, layerOk, ih]
    | advw => simp [validateL, layerOk, ih]
    | advs => simp [validateL, layerOk, ih]
    | addr k =>
      simp only [validateL, List.forall_mem_cons, and_assoc]
      rw [← ih]
      simp only [layerOk]
      have hk := fastEq32_iff ha.1 hl
      cases hf : fastEq32 a.key k with
      | true => simp [hk.mp hf]
      | false =>
        have : a.key ≠ k := fun e => by simp [hk.mpr e] at hf
        simp [this]

/-- A rejected account is rejected with the error class of a check that really fails on it. -/
theorem error_names_failing_check (ls : List Layer) (b : Base) (a : Acct) (e : Err)
    (hls : ∀ l ∈ ls, layerWF l) (hb : baseWF b) (ha : acctWF a)
    (h : validateL ls b a = .error e) :
    (∃ l ∈ ls, ¬ layerOk l a ∧ e = layerErr l) ∨ (¬ baseOk b a ∧ e = baseErr b) := by
  induction ls with
  | nil =>
    right
    have := validateBase_err hb ha (by simpa [validateL] using h)
    exact ⟨this.2, this.1⟩
  | cons l ls ih =>
    have ih := ih (fun l hl => hls l (List.mem_cons_of_mem _ hl))
    have hl := hls l (List.mem_cons_self)
    have lift : ((∃ l ∈ ls, ¬ layerOk l a ∧ e = layerErr l) ∨ (¬ baseOk b a ∧ e = baseErr b)) →
        ((∃ l' ∈ l :: ls, ¬ layerOk l' a ∧ e = layerErr l') ∨ (¬ baseOk b a ∧ e = baseErr b)) := by
      rintro (⟨l', hm, hx⟩ | hx)
      · exact Or.inl ⟨l', List.mem_cons_of_mem _ hm, hx⟩
      · exact Or.inr hx
    cases l with
    | signer =>
      simp only [validateL] at h
      cases hv : validateL ls b a with
      | error e' => rw [hv] at h; simp at h; subst h; exact lift (ih hv)
      | ok u =>
        rw [hv] at h; cases u
        cases hs : a.signer with
        | true => simp [hs] at h
        | false =>
          simp [hs] at h; subst h
          exact Or.inl ⟨.signer, List.mem_cons_self, by simp [layerOk, hs], rfl⟩
    | wr =>
      simp only [validateL] at h
      cases hv : validateL ls b a with
      | error e' => rw [hv] at h; simp at h; subst h; exact lift (ih hv)
      | ok u =>
        rw [hv] at h; cases u
        cases hs : a.writable with
        | true => simp [hs] at h
        | false =>
          simp [hs] at h; subst h
          exact Or.inl ⟨.wr, List.mem_cons_self, by simp [layerOk, hs], rfl⟩
    | nsigner => exact lift (ih (by simpa [validateL] using h))
    | nmut => exact lift (ih (by simpa [validateL] using h))
    | advw => exact lift (ih (by simpa [validateL] using h))
    | advs => exact lift (ih (by simpa [validateL] using h))
    | addr k =>
      simp only [validateL] at h
      cases hf : fastEq32 a.key k with
      | true => rw [hf] at h; exact lift (ih (by simpa using h))
      | false =>
        rw [hf] at h; simp at h; subst h
        have : a.key ≠ k := (fastEq32_false_iff ha.1 hl).mp hf
        exact Or.inl ⟨.addr k, List.mem_cons_self, by simpa [layerOk] using this, rfl⟩

/-- The inner layers are checked before the outer ones: an error raised below a signer / mutable
wrapper is reported unchanged. -/
theorem inner_error_first (l : Layer) (ls : List Layer) (b : Base) (a : Acct) (e : Err)
    (hl : l = .signer ∨ l = .wr ∨ l = .nsigner ∨ l = .nmut ∨ l = .advw ∨ l = .advs)
    (h : validateL ls b a = .error e) : validateL (l :: ls) b a = .error e := by
  rcases hl with rfl | rfl | rfl | rfl | rfl | rfl <;> simp [validateL, h]

/-- Optional accounts: absent is accepted only under `Option`, present delegates to the nest. -/
theorem optional_exact (n : Nest) :
    (validate n none = .ok () ↔ n.opt = true) ∧
    (∀ a, validate n (some a) = validateL n.layers n.base a) := by
  constructor
  · cases h : n.opt <;> simp [validate, h]
  · intro a; rfl

/-! ## Non-vacuity: the hypotheses are satisfiable by a concrete non-trivial nest / account -/

def exKey : List Nat := (List.range 32).map (· + 1)
def exAcct : Acct := { key := exKey, owner := systemId, signer := true, writable := false }

example : acctWF exAcct ∧ layerWF (.addr exKey) ∧ baseWF (.program exKey) := by
  refine ⟨⟨⟨by decide, by decide⟩, systemId_key32⟩, ⟨by decide, by decide⟩, ⟨by decide, by decide⟩⟩

example : validateL [.addr exKey, .signer, .nmut] .sysacct exAcct = .ok () := by rfl
example : validateL [.signer, .wr] .sysacct exAcct = .error .expectedWritable := by rfl
example : validateL [.wr, .signer] (.program systemId) exAcct = .error .incorrectProgramId := by rfl

end Account.C09
