import Account.NestsLemmas
/-!
# C09 — Signer, writable, address, program, sysvar and owner checks are exact

Property theorems only (model: `Account/Nests.lean`, which builds on `Account/Modifiers.lean`
(`fastEq32`) and C08's `Account/Validate.lean`; helpers: `Account/NestsLemmas.lean`).

The layer grammar: single-account chains of `Signer` / `Mut` / `MaybeSigner<false>` /
`MaybeMut<false>` / `Box` / flag-advertising user sets / address-checked wrappers / `Seeded` /
`Init` (`CreateIfNeeded`) over `AccountInfo`, `SystemAccount`, `Program<P>`, `Sysvar<T>`,
`Account<T>`, `BorshAccount<T>`; carriers `Option`, `Box`, `[T; N]`, `Vec`, `Rest`, multi-field
structs and `#[validate(address = …)]` fields — at ANY nesting depth.
-/
namespace Account.C09
open Common Account.Validate Account.Nests
open Account.Modifiers (fastEq32 Key32 systemId)

/-- The framework's fast 32-byte key comparison is plain byte equality — for ALL pairs of 32-byte
keys (so in particular pairs differing in one bit, one byte, or in several words at once). -/
theorem fastEq32_iff_eq {a b : List Nat} (ha : Key32 a) (hb : Key32 b) :
    fastEq32 a b = true ↔ a = b := Account.Modifiers.fastEq32_iff ha hb

/-- Each individual check accepts exactly the accounts it describes. (`Account<T>` /
`BorshAccount<T>`: C08's `validate_account_info`, characterised by `Account.C08.admit_iff`.) -/
theorem base_exact (a : NAcct) (hk : Key32 a.key) (ho : Key32 a.a.owner) :
    (evalCheck a .isSigner = .ok () ↔ a.signer = true) ∧
    (evalCheck a .isWritable = .ok () ↔ a.a.writable = true) ∧
    (∀ k e, Key32 k → (evalCheck a (.keyIs k e) = .ok () ↔ a.key = k)) ∧
    (evalCheck a .ownerIsSystem = .ok () ↔ a.a.owner = systemId) ∧
    (∀ t, evalCheck a (.progAcct t) = validateAccountInfo t a.a) ∧
    (runChecks a (baseChecks .info) = .ok ()) :=
  ⟨eval_isSigner a, eval_isWritable a, fun _ e hk' => eval_keyIs e hk hk', eval_ownerIsSystem ho,
    fun _ => rfl, rfl⟩

/-- What a chain must satisfy, layer by layer. -/
def LayerOk (b : Base) (a : NAcct) (l : Layer) : Prop := ∀ c ∈ layerChecks b l, evalCheck a c = .ok ()
def BaseOk (b : Base) (a : NAcct) : Prop := ∀ c ∈ baseChecks b, evalCheck a c = .ok ()

/-- What a key-checked (`#[validate(address = k)]`) carrier must satisfy: the account, if present,
has that key. -/
def KeyOk (k : List Nat) : DSet → Prop
  | .single _ _ a => evalCheck a (.keyIs k .addressMismatch) = .ok ()
  | .some d => KeyOk k d
  | .boxed d => KeyOk k d
  | _ => True

/-- Every layer, every base, every address check, every element accepts. -/
def AllOk : DSet → Prop
  | .single ls b a => (∀ l ∈ ls, LayerOk b a l) ∧ BaseOk b a
  | .absent => True
  | .some d => AllOk d
  | .boxed d => AllOk d
  | .addr k d => KeyOk k d ∧ AllOk d
  | .nil => True
  | .cons d rest => AllOk d ∧ AllOk rest

theorem chain_accepts_iff_all (ls : List Layer) (b : Base) (a : NAcct) :
    validateL ls b a = .ok () ↔ (∀ l ∈ ls, LayerOk b a l) ∧ BaseOk b a := by
  rw [validateL_eq_runChecks, runChecks_ok_iff]
  constructor
  · intro h
    refine ⟨fun l hl c hc => h c ((mem_checksL c ls b).mpr (Or.inr ⟨l, hl, hc⟩)),
      fun c hc => h c ((mem_checksL c ls b).mpr (Or.inl hc))⟩
  · rintro ⟨hl, hb⟩ c hc
    rcases (mem_checksL c ls b).mp hc with h | ⟨l, hl', h⟩
    · exact hb c h
    · exact hl l hl' c h

theorem checkKey_ok_iff (k : List Nat) (d : DSet) : checkKey k d = .ok () ↔ KeyOk k d := by
  induction d with
  | single ls b a => simp [checkKey, KeyOk]
  | some d ih => simpa [checkKey, KeyOk] using ih
  | boxed d ih => simpa [checkKey, KeyOk] using ih
  | absent => simp [checkKey, KeyOk]
  | addr k' d _ => simp [checkKey, KeyOk]
  | nil => simp [checkKey, KeyOk]
  | cons d r _ _ => simp [checkKey, KeyOk]

/-- Arbitrary nestings — any depth, any mix of wrapper layers and carriers; arrays / `Vec` / `Rest`
/ struct fields element by element — accept iff every layer, base, address check and element
accepts. -/
theorem nest_accepts_iff_all (d : DSet) : validateD d = .ok () ↔ AllOk d := by
  induction d with
  | single ls b a => exact chain_accepts_iff_all ls b a
  | absent => simp [validateD, AllOk]
  | some d ih => simpa [validateD, AllOk] using ih
  | boxed d ih => simpa [validateD, AllOk] using ih
  | addr k d ih =>
    simp only [validateD, AllOk]
    rw [← checkKey_ok_iff, ← ih]
    cases checkKey k d with
    | error e => simp
    | ok u => cases u; simp
  | nil => simp [validateD, AllOk]
  | cons d r ihd ihr =>
    simp only [validateD, AllOk]
    rw [← ihd, ← ihr]
    cases validateD d with
    | error e => simp
    | ok u => cases u; simp

/-- The elements of a sequence carrier (`[T; N]`, `Vec<T>`, `Rest<T>`, struct fields). -/
def elems : DSet → List DSet
  | .cons d rest => d :: elems rest
  | _ => []

/-- A well-formed sequence: `nil`, or an element followed by a sequence (what `[T; N]`, `Vec`, `Rest`
and struct fields decode to). -/
def IsSeq : DSet → Prop
  | .nil => True
  | .cons _ rest => IsSeq rest
  | _ => False

/-- List / array carriers: accepted iff EVERY element is accepted. -/
theorem seq_accepts_iff_forall (d : DSet) (hs : IsSeq d) :
    validateD d = .ok () ↔ ∀ e ∈ elems d, validateD e = .ok () := by
  induction d with
  | nil => simp [validateD, elems]
  | cons d r _ ihr =>
    simp only [validateD, elems, List.forall_mem_cons]
    rw [← ihr hs]
    cases validateD d with
    | error e => simp
    | ok u => cases u; simp
  | single ls b a => exact absurd hs (by simp [IsSeq])
  | absent => exact absurd hs (by simp [IsSeq])
  | some x _ => exact absurd hs (by simp [IsSeq])
  | boxed x _ => exact absurd hs (by simp [IsSeq])
  | addr k x _ => exact absurd hs (by simp [IsSeq])

/-- Validation never consults the advertised `SingleSetMeta`: whatever each wrapper is told about
the meta of what it wraps (`T::meta()`), the result is the same; in particular the layers that ONLY
advertise (`advw`, `advs`, `Box`, `MaybeSigner<false>`, `MaybeMut<false>`) can be dropped from a
chain without changing its verdict, and a `Mut` / `Signer` above a layer that already advertises
the flag still performs its own check. -/
theorem accepts_independent_of_meta (M M' : List Layer → Base → Meta) (ls : List Layer) (b : Base)
    (a : NAcct) :
    validateWith M ls b a = validateWith M' ls b a ∧
    (∀ l, (l = .advw ∨ l = .advs ∨ l = .box ∨ l = .nsigner ∨ l = .nmut) →
      validateL (l :: ls) b a = validateL ls b a) ∧
    (a.a.writable = false → ∃ e, validateL (.wr :: .advw :: ls) b a = .error e) ∧
    (a.signer = false → ∃ e, validateL (.signer :: .advs :: ls) b a = .error e) := by
  refine ⟨by rw [validateWith_eq_runChecks, validateWith_eq_runChecks], ?_, ?_, ?_⟩
  · rintro l (rfl | rfl | rfl | rfl | rfl) <;> simp [validateL, validateWith]
  · intro hw
    simp only [validateL, validateWith, checkWritable, evalCheck, hw]
    cases validateWith advertised ls b a with
    | error e => exact ⟨e, rfl⟩
    | ok u => cases u; exact ⟨_, rfl⟩
  · intro hs
    simp only [validateL, validateWith, checkSigner, evalCheck, hs]
    cases validateWith advertised ls b a with
    | error e => exact ⟨e, rfl⟩
    | ok u => cases u; exact ⟨_, rfl⟩

/-- The reported error is that of the FIRST failing check in execution order (`checksD`: a field's
address check before the field's validation; fields, array / `Vec` / `Rest` elements left to right;
within a chain the inner layers before the outer `Signer` / `Mut`, address / seeds / init checks
before what they wrap): every check before it passes, and it fails with exactly that error. -/
theorem first_error_position (d : DSet) :
    validateD d = runAll (checksD d) ∧
    (∀ e, validateD d = .error e ↔
      ∃ pre a c post, checksD d = pre ++ (a, c) :: post ∧
        (∀ x ∈ pre, evalCheck x.1 x.2 = .ok ()) ∧ evalCheck a c = .error e) ∧
    (∀ ls b a, checksD (.single ls b a) = (checksL ls b).map (fun c => (a, c))) ∧
    (∀ k d', checksD (.addr k d') = keyChecks k d' ++ checksD d') ∧
    (∀ d' r, checksD (.cons d' r) = checksD d' ++ checksD r) ∧
    (∀ ls b, checksL (.signer :: ls) b = checksL ls b ++ [.isSigner]) ∧
    (∀ ls b, checksL (.wr :: ls) b = checksL ls b ++ [.isWritable]) ∧
    (∀ k ls b, checksL (.addr k :: ls) b = .keyIs k .addressMismatch :: checksL ls b) :=
  ⟨validateD_eq_runAll d, fun e => by rw [validateD_eq_runAll]; exact runAll_error_iff _ e,
    fun _ _ _ => rfl, fun _ _ => rfl, fun _ _ => rfl, fun _ _ => rfl, fun _ _ => rfl,
    fun _ _ _ => rfl⟩

/-- A rejected set is rejected with the error of a check that really fails on one of its accounts. -/
theorem error_names_failing_check (d : DSet) (e : Err) (h : validateD d = .error e) :
    ∃ x ∈ checksD d, evalCheck x.1 x.2 = .error e := by
  obtain ⟨pre, a, c, post, heq, _, hfail⟩ := ((first_error_position d).2.1 e).mp h
  exact ⟨(a, c), by rw [heq]; simp, hfail⟩

/-- The inner layers are checked before the outer ones: an error raised below a signer / mutable /
pass-through wrapper is reported unchanged. -/
theorem inner_error_first (l : Layer) (ls : List Layer) (b : Base) (a : NAcct) (e : Err)
    (hl : l = .signer ∨ l = .wr ∨ l = .nsigner ∨ l = .nmut ∨ l = .advw ∨ l = .advs ∨ l = .box)
    (h : validateL ls b a = .error e) : validateL (l :: ls) b a = .error e := by
  unfold validateL at h ⊢
  rcases hl with rfl | rfl | rfl | rfl | rfl | rfl | rfl <;> simp [validateWith, h]

/-- Optional accounts: no account left, or the program-id placeholder, decodes as absent and is
accepted (also by an address check above it); anything else delegates to the inner set. -/
theorem optional_exact (progId : List Nat) (fuel : Nat) (s : ASet) :
    decode progId fuel (.opt s) [] = .ok (.absent, []) ∧
    (∀ a rest, fastEq32 a.key progId = true →
      decode progId fuel (.opt s) (a :: rest) = .ok (.absent, rest)) ∧
    (∀ a rest, fastEq32 a.key progId = false →
      decode progId fuel (.opt s) (a :: rest) =
        match decode progId fuel s (a :: rest) with
        | .error e => .error e
        | .ok (d, r) => .ok (.some d, r)) ∧
    validateD .absent = .ok () ∧ (∀ k, validateD (.addr k .absent) = .ok ()) ∧
    (∀ d, validateD (.some d) = validateD d) := by
  refine ⟨by simp [decode], ?_, ?_, rfl, fun _ => rfl, fun _ => rfl⟩
  · intro a rest h; simp [decode, h]
  · intro a rest h
    simp only [decode, h]
    cases decode progId fuel s (a :: rest) with
    | error e => rfl
    | ok p => cases p; rfl


/-- Sequence carriers validated with an ARGUMENT LIST (`Vec<T>` with `Vec<arg>`): accepted iff there
are at least as many arguments as decoded elements AND every element — each one, up to the last —
accepts under the argument at its own index. With fewer arguments than elements it is an
`InvalidArgument` error (never a partial validation), surplus arguments are ignored. The `[arg; M]`
form additionally requires `M` = the number of elements; the `(arg,)` form validates every element
under the same argument. -/
theorem vec_args_accepts_iff {α β : Type} (v : α → β → Except Err Unit) (xs : List β) (as : List α) :
    (validateVecArgs v .vecArgs xs as = .ok () ↔
      xs.length ≤ as.length ∧ ∀ (i : Nat) x, xs[i]? = some x → ∃ a, as[i]? = some a ∧ v a x = .ok ()) ∧
    (as.length < xs.length → validateVecArgs v .vecArgs xs as = .error .invalidArgument) ∧
    (validateVecArgs v .arrArgs xs as = .ok () ↔
      xs.length = as.length ∧ ∀ (i : Nat) x, xs[i]? = some x → ∃ a, as[i]? = some a ∧ v a x = .ok ()) ∧
    (∀ a rest, as = a :: rest →
      (validateVecArgs v .bcast xs as = .ok () ↔ ∀ x ∈ xs, v a x = .ok ())) := by
  refine ⟨?_, ?_, ?_, ?_⟩
  · by_cases h : as.length < xs.length
    · simp only [validateVecArgs, h, if_true]
      constructor
      · intro hh; cases hh
      · rintro ⟨hle, _⟩; omega
    · have hle : xs.length ≤ as.length := by omega
      simp only [validateVecArgs, h, if_false, validateZip_ok_iff v xs as hle]
      exact ⟨fun hh => ⟨hle, hh⟩, fun hh => hh.2⟩
  · intro h; simp [validateVecArgs, h]
  · by_cases he : as.length = xs.length
    · have hne : ¬ (as.length ≠ xs.length) := by simp [he]
      simp only [validateVecArgs, hne, if_false, validateZip_ok_iff v xs as (by omega)]
      exact ⟨fun hh => ⟨he.symm, hh⟩, fun hh => hh.2⟩
    · simp only [validateVecArgs, ne_eq, he, not_false_eq_true, if_true]
      constructor
      · intro hh; cases hh
      · rintro ⟨h', _⟩; exact absurd h'.symm he
  · intro a rest he
    subst he
    simp only [validateVecArgs]
    exact validateZip_replicate v xs a

/-! ## Non-vacuity: concrete nests of depth 5 with carriers -/

def exKey : List Nat := (List.range 32).map (· + 1)
def exProg : List Nat := List.replicate 32 7
def exT : PType := { progId := exProg, disc := [1, 2, 3, 4, 5, 6, 7, 8], body := 2 }
def mkA (key owner : List Nat) (s w : Bool) (data : List Nat) : NAcct :=
  { key, signer := s, a := { owner, data, writable := w, borrow := Borrow.free, orig := data.length } }
def exSys : NAcct := mkA exKey systemId true false []
def exAcc : NAcct := mkA exKey exProg true true [1, 2, 3, 4, 5, 6, 7, 8, 0, 0]

example : validateL [.addr exKey, .signer, .box, .nmut, .advw] .sysacct exSys = .ok () := by rfl
example : validateL [.signer, .wr] .sysacct exSys = .error .expectedWritable := by rfl
example : validateL [.wr, .box, .signer] (.account exT) exAcc = .ok () := by rfl
example : validateL [.init true, .signer] (.account exT) exAcc = .ok () := by rfl
-- a System-owned account under Init needs creating: refused for a read-only account
example : validateL [.init true, .signer] (.account exT) exSys = .error .expectedWritable := by rfl
-- [Option<Signer<…>>; 3] with an absent middle element, then Rest<SystemAccount> (as decoded)
example : validateD
    (.cons (.cons (.some (.single [.signer] .info exSys)) (.cons .absent
        (.cons (.some (.single [.signer] .info exSys)) .nil)))
      (.cons (.cons (.single [] .sysacct exSys) (.cons (.single [] .sysacct exSys) .nil)) .nil))
    = .ok () := by rfl
-- the FIRST failing element's error is reported (second array element: read-only and not a signer:
-- the inner `Mut` check comes before the outer `Signer` check)
example : validateD
    (.cons (.single [.signer, .wr] .info (mkA exKey systemId true true []))
      (.cons (.single [.signer, .wr] .info (mkA exKey systemId false false []))
        (.cons (.single [.signer, .wr] .info exSys) .nil)))
    = .error .expectedWritable := by rfl
-- the address check of a field runs before the field's own validation
example : validateD (.addr exProg (.boxed (.single [.signer] .info (mkA exKey systemId false false []))))
    = .error .addressMismatch := by rfl

-- `Vec<Seeded<Signer<…>>>` validated with a `Vec` of seeds: one argument short = `InvalidArgument`,
-- and with enough arguments a bad LAST element is still rejected
def exArgChain : ArgChain := { outer := [], inner := [.signer], base := .info }
example : decodeValidateArgs exArgChain .vecArgs 2 [exKey] [exSys, exSys] = .error .invalidArgument := by rfl
example : decodeValidateArgs exArgChain .vecArgs 2 [exKey, exKey, exProg] [exSys, exSys] = .ok () := by rfl
example : decodeValidateArgs exArgChain .vecArgs 2 [exKey, exKey]
    [exSys, mkA exKey systemId false false []] = .error .expectedSigner := by rfl

end Account.C09
