import Account.ValidateLemmas
/-!
# C08 — Program accounts are admitted iff owner and discriminant match

Property theorems only (model: `Account/Validate.lean`; helpers: `Account/ValidateLemmas.lean`).
All statements hold for EVERY discriminant width `W = t.disc.length` (not only 0,1,2,4,8,16), every
owner, every data length and every byte pattern.
-/
namespace Account.C08
open Common Account.Validate
open Account.Modifiers (Key32)

/-- Little-endian reading is injective on equally long byte strings: the one lemma behind every
integer-compare fast path (`u8/u16/u32/u64` discriminants, the 4×`u64` owner compare). -/
theorem le_injective {a b : List Nat} (hl : a.length = b.length) (ha : BytesWF a) (hb : BytesWF b) :
    rdLE a = rdLE b ↔ a = b := rdLE_eq_iff hl ha hb

/-- The width-specialised discriminant comparison is exactly "the first `W` bytes equal the
discriminant", for every width. -/
theorem disc_compare_exact {disc data : List Nat} (hd : BytesWF disc) (hdata : BytesWF data)
    (hlen : disc.length ≤ data.length) :
    discMatches disc data = true ↔ data.take disc.length = disc := discMatches_iff hd hdata hlen

/-- Admission: with the data not exclusively borrowed (or an empty discriminant),
`validate_account_info` succeeds iff the account is owned by the declaring program and its data
begins with exactly the type's discriminant (and is at least that long). -/
theorem admit_iff {t : PType} {a : Acct} (ht : TypeWF t) (ha : AcctWF a)
    (hb : a.borrow.canRead = true ∨ t.W = 0) :
    validateAccountInfo t a = .ok () ↔
      (a.owner = t.progId ∧ a.data.take t.W = t.disc ∧ t.W ≤ a.data.length) := by
  constructor
  · exact validate_ok_admit ht ha
  · intro hadm
    rcases validate_cases ht ha with h | h | h | h | h
    · exact h.1
    · have := hadm.2.2; omega
    · rcases hb with hb | hb
      · rw [hb] at h; cases h.2.2.2
      · omega
    · exact absurd hadm.2.1 h.2.2.2.2
    · exact absurd hadm.1 h.2.2.2

/-- Every rejection carries the error of the first failing check in the code's order: size, borrow,
discriminant, and only then owner (so a foreign-owned account with a wrong prefix reports the
discriminant, and a right prefix under a foreign owner reports the owner). -/
theorem reject_reason {t : PType} {a : Acct} {e : Err} (ht : TypeWF t) (ha : AcctWF a)
    (h : validateAccountInfo t a = .error e) :
    (e = .accountDataTooSmall ∧ 0 < t.W ∧ a.data.length < t.W) ∨
    (e = .accountBorrowFailed ∧ 0 < t.W ∧ t.W ≤ a.data.length ∧ a.borrow.canRead = false) ∨
    (e = .discriminantMismatch ∧ 0 < t.W ∧ t.W ≤ a.data.length ∧ a.borrow.canRead = true ∧
        a.data.take t.W ≠ t.disc) ∨
    (e = .invalidAccountOwner ∧ a.data.take t.W = t.disc ∧ t.W ≤ a.data.length ∧
        a.owner ≠ t.progId) := by
  rcases validate_cases ht ha with h1 | h1 | h1 | h1 | h1
  · rw [h1.1] at h; cases h
  · rw [h1.1] at h; cases h; exact Or.inl ⟨rfl, h1.2⟩
  · rw [h1.1] at h; cases h; exact Or.inr (Or.inl ⟨rfl, h1.2⟩)
  · rw [h1.1] at h; cases h; exact Or.inr (Or.inr (Or.inl ⟨rfl, h1.2⟩))
  · rw [h1.1] at h; cases h
    exact Or.inr (Or.inr (Or.inr ⟨rfl, h1.2.1.1, h1.2.1.2, h1.2.2.2⟩))

/-- No typed view without admission.
* `data()` on a writable account returns a view only if the account is admitted at that moment;
* `data_mut()` returns a view only for a writable account admitted at that moment;
* `data_mut()` on a non-writable account is an error;
* `data()` on a read-only account (which cannot have changed since `validate_accounts` admitted it:
  same owner, same data) still satisfies the admission condition;
* the view, when produced, is exactly the `body` bytes behind the discriminant. -/
theorem no_view_without_admit {t : PType} {a : Acct} (ht : TypeWF t) (ha : AcctWF a) :
    (∀ v, a.writable = true → dataView t a = .ok v → Admit t a) ∧
    (∀ v, dataMutView t a = .ok v → a.writable = true ∧ Admit t a) ∧
    (a.writable = false → dataMutView t a = .error .accountBorrowFailed) ∧
    (∀ v a0, a.writable = false → validateAccountInfo t a0 = .ok () → AcctWF a0 →
        a0.owner = a.owner → a0.data = a.data → dataView t a = .ok v → Admit t a) ∧
    (∀ v, (dataView t a = .ok v ∨ dataMutView t a = .ok v) →
        v = (a.data.drop t.W).take t.body ∧ t.W + t.body ≤ a.data.length) := by
  refine ⟨?_, ?_, ?_, ?_, ?_⟩
  · intro v hw h
    simp only [dataView, hw, if_true] at h
    cases hv : validateAccountInfo t a with
    | error e => rw [hv] at h; cases h
    | ok u => exact validate_ok_admit ht ha (by cases u; exact hv)
  · intro v h
    cases hw : a.writable with
    | false => simp [dataMutView, hw] at h
    | true =>
      simp only [dataMutView, hw, if_true] at h
      cases hv : validateAccountInfo t a with
      | error e => rw [hv] at h; cases h
      | ok u => exact ⟨rfl, validate_ok_admit ht ha (by cases u; exact hv)⟩
  · intro hw; simp [dataMutView, hw]
  · intro v a0 _ hv ha0 ho hd _
    have := validate_ok_admit ht ha0 hv
    unfold Admit at this ⊢
    rw [ho, hd] at this; exact this
  · intro v h
    have key : ∀ v, getPtr t a.data = .ok v →
        v = (a.data.drop t.W).take t.body ∧ t.W + t.body ≤ a.data.length := by
      intro v hg
      unfold getPtr at hg
      split at hg
      · cases hg
      · split at hg
        · cases hg
        · cases hg; exact ⟨rfl, by omega⟩
    have hs : ∀ v, sharedView t a = .ok v → getPtr t a.data = .ok v := by
      intro v h; unfold sharedView at h; split at h; cases h; exact h
    have hx : ∀ v, exclView t a = .ok v → getPtr t a.data = .ok v := by
      intro v h; unfold exclView at h; split at h; cases h; exact h
    rcases h with h | h
    · unfold dataView at h
      split at h
      · split at h
        · cases h
        · exact key v (hs v h)
      · exact key v (hs v h)
    · unfold dataMutView at h
      split at h
      · split at h
        · cases h
        · exact key v (hx v h)
      · cases h

/-- Re-validation on access: a writable account that is no longer admitted (owner reassigned, or
discriminant overwritten, e.g. through a CPI after `validate_accounts`) yields no view. -/
theorem revalidated_on_access {t : PType} {a : Acct} (ht : TypeWF t) (ha : AcctWF a)
    (hw : a.writable = true) (hn : ¬ Admit t a) :
    (∃ e, dataView t a = .error e) ∧ (∃ e, dataMutView t a = .error e) := by
  have h := no_view_without_admit ht ha
  constructor
  · cases hv : dataView t a with
    | error e => exact ⟨e, rfl⟩
    | ok v => exact absurd (h.1 v hw hv) hn
  · cases hv : dataMutView t a with
    | error e => exact ⟨e, rfl⟩
    | ok v => exact absurd (h.2.1 v hv).2 hn

/-- An account closed by the framework holds exactly `W` bytes of `0xFF` and no longer validates as
its type: for a non-empty discriminant other than the closed marker, validation reports
`DiscriminantMismatch` (whatever the owner), and a writable account yields no view. -/
theorem closed_rejected {t : PType} {a a' : Acct} (ht : TypeWF t) (ha : AcctWF a)
    (_hW : 0 < t.W) (hd : t.disc ≠ List.replicate t.W 255)
    (hc : closeAccount t a = .ok a') :
    a'.data = List.replicate t.W 255 ∧
    validateAccountInfo t a' = .error .discriminantMismatch ∧
    (a'.writable = true → (∃ e, dataView t a' = .error e) ∧ (∃ e, dataMutView t a' = .error e)) := by
  unfold closeAccount at hc
  cases hr : resize a t.W with
  | error e => rw [hr] at hc; cases hc
  | ok a1 =>
    rw [hr] at hc
    have hlen := resize_length hr
    have hfr := resize_frame hr
    cases hc
    have hdata : (List.replicate a1.data.length 255) = List.replicate t.W 255 := by rw [hlen]
    have hwf' : AcctWF { a1 with data := List.replicate a1.data.length 255 } := by
      refine ⟨?_, ?_⟩
      · show Key32 a1.owner
        rw [hfr.1]; exact ha.1
      · exact BytesWF_replicate (by omega)
    have hnadm : ¬ Admit t { a1 with data := List.replicate a1.data.length 255 } := by
      intro h
      have h2 := h.2.1
      simp only [hdata] at h2
      rw [List.take_of_length_le (by simp)] at h2
      exact hd h2.symm
    refine ⟨hdata, ?_, ?_⟩
    · rcases validate_cases ht hwf' with h | h | h | h | h
      · exact absurd h.2.1 hnadm
      · have := h.2.2; simp [hlen] at this
      · have hcr := canWrite_canRead hfr.2.2.2.2
        have := h.2.2.2
        simp only [hfr.2.2.1] at this
        rw [hcr] at this; cases this
      · exact h.1
      · have := h.2.1
        exfalso
        apply hd
        have h2 := this.1
        simp only [hdata] at h2
        rw [List.take_of_length_le (by simp)] at h2
        exact h2.symm
    · intro hw
      exact revalidated_on_access ht hwf' hw hnadm

/-! ## Non-vacuity: concrete non-trivial instances of the hypotheses and of each outcome -/

def exId : List Nat := (List.range 32).map (· + 1)
/-- A 3-byte discriminant: a width that takes the slice-compare path. -/
def exT3 : PType := { progId := exId, disc := [7, 8, 9], body := 2 }
/-- An 8-byte discriminant: the `u64` fast path. -/
def exT8 : PType := { progId := exId, disc := [1, 2, 3, 4, 5, 6, 7, 8], body := 2 }
def exA (owner data : List Nat) (w : Bool) : Acct :=
  { owner, data, writable := w, borrow := Borrow.free, orig := data.length }

example : TypeWF exT3 ∧ TypeWF exT8 ∧ AcctWF (exA exId [7, 8, 9, 10, 11] true) := by
  refine ⟨⟨⟨by decide, by decide⟩, by decide⟩, ⟨⟨by decide, by decide⟩, by decide⟩,
    ⟨⟨by decide, by decide⟩, by decide⟩⟩
example : validateAccountInfo exT3 (exA exId [7, 8, 9, 10, 11] true) = .ok () := by rfl
example : validateAccountInfo exT8 (exA exId [1, 2, 3, 4, 5, 6, 7, 8, 0, 0] false) = .ok () := by rfl
-- a deviation in the last byte of the u64 path is seen (a u32 read would miss it)
example : validateAccountInfo exT8 (exA exId [1, 2, 3, 4, 5, 6, 7, 9, 0, 0] false)
    = .error .discriminantMismatch := by rfl
example : validateAccountInfo exT8 (exA (List.replicate 32 0) [1, 2, 3, 4, 5, 6, 7, 8] false)
    = .error .invalidAccountOwner := by rfl
example : validateAccountInfo exT3 (exA exId [7, 8] true) = .error .accountDataTooSmall := by rfl
example : dataView exT3 (exA exId [7, 8, 9, 10, 11] true) = .ok [10, 11] := by rfl
example : dataMutView exT3 (exA exId [7, 8, 9, 10, 11] false) = .error .accountBorrowFailed := by rfl
example : closeAccount exT3 (exA exId [7, 8, 9, 10, 11] true)
    = .ok { (exA exId [7, 8, 9, 10, 11] true) with data := [255, 255, 255] } := by rfl

end Account.C08
