import Account.RentLemmas
/-!
# C13 — Rent adjustment and close meet their postconditions and conserve lamports

Model: `Account/Rent.lean` over `Account/World.lean` / `Account/Init.lean`. Balances are `Nat`s;
the `u64` additions of the code (`add_lamports`, the System program's credit) are modelled with
their overflow outcome (panic / `ArithmeticOverflow`) and shown unreachable under the hypothesis
that the total supply of the listed accounts is below `2^64`. `other` is the funder (normalize /
receive) or the recipient (refund / close); it is distinct from the account being cleaned up.
-/
namespace Account.C13
open Common Account.World Account.Init Account.Rent

variable (env : Env) (f : Funder) (tgt : Key) (s : St)

/-- `normalize_post`: on success the data is untouched; an account with lamports ends with exactly
the rent-exempt minimum for its size; an account with zero lamports is left alone (world and log
unchanged). -/
theorem normalize_post (hne : f.key ≠ tgt) (h : (normalizeRent env f tgt s).1 = .ok ()) :
    ((normalizeRent env f tgt s).2.w tgt).data = (s.w tgt).data ∧
    ((normalizeRent env f tgt s).2.w tgt).owner = (s.w tgt).owner ∧
    ((s.w tgt).lamports > 0 →
      ((normalizeRent env f tgt s).2.w tgt).lamports = env.rentMin (s.w tgt).data.length) ∧
    ((s.w tgt).lamports = 0 → (normalizeRent env f tgt s).2 = s) := by
  have hne' : tgt ≠ f.key := fun e => hne e.symm
  unfold normalizeRent at h ⊢
  simp only [] at h ⊢
  by_cases h1 : env.rentMin (s.w tgt).data.length = (s.w tgt).lamports
  · rw [if_pos h1]; exact ⟨rfl, rfl, fun _ => h1.symm, fun _ => rfl⟩
  · rw [if_neg h1] at h ⊢
    by_cases h2 : env.rentMin (s.w tgt).data.length > (s.w tgt).lamports
    · rw [if_pos h2] at h ⊢
      by_cases h3 : (s.w tgt).lamports = 0
      · rw [if_pos h3]; exact ⟨rfl, rfl, fun h => by omega, fun _ => rfl⟩
      · rw [if_neg h3] at h ⊢
        rcases fundRent_world env f tgt (env.rentMin (s.w tgt).data.length - (s.w tgt).lamports) s with ⟨hn, _⟩ | ⟨_, hw, _⟩
        · exact absurd h hn
        · rw [hw, move_data, move_owner, move_dst _ _ hne]
          exact ⟨rfl, rfl, fun _ => by omega, fun h0 => absurd h0 h3⟩
    · rw [if_neg h2] at h ⊢
      unfold addLamports at h ⊢
      simp only [] at h ⊢
      split at h
      · cases h
      · rename_i hov
        rw [if_neg hov]
        simp only []
        rw [setLamports_other _ _ hne', setLamports_same]
        refine ⟨rfl, rfl, fun _ => ?_, fun h0 => by omega⟩
        simp only []; omega

/-- `refund_post` (full strength, after the repair 519a31c): on success the data is untouched; the
account is left with AT LEAST the rent-exempt minimum, or it had zero lamports and is left alone
(state unchanged); precisely, it keeps `min lamports₀ rentMin`; the recipient gains exactly what the
account lost — the excess over the minimum, and nothing when there is none. -/
theorem refund_post (r : Key) (hne : r ≠ tgt) (h : (refundRent env r tgt s).1 = .ok ()) :
    ((refundRent env r tgt s).2.w tgt).data = (s.w tgt).data ∧
    (((refundRent env r tgt s).2.w tgt).lamports ≥ env.rentMin (s.w tgt).data.length ∨
      ((s.w tgt).lamports = 0 ∧ (refundRent env r tgt s).2 = s)) ∧
    ((refundRent env r tgt s).2.w tgt).lamports = min (s.w tgt).lamports (env.rentMin (s.w tgt).data.length) ∧
    ((refundRent env r tgt s).2.w r).lamports
      = (s.w r).lamports + ((s.w tgt).lamports - env.rentMin (s.w tgt).data.length) := by
  have hne' : tgt ≠ r := fun e => hne e.symm
  unfold refundRent at h ⊢
  simp only [] at h ⊢
  by_cases h1 : env.rentMin (s.w tgt).data.length = (s.w tgt).lamports
  · rw [if_pos h1]
    exact ⟨rfl, Or.inl (by simp only []; omega), by simp only []; omega, by simp only []; omega⟩
  · rw [if_neg h1] at h ⊢
    by_cases h2 : env.rentMin (s.w tgt).data.length > (s.w tgt).lamports
    · rw [if_pos h2] at h ⊢
      by_cases h3 : (s.w tgt).lamports = 0
      · rw [if_pos h3]
        exact ⟨rfl, Or.inr ⟨h3, rfl⟩, by simp only []; omega, by simp only []; omega⟩
      · rw [if_neg h3] at h; cases h
    · rw [if_neg h2] at h ⊢
      unfold addLamports at h ⊢
      simp only [] at h ⊢
      split at h
      · cases h
      · rename_i hov
        rw [if_neg hov]
        simp only []
        rw [setLamports_other _ _ hne', setLamports_same, setLamports_same, setLamports_other _ _ hne]
        refine ⟨rfl, Or.inl ?_, ?_, ?_⟩ <;> simp only [] <;> omega

/-- `receive_post`: on success the data is untouched; an account with zero lamports is left alone;
otherwise the account ends with `max lamports₀ rentMin` — only ever the shortfall is added — and
the funder pays exactly that shortfall. -/
theorem receive_post (hne : f.key ≠ tgt) (h : (receiveRent env f tgt s).1 = .ok ()) :
    ((receiveRent env f tgt s).2.w tgt).data = (s.w tgt).data ∧
    ((s.w tgt).lamports = 0 → (receiveRent env f tgt s).2 = s) ∧
    ((s.w tgt).lamports > 0 →
      ((receiveRent env f tgt s).2.w tgt).lamports = max (s.w tgt).lamports (env.rentMin (s.w tgt).data.length) ∧
      ((receiveRent env f tgt s).2.w f.key).lamports
        + (env.rentMin (s.w tgt).data.length - (s.w tgt).lamports) = (s.w f.key).lamports) := by
  unfold receiveRent at h ⊢
  simp only [] at h ⊢
  by_cases h2 : env.rentMin (s.w tgt).data.length > (s.w tgt).lamports
  · rw [if_pos h2] at h ⊢
    by_cases h3 : (s.w tgt).lamports = 0
    · rw [if_pos h3]; exact ⟨rfl, fun _ => rfl, fun h => by omega⟩
    · rw [if_neg h3] at h ⊢
      rcases fundRent_world env f tgt (env.rentMin (s.w tgt).data.length - (s.w tgt).lamports) s with ⟨hn, _⟩ | ⟨_, hw, hle⟩
      · exact absurd h hn
      · rw [hw, move_data, move_dst _ _ hne, move_src _ _ hne]
        exact ⟨rfl, fun h0 => absurd h0 h3, fun _ => ⟨by omega, by omega⟩⟩
  · rw [if_neg h2]
    exact ⟨rfl, fun _ => rfl, fun _ => ⟨by simp only []; omega, by simp only []; omega⟩⟩

/-- `close_post`: on success the recipient gains the entire balance, the account is left with zero
lamports and its data is the discriminant-sized closed marker `0xFF…`. -/
theorem close_post (W : Nat) (r : Key) (hne : r ≠ tgt) (h : (closeAccount W r tgt s).1 = .ok ()) :
    ((closeAccount W r tgt s).2.w r).lamports = (s.w r).lamports + (s.w tgt).lamports ∧
    ((closeAccount W r tgt s).2.w tgt).lamports = 0 ∧
    ((closeAccount W r tgt s).2.w tgt).data = List.replicate W 255 ∧
    ((closeAccount W r tgt s).2.w tgt).owner = (s.w tgt).owner := by
  have hne' : tgt ≠ r := fun e => hne e.symm
  rcases closeAccount_cases W r tgt s with ⟨e, _⟩ | ⟨e, _⟩
  · rw [e] at h; cases h
  · rw [e]
    simp only []
    rw [setLamports_other _ _ hne, setLamports_same, setLamports_same, setLamports_other _ _ hne',
      markClosed_tgt, markClosed_other _ _ hne]
    exact ⟨rfl, rfl, rfl, rfl⟩

/-- `conservation`: for each of the four operations and whatever the outcome, the sum of lamports
over any duplicate-free list of accounts containing the account and the funder / recipient is
unchanged, provided that sum is below `2^64`; under the same hypothesis no `u64` addition wraps
(no panic). -/
theorem conservation (W : Nat) (op : CleanOp) (ks : List Key) (hnd : ks.Nodup) (ht : tgt ∈ ks)
    (ho : f.key ∈ ks) (hne : f.key ≠ tgt) (hsum : total ks s.w < 2 ^ 64) :
    total ks (runOp env W op f tgt s).2.w = total ks s.w ∧ (runOp env W op f tgt s).1 ≠ .panic := by
  have hne' : tgt ≠ f.key := fun e => hne e.symm
  have fund : ∀ n, total ks (fundRent env f tgt n s).2.w = total ks s.w ∧ (fundRent env f tgt n s).1 ≠ .panic := by
    intro n
    refine ⟨?_, fundRent_not_panic env f tgt n s⟩
    rcases fundRent_world env f tgt n s with ⟨_, hw⟩ | ⟨_, hw, hle⟩
    · rw [hw]
    · rw [hw, total_move ks s.w f.key tgt n hnd ho ht hle]
  have direct : ∀ n, n ≤ (s.w tgt).lamports →
      total ks (addLamports f.key n { s with w := setLamports s.w tgt ((s.w tgt).lamports - n) }).2.w = total ks s.w ∧
      (addLamports f.key n { s with w := setLamports s.w tgt ((s.w tgt).lamports - n) }).1 ≠ .panic := by
    intro n hn
    rw [debit_credit f.key tgt n s ks hnd ht ho hne hn hsum]
    exact ⟨total_move ks s.w tgt f.key n hnd ht ho hn, by simp⟩
  cases op with
  | normalize =>
    simp only [runOp, normalizeRent]
    split; · exact ⟨rfl, by simp⟩
    split
    · split
      · exact ⟨rfl, by simp⟩
      · exact fund _
    · exact direct _ (by omega)
  | refund =>
    simp only [runOp, refundRent]
    split; · exact ⟨rfl, by simp⟩
    split
    · split <;> exact ⟨rfl, by simp⟩
    · exact direct _ (by omega)
  | receive =>
    simp only [runOp, receiveRent]
    split
    · split
      · exact ⟨rfl, by simp⟩
      · exact fund _
    · exact ⟨rfl, by simp⟩
  | close =>
    simp only [runOp]
    have hle := add_le_total ks s.w f.key tgt hnd ho ht hne
    rcases closeAccount_cases W f.key tgt s with ⟨_, hov⟩ | ⟨e, _⟩
    · rw [markClosed_other _ _ hne] at hov; omega
    · rw [e]
      refine ⟨?_, by simp⟩
      -- credit the recipient, then zero the account: a `move` of the whole balance
      have e2 : setLamports (setLamports (markClosed W tgt s.w) f.key
            (((markClosed W tgt s.w) f.key).lamports + (s.w tgt).lamports)) tgt 0
          = move (markClosed W tgt s.w) tgt f.key (s.w tgt).lamports := by
        funext k
        by_cases hk1 : k = tgt
        · subst hk1
          simp [move, setLamports, World.set, hne', markClosed]
        · by_cases hk2 : k = f.key
          · subst hk2
            simp [move, setLamports, World.set, hk1, markClosed]
          · simp [move, setLamports, World.set, hk1, hk2, markClosed]
      show total ks (setLamports _ tgt 0) = _
      rw [e2, total_move ks _ tgt f.key _ hnd ht ho (by rw [markClosed_tgt]; simp), total_markClosed W tgt s.w ks hnd]

/-- Conservation through the cleanup wiring of `Account<T>` and `BorshAccount<T>` (explicit
argument, cache hit, cache miss; borsh serialization before / after the cache lookup). -/
theorem conservation_cleanup (ty : AcctType) (op : CleanOp) (who : Who) (cached : Option (List Nat))
    (ks : List Key) (hnd : ks.Nodup) (ht : tgt ∈ ks)
    (hwho : ∀ f, who.resolve = some f → f.key ∈ ks ∧ f.key ≠ tgt) (hsum : total ks s.w < 2 ^ 64) :
    total ks (cleanupZc env ty.W op who tgt s).2.w = total ks s.w ∧
    total ks (cleanupBorsh env ty op who tgt cached s).2.w = total ks s.w := by
  have hser := total_serializeBorsh env ty tgt cached s.w ks hnd
  have run : ∀ f, who.resolve = some f → ∀ o,
      total ks (runOp env ty.W o f tgt s).2.w = total ks s.w ∧
      total ks (runOp env ty.W o f tgt { s with w := serializeBorsh env ty tgt cached s.w }).2.w = total ks s.w := by
    intro f hf o
    obtain ⟨hk, hne⟩ := hwho f hf
    refine ⟨(conservation env f tgt s ty.W o ks hnd ht hk hne hsum).1, ?_⟩
    rw [(conservation env f tgt { s with w := serializeBorsh env ty tgt cached s.w } ty.W o ks hnd ht hk hne
      (by show total ks (serializeBorsh env ty tgt cached s.w) < _; rw [hser]; exact hsum)).1]
    exact hser
  cases who with
  | arg f =>
    have r := run f rfl
    cases op <;> simp only [cleanupZc, cleanupBorsh] <;> first | exact ⟨(r _).1, (r _).2⟩ | exact ⟨(r _).1, (r _).1⟩
  | cached c =>
    cases c with
    | none => cases op <;> simp only [cleanupZc, cleanupBorsh] <;> first | exact ⟨rfl, rfl⟩ | exact ⟨rfl, hser⟩ | exact ⟨trivial, trivial⟩ | exact ⟨trivial, hser⟩ | simp [hser]
    | some f =>
      have r := run f rfl
      cases op <;> simp only [cleanupZc, cleanupBorsh] <;> first | exact ⟨(r _).1, (r _).2⟩ | exact ⟨(r _).1, (r _).1⟩

/-- `no_u64_wrap`: where the code adds `u64`s — `add_lamports` (`+=`, a panic under the repo's
`overflow-checks = true`) in the excess paths of normalize / refund and in close, and the System
program's `checked_add` credit (`ArithmeticOverflow`) in the top-up paths of normalize / receive —
neither outcome is reachable when the listed accounts' total is below `2^64`. (The subtractions
`rent - lamports` / `lamports - rent` are taken in the branch where they cannot underflow.) -/
theorem no_u64_wrap (W : Nat) (op : CleanOp) (ks : List Key) (hnd : ks.Nodup) (ht : tgt ∈ ks)
    (ho : f.key ∈ ks) (hne : f.key ≠ tgt) (hsum : total ks s.w < 2 ^ 64) :
    (runOp env W op f tgt s).1 ≠ .panic ∧ (runOp env W op f tgt s).1 ≠ .err (.sys .arithmeticOverflow) := by
  refine ⟨(conservation env f tgt s W op ks hnd ht ho hne hsum).2, ?_⟩
  have hle := add_le_total ks s.w f.key tgt hnd ho ht hne
  have fund : ∀ n, (fundRent env f tgt n s).1 ≠ .err (.sys .arithmeticOverflow) := by
    intro n h
    have := invoke_err_sys h
    simp only [sys] at this
    exact transfer_no_overflow hne (by omega) this
  have direct : ∀ n, n ≤ (s.w tgt).lamports →
      (addLamports f.key n { s with w := setLamports s.w tgt ((s.w tgt).lamports - n) }).1 ≠ .err (.sys .arithmeticOverflow) := by
    intro n hn
    rw [debit_credit f.key tgt n s ks hnd ht ho hne hn hsum]; simp
  cases op with
  | normalize =>
    simp only [runOp, normalizeRent]
    split; · simp
    split
    · split
      · simp
      · exact fund _
    · exact direct _ (by omega)
  | refund =>
    simp only [runOp, refundRent]
    split; · simp
    split
    · split <;> simp
    · exact direct _ (by omega)
  | receive =>
    simp only [runOp, receiveRent]
    split
    · split
      · simp
      · exact fund _
    · simp
  | close =>
    simp only [runOp]
    rcases closeAccount_cases W f.key tgt s with ⟨e, _⟩ | ⟨e, _⟩ <;> rw [e] <;> simp

/-- `excess_is_returned`: an account holding MORE than its rent minimum is always normalised /
refunded successfully — no signature, no funder balance is needed, however large the excess (up to
a total supply of `2^64 − 1`): it ends with exactly the minimum and the counterpart is credited the
excess. -/
theorem excess_is_returned (ks : List Key) (hnd : ks.Nodup) (ht : tgt ∈ ks)
    (ho : f.key ∈ ks) (hne : f.key ≠ tgt) (hsum : total ks s.w < 2 ^ 64)
    (hex : (s.w tgt).lamports > env.rentMin (s.w tgt).data.length) :
    normalizeRent env f tgt s = (.ok (), { s with w := move s.w tgt f.key ((s.w tgt).lamports - env.rentMin (s.w tgt).data.length) }) ∧
    refundRent env f.key tgt s = (.ok (), { s with w := move s.w tgt f.key ((s.w tgt).lamports - env.rentMin (s.w tgt).data.length) }) := by
  have d := debit_credit f.key tgt ((s.w tgt).lamports - env.rentMin (s.w tgt).data.length) s ks hnd ht ho hne (by omega) hsum
  constructor
  · unfold normalizeRent
    simp only []
    rw [if_neg (by omega), if_neg (by omega)]; exact d
  · unfold refundRent
    simp only []
    rw [if_neg (by omega), if_neg (by omega)]; exact d

/-- `only_named_accounts_change`: whatever the operation and its outcome, every account other than
the one being cleaned up and the funder / recipient is untouched byte for byte; the three rent
operations never touch the data of any account, and only the lamports of the two named ones. -/
theorem only_named_accounts_change (W : Nat) (op : CleanOp) (k : Key) (hk1 : k ≠ tgt) (hk2 : k ≠ f.key) :
    (runOp env W op f tgt s).2.w k = s.w k := by
  have fund : ∀ n, (fundRent env f tgt n s).2.w k = s.w k := by
    intro n
    rcases fundRent_world env f tgt n s with ⟨_, hw⟩ | ⟨_, hw, _⟩
    · rw [hw]
    · rw [hw, move_other _ _ hk2 hk1]
  have direct : ∀ n, (addLamports f.key n { s with w := setLamports s.w tgt ((s.w tgt).lamports - n) }).2.w k = s.w k := by
    intro n
    rcases addLamports_world f.key n { s with w := setLamports s.w tgt ((s.w tgt).lamports - n) } with e | e
    · rw [e]; exact setLamports_other _ _ hk1
    · rw [e, setLamports_other _ _ hk2]; exact setLamports_other _ _ hk1
  cases op with
  | normalize =>
    simp only [runOp, normalizeRent]
    split; · rfl
    split
    · split
      · rfl
      · exact fund _
    · exact direct _
  | refund =>
    simp only [runOp, refundRent]
    split; · rfl
    split
    · split <;> rfl
    · exact direct _
  | receive =>
    simp only [runOp, receiveRent]
    split
    · split
      · rfl
      · exact fund _
    · rfl
  | close =>
    simp only [runOp]
    rcases closeAccount_cases W f.key tgt s with ⟨e, _⟩ | ⟨e, _⟩
    · rw [e]; exact markClosed_other _ _ hk1
    · rw [e]
      show (setLamports _ tgt 0) k = _
      rw [setLamports_other _ _ hk1, setLamports_other _ _ hk2]; exact markClosed_other _ _ hk1

/-- The rent operations never change any account's data or owner. -/
theorem rent_ops_keep_data (op : CleanOp) (hop : op ≠ .close) (W : Nat) (k : Key) :
    ((runOp env W op f tgt s).2.w k).data = (s.w k).data ∧
    ((runOp env W op f tgt s).2.w k).owner = (s.w k).owner := by
  have fund : ∀ n, ((fundRent env f tgt n s).2.w k).data = (s.w k).data ∧
      ((fundRent env f tgt n s).2.w k).owner = (s.w k).owner := by
    intro n
    rcases fundRent_world env f tgt n s with ⟨_, hw⟩ | ⟨_, hw, _⟩
    · rw [hw]; exact ⟨rfl, rfl⟩
    · rw [hw, move_data, move_owner]; exact ⟨rfl, rfl⟩
  have direct : ∀ n, ((addLamports f.key n { s with w := setLamports s.w tgt ((s.w tgt).lamports - n) }).2.w k).data = (s.w k).data ∧
      ((addLamports f.key n { s with w := setLamports s.w tgt ((s.w tgt).lamports - n) }).2.w k).owner = (s.w k).owner := by
    intro n
    rcases addLamports_world f.key n { s with w := setLamports s.w tgt ((s.w tgt).lamports - n) } with e | e
    · rw [e, setLamports_data, setLamports_owner]; exact ⟨rfl, rfl⟩
    · rw [e, setLamports_data, setLamports_owner, setLamports_data, setLamports_owner]; exact ⟨rfl, rfl⟩
  cases op with
  | normalize =>
    simp only [runOp, normalizeRent]
    split; · exact ⟨rfl, rfl⟩
    split
    · split
      · exact ⟨rfl, rfl⟩
      · exact fund _
    · exact direct _
  | refund =>
    simp only [runOp, refundRent]
    split; · exact ⟨rfl, rfl⟩
    split
    · split <;> exact ⟨rfl, rfl⟩
    · exact direct _
  | receive =>
    simp only [runOp, receiveRent]
    split
    · split
      · exact ⟨rfl, rfl⟩
      · exact fund _
    · exact ⟨rfl, rfl⟩
  | close => exact absurd rfl hop

/-- Top-ups go through exactly one System `Transfer` signed with the funder's seeds (none for a
plain signer); the direct-write paths issue no CPI. -/
theorem topup_is_one_signed_transfer (n : Nat) :
    (fundRent env f tgt n s).2.log = s.log ++ [{ ix := .transfer f.key tgt n, seeds := f.seeds.toList }] :=
  fundRent_log env f tgt n s

/-- A missing cache entry is reported and nothing happens (zero-copy accounts). -/
theorem cached_missing_errs (W : Nat) (op : CleanOp) :
    cleanupZc env W op (.cached none) tgt s = (.err op.missing, s) := rfl

/-- A derived account set that marks one field `funder` and another `recipient` (either declaration
order): after its validation, `CloseAccount(())` / `RefundRent(())` pay the DECLARED recipient and
`NormalizeRent(())` / `ReceiveRent(())` draw on the DECLARED funder — the cleanup is exactly the
explicit-argument operation on that account, so the account that is neither the target nor the
declared counterpart keeps its balance. -/
theorem derived_set_uses_declared_accounts (ty : AcctType) (order : Order) (op : CleanOp)
    (fk rk : Key)
    (hv : (runSet env ty order op fk rk tgt s).1 = .ok ()) :
    runSet env ty order op fk rk tgt s =
      runOp env ty.W op { key := if op = .normalize ∨ op = .receive then fk else rk, seeds := none } tgt s ∧
    ∀ k, k ≠ tgt → k ≠ (if op = .normalize ∨ op = .receive then fk else rk) →
      (runSet env ty order op fk rk tgt s).2.w k = s.w k := by
  have key : runSet env ty order op fk rk tgt s =
      runOp env ty.W op { key := if op = .normalize ∨ op = .receive then fk else rk, seeds := none } tgt s := by
    unfold runSet at hv ⊢
    simp only [] at hv ⊢
    split at hv; · cases hv
    split at hv; · cases hv
    split at hv; · cases hv
    cases op <;> simp [cleanupZc, cachedAfterValidate]
  refine ⟨key, fun k hk1 hk2 => ?_⟩
  rw [key]
  exact only_named_accounts_change env _ tgt s ty.W op k hk1 hk2

/-- `cache_last_set_wins`: the context cache holds the funder / recipient that was set LAST (any
history of earlier `set_*` calls is overwritten), the two slots do not influence each other, and a
cached-form cleanup is exactly the explicit-argument operation on that last-set account. -/
theorem cache_last_set_wins (c : Cache) (l : List Funder) (b : Funder) (W : Nat) (op : CleanOp) :
    ((l ++ [b]).foldl Cache.setFunder c).funder = some b ∧
    ((l ++ [b]).foldl Cache.setRecipient c).recipient = some b ∧
    ((l ++ [b]).foldl Cache.setFunder c).recipient = c.recipient ∧
    ((l ++ [b]).foldl Cache.setRecipient c).funder = c.funder ∧
    ((op = .normalize ∨ op = .receive) →
      cleanupZc env W op (((l ++ [b]).foldl Cache.setFunder c).who op) tgt s = runOp env W op b tgt s) ∧
    ((op = .refund ∨ op = .close) →
      cleanupZc env W op (((l ++ [b]).foldl Cache.setRecipient c).who op) tgt s = runOp env W op b tgt s) := by
  have hf : ∀ (l : List Funder) (c : Cache), (l.foldl Cache.setFunder c).recipient = c.recipient := by
    intro l; induction l with
    | nil => intro c; rfl
    | cons x xs ih => intro c; simp only [List.foldl_cons]; rw [ih]; rfl
  have hr : ∀ (l : List Funder) (c : Cache), (l.foldl Cache.setRecipient c).funder = c.funder := by
    intro l; induction l with
    | nil => intro c; rfl
    | cons x xs ih => intro c; simp only [List.foldl_cons]; rw [ih]; rfl
  have h1 : ((l ++ [b]).foldl Cache.setFunder c).funder = some b := by
    simp [List.foldl_append, Cache.setFunder]
  have h2 : ((l ++ [b]).foldl Cache.setRecipient c).recipient = some b := by
    simp [List.foldl_append, Cache.setRecipient]
  refine ⟨h1, h2, hf _ c, hr _ c, ?_, ?_⟩
  · intro ho
    rcases ho with e | e <;> subst e <;> simp only [Cache.who, h1, cleanupZc]
  · intro ho
    rcases ho with e | e <;> subst e <;> simp only [Cache.who, h2, cleanupZc]

/-- `refund_zero_left_alone`: refunding an account with zero lamports (e.g. closed earlier in the
same instruction) is `Ok` and changes nothing — whatever the rent minimum. -/
theorem refund_zero_left_alone (r : Key) (h0 : (s.w tgt).lamports = 0) :
    refundRent env r tgt s = (.ok (), s) := by
  unfold refundRent
  simp only []
  by_cases h1 : env.rentMin (s.w tgt).data.length = (s.w tgt).lamports
  · rw [if_pos h1]
  · rw [if_neg h1, if_pos (by omega), if_pos h0]

/-- `refund_below_min_errs`: an account holding `0 < lamports < rentMin` cannot be refunded from:
`InsufficientFunds`, nothing changes (D13 — formerly answered `Ok` — repaired by 519a31c). -/
theorem refund_below_min_errs (r : Key) (hpos : 0 < (s.w tgt).lamports)
    (hlt : (s.w tgt).lamports < env.rentMin (s.w tgt).data.length) :
    refundRent env r tgt s = (.err .insufficientFunds, s) := by
  unfold refundRent
  simp only []
  rw [if_neg (by omega), if_pos hlt, if_neg (by omega)]

/-! ## Non-vacuity -/

section Examples

def exEnv : Env :=
  { program := [7], H := fun _ _ => none, rentMin := fun n => 10 * n,
    isSigner := fun k => k == [1], isWritable := fun _ => true }
def exW (lam : Nat) : World := fun k =>
  if k = [1] then { lamports := 1000, owner := systemId, data := [] }
  else if k = [2] then { lamports := lam, owner := [7], data := [1, 2, 3, 4] }
  else { lamports := 0, owner := systemId, data := [] }
def exF : Funder := { key := [1], seeds := none }

/-- below the minimum (40): topped up through a Transfer CPI -/
example : ((normalizeRent exEnv exF [2] { w := exW 15, log := [] }).2.w [2]).lamports = 40 := by decide
example : (normalizeRent exEnv exF [2] { w := exW 15, log := [] }).2.log =
    [{ ix := .transfer [1] [2] 25, seeds := [] }] := by decide
/-- above the minimum: the excess goes to the funder by direct writes, no CPI -/
example : ((normalizeRent exEnv exF [2] { w := exW 90, log := [] }).2.w [1]).lamports = 1050 := by decide
example : (normalizeRent exEnv exF [2] { w := exW 90, log := [] }).2.log = [] := by decide
/-- refund below the minimum (15 < 40): `InsufficientFunds`, balance untouched; zero lamports: `Ok` -/
example : (refundRent exEnv [1] [2] { w := exW 15, log := [] }).1 = .err .insufficientFunds ∧
    ((refundRent exEnv [1] [2] { w := exW 15, log := [] }).2.w [2]).lamports = 15 := by decide
example : (refundRent exEnv [1] [2] { w := exW 0, log := [] }).1 = .ok () := by decide
/-- refund above the minimum: exactly the excess (50) moves to the recipient -/
example : ((refundRent exEnv [1] [2] { w := exW 90, log := [] }).2.w [2]).lamports = 40 ∧
    ((refundRent exEnv [1] [2] { w := exW 90, log := [] }).2.w [1]).lamports = 1050 := by decide
/-- close: everything to the recipient, 2 marker bytes left -/
example : ((closeAccount 2 [1] [2] { w := exW 90, log := [] }).2.w [2]) =
    { lamports := 0, owner := [7], data := [255, 255] } := by decide

end Examples

end Account.C13
