import Account.SetsLemmas
/-!
# C14 — Client, on-chain decode and CPI views of an instruction agree

Property theorems only (model: `Account/Sets.lean`; helpers: `Account/SetsLemmas.lean`).
Every theorem quantifies over ALL shapes built from the framework's building blocks (single accounts
with any static flags / fixed address, `Option`, `Vec`, arrays, `Box`, nested structs, `Rest`), all
client values of that shape and all accounts — the proofs go by induction on the shape.
-/
namespace Account.C14
open Common Account.Sets

/-- **decode ∘ client = id.** For every shape `s`, client value `v` and decode argument `arg` that
`fits` (i.e. `v` has the shape's type, `arg` carries `v`'s vector lengths, and the explicit side
conditions hold: a *present* optional's metas are non-empty and do not start with the program id;
`Rest` only in tail position with elements that use ≥ 1 account), and for every list of accounts
carrying the keys of `clientMetas v` (followed by any `tail`; empty if the shape ends in a `Rest`):
decode consumes **exactly** those `|clientMetas v|` accounts, in order, returns the tail untouched,
and yields a well-typed set denoting `v` (`toClient sv = resolve v`: same present/absent choices —
absent optionals decode as absent —, same lengths, same keys with defaults filled in). If moreover
the accounts have at least the metas' signer/writable flags and no explicit key contradicts a fixed
address, and the static meta of every single account covers what its validation checks
(`metaCovers`, see `meta_override_witness`), validation passes. -/
theorem decode_client_roundtrip (pid : Key) (s : SetShape) (arg : DecodeArg) (v : ClientVal)
    (accts tail : List Acct)
    (hfits : fits pid s arg v = true)
    (hkeys : All2 KeyEq accts (clientMetas pid s v))
    (htail : restFree s = true ∨ tail = []) :
    ∃ sv, decode pid s arg (accts ++ tail) = .ok (sv, tail) ∧
      accts.length = (clientMetas pid s v).length ∧
      svTyped s sv = true ∧
      toClient s sv = resolve s v ∧
      (metaCovers s = true → addrOk s v = true → All2 Covers accts (clientMetas pid s v) →
        validate s sv = .ok ()) := by
  obtain ⟨sv, h1, h2, h3, h4⟩ := rt_all pid s arg v accts tail hfits hkeys htail
  exact ⟨sv, h1, hkeys.length_eq, h2, h3, h4⟩

/-- The first side condition is inherent in the placeholder encoding: whatever the client meant, an
optional whose first account carries the program id decodes as absent and consumes that one
account (so an absent optional — encoded as the program id — decodes as absent, and a *present*
optional whose key equals the program id does too). An empty account list also decodes as absent. -/
theorem placeholder_decodes_absent (pid : Key) (s : SetShape) (arg : DecodeArg) (a : Acct)
    (r : List Acct) (h : a.key = pid) :
    decode pid (.opt s) arg (a :: r) = .ok (.absent, r) ∧ decode pid (.opt s) arg [] = .ok (.absent, []) := by
  simp [decode, h]

/-- The other side conditions are needed too: a `Rest` that is not last swallows the accounts of
the fields after it (here: `struct { r: Rest<AccountInfo>, z: AccountInfo }`, one rest element). -/
theorem rest_not_last_witness :
    let s := SetShape.struct [.rest (.single false false none []), .single false false none []]
    let v := ClientVal.many [.many [.key (some [1])], .key (some [2])]
    let accts : List Acct := [⟨[1], false, false⟩, ⟨[2], false, false⟩]
    All2 KeyEq accts (clientMetas [9] s v) ∧
    decode [9] s (.fields [.unit, .unit]) accts = .error .notEnough := by
  exact ⟨.cons rfl (.cons rfl .nil), rfl⟩

/-- **Instruction data.** `dispatch` on `discriminant_i ++ ser x` selects instruction `i` and its
deserializer gets back `x` (borsh is a parameter: any `de`/`ser` with `de (ser x) = some x`). The
discriminants are pairwise distinct 8-byte strings (the generated `match` has one arm each). -/
theorem data_roundtrip {α : Type} (ser : α → List Nat) (de : List Nat → Option α)
    (hde : ∀ x, de (ser x) = some x)
    (table : List (List Nat)) (hnd : table.Nodup) (hlen : ∀ d ∈ table, d.length = 8)
    (i : Nat) (hi : i < table.length) (x : α) :
    (dispatch table (ixData table[i] (ser x))).map (fun jp => (jp.1, de jp.2)) = some (i, some x) := by
  rw [dispatch_ok table hnd hlen i hi]
  simp [hde]

/-- The borsh assumption discharged for the argument types of the harness instructions: decode
arguments (`()`, `(usize, T)`, `[T; N]`, structs of those — any nesting) and
`RunArgs { a: u8, b: u64, c: bool, d: Vec<u8> }`. -/
theorem data_roundtrip_harness (ty : ArgTy) (arg : DecodeArg) (run : RunArgs)
    (harg : hasTy ty arg = true) (hrange : argInRange arg = true) (hrun : run.WF) (rest : List Nat) :
    (deArg ty (serArg arg ++ serRun run ++ rest)).bind (fun ar => (deRun ar.2).map (fun rr => (ar.1, rr.1, rr.2)))
      = some (arg, run, rest) := by
  rw [List.append_assoc, deArg_serArg ty arg _ harg hrange]
  simp [deRun_serRun run hrun rest]

/-- **CPI view = client view.** For every well-typed decoded set `sv` of every shape:
1. the CPI metas are the client metas of the value `sv` denotes — same keys, same order, same flags
   (so they do not depend on the runtime flags of the accounts);
2. given the program's account `p`, exactly one info is written per meta, with the meta's key
   (`p` standing in for absent optionals), so `|infos| = |metas|` = both indices written;
3. the builder does pass `p` whenever it is needed (`ContainsOption`; true for arrays of optionals
   too since /repo cf061c0 — before that fix this clause failed, see `notes/C14.md`);
4. a set whose `AccountLen` is not the dynamic sentinel writes exactly `AccountLen` accounts;
5. no meta asks for a privilege other than the static `SingleSetMeta` of one of the set's single
   accounts (or none at all, for placeholders). -/
theorem cpi_matches_client (pid : Key) (p : Acct) (hp : p.key = pid) (s : SetShape) (sv : SetVal)
    (hty : svTyped s sv = true) :
    cpiMetas pid s sv = clientMetas pid s (toClient s sv) ∧
    (∃ infos, cpiInfos (some p) s sv = .ok infos ∧ infos.length = (cpiMetas pid s sv).length ∧
      infos.map (·.key) = (cpiMetas pid s sv).map (·.key)) ∧
    cpiInfos (if containsOption s then some p else none) s sv = cpiInfos (some p) s sv ∧
    (accountLen s < dynLen → (cpiMetas pid s sv).length = accountLen s) ∧
    (∀ m ∈ cpiMetas pid s sv, (m.signer, m.writable) ∈ (false, false) :: staticFlags s) := by
  refine ⟨cpiMetas_eq_client pid s sv hty, ?_, ?_, cpiMetas_length_fixed pid s sv hty, ?_⟩
  · obtain ⟨l, h1, h2⟩ := cpiInfos_some p s sv hty
    rw [hp] at h2
    exact ⟨l, h1, by simpa using congrArg List.length h2, h2⟩
  · cases hc : containsOption s with
    | true => simp
    | false => simpa using cpiInfos_optFree p s sv (optFree_of_containsOption_false s hc)
  · intro m hm
    rw [cpiMetas_eq_client pid s sv hty] at hm
    exact clientMetas_flags pid s _ m hm

/-- **The CPI view is independent of the runtime flags of the supplied infos.** The decoded set the
CPI is built from has the live `is_signer` / `is_writable` of every account as an input (the fields of
`Acct` in the leaves of `sv`); replacing them by ANY other values (`reflag g`, `g` arbitrary — e.g. the
caller's fee payer, signer and writable in the outer transaction, sitting in a read-only slot) changes
neither the CPI metas (keys, order, flags: still exactly the client metas of the denoted value), nor the
number and keys of the infos. So a `write_account_metas` that copies a flag from the supplied info is
a violation for every slot whose static meta does not have that flag. -/
theorem cpi_independent_of_runtime_flags (pid : Key) (p : Acct) (hp : p.key = pid) (s : SetShape)
    (sv : SetVal) (hty : svTyped s sv = true) (g : Acct → Bool × Bool) :
    cpiMetas pid s (reflag g s sv) = cpiMetas pid s sv ∧
    cpiMetas pid s (reflag g s sv) = clientMetas pid s (toClient s sv) ∧
    (∀ infos infos', cpiInfos (some p) s sv = .ok infos → cpiInfos (some p) s (reflag g s sv) = .ok infos' →
      infos'.map (·.key) = infos.map (·.key)) := by
  obtain ⟨hty', hcl⟩ := reflag_spec g s sv hty
  have h1 := cpiMetas_eq_client pid s sv hty
  have h2 := cpiMetas_eq_client pid s _ hty'
  rw [hcl] at h2
  refine ⟨by rw [h1, h2], h2, ?_⟩
  intro infos infos' hi hi'
  obtain ⟨l, hl, hk⟩ := cpiInfos_some p s sv hty
  obtain ⟨l', hl', hk'⟩ := cpiInfos_some p s _ hty'
  rw [hl] at hi; rw [hl'] at hi'
  cases hi; cases hi'
  rw [hk, hk', hp, h1, h2]

/-- What `CpiBuilder::invoke_signed` hands to the runtime, for every shape whose `AccountLen` has a
`HandleCpiArray` impl: the client metas, as many infos, and a declared
array length that is met exactly for fixed-size sets and is 64 (≥ what is written) for dynamic ones. -/
theorem cpi_view (pid : Key) (p : Acct) (hp : p.key = pid) (s : SetShape) (sv : SetVal)
    (hty : svTyped s sv = true) (d : Nat) (hd : declaredLen s = some d)
    (hroom : (cpiMetas pid s sv).length ≤ d) :
    ∃ view, cpi pid (some p) s sv = .ok view ∧ view.metas = clientMetas pid s (toClient s sv) ∧
      view.infos.length = view.metas.length ∧ view.declared = d ∧
      (accountLen s < dynLen → view.metas.length = d) := by
  obtain ⟨hm, ⟨infos, hi, hil, _⟩, hprog, hfix, _⟩ := cpi_matches_client pid p hp s sv hty
  refine ⟨{ metas := cpiMetas pid s sv, infos := infos, declared := d }, ?_, hm, hil, rfl, ?_⟩
  · have : ¬ (d < infos.length ∨ d < (cpiMetas pid s sv).length) := by omega
    simp only [cpi, hd, hprog, hi, if_neg this]
  · intro hl
    simp only [declaredLen] at hd
    have hne : accountLen s ≠ dynLen := by omega
    rw [if_neg hne] at hd
    split at hd
    · simp only [Option.some.injEq] at hd; rw [← hd]; exact hfix hl
    · simp at hd

/-- Regression for the defect fixed in /repo cf061c0 (`[T; N]` used to declare
`ContainsOption = False`): `struct { a: [Option<AccountInfo>; 1] }` with the element absent now
gets the program account and its CPI carries the client's placeholder meta. -/
theorem cpi_array_option_regression :
    let s := SetShape.struct [.arr 1 (.opt (.single false false none []))]
    let sv := SetVal.many [.many [.absent]]
    svTyped s sv = true ∧ containsOption s = true ∧
    (cpi [9] (some ⟨[9], false, false⟩) s sv).toOption.map (fun w => (w.metas, w.infos.length, w.declared))
      = some (clientMetas [9] s (toClient s sv), 1, 1) :=
  ⟨rfl, rfl, rfl⟩

/-- `metaCovers` is needed: if a single account's static meta lacks a flag its validation checks,
the client builds an instruction that its own program rejects — accounts carrying exactly the
client metas' flags fail validation. (This was the state of `MaybeSigner<false, Signer<T>>` /
`MaybeMut<false, Mut<T>>` before the /repo fix of their `SingleSetMeta`: meta `signer = false` over
an inner `check_signer`; it remains possible with a hand-written `#[single_account_set(meta = …)]`.) -/
theorem meta_override_witness :
    let s := SetShape.single false false none [.signer]
    let v := ClientVal.key (some [1])
    metaCovers s = false ∧ clientMetas [9] s v = [⟨[1], false, false⟩] ∧
    (decode [9] s .unit [⟨[1], false, false⟩]).toOption.map (fun r => validate s r.1)
      = some (.error .signer) :=
  ⟨rfl, rfl, rfl⟩

/-- **All three views, end to end.** The instruction the client builds for `(arg, run, v)` —
`discriminant_i ++ borsh(arg) ++ borsh(run)` with metas `clientMetas v` — goes through the program's
own entry path (dispatch, borsh, decode, validate) on any accounts that carry the metas' keys with at
least the metas' privileges (static metas covering the validation checks): every account is used, none is left, the decoded set denotes `v`,
validation passes, the run arguments come back, and the CPI metas of the decoded set are the client
metas again. -/
theorem entry_accepts_client (table : List (List Nat)) (hnd : table.Nodup)
    (hlen : ∀ d ∈ table, d.length = 8) (i : Nat) (hi : i < table.length)
    (pid : Key) (s : SetShape) (ty : ArgTy) (arg : DecodeArg) (v : ClientVal) (run : RunArgs)
    (accts : List Acct)
    (hfits : fits pid s arg v = true) (harg : hasTy ty arg = true) (hrange : argInRange arg = true)
    (hrun : run.WF) (hmeta : metaCovers s = true) (haddr : addrOk s v = true)
    (hcov : All2 Covers accts (clientMetas pid s v)) :
    ∃ sv, entry table i pid s ty (ixData table[i] (serArg arg ++ serRun run)) accts =
        .ok { used := (clientMetas pid s v).length, rem := 0, val := sv, v := .ok (), args := run } ∧
      toClient s sv = resolve s v ∧ cpiMetas pid s sv = clientMetas pid s v := by
  obtain ⟨sv, hd, hl, hty, hcl, hval⟩ :=
    decode_client_roundtrip pid s arg v accts [] hfits (hcov.mono (fun _ _ h => h.keyEq)) (Or.inr rfl)
  refine ⟨sv, ?_, hcl, ?_⟩
  · have hde := deArg_serArg ty arg (serRun run) harg hrange
    have hdr := deRun_serRun run hrun []
    simp only [List.append_nil] at hdr hd
    simp only [entry, dispatch_ok table hnd hlen i hi, hde, hdr, hd, hval hmeta haddr hcov]
    simp [hl]
  · rw [cpiMetas_eq_client pid s sv hty, hcl, clientMetas_resolve pid s v (fits_typed pid s arg v hfits)]

/-- **`split_to_args` hands every phase exactly the annotated fields' values.** For an instruction
struct with fields `vals` annotated `anns` (any number of fields, annotated or not, in any order —
in particular tuple structs, where the accessor is the positional `r.<i>`), phase `ph` receives the
whole struct if the struct itself is annotated, followed by the values of precisely the fields
annotated with `ph`, in declaration order. -/
theorem split_to_args_selects (ph : Phase) (selfAnn : List Phase) (anns : List (List Phase))
    (vals : List Nat) (h : anns.length = vals.length) :
    splitPhase ph selfAnn anns vals = (if ph ∈ selfAnn then [vals] else []) ++
      ((anns.zip vals).filter (fun p => decide (ph ∈ p.1))).map (fun p => [p.2]) :=
  splitPhase_eq ph selfAnn anns vals h

/-- End to end for the tuple-struct harness instructions (`u8` fields, account set
`{ v: Vec<AccountInfo> }` with the decode argument as length): if exactly one field is annotated
`decode` (value `d`, stated through `split_to_args_selects`' right-hand side) and the client sends
`d` accounts, the entry path decodes exactly those `d` accounts and every other phase gets its
annotated fields' values. -/
theorem tuple_ix_entry (table : List (List Nat)) (hnd : table.Nodup) (hlen : ∀ d ∈ table, d.length = 8)
    (i : Nat) (hi : i < table.length) (pid : Key) (selfAnn : List Phase) (anns : List (List Phase))
    (vals : List Nat) (h : anns.length = vals.length) (d : Nat) (accts : List Acct)
    (hself : Phase.decode ∉ selfAnn)
    (hd : ((anns.zip vals).filter (fun p => decide (Phase.decode ∈ p.1))).map (·.2) = [d])
    (hacc : accts.length = d) :
    entryTuple table i pid selfAnn anns (ixData table[i] vals) accts =
      .ok { used := d, rem := 0, decoded := d,
            validate := splitPhase .validate selfAnn anns vals,
            run := splitPhase .run selfAnn anns vals,
            cleanup := splitPhase .cleanup selfAnn anns vals } := by
  have hsplit : splitPhase .decode selfAnn anns vals = [[d]] := by
    rw [splitPhase_eq _ _ _ _ h, if_neg hself]
    have := congrArg (List.map (fun x : Nat => [x])) hd
    simpa [List.map_map] using this
  have hdv : deVals anns.length (vals ++ []) = some (vals, []) := by rw [h]; exact deVals_append vals []
  simp only [List.append_nil] at hdv
  subst hacc
  simp [entryTuple, dispatch_ok table hnd hlen i hi, hdv, hsplit, decode_spy]

/-! ### Non-vacuity: the hypotheses are satisfiable and the conclusions are not trivially true -/

/-- the probe set `{ a: Mut<Signer>, opt: Option<AccountInfo>, inner: { x: Signer, y: Option<Mut<_>> },
prog: Program<System>, arr: [Mut<_>; 2], rest: Rest<Signer> }` with `opt` absent, `y` present, one
rest element: it fits, 7 metas, and decoding accounts with those keys gives back the value. -/
def exShape : SetShape :=
  .struct [.single true true none [.signer, .writable], .opt (.single false false none []),
    .struct [.single true false none [.signer], .opt (.single false true none [.writable])],
    .single false false (some [0]) [], .arr 2 (.single false true none [.writable]),
    .rest (.single true false none [.signer])]
def exVal : ClientVal :=
  .many [.key (some [1]), .absent, .many [.key (some [3]), .present (.key (some [4]))], .key none,
    .many [.key (some [5]), .key (some [6])], .many [.key (some [10])]]
def exArg : DecodeArg := .fields [.unit, .unit, .fields [.unit, .unit], .unit, .unit, .unit]

example : fits [9] exShape exArg exVal = true ∧ addrOk exShape exVal = true ∧ metaCovers exShape = true ∧
    (clientMetas [9] exShape exVal).map (·.key) = [[1], [9], [3], [4], [0], [5], [6], [10]] ∧
    argOf exShape exVal = exArg := ⟨rfl, rfl, rfl, rfl, rfl⟩

example : (decode [9] exShape exArg ((clientMetas [9] exShape exVal).map
      (fun m => { key := m.key, signer := m.signer, writable := m.writable }))).toOption.map
      (fun r => (toClient exShape r.1, r.2.length)) = some (resolve exShape exVal, 0) := rfl

/-- per-element decode arguments: `{ v: Vec<Vec<AccountInfo>> }` decoded with a `[(usize, ()); 2]` argument
(ragged inner lengths 2 and 0) -/
example : fits [9] (.vec (.vec (.single false false none []))) (.each [.len 2 .unit, .len 0 .unit])
      (.many [.many [.key (some [1]), .key (some [2])], .many []]) = true ∧
    deArg (.each 2 (.len .unit)) (serArg (.each [.len 2 .unit, .len 0 .unit]) ++ [7]) =
      some (.each [.len 2 .unit, .len 0 .unit], [7]) := ⟨rfl, rfl⟩

/-- the round trip is not a tautology: a present optional whose key is the program id violates `fits` … -/
example : fits [9] (.opt (.single false false none [])) .unit (.present (.key (some [9]))) = false := by decide
/-- … and indeed decodes as absent. -/
example : decode [9] (.opt (.single false false none [])) .unit [⟨[9], false, false⟩] = .ok (.absent, []) := rfl

/-- the data round trip's hypotheses hold for real borsh-like codecs (here: the harness types) -/
example : deRun (serRun ⟨7, 300, true, [1, 2]⟩ ++ [5]) = some (⟨7, 300, true, [1, 2]⟩, [5]) := by decide
example : dispatch [[1,1,1,1,1,1,1,1], [2,2,2,2,2,2,2,2]] (ixData [2,2,2,2,2,2,2,2] [7]) = some (1, [7]) := by decide

/-- `Distribute(u8 /*version*/, #[ix_args(decode)] u8, #[ix_args(run)] u8)`: decode gets field 1, run field 2
(not fields 0 and 1, which is what indexing among the annotated fields only would give) -/
example : splitPhase .decode [] [[], [.decode], [.run]] [7, 2, 9] = [[2]] ∧
    splitPhase .run [] [[], [.decode], [.run]] [7, 2, 9] = [[9]] ∧
    splitPhase .validate [] [[], [.decode], [.run]] [7, 2, 9] = [] ∧
    splitPhase .run [.run] [[], [.decode], []] [7, 2, 9] = [[7, 2, 9]] := by decide

/-- a signer + writable account (the fee payer) decoded into a plain read-only slot: the CPI meta stays `0/0` -/
example : cpiMetas [9] (.single false false none []) (.acct ⟨[1], true, true⟩) = [⟨[1], false, false⟩] ∧
    reflag (fun _ => (true, true)) (.single false false none []) (.acct ⟨[1], false, false⟩) = .acct ⟨[1], true, true⟩ :=
  ⟨rfl, rfl⟩

/-- fixed-size vs dynamic declared lengths -/
example : declaredLen (.struct [.arr 2 (.single false true none [.writable]), .opt (.single true false none [.signer])]) = some 3 ∧
    declaredLen exShape = some 64 ∧ declaredLen (.arr 70 (.single false false none [])) = none := by decide

end Account.C14
