import Account.Init
import Account.WorldLemmas
/-! Lemmas about `invoke`, `systemCreateAccount`, `initAccount`, `initValidate` (C12). -/
namespace Account.Init
open Common Account.World

/-! ## `move` facts -/

theorem move_owner (w : World) (a b k : Key) (n : Nat) : ((move w a b n) k).owner = (w k).owner := by
  unfold move setLamports World.set
  by_cases h1 : k = b <;> by_cases h2 : k = a <;> by_cases h3 : b = a <;> simp_all

theorem move_data (w : World) (a b k : Key) (n : Nat) : ((move w a b n) k).data = (w k).data := by
  unfold move setLamports World.set
  by_cases h1 : k = b <;> by_cases h2 : k = a <;> by_cases h3 : b = a <;> simp_all

theorem move_dst (w : World) {a b : Key} (n : Nat) (h : a ≠ b) :
    ((move w a b n) b).lamports = (w b).lamports + n := by
  have hb : b ≠ a := fun e => h e.symm
  simp [move, setLamports, World.set, hb]

theorem move_src (w : World) {a b : Key} (n : Nat) (h : a ≠ b) :
    ((move w a b n) a).lamports = (w a).lamports - n := by
  simp [move, setLamports, World.set, h]

/-! ## `invoke` -/

theorem invoke_log (env : Env) (c : Cpi) (s : St) : (invoke env c s).2.log = s.log ++ [c] := by
  unfold invoke
  simp only []
  split
  · rfl
  · split
    · rfl
    · split <;> rfl

/-- A CPI either leaves the world alone (failure) or is a successful System instruction. -/
theorem invoke_world (env : Env) (c : Cpi) (s : St) :
    ((invoke env c s).1 ≠ .ok () ∧ (invoke env c s).2.w = s.w) ∨
    ((invoke env c s).1 = .ok () ∧ sys c.ix c.ix.metaSigners s.w = .ok (invoke env c s).2.w) := by
  unfold invoke
  simp only []
  split
  · left; exact ⟨by simp, rfl⟩
  · split
    · left; exact ⟨by simp, rfl⟩
    · split
      · left; exact ⟨by simp, rfl⟩
      · rename_i h; right; exact ⟨rfl, h⟩

/-- A System-program error answered by a CPI is the error of the System instruction itself. -/
theorem invoke_err_sys {env : Env} {c : Cpi} {s : St} {e : SysErr}
    (h : (invoke env c s).1 = .err (.sys e)) : sys c.ix c.ix.metaSigners s.w = .error e := by
  unfold invoke at h
  simp only [] at h
  split at h; · cases h
  split at h; · cases h
  split at h
  · rename_i e' he; injection h with h; injection h with h; rw [← h]; exact he
  · cases h

theorem invoke_ok {env : Env} {c : Cpi} {s : St} (h : (invoke env c s).1 = .ok ()) :
    sys c.ix c.ix.metaSigners s.w = .ok (invoke env c s).2.w := by
  rcases invoke_world env c s with ⟨h1, _⟩ | ⟨_, h2⟩
  · exact absurd h h1
  · exact h2

theorem invoke_total (env : Env) (c : Cpi) (s : St) (ks : List Key) (hnd : ks.Nodup)
    (hin : ∀ k ∈ c.ix.accounts, k ∈ ks) : total ks (invoke env c s).2.w = total ks s.w := by
  rcases invoke_world env c s with ⟨_, h⟩ | ⟨_, h⟩
  · rw [h]
  · exact sys_conserves c.ix _ s.w _ ks hnd hin h

theorem invoke_frame (env : Env) (c : Cpi) (s : St) (k : Key) (hk : k ∉ c.ix.accounts) :
    (invoke env c s).2.w k = s.w k := by
  rcases invoke_world env c s with ⟨_, h⟩ | ⟨_, h⟩
  · rw [h]
  · exact sys_frame c.ix _ s.w _ k hk h

/-! ## `systemCreateAccount` -/

/-- The signer seeds each kind of CPI must carry. -/
def wellSigned (f : Funder) (acctSeeds : Option (List (List Nat))) (c : Cpi) : Prop :=
  match c.ix with
  | .createAccount _ _ _ _ _ => c.seeds = f.seeds.toList ++ acctSeeds.toList
  | .transfer _ _ _ => c.seeds = f.seeds.toList
  | .allocate _ _ => c.seeds = acctSeeds.toList
  | .assign _ _ => c.seeds = acctSeeds.toList

/-- Only the funder and the target are instruction accounts of the CPIs issued. -/
def touches (f : Funder) (tgt : Key) (c : Cpi) : Prop := ∀ k ∈ c.ix.accounts, k = f.key ∨ k = tgt

/-- Everything `systemCreateAccount` guarantees whatever its outcome. -/
structure SCAInv (env : Env) (f : Funder) (tgt : Key) (acctSeeds : Option (List (List Nat)))
    (s s' : St) : Prop where
  log : ∃ l, s'.log = s.log ++ l ∧ ∀ c ∈ l, wellSigned f acctSeeds c ∧ touches f tgt c
  total : ∀ ks : List Key, ks.Nodup → f.key ∈ ks → tgt ∈ ks → World.total ks s'.w = World.total ks s.w
  frame : ∀ k, k ≠ f.key → k ≠ tgt → s'.w k = s.w k

theorem SCAInv.refl (env : Env) (f : Funder) (tgt : Key) (a : Option (List (List Nat))) (s : St) :
    SCAInv env f tgt a s s :=
  ⟨⟨[], by simp, by simp⟩, fun _ _ _ _ => rfl, fun _ _ _ => rfl⟩

theorem SCAInv.step {env : Env} {f : Funder} {tgt : Key} {a : Option (List (List Nat))} {s s1 : St}
    (h : SCAInv env f tgt a s s1) (c : Cpi) (hs : wellSigned f a c) (ht : touches f tgt c) :
    SCAInv env f tgt a s (invoke env c s1).2 := by
  obtain ⟨⟨l, hl, hall⟩, htot, hfr⟩ := h
  refine ⟨⟨l ++ [c], ?_, ?_⟩, ?_, ?_⟩
  · rw [invoke_log, hl, List.append_assoc]
  · intro c' hc'
    rcases List.mem_append.mp hc' with h | h
    · exact hall c' h
    · simp only [List.mem_singleton] at h; subst h; exact ⟨hs, ht⟩
  · intro ks hnd hf ht'
    rw [invoke_total env c s1 ks hnd (fun k hk => by rcases ht k hk with e | e <;> simp [e, hf, ht']),
      htot ks hnd hf ht']
  · intro k hkf hkt
    rw [invoke_frame env c s1 k (fun hk => by rcases ht k hk with e | e <;> simp_all), hfr k hkf hkt]

theorem systemCreateAccount_inv (env : Env) (f : Funder) (tgt owner : Key) (space : Nat)
    (a : Option (List (List Nat))) (s : St) :
    SCAInv env f tgt a s (systemCreateAccount env f tgt owner space a s).2 := by
  unfold systemCreateAccount
  simp only []
  split
  · exact (SCAInv.refl env f tgt a s).step _ (by simp [wellSigned]) (by simp [touches, SysIx.accounts])
  · have h1 : SCAInv env f tgt a s
        (if max (env.rentMin space) 1 - (s.w tgt).lamports > 0 then
          fundRent env f tgt (max (env.rentMin space) 1 - (s.w tgt).lamports) s else (Res.ok (), s)).2 := by
      split
      · exact (SCAInv.refl env f tgt a s).step _ (by simp [wellSigned]) (by simp [touches, SysIx.accounts])
      · exact SCAInv.refl env f tgt a s
    generalize (if max (env.rentMin space) 1 - (s.w tgt).lamports > 0 then
          fundRent env f tgt (max (env.rentMin space) 1 - (s.w tgt).lamports) s else (Res.ok (), s)) = r1 at h1
    split
    · rename_i s1
      have h2 := h1.step { ix := .allocate tgt space, seeds := a.toList } (by simp [wellSigned])
        (by simp [touches, SysIx.accounts])
      split
      · rename_i s2 he
        have e2 : (invoke env { ix := .allocate tgt space, seeds := a.toList } s1).2 = s2 := by rw [he]
        rw [e2] at h2
        exact h2.step _ (by simp [wellSigned]) (by simp [touches, SysIx.accounts])
      · exact h2
    · exact h1

/-- What a successful `systemCreateAccount` did (funder distinct from the target). -/
theorem systemCreateAccount_ok {env : Env} {f : Funder} {tgt owner : Key} {space : Nat}
    {a : Option (List (List Nat))} {s : St} (hne : f.key ≠ tgt)
    (h : (systemCreateAccount env f tgt owner space a s).1 = .ok ()) :
    (s.w tgt).owner = systemId ∧ (s.w tgt).data = [] ∧
    (systemCreateAccount env f tgt owner space a s).2.w tgt =
      { lamports := (s.w tgt).lamports + (env.rentMin space - (s.w tgt).lamports), owner := owner,
        data := List.replicate space 0 } ∧
    ((systemCreateAccount env f tgt owner space a s).2.w f.key).lamports + (env.rentMin space - (s.w tgt).lamports)
      = (s.w f.key).lamports := by
  have hne' : tgt ≠ f.key := fun e => hne e.symm
  unfold systemCreateAccount at h ⊢
  simp only [] at h ⊢
  split at h
  · -- one CreateAccount
    rename_i hcur
    rw [if_pos hcur]
    have hs := invoke_ok h
    simp only [sys, createAccount] at hs
    split at hs; · cases hs
    split at hs; · cases hs
    rename_i w1 h1
    split at hs; · cases hs
    rename_i w2 h2
    obtain ⟨e1, hd, ho, -⟩ := allocate_ok h1
    have e2 := assign_ok h2
    obtain ⟨e3, hn, -, -⟩ := transfer_ok hs
    have hw2f : w2 f.key = s.w f.key := by rw [e2, set_other _ _ hne, e1, set_other _ _ hne]
    have hw2t : w2 tgt = { lamports := (s.w tgt).lamports, owner := owner, data := List.replicate space 0 } := by
      rw [e2, set_same, e1, set_same]
    refine ⟨ho, hd, ?_, ?_⟩
    · rw [e3]
      have hl := move_dst w2 (env.rentMin space) hne
      have ho' := move_owner w2 f.key tgt tgt (env.rentMin space)
      have hd' := move_data w2 f.key tgt tgt (env.rentMin space)
      rw [hw2t] at hl ho' hd'
      generalize (move w2 f.key tgt (env.rentMin space)) tgt = x at hl ho' hd'
      cases x; simp_all
    · rw [e3, move_src w2 _ hne, hw2f, hcur]
      rw [hw2f] at hn; omega
  · rename_i hcur
    rw [if_neg hcur]
    split at h
    · rename_i s1 hr1
      split at h
      · rename_i s2 hr2
        have hal : (invoke env { ix := .allocate tgt space, seeds := a.toList } s1).1 = .ok () := by rw [hr2]
        have hs2 : (invoke env { ix := .allocate tgt space, seeds := a.toList } s1).2 = s2 := by rw [hr2]
        have ha := invoke_ok hal
        rw [hs2] at ha
        obtain ⟨ea, hd1, ho1, -⟩ := allocate_ok ha
        have eas := assign_ok (invoke_ok h)
        -- the optional transfer
        have key : (s1.w tgt).owner = (s.w tgt).owner ∧ (s1.w tgt).data = (s.w tgt).data ∧
            (s1.w tgt).lamports = (s.w tgt).lamports + (env.rentMin space - (s.w tgt).lamports) ∧
            (s1.w f.key).lamports + (env.rentMin space - (s.w tgt).lamports) = (s.w f.key).lamports := by
          split at hr1
          · rename_i hreq
            have hf : (fundRent env f tgt (max (env.rentMin space) 1 - (s.w tgt).lamports) s).1 = .ok () := by rw [hr1]
            have hs1 : (fundRent env f tgt (max (env.rentMin space) 1 - (s.w tgt).lamports) s).2 = s1 := by rw [hr1]
            have ht := invoke_ok hf
            unfold fundRent at hs1
            rw [hs1] at ht
            obtain ⟨et, hn, -, -⟩ := transfer_ok ht
            rw [et, move_owner, move_data, move_dst _ _ hne, move_src _ _ hne]
            refine ⟨rfl, rfl, ?_, ?_⟩ <;> omega
          · rename_i hreq
            injection hr1 with _ hs1
            subst hs1
            refine ⟨rfl, rfl, ?_, ?_⟩ <;> omega
        obtain ⟨ko, kd, kl, kf⟩ := key
        refine ⟨by rw [← ko]; exact ho1, by rw [← kd]; exact hd1, ?_, ?_⟩
        · rw [eas, set_same, ea, set_same]; simp [kl]
        · rw [eas, set_other _ _ hne, ea, set_other _ _ hne]; exact kf
      · rename_i hr2
        exact absurd (Prod.ext h rfl : invoke env { ix := .allocate tgt space, seeds := a.toList } s1 =
          (Res.ok (), (invoke env { ix := .allocate tgt space, seeds := a.toList } s1).2)) (hr2 _)
    · rename_i hr1
      exact (hr1 _ (Prod.ext h rfl)).elim


/-- A successful `systemCreateAccount` means the target was System-owned and empty (no assumption
on the funder: the self-funding case is included). -/
theorem systemCreateAccount_ok_pre {env : Env} {f : Funder} {tgt owner : Key} {space : Nat}
    {a : Option (List (List Nat))} {s : St}
    (h : (systemCreateAccount env f tgt owner space a s).1 = .ok ()) :
    (s.w tgt).owner = systemId ∧ (s.w tgt).data = [] := by
  unfold systemCreateAccount at h
  simp only [] at h
  split at h
  · have hs := invoke_ok h
    simp only [sys, createAccount] at hs
    split at hs; · cases hs
    split at hs; · cases hs
    rename_i w1 h1
    obtain ⟨-, hd, ho, -⟩ := allocate_ok h1
    exact ⟨ho, hd⟩
  · split at h
    · rename_i s1 hr1
      split at h
      · rename_i s2 hr2
        have hal : (invoke env { ix := .allocate tgt space, seeds := a.toList } s1).1 = .ok () := by rw [hr2]
        obtain ⟨-, hd1, ho1, -⟩ := allocate_ok (invoke_ok hal)
        have key : (s1.w tgt).owner = (s.w tgt).owner ∧ (s1.w tgt).data = (s.w tgt).data := by
          split at hr1
          · have hf : (fundRent env f tgt (max (env.rentMin space) 1 - (s.w tgt).lamports) s).1 = .ok () := by rw [hr1]
            have hs1 : (fundRent env f tgt (max (env.rentMin space) 1 - (s.w tgt).lamports) s).2 = s1 := by rw [hr1]
            have ht := invoke_ok hf
            unfold fundRent at hs1
            rw [hs1] at ht
            obtain ⟨et, -, -, -⟩ := transfer_ok ht
            rw [et, move_owner, move_data]; exact ⟨rfl, rfl⟩
          · injection hr1 with _ hs1
            subst hs1; exact ⟨rfl, rfl⟩
        exact ⟨by rw [← key.1]; exact ho1, by rw [← key.2]; exact hd1⟩
      · rename_i hr2
        exact absurd (Prod.ext h rfl : invoke env { ix := .allocate tgt space, seeds := a.toList } s1 =
          (Res.ok (), (invoke env { ix := .allocate tgt space, seeds := a.toList } s1).2)) (hr2 _)
    · rename_i hr1
      exact (hr1 _ (Prod.ext h rfl)).elim

/-- Rewriting the target's data (balance untouched) keeps the invariant. -/
theorem SCAInv.setData {env : Env} {f : Funder} {tgt : Key} {a : Option (List (List Nat))} {s s1 : St}
    (h : SCAInv env f tgt a s s1) (x : Acct) (hx : x.lamports = (s1.w tgt).lamports) :
    SCAInv env f tgt a s { s1 with w := s1.w.set tgt x } := by
  obtain ⟨hl, htot, hfr⟩ := h
  refine ⟨hl, ?_, ?_⟩
  · intro ks hnd hf ht
    show World.total ks (s1.w.set tgt x) = _
    rw [total_set_eq ks s1.w tgt x hnd hx, htot ks hnd hf ht]
  · intro k hkf hkt
    show (s1.w.set tgt x) k = _
    rw [set_other _ _ hkt, hfr k hkf hkt]

theorem initGo_inv (env : Env) (ty : AcctType) (tgt : Key) (f : Funder)
    (a : Option (List (List Nat))) (enc : List Nat) (s : St) :
    SCAInv env f tgt a s (initGo env ty tgt f a enc s).2 := by
  unfold initGo
  split
  · exact SCAInv.refl env f tgt a s
  · have h := systemCreateAccount_inv env f tgt env.program (ty.W + enc.length) a s
    split
    · rename_i s1 he
      rw [he] at h
      split
      · split
        · exact h
        · exact h.setData _ rfl
      · split
        · exact h
        · exact h.setData _ rfl
    · rename_i e s1 he; rw [he] at h; exact h
    · rename_i s1 he; rw [he] at h; exact h

theorem initAccount_inv (env : Env) (ty : AcctType) (ifn : Bool) (tgt : Key) (f : Funder)
    (a : Option (List (List Nat))) (enc : List Nat) (s : St) :
    SCAInv env f tgt a s (initAccount env ty ifn tgt f a enc s).2 := by
  unfold initAccount
  split
  · split
    · exact initGo_inv ..
    · split
      · exact SCAInv.refl ..
      · split
        · exact initGo_inv ..
        · exact SCAInv.refl ..
  · exact initGo_inv ..

/-- `initGo` never answers `ok false`. -/
theorem initGo_not_false (env : Env) (ty : AcctType) (tgt : Key) (f : Funder)
    (a : Option (List (List Nat))) (enc : List Nat) (s : St) :
    (initGo env ty tgt f a enc s).1 ≠ .ok false := by
  unfold initGo
  split; · simp
  split
  · split <;> split <;> simp
  · simp
  · simp

/-- What a successful `initGo` did. -/
theorem initGo_ok {env : Env} {ty : AcctType} {tgt : Key} {f : Funder}
    {a : Option (List (List Nat))} {enc : List Nat} {s : St} {b : Bool}
    (h : (initGo env ty tgt f a enc s).1 = .ok b) :
    b = true ∧ env.isWritable tgt = true ∧ (s.w tgt).owner = systemId ∧ (s.w tgt).data = [] ∧
    (f.key ≠ tgt →
      (initGo env ty tgt f a enc s).2.w tgt =
        { lamports := (s.w tgt).lamports + (env.rentMin (ty.W + enc.length) - (s.w tgt).lamports),
          owner := env.program,
          data := match ty.kind with
            | .zc => ty.disc ++ enc
            | .borsh => ty.disc ++ List.replicate enc.length 0 } ∧
      ((initGo env ty tgt f a enc s).2.w f.key).lamports + (env.rentMin (ty.W + enc.length) - (s.w tgt).lamports)
        = (s.w f.key).lamports) := by
  unfold initGo at h ⊢
  split at h; · cases h
  rename_i hw
  rw [if_neg hw]
  have hw' : env.isWritable tgt = true := by simpa using hw
  split at h
  · rename_i s1 he
    have hok : (systemCreateAccount env f tgt env.program (ty.W + enc.length) a s).1 = .ok () := by rw [he]
    have hs1 : (systemCreateAccount env f tgt env.program (ty.W + enc.length) a s).2 = s1 := by rw [he]
    obtain ⟨ho, hd⟩ := systemCreateAccount_ok_pre hok
    have post : f.key ≠ tgt → s1.w tgt =
          { lamports := (s.w tgt).lamports + (env.rentMin (ty.W + enc.length) - (s.w tgt).lamports),
            owner := env.program, data := List.replicate (ty.W + enc.length) 0 } ∧
        (s1.w f.key).lamports + (env.rentMin (ty.W + enc.length) - (s.w tgt).lamports) = (s.w f.key).lamports := by
      intro hne
      obtain ⟨-, -, p1, p2⟩ := systemCreateAccount_ok hne hok
      rw [hs1] at p1 p2
      exact ⟨p1, p2⟩
    split at h
    · rename_i hk
      split at h; · cases h
      rename_i hlen
      rw [if_neg hlen]
      injection h with h
      refine ⟨h.symm, hw', ho, hd, fun hne => ?_⟩
      obtain ⟨p1, p2⟩ := post hne
      refine ⟨?_, ?_⟩
      · show (s1.w.set tgt _) tgt = _
        rw [set_same, p1]
        simp [AcctType.W, hk]
      · show ((s1.w.set tgt _) f.key).lamports + _ = _
        rw [set_other _ _ hne]; exact p2
    · rename_i hk
      split at h; · cases h
      rename_i hlen
      rw [if_neg hlen]
      injection h with h
      refine ⟨h.symm, hw', ho, hd, fun hne => ?_⟩
      obtain ⟨p1, p2⟩ := post hne
      refine ⟨?_, ?_⟩
      · show (s1.w.set tgt _) tgt = _
        rw [set_same, p1]
        simp [AcctType.W, List.drop_replicate, hk]
      · show ((s1.w.set tgt _) f.key).lamports + _ = _
        rw [set_other _ _ hne]; exact p2
  · cases h
  · cases h


theorem initAccount_ok_true {env : Env} {ty : AcctType} {ifn : Bool} {tgt : Key} {f : Funder}
    {a : Option (List (List Nat))} {enc : List Nat} {s : St}
    (h : (initAccount env ty ifn tgt f a enc s).1 = .ok true) :
    initAccount env ty ifn tgt f a enc s = initGo env ty tgt f a enc s := by
  unfold initAccount at h ⊢
  split
  · rename_i hi
    rw [if_pos hi] at h
    split
    · rfl
    · rename_i ho
      rw [if_neg ho] at h
      split
      · rename_i hl; rw [if_pos hl] at h; cases h
      · rename_i hl
        rw [if_neg hl] at h
        split
        · rfl
        · rename_i hz; rw [if_neg hz] at h; cases h
  · rfl

theorem initAccount_ok_false {env : Env} {ty : AcctType} {ifn : Bool} {tgt : Key} {f : Funder}
    {a : Option (List (List Nat))} {enc : List Nat} {s : St}
    (h : (initAccount env ty ifn tgt f a enc s).1 = .ok false) :
    ifn = true ∧ initAccount env ty ifn tgt f a enc s = (.ok false, s) ∧
    (s.w tgt).owner ≠ systemId ∧ ty.W ≤ (s.w tgt).data.length ∧
    allZero ((s.w tgt).data.take ty.W) = false := by
  unfold initAccount at h ⊢
  split
  · rename_i hi
    rw [if_pos hi] at h
    split
    · rename_i ho; rw [if_pos ho] at h; exact absurd h (initGo_not_false _ _ _ _ _ _ _)
    · rename_i ho
      rw [if_neg ho] at h
      split
      · rename_i hl; rw [if_pos hl] at h; cases h
      · rename_i hl
        rw [if_neg hl] at h
        split
        · rename_i hz; rw [if_pos hz] at h; exact absurd h (initGo_not_false _ _ _ _ _ _ _)
        · rename_i hz
          exact ⟨hi, rfl, ho, by omega, by simpa using hz⟩
  · rename_i hi
    rw [if_neg hi] at h
    exact absurd h (initGo_not_false _ _ _ _ _ _ _)

/-- The shape of `initValidate`: an early exit that leaves the state alone and is not `ok`, or the
run of `initAccount` with the resolved funder and the account seeds, followed by the checks of the
wrapped field. -/
theorem initValidate_shape (env : Env) (ty : AcctType) (ifn : Bool) (tgt : Target) (fa : FunderArg)
    (enc : List Nat) (s : St) :
    ((initValidate env ty ifn tgt fa enc s).2 = s ∧ ∀ b, (initValidate env ty ifn tgt fa enc s).1 ≠ .ok b) ∨
    ∃ a f, initSeeds env tgt = .ok a ∧ fa.resolve = some f ∧
      (initValidate env ty ifn tgt fa enc s).2 = (initAccount env ty ifn tgt.key f a enc s).2 ∧
      ∀ b, (initValidate env ty ifn tgt fa enc s).1 = .ok b →
        (initAccount env ty ifn tgt.key f a enc s).1 = .ok b ∧
        validateAccountInfo env ty ((initAccount env ty ifn tgt.key f a enc s).2.w tgt.key) = .ok () ∧
        ∀ k, tgt = .signer k → env.isSigner k = true := by
  unfold initValidate
  split
  · left; exact ⟨rfl, by simp⟩
  · left; exact ⟨rfl, by simp⟩
  · rename_i a ha
    split
    · left; exact ⟨rfl, by simp⟩
    · rename_i f hf
      right
      refine ⟨a, f, ha, hf, ?_⟩
      split
      · rename_i needed s1 he
        rw [he]
        split
        · exact ⟨rfl, by simp⟩
        · rename_i hv
          split
          · rename_i k
            split
            · rename_i hs
              exact ⟨rfl, fun b hb => ⟨by simpa using hb, hv, fun k' hk' => by cases hk'; exact hs⟩⟩
            · exact ⟨rfl, by simp⟩
          · exact ⟨rfl, fun b hb => ⟨by simpa using hb, hv, fun k' hk' => by cases hk'⟩⟩
      · rename_i hno
        refine ⟨rfl, fun b hb => ?_⟩
        exact (hno b _ (Prod.ext hb rfl)).elim


/-- A successful `systemCreateAccount` issued at least one CPI. -/
theorem systemCreateAccount_ok_len {env : Env} {f : Funder} {tgt owner : Key} {space : Nat}
    {a : Option (List (List Nat))} {s : St}
    (h : (systemCreateAccount env f tgt owner space a s).1 = .ok ()) :
    s.log.length < (systemCreateAccount env f tgt owner space a s).2.log.length := by
  unfold systemCreateAccount at h ⊢
  simp only [] at h ⊢
  split at h
  · rename_i hcur
    rw [if_pos hcur, invoke_log]; simp
  · rename_i hcur
    rw [if_neg hcur]
    split at h
    · rename_i s1 hr1
      have hs1 : s.log.length ≤ s1.log.length := by
        split at hr1
        · have : (fundRent env f tgt (max (env.rentMin space) 1 - (s.w tgt).lamports) s).2 = s1 := by rw [hr1]
          unfold fundRent at this
          rw [← this, invoke_log]; simp
        · injection hr1 with _ e; subst e; exact Nat.le_refl _
      split at h
      · rename_i s2 hr2
        have : (invoke env { ix := .allocate tgt space, seeds := a.toList } s1).2 = s2 := by rw [hr2]
        have hl2 : s2.log.length = s1.log.length + 1 := by rw [← this, invoke_log]; simp
        rw [invoke_log]; simp; omega
      · rw [invoke_log]; simp; omega
    · rename_i hr1
      exact (hr1 _ (Prod.ext h rfl)).elim

/-- A successful `initGo` issued at least one CPI. -/
theorem initGo_ok_len {env : Env} {ty : AcctType} {tgt : Key} {f : Funder}
    {a : Option (List (List Nat))} {enc : List Nat} {s : St} {b : Bool}
    (h : (initGo env ty tgt f a enc s).1 = .ok b) :
    s.log.length < (initGo env ty tgt f a enc s).2.log.length := by
  unfold initGo at h ⊢
  split at h; · cases h
  rename_i hw
  rw [if_neg hw]
  split at h
  · rename_i s1 he
    have hok : (systemCreateAccount env f tgt env.program (ty.W + enc.length) a s).1 = .ok () := by rw [he]
    have hs1 : (systemCreateAccount env f tgt env.program (ty.W + enc.length) a s).2 = s1 := by rw [he]
    have hlen := systemCreateAccount_ok_len hok
    rw [hs1] at hlen
    split at h
    · split at h; · cases h
      rename_i hl; rw [if_neg hl]; exact hlen
    · split at h; · cases h
      rename_i hl; rw [if_neg hl]; exact hlen
  · cases h
  · cases h


/-- What the created account's data looks like right after validation. -/
def createdData (ty : AcctType) (enc : List Nat) : List Nat :=
  match ty.kind with
  | .zc => ty.disc ++ enc
  | .borsh => ty.disc ++ List.replicate enc.length 0

theorem createdData_length (ty : AcctType) (enc : List Nat) :
    (createdData ty enc).length = ty.W + enc.length := by
  unfold createdData AcctType.W; cases ty.kind <;> simp

theorem createdData_take (ty : AcctType) (enc : List Nat) :
    (createdData ty enc).take ty.W = ty.disc := by
  unfold createdData AcctType.W; cases ty.kind <;> simp

/-- `serialize()` of the cached initial value over a freshly created account writes the value
after the discriminant. -/
theorem serialize_created (env : Env) (ty : AcctType) (k : Key) (enc : List Nat) (w : World)
    (hw : env.isWritable k = true) (ho : (w k).owner = env.program)
    (hd : (w k).data = createdData ty enc) :
    (serializeBorsh env ty k (some enc) w k).data = ty.disc ++ enc := by
  unfold serializeBorsh
  simp only []
  by_cases hc : env.isWritable k = true ∧ (w k).data.length > ty.W ∧ (w k).owner = env.program
  · rw [if_pos hc, set_same]
    show (w k).data.take ty.W ++ enc = _
    rw [hd, createdData_take]
  · rw [if_neg hc, hd]
    have hl : ¬ ((w k).data.length > ty.W) := fun hgt => hc ⟨hw, hgt, ho⟩
    rw [hd, createdData_length] at hl
    have he : enc = [] := List.eq_nil_of_length_eq_zero (by omega)
    subst he
    unfold createdData; cases ty.kind <;> simp


/-- `serialize()` of exactly what decode read is the identity on the world. -/
theorem serialize_decoded_identity (env : Env) (ty : AcctType) (k : Key) (w : World) :
    serializeBorsh env ty k (some ((w k).data.drop ty.W)) w = w := by
  unfold serializeBorsh
  simp only []
  split
  · funext k'
    by_cases hk : k' = k
    · subst hk; simp [List.take_append_drop]
    · rw [set_other _ _ hk]
  · rfl

/-- On an initialized target (not System-owned, or carrying data) `system_create_account` never
changes the target's owner or data, whatever it returns (a shortfall transfer may have happened). -/
theorem systemCreateAccount_initialized_keeps (env : Env) (f : Funder) (tgt owner : Key) (space : Nat)
    (a : Option (List (List Nat))) (s : St)
    (hinit : (s.w tgt).owner ≠ systemId ∨ (s.w tgt).data ≠ []) :
    ((systemCreateAccount env f tgt owner space a s).2.w tgt).owner = (s.w tgt).owner ∧
    ((systemCreateAccount env f tgt owner space a s).2.w tgt).data = (s.w tgt).data := by
  have notalloc : ∀ (s1 : St) (c : Cpi), c.ix = .allocate tgt space →
      (s1.w tgt).owner = (s.w tgt).owner → (s1.w tgt).data = (s.w tgt).data →
      (invoke env c s1).1 ≠ .ok () ∧ (invoke env c s1).2.w = s1.w := by
    intro s1 c hc ho hd
    rcases invoke_world env c s1 with h | ⟨h1, h2⟩
    · exact h
    · rw [hc] at h2
      simp only [sys] at h2
      obtain ⟨-, hd', ho', -⟩ := allocate_ok h2
      rcases hinit with h | h
      · exact absurd (ho ▸ ho') h
      · exact absurd (hd ▸ hd') h
  unfold systemCreateAccount
  simp only []
  split
  · rcases invoke_world env ⟨.createAccount f.key tgt (env.rentMin space) space owner, f.seeds.toList ++ a.toList⟩ s with ⟨_, hw⟩ | ⟨_, h2⟩
    · rw [hw]; exact ⟨rfl, rfl⟩
    · simp only [sys, createAccount] at h2
      split at h2; · cases h2
      split at h2; · cases h2
      rename_i w1 h1
      obtain ⟨-, hd', ho', -⟩ := allocate_ok h1
      rcases hinit with h | h
      · exact absurd ho' h
      · exact absurd hd' h
  · have h1 : ∀ r1 : Res Unit × St,
        r1 = (if max (env.rentMin space) 1 - (s.w tgt).lamports > 0 then
          fundRent env f tgt (max (env.rentMin space) 1 - (s.w tgt).lamports) s else (Res.ok (), s)) →
        (r1.2.w tgt).owner = (s.w tgt).owner ∧ (r1.2.w tgt).data = (s.w tgt).data := by
      intro r1 hr
      rw [hr]
      split
      · unfold fundRent
        rcases invoke_world env ⟨.transfer f.key tgt (max (env.rentMin space) 1 - (s.w tgt).lamports), f.seeds.toList⟩ s with ⟨_, hw⟩ | ⟨_, h2⟩
        · rw [hw]; exact ⟨rfl, rfl⟩
        · simp only [sys] at h2
          obtain ⟨e, -, -, -⟩ := transfer_ok h2
          rw [e, move_owner, move_data]; exact ⟨rfl, rfl⟩
      · exact ⟨rfl, rfl⟩
    generalize hr1 : (if max (env.rentMin space) 1 - (s.w tgt).lamports > 0 then
          fundRent env f tgt (max (env.rentMin space) 1 - (s.w tgt).lamports) s else (Res.ok (), s)) = r1
    have k1 := h1 r1 hr1.symm
    split
    · rename_i s1
      simp only [] at k1
      obtain ⟨hno, hw⟩ := notalloc s1 { ix := .allocate tgt space, seeds := a.toList } rfl k1.1 k1.2
      split
      · rename_i s2 he
        exact absurd (by rw [he]) hno
      · rw [hw]; exact k1
    · exact k1

/-- A failed (or any) `Create` on an initialized target leaves the target's owner and data alone. -/
theorem initValidate_initialized_keeps (env : Env) (ty : AcctType) (tgt : Target) (fa : FunderArg)
    (enc : List Nat) (s : St)
    (hinit : (s.w tgt.key).owner ≠ systemId ∨ (s.w tgt.key).data ≠ []) :
    ((initValidate env ty false tgt fa enc s).2.w tgt.key).owner = (s.w tgt.key).owner ∧
    ((initValidate env ty false tgt fa enc s).2.w tgt.key).data = (s.w tgt.key).data := by
  rcases initValidate_shape env ty false tgt fa enc s with ⟨hs, _⟩ | ⟨a, f, -, -, hst, -⟩
  · rw [hs]; exact ⟨rfl, rfl⟩
  · rw [hst]
    have hgo : initAccount env ty false tgt.key f a enc s = initGo env ty tgt.key f a enc s := by
      simp [initAccount]
    rw [hgo]
    unfold initGo
    split
    · exact ⟨rfl, rfl⟩
    · have hk := systemCreateAccount_initialized_keeps env f tgt.key env.program (ty.W + enc.length) a s hinit
      split
      · rename_i s1 he
        have hok : (systemCreateAccount env f tgt.key env.program (ty.W + enc.length) a s).1 = .ok () := by rw [he]
        obtain ⟨ho, hd⟩ := systemCreateAccount_ok_pre hok
        rcases hinit with h | h
        · exact absurd ho h
        · exact absurd hd h
      · rename_i e s1 he; rw [he] at hk; exact hk
      · rename_i s1 he; rw [he] at hk; exact hk

end Account.Init
