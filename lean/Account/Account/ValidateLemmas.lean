import Account.Validate
import Account.ModifiersLemmas
/-! Helper lemmas for C08 (model: `Account/Validate.lean`). -/
namespace Account.Validate
open Common
open Account.Modifiers (fastEq32 Key32 fastEq32_iff fastEq32_false_iff)

theorem take_length_of_le {l : List Nat} {n : Nat} (h : n ≤ l.length) : (l.take n).length = n := by
  simp [List.length_take]; omega

/-- The width-specialised comparison is plain equality of the first `W` bytes — for EVERY width:
the integer fast paths by injectivity of the little-endian read, the rest by slice equality. -/
theorem discMatches_iff {disc data : List Nat} (hd : BytesWF disc) (hdata : BytesWF data)
    (hlen : disc.length ≤ data.length) :
    discMatches disc data = true ↔ data.take disc.length = disc := by
  unfold discMatches
  have hl : (data.take disc.length).length = disc.length := take_length_of_le hlen
  by_cases hw : disc.length = 1 ∨ disc.length = 2 ∨ disc.length = 4 ∨ disc.length = 8
  · simp only [hw, if_true, beq_iff_eq]
    exact rdLE_eq_iff hl (BytesWF_take _ hdata) hd
  · simp only [hw, if_false, beq_iff_eq]

theorem validateDisc_ok_iff {t : PType} {a : Acct} (ht : TypeWF t) (ha : AcctWF a)
    (hb : a.borrow.canRead = true ∨ t.W = 0) :
    validateDisc t a = .ok () ↔ (a.data.take t.W = t.disc ∧ t.W ≤ a.data.length) := by
  unfold validateDisc
  by_cases h0 : t.W = 0
  · have : t.disc = [] := List.length_eq_zero_iff.mp h0
    simp [h0, this]
  · have hb' : a.borrow.canRead = true := by rcases hb with h | h; exact h; exact absurd h h0
    simp only [h0, if_false]
    by_cases hlt : a.data.length < t.W
    · simp only [hlt, if_true]
      constructor
      · intro h; cases h
      · rintro ⟨_, h⟩; omega
    · simp only [hlt, if_false, hb', Bool.not_true]
      have hle : t.disc.length ≤ a.data.length := by unfold PType.W at hlt; omega
      have := discMatches_iff ht.2 ha.2 hle
      cases hm : discMatches t.disc a.data with
      | true =>
        simp only [Bool.false_eq_true, if_false, if_true, true_iff]
        exact ⟨this.mp hm, hle⟩
      | false =>
        simp only [Bool.false_eq_true, if_false]
        constructor
        · intro h; cases h
        · rintro ⟨h, _⟩
          have := this.mpr h
          simp [hm] at this

/-- Exhaustive case analysis of `validate_account_info` with the code's error precedence. -/
theorem validate_cases {t : PType} {a : Acct} (ht : TypeWF t) (ha : AcctWF a) :
    (validateAccountInfo t a = .ok () ∧ Admit t a ∧ (a.borrow.canRead = true ∨ t.W = 0)) ∨
    (validateAccountInfo t a = .error .accountDataTooSmall ∧ 0 < t.W ∧ a.data.length < t.W) ∨
    (validateAccountInfo t a = .error .accountBorrowFailed ∧ 0 < t.W ∧ t.W ≤ a.data.length ∧
        a.borrow.canRead = false) ∨
    (validateAccountInfo t a = .error .discriminantMismatch ∧ 0 < t.W ∧ t.W ≤ a.data.length ∧
        a.borrow.canRead = true ∧ a.data.take t.W ≠ t.disc) ∨
    (validateAccountInfo t a = .error .invalidAccountOwner ∧
        (a.data.take t.W = t.disc ∧ t.W ≤ a.data.length) ∧ (a.borrow.canRead = true ∨ t.W = 0) ∧
        a.owner ≠ t.progId) := by
  have howner := fastEq32_iff ha.1 ht.1
  by_cases h0 : t.W = 0
  · have hd : validateDisc t a = .ok () := by simp [validateDisc, h0]
    have hpre := (validateDisc_ok_iff ht ha (Or.inr h0)).mp hd
    cases hf : fastEq32 a.owner t.progId with
    | true =>
      left
      exact ⟨by simp [validateAccountInfo, hd, hf], ⟨howner.mp hf, hpre.1, hpre.2⟩, Or.inr h0⟩
    | false =>
      right; right; right; right
      refine ⟨by simp [validateAccountInfo, hd, hf], hpre, Or.inr h0, ?_⟩
      intro e; rw [howner.mpr e] at hf; cases hf
  · have hpos : 0 < t.W := Nat.pos_of_ne_zero h0
    by_cases hlt : a.data.length < t.W
    · right; left
      exact ⟨by simp [validateAccountInfo, validateDisc, h0, hlt], hpos, hlt⟩
    · have hle : t.W ≤ a.data.length := by omega
      cases hb : a.borrow.canRead with
      | false =>
        right; right; left
        exact ⟨by simp [validateAccountInfo, validateDisc, h0, hlt, hb], hpos, hle, rfl⟩
      | true =>
        have hiff := validateDisc_ok_iff ht ha (Or.inl hb)
        by_cases hm : a.data.take t.W = t.disc
        · have hd : validateDisc t a = .ok () := hiff.mpr ⟨hm, hle⟩
          cases hf : fastEq32 a.owner t.progId with
          | true =>
            left
            exact ⟨by simp [validateAccountInfo, hd, hf], ⟨howner.mp hf, hm, hle⟩, Or.inl rfl⟩
          | false =>
            right; right; right; right
            refine ⟨by simp [validateAccountInfo, hd, hf], ⟨hm, hle⟩, Or.inl rfl, ?_⟩
            intro e; rw [howner.mpr e] at hf; cases hf
        · right; right; right; left
          have hdm : discMatches t.disc a.data = false := by
            have := discMatches_iff ht.2 ha.2 (by unfold PType.W at hle; exact hle)
            cases h : discMatches t.disc a.data with
            | false => rfl
            | true => exact absurd (this.mp h) hm
          exact ⟨by simp [validateAccountInfo, validateDisc, h0, hlt, hb, hdm], hpos, hle, rfl, hm⟩

theorem validate_ok_admit {t : PType} {a : Acct} (ht : TypeWF t) (ha : AcctWF a)
    (h : validateAccountInfo t a = .ok ()) : Admit t a := by
  rcases validate_cases ht ha with h1 | h1 | h1 | h1 | h1
  · exact h1.2.1
  all_goals (rw [h1.1] at h; cases h)

theorem resize_length {a a' : Acct} {n : Nat} (h : resize a n = .ok a') : a'.data.length = n := by
  unfold resize at h
  split at h
  · cases h
  · split at h
    · cases h; omega
    · split at h
      · cases h
      · cases h; simp [List.length_take]; omega

theorem resize_frame {a a' : Acct} {n : Nat} (h : resize a n = .ok a') :
    a'.owner = a.owner ∧ a'.writable = a.writable ∧ a'.borrow = a.borrow ∧ a'.orig = a.orig ∧
    a.borrow.canWrite = true := by
  unfold resize at h
  split at h
  · cases h
  · rename_i hb
    have hb : a.borrow.canWrite = true := by simpa using hb
    split at h
    · cases h; simp [hb]
    · split at h
      · cases h
      · cases h; simp [hb]

theorem canWrite_canRead {b : Borrow} (h : b.canWrite = true) : b.canRead = true := by
  obtain ⟨e, s⟩ := b
  simp only [Borrow.canWrite, Bool.and_eq_true, Bool.not_eq_true', decide_eq_true_eq] at h
  simp only [Borrow.canRead, Bool.and_eq_true, Bool.not_eq_true', decide_eq_true_eq]
  exact ⟨h.1, by have := h.2; omega⟩

/-- Admission implies acceptance, without any well-formedness side condition. -/
theorem validate_ok_of_admit {t : PType} {a : Acct} (h : Admit t a)
    (hb : a.borrow.canRead = true ∨ t.W = 0) : validateAccountInfo t a = .ok () := by
  have hd : validateDisc t a = .ok () := by
    unfold validateDisc
    by_cases h0 : t.W = 0
    · simp [h0]
    · have hb' : a.borrow.canRead = true := by rcases hb with h | h; exact h; exact absurd h h0
      have hlt : ¬ a.data.length < t.W := by have := h.2.2; omega
      have hm : discMatches t.disc a.data = true := by
        unfold discMatches
        have e : a.data.take t.disc.length = t.disc := h.2.1
        simp only [e]
        split <;> simp
      simp [h0, hlt, hb', hm]
  have ho : fastEq32 a.owner t.progId = true := by rw [h.1]; simp [fastEq32]
  simp [validateAccountInfo, hd, ho]

theorem resize_take {a a' : Acct} {n k : Nat} (h : resize a n = .ok a') (hk : k ≤ n)
    (hk2 : k ≤ a.data.length) : a'.data.take k = a.data.take k := by
  unfold resize at h
  split at h
  · cases h
  · split at h
    · cases h; rfl
    · split at h
      · cases h
      · cases h
        simp only
        rw [List.take_append_of_le_length (by simp [List.length_take]; omega), List.take_take]
        congr 1; omega

end Account.Validate
