import Account.Lifecycle
import Account.OrderLemmas
/-!
# C11 — lemmas about `dispatch`, `walk` and `run`
-/
namespace Account.C11

/-! ## matchArm -/

theorem matchArm_some {arms : List (List Nat × Nat)} {key : List Nat} {h : Nat}
    (hm : matchArm arms key = some h) : (key, h) ∈ arms := by
  unfold matchArm at hm
  cases hf : arms.find? (fun a => a.1 == key) with
  | none => simp [hf] at hm
  | some a =>
    simp [hf] at hm
    have h1 := List.find?_some hf
    have h2 := List.mem_of_find?_eq_some hf
    simp at h1
    subst hm; subst h1
    exact h2

theorem matchArm_none {arms : List (List Nat × Nat)} {key : List Nat}
    (hm : matchArm arms key = none) : ∀ a ∈ arms, a.1 ≠ key := by
  unfold matchArm at hm
  simp only [Option.map_eq_none_iff, List.find?_eq_none, beq_iff_eq] at hm
  exact hm

theorem matchArm_of_mem : ∀ {arms : List (List Nat × Nat)} {key : List Nat} {h : Nat},
    (arms.map (·.1)).Nodup → (key, h) ∈ arms → matchArm arms key = some h
  | [], _, _, _, hm => by simp at hm
  | a :: rest, key, h, hnd, hm => by
    simp only [List.map_cons, List.nodup_cons] at hnd
    rcases List.mem_cons.mp hm with rfl | hr
    · simp [matchArm]
    · have hne : a.1 ≠ key := by
        intro heq
        apply hnd.1
        rw [heq]
        exact List.mem_map.mpr ⟨(key, h), hr, rfl⟩
      have ih := matchArm_of_mem hnd.2 hr
      have hb : (a.1 == key) = false := by simp [hne]
      unfold matchArm at ih ⊢
      simp only [List.find?_cons, hb]
      exact ih

/-! ## walk -/

theorem walk_all_none : ∀ (steps : List (Event × Option Err)) (tr : Trace),
    (∀ s ∈ steps, s.2 = none) → walk steps tr = (tr ++ steps.map (·.1), .ok)
  | [], tr, _ => by simp [walk]
  | (e, none) :: rest, tr, h => by
    simp only [walk]
    rw [walk_all_none rest _ (fun s hs => h s (List.mem_cons_of_mem _ hs))]
    simp
  | (e, some er) :: rest, tr, h => by
    have := h (e, some er) (by simp)
    simp at this

theorem walk_first_failure : ∀ (pre : List (Event × Option Err)) (e : Event) (er : Err)
    (post : List (Event × Option Err)) (tr : Trace), (∀ s ∈ pre, s.2 = none) →
    walk (pre ++ (e, some er) :: post) tr = (tr ++ pre.map (·.1) ++ [e], .err (toProgramError er))
  | [], e, er, post, tr, _ => by simp [walk]
  | (x, none) :: pre, e, er, post, tr, h => by
    simp only [List.cons_append, walk]
    rw [walk_first_failure pre e er post _ (fun s hs => h s (List.mem_cons_of_mem _ hs))]
    simp
  | (x, some er') :: pre, e, er, post, tr, h => by
    have := h (x, some er') (by simp)
    simp at this

/-- Every list of steps either has no failing step or splits at its first failing step. -/
theorem steps_cases : ∀ (steps : List (Event × Option Err)),
    (∀ s ∈ steps, s.2 = none) ∨
    ∃ pre e er post, steps = pre ++ (e, some er) :: post ∧ ∀ s ∈ pre, s.2 = none
  | [] => Or.inl (by simp)
  | (x, some er) :: rest => Or.inr ⟨[], x, er, rest, by simp, by simp⟩
  | (x, none) :: rest => by
    rcases steps_cases rest with h | ⟨pre, e, er, post, h1, h2⟩
    · left
      intro s hs
      rcases List.mem_cons.mp hs with rfl | hs
      · rfl
      · exact h s hs
    · right
      refine ⟨(x, none) :: pre, e, er, post, by simp [h1], ?_⟩
      intro s hs
      rcases List.mem_cons.mp hs with rfl | hs
      · rfl
      · exact h2 s hs

/-! ## run = walk over the expected steps -/

/-- the steps of one per-field loop, `k` steps already taken -/
def loopSteps (ph : Phase) (fail : Nat → Nat → Option Err) : Nat → List Nat → List (Event × Option Err)
  | _, [] => []
  | k, f :: fs => (⟨ph, f, []⟩, fail k f) :: loopSteps ph fail (k + 1) fs

theorem fieldLoop_walk (ph : Phase) (fail : Nat → Nat → Option Err) :
    ∀ (fs : List Nat) (k : Nat) (tr : Trace) (rest : List (Event × Option Err)),
    walk (loopSteps ph fail k fs ++ rest) tr =
      match fieldLoop ph fail k fs tr with
      | (tr', some e) => (tr', .err (toProgramError e))
      | (tr', none) => walk rest tr'
  | [], k, tr, rest => by simp [loopSteps, fieldLoop]
  | f :: fs, k, tr, rest => by
    simp only [loopSteps, List.cons_append, fieldLoop]
    cases hf : fail k f with
    | none =>
      simp only [walk]
      exact fieldLoop_walk ph fail fs (k + 1) _ rest
    | some e => simp [walk]

/-- All steps of an instruction with the failure attached to each. -/
def steps (ix : Ix) (plan : FaultPlan) (data : List Nat) (naccts : Nat) : List (Event × Option Err) :=
  (⟨.args, ix.id, []⟩, argsFail ix plan data)
  :: (loopSteps .decode (decodeFail plan naccts) 0 (names ix.fields)
  ++ (loopSteps .validate (fun _ f => planned plan .validate f) 0 (order ix.fields)
  ++ ((⟨.process, ix.id, data.take ix.alen⟩, planned plan .process ix.id)
  :: (loopSteps .cleanup (fun _ f => planned plan .cleanup f) 0 (names ix.fields) ++ []))))

theorem run_eq_walk (ix : Ix) (plan : FaultPlan) (data : List Nat) (naccts : Nat) :
    run ix plan data naccts = walk (steps ix plan data naccts) [] := by
  unfold run steps
  cases ha : argsFail ix plan data with
  | some e => simp [walk]
  | none =>
    simp only [walk, List.nil_append]
    rw [fieldLoop_walk]
    cases hd : fieldLoop .decode (decodeFail plan naccts) 0 (names ix.fields)
        [⟨.args, ix.id, []⟩] with
    | mk tr1 r1 =>
      cases r1 with
      | some e => simp
      | none =>
        simp only
        rw [fieldLoop_walk]
        cases hv : fieldLoop .validate (fun _ f => planned plan .validate f) 0 (order ix.fields) tr1 with
        | mk tr2 r2 =>
          cases r2 with
          | some e => simp
          | none =>
            simp only
            cases hp : planned plan .process ix.id with
            | some e => simp [walk]
            | none =>
              simp only [walk]
              rw [fieldLoop_walk]
              cases hc : fieldLoop .cleanup (fun _ f => planned plan .cleanup f) 0 (names ix.fields)
                  (tr2 ++ [⟨.process, ix.id, data.take ix.alen⟩]) with
              | mk tr3 r3 =>
                cases r3 with
                | some e => simp
                | none => simp [walk]

theorem loopSteps_events (ph : Phase) (fail : Nat → Nat → Option Err) :
    ∀ (fs : List Nat) (k : Nat), (loopSteps ph fail k fs).map (·.1) = fs.map (fun f => ⟨ph, f, []⟩)
  | [], _ => by simp [loopSteps]
  | f :: fs, k => by simp [loopSteps, loopSteps_events ph fail fs (k + 1)]

theorem loopSteps_failures (ph : Phase) (fail : Nat → Nat → Option Err) :
    ∀ (fs : List Nat) (k : Nat),
    (loopSteps ph fail k fs).map (·.2) = (fs.zipIdx k).map (fun (f, i) => fail i f)
  | [], _ => by simp [loopSteps]
  | f :: fs, k => by simp [loopSteps, loopSteps_failures ph fail fs (k + 1)]

theorem steps_events (ix : Ix) (plan : FaultPlan) (data : List Nat) (naccts : Nat) :
    (steps ix plan data naccts).map (·.1) = expected ix data := by
  simp [steps, expected, loopSteps_events]

theorem zipIdx_map_const {α β : Type} (g : α → β) : ∀ (l : List α) (k : Nat),
    (l.zipIdx k).map (fun (f, _) => g f) = l.map g
  | [], _ => by simp
  | x :: xs, k => by simp [zipIdx_map_const g xs (k + 1)]

theorem steps_failures (ix : Ix) (plan : FaultPlan) (data : List Nat) (naccts : Nat) :
    (steps ix plan data naccts).map (·.2) = failures ix plan data naccts := by
  simp only [steps, failures, List.map_cons, List.map_append, loopSteps_failures,
    List.append_nil]
  rw [zipIdx_map_const (fun f => planned plan .validate f),
    zipIdx_map_const (fun f => planned plan .cleanup f)]
  simp

theorem steps_eq_zip (ix : Ix) (plan : FaultPlan) (data : List Nat) (naccts : Nat) :
    steps ix plan data naccts = (expected ix data).zip (failures ix plan data naccts) := by
  exact List.zip_of_prod (steps_events ix plan data naccts) (steps_failures ix plan data naccts)

/-! ## each step at most once -/

theorem nodup_map_event (ph : Phase) {l : List Nat} (h : l.Nodup) :
    (l.map (fun f => (⟨ph, f, []⟩ : Event))).Nodup := by
  unfold List.Nodup at h ⊢
  rw [List.pairwise_map]
  exact h.imp (fun hne heq => hne (by injection heq))

theorem order_nodup {fs : List Field} (h : (names fs).Nodup) : (order fs).Nodup :=
  (orderLoop_perm fs.length fs (Nat.le_refl _)).nodup_iff.mpr h

theorem expected_nodup (ix : Ix) (data : List Nat) (h : (names ix.fields).Nodup) :
    (expected ix data).Nodup := by
  unfold expected
  have h1 := nodup_map_event .decode h
  have h2 := nodup_map_event .validate (order_nodup h)
  have h3 := nodup_map_event .cleanup h
  simp only [List.nodup_append, List.nodup_cons, List.mem_append, List.mem_map, List.mem_cons,
    List.not_mem_nil, List.nodup_nil, not_false_eq_true, true_and, and_true, or_false]
  refine ⟨⟨⟨⟨h1, ?_⟩, h2, ?_⟩, ?_⟩, h3, ?_⟩
  · intro a ha b hb
    obtain ⟨f, _, rfl⟩ := hb
    subst ha; intro h; injection h with hp; cases hp
  · rintro a (ha | ⟨f, _, rfl⟩) b ⟨g, _, rfl⟩
    · subst ha; intro h; injection h with hp; cases hp
    · intro h; injection h with hp; cases hp
  · rintro a ((ha | ⟨f, _, rfl⟩) | ⟨f, _, rfl⟩) b rfl
    · subst ha; intro h; injection h with hp; cases hp
    · intro h; injection h with hp; cases hp
    · intro h; injection h with hp; cases hp
  · rintro a (((ha | ⟨f, _, rfl⟩) | ⟨f, _, rfl⟩) | ha) b ⟨g, _, rfl⟩
    · subst ha; intro h; injection h with hp; cases hp
    · intro h; injection h with hp; cases hp
    · intro h; injection h with hp; cases hp
    · subst ha; intro h; injection h with hp; cases hp

end Account.C11

namespace Account.C11

/-! ## what `walk` returns, in terms of the event list and the failure list -/

theorem walk_spec (steps : List (Event × Option Err)) :
    (walk steps []).1 <+: steps.map (·.1) ∧
    ((walk steps []).2 = .ok →
      (walk steps []).1 = steps.map (·.1) ∧ ∀ o ∈ steps.map (·.2), o = none) ∧
    (∀ c, (walk steps []).2 = .err c → ∃ i er,
      (steps.map (·.2))[i]? = some (some er) ∧
      (∀ j, j < i → (steps.map (·.2))[j]? = some none) ∧
      (walk steps []).1 = (steps.map (·.1)).take (i + 1) ∧ c = toProgramError er) := by
  rcases steps_cases steps with hall | ⟨pre, e, er, post, hsplit, hpre⟩
  · rw [walk_all_none steps [] hall]
    refine ⟨by simp, ?_, ?_⟩
    · intro _
      refine ⟨by simp, ?_⟩
      intro o ho
      obtain ⟨s, hs, rfl⟩ := List.mem_map.mp ho
      exact hall s hs
    · intro c hc; simp at hc
  · subst hsplit
    rw [walk_first_failure pre e er post [] hpre]
    have hlen : (pre.map (·.2)).length = pre.length := by simp
    refine ⟨?_, ?_, ?_⟩
    · simp only [List.nil_append, List.map_append, List.map_cons]
      exact ⟨post.map (·.1), by simp⟩
    · intro h; simp at h
    · intro c hc
      simp only [Result.err.injEq] at hc
      refine ⟨pre.length, er, ?_, ?_, ?_, hc.symm⟩
      · simp only [List.map_append, List.map_cons]
        rw [List.getElem?_append_right (by simp)]
        simp
      · intro j hj
        simp only [List.map_append, List.map_cons]
        rw [List.getElem?_append_left (by simpa using hj)]
        rw [List.getElem?_map]
        have : j < pre.length := hj
        rw [List.getElem?_eq_getElem this]
        simp only [Option.map_some, Option.some.injEq]
        exact hpre _ (List.getElem_mem this)
      · simp only [List.nil_append, List.map_append, List.map_cons]
        have : (List.map (·.1) pre ++ e :: List.map (·.1) post)
            = (List.map (·.1) pre ++ [e]) ++ List.map (·.1) post := by simp
        rw [this, List.take_left' (by simp)]

/-- Forward direction: the first failing position determines the whole outcome. -/
theorem walk_first (steps : List (Event × Option Err)) (i : Nat) (er : Err)
    (hi : (steps.map (·.2))[i]? = some (some er))
    (hpre : ∀ j, j < i → (steps.map (·.2))[j]? = some none) :
    walk steps [] = ((steps.map (·.1)).take (i + 1), .err (toProgramError er)) := by
  have h := walk_spec steps
  cases hres : (walk steps []).2 with
  | ok =>
    have := (h.2.1 hres).2 (some er) (List.mem_of_getElem? hi)
    simp at this
  | err c =>
    obtain ⟨i', er', h1, h2, h3, h4⟩ := h.2.2 c hres
    have hii : i' = i := by
      rcases Nat.lt_trichotomy i' i with hlt | heq | hgt
      · have := hpre i' hlt; rw [h1] at this; simp at this
      · exact heq
      · have := h2 i hgt; rw [hi] at this; simp at this
    subst hii
    rw [hi] at h1
    have : er = er' := by simpa using h1
    subst this
    subst h4
    rw [← h3, ← hres]

/-! ## a per-field loop only appends events of its own phase -/

theorem fieldLoop_phase (ph : Phase) (fail : Nat → Nat → Option Err) :
    ∀ (fs : List Nat) (k : Nat) (tr : Trace) (e : Event),
    e ∈ (fieldLoop ph fail k fs tr).1 → e ∈ tr ∨ e.phase = ph
  | [], k, tr, e, h => by simp [fieldLoop] at h; exact Or.inl h
  | f :: fs, k, tr, e, h => by
    simp only [fieldLoop] at h
    cases hf : fail k f with
    | some er =>
      simp [hf] at h
      rcases h with h | rfl
      · exact Or.inl h
      · exact Or.inr rfl
    | none =>
      simp only [hf] at h
      rcases fieldLoop_phase ph fail fs (k + 1) _ e h with h | h
      · simp at h
        rcases h with h | rfl
        · exact Or.inl h
        · exact Or.inr rfl
      · exact Or.inr h

end Account.C11
